#!/usr/bin/env python3
"""seed_meta.py <seeded-dir-name> <caught_by ';'-separated> [history]
Builds /verif/seeded/<dir>/meta.json from the author's meta.orig.json and the logs of the lead's
own runs (tools/seed_verify.sh, tools/seed_suite.sh). Re-run after seed_suite.sh to add suite.txt."""
import json, os, sys

d = '/verif/seeded/' + sys.argv[1]
orig = {}
try:
    orig = json.load(open(d + '/meta.orig.json'))
except Exception:
    pass
old = {}
try:
    old = json.load(open(d + '/meta.json'))
except Exception:
    pass

def last(p):
    try:
        return open(d + '/' + p, errors='replace').read().strip().splitlines()[-1]
    except Exception:
        return None

def first(p):
    try:
        return open(d + '/' + p).read().strip().splitlines()[0]
    except Exception:
        return None

m = dict(old)
for k in ('property', 'summary', 'needs_to_manifest', 'files_changed'):
    if k in orig and k not in m:
        m[k] = orig[k]
m.setdefault('origin', 'independent sub-agent given only the property text and its own scratch worktree (nothing from /verif)')
c = m.setdefault('confirmed_by_lead', {})
if last('demo_without_change.log'):
    c['demo_without_change'] = last('demo_without_change.log') + ' (pass expected)'
    c['demo_with_change'] = last('demo_with_change.log') + ' (failure expected)'
if 'existing_tests_reported_by_author' not in c and 'tests_run' in orig:
    c['existing_tests_reported_by_author'] = orig['tests_run']
s = first('suite.txt')
if s:
    c['pinned_suite_with_change'] = s + ' [tools/seed_suite.sh: scratch worktree + patch, both modules, compared with BASELINE.json stable_pass]'
if len(sys.argv) > 2 and sys.argv[2]:
    m['caught_by'] = [x.strip() for x in sys.argv[2].split(';') if x.strip()]
if len(sys.argv) > 3 and sys.argv[3]:
    m['history'] = sys.argv[3]
json.dump(m, open(d + '/meta.json', 'w'), indent=1)
print(d + '/meta.json', 'caught_by=', m.get('caught_by'))

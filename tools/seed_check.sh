#!/bin/bash
# seed_check.sh <seeded-dir-name> <CHECK-ID> [tier]  : run one check against a stored seeded defect
S=/verif/seeded/$1; ID=$2; TIER=${3:-quick}
WT=/tmp/seedc-$$
git -C /repo worktree add -q $WT HEAD || exit 2
git -C $WT apply $S/patch.diff || { git -C /repo worktree remove --force $WT; exit 2; }
(cd /verif && VERIF_REPO=$WT timeout 3000 ./check $ID $TIER 2>&1 | grep -v "^KNOWN" | tail -6 | cut -c1-600)
git -C /repo worktree remove --force $WT

module verif/mkoverlay

go 1.23

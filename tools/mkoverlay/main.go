// mkoverlay generates a `go build -overlay` file that injects the verification
// runtime, harness packages and white-box files into /repo at build time and
// replaces selected repository files by import-rewritten copies (only the
// import path of chosen standard packages changes; bodies stay byte identical).
//
// Usage: mkoverlay -repo /repo -verif /verif -profile <name> -out <dir>
//
// Mapping:
//   <verif>/rt/**                  -> <repo>/verifrt/**
//   <verif>/harness/<h>/**         -> <repo>/verifh/<h>/**
//   <verif>/whitebox/<pkg path>/f  -> <repo>/<pkg path>/zz_verif_f
//   profile file <verif>/profiles/<name>.txt, one rule per line:
//       rewrite <repo relative file or dir> <import>=<replacement import> ...
//       rewritemod <abs file> <import>=<replacement import> ...      (module cache files)
//       replace <abs or repo-relative target> <verif-relative source> (whole-file replacement)
//       whitebox <pkg path>            (restrict white-box files to the listed packages; default: all)
//       harness <name>                 (restrict harness packages; default: all)
package main

import (
	"bufio"
	"encoding/json"
	"flag"
	"fmt"
	"go/parser"
	"go/token"
	"os"
	"path/filepath"
	"sort"
	"strconv"
	"strings"
)

type overlay struct {
	Replace map[string]string
}

func die(format string, a ...any) {
	fmt.Fprintf(os.Stderr, "mkoverlay: "+format+"\n", a...)
	os.Exit(2)
}

func walkGo(root string, fn func(path, rel string)) {
	filepath.Walk(root, func(p string, info os.FileInfo, err error) error {
		if err != nil || info.IsDir() {
			return nil
		}
		rel, _ := filepath.Rel(root, p)
		fn(p, rel)
		return nil
	})
}

// rewriteImports returns src with the import paths in m replaced.
func rewriteImports(path string, src []byte, m map[string]string) ([]byte, int) {
	fset := token.NewFileSet()
	f, err := parser.ParseFile(fset, path, src, parser.ImportsOnly)
	if err != nil {
		die("parse %s: %v", path, err)
	}
	type edit struct {
		start, end int
		text       string
	}
	var edits []edit
	for _, imp := range f.Imports {
		p, _ := strconv.Unquote(imp.Path.Value)
		repl, ok := m[p]
		if !ok {
			continue
		}
		start := fset.Position(imp.Pos()).Offset
		end := fset.Position(imp.End()).Offset
		name := ""
		if imp.Name != nil {
			name = imp.Name.Name
		} else {
			name = filepath.Base(p)
		}
		edits = append(edits, edit{start, end, name + " " + strconv.Quote(repl)})
	}
	sort.Slice(edits, func(i, j int) bool { return edits[i].start > edits[j].start })
	out := append([]byte{}, src...)
	for _, e := range edits {
		out = append(out[:e.start], append([]byte(e.text), out[e.end:]...)...)
	}
	return out, len(edits)
}

func main() {
	repo := flag.String("repo", "/repo", "")
	verif := flag.String("verif", "/verif", "")
	profile := flag.String("profile", "base", "")
	out := flag.String("out", "", "output dir (overlay.json + rewritten copies)")
	flag.Parse()
	if *out == "" {
		*out = filepath.Join(*verif, "build", *profile)
	}
	os.RemoveAll(filepath.Join(*out, "rw"))
	if err := os.MkdirAll(filepath.Join(*out, "rw"), 0o755); err != nil {
		die("%v", err)
	}
	ov := overlay{Replace: map[string]string{}}

	wbOnly := map[string]bool{}
	hOnly := map[string]bool{}
	type rule struct {
		target string
		m      map[string]string
		abs    bool
	}
	var rules []rule
	pf := filepath.Join(*verif, "profiles", *profile+".txt")
	if f, err := os.Open(pf); err == nil {
		sc := bufio.NewScanner(f)
		for sc.Scan() {
			line := strings.TrimSpace(sc.Text())
			if line == "" || strings.HasPrefix(line, "#") {
				continue
			}
			fs := strings.Fields(line)
			switch fs[0] {
			case "rewrite", "rewritemod":
				m := map[string]string{}
				for _, kv := range fs[2:] {
					p := strings.SplitN(kv, "=", 2)
					if len(p) != 2 {
						die("bad rule %q", line)
					}
					m[p[0]] = p[1]
				}
				rules = append(rules, rule{fs[1], m, fs[0] == "rewritemod"})
			case "replace":
				tgt := fs[1]
				if !filepath.IsAbs(tgt) {
					tgt = filepath.Join(*repo, tgt)
				}
				src := fs[2]
				if !filepath.IsAbs(src) {
					src = filepath.Join(*verif, src)
				}
				ov.Replace[tgt] = src
			case "whitebox":
				wbOnly[fs[1]] = true
			case "harness":
				hOnly[fs[1]] = true
			default:
				die("unknown rule %q", line)
			}
		}
		f.Close()
	} else if *profile != "base" {
		die("profile %s: %v", pf, err)
	}

	walkGo(filepath.Join(*verif, "rt"), func(p, rel string) {
		if strings.HasSuffix(p, ".go") {
			ov.Replace[filepath.Join(*repo, "verifrt", rel)] = p
		}
	})
	walkGo(filepath.Join(*verif, "harness"), func(p, rel string) {
		if !strings.HasSuffix(p, ".go") {
			return
		}
		h := strings.SplitN(rel, string(filepath.Separator), 2)[0]
		if len(hOnly) > 0 && !hOnly[h] {
			return
		}
		ov.Replace[filepath.Join(*repo, "verifh", rel)] = p
	})
	walkGo(filepath.Join(*verif, "whitebox"), func(p, rel string) {
		if !strings.HasSuffix(p, ".go") {
			return
		}
		dir, file := filepath.Split(rel)
		dir = strings.TrimSuffix(dir, "/")
		if len(wbOnly) > 0 && !wbOnly[dir] {
			return
		}
		ov.Replace[filepath.Join(*repo, dir, "zz_verif_"+file)] = p
	})

	n := 0
	for _, r := range rules {
		tgt := r.target
		if !r.abs {
			tgt = filepath.Join(*repo, r.target)
		}
		st, err := os.Stat(tgt)
		if err != nil {
			die("rewrite target %s: %v", tgt, err)
		}
		var files []string
		if st.IsDir() {
			ents, _ := os.ReadDir(tgt)
			for _, e := range ents {
				if !e.IsDir() && strings.HasSuffix(e.Name(), ".go") && !strings.HasSuffix(e.Name(), "_test.go") {
					files = append(files, filepath.Join(tgt, e.Name()))
				}
			}
		} else {
			files = []string{tgt}
		}
		for _, f := range files {
			srcPath := f
			if prev, ok := ov.Replace[f]; ok {
				srcPath = prev // chain rewrites on an already replaced file
			}
			src, err := os.ReadFile(srcPath)
			if err != nil {
				die("%v", err)
			}
			dst, k := rewriteImports(f, src, r.m)
			if k == 0 {
				continue
			}
			n++
			cp := filepath.Join(*out, "rw", strings.ReplaceAll(strings.TrimPrefix(f, "/"), "/", "__"))
			if err := os.WriteFile(cp, dst, 0o644); err != nil {
				die("%v", err)
			}
			ov.Replace[f] = cp
		}
	}
	b, _ := json.MarshalIndent(ov, "", " ")
	tmp := filepath.Join(*out, fmt.Sprintf("overlay.json.%d", os.Getpid()))
	if err := os.WriteFile(tmp, b, 0o644); err != nil {
		die("%v", err)
	}
	if err := os.Rename(tmp, filepath.Join(*out, "overlay.json")); err != nil {
		die("%v", err)
	}
	fmt.Fprintf(os.Stderr, "mkoverlay: profile=%s files=%d rewritten=%d\n", *profile, len(ov.Replace), n)
}

#!/usr/bin/env python3
"""seed_suite_cmp.py <logs-dir> <suite.txt> <worktree>
Compares `go test -json` logs of both modules with the stable_pass list of /root/.vp/BASELINE.json.
Timing-sensitive tests flake on a loaded machine: the top-level tests that did not pass are re-run
alone, up to twice; a test broken by the change fails every time."""
import json, sys, glob, subprocess, re

L, out, WT = sys.argv[1], sys.argv[2], sys.argv[3]
want = set(json.load(open('/root/.vp/BASELINE.json'))['stable_pass'])
res = {}


def absorb(lines):
    for line in lines:
        try:
            e = json.loads(line)
        except Exception:
            continue
        t = e.get('Test')
        if not t or e.get('Action') not in ('pass', 'fail', 'skip'):
            continue
        res[e['Package'] + '::' + t] = e['Action']


for f in glob.glob(L + '/*.json'):
    absorb(open(f, errors='replace'))
bad = sorted(k for k in want if res.get(k) != 'pass')
first_bad = list(bad)
for attempt in range(2):
    if not bad:
        break
    bypkg = {}
    for k in bad:
        pkg, t = k.split('::', 1)
        bypkg.setdefault(pkg, set()).add(t.split('/')[0])
    for pkg, tests in bypkg.items():
        if pkg.startswith('integration_tests'):
            cwd = WT + '/integration_tests'
            target = './' + pkg[len('integration_tests'):].lstrip('/')
            if target == './':
                target = '.'
        else:
            cwd, target = WT, './' + pkg[len('github.com/tikv/client-go/v2/'):]
        pat = '^(' + '|'.join(sorted(re.escape(t) for t in tests)) + ')$'
        r = subprocess.run(['go', 'test', '-mod=mod', '-json', '-vet=off', '-count=1', '-timeout', '25m', '-run', pat, target],
                           cwd=cwd, capture_output=True, text=True, errors='replace')
        for k in list(res):
            if k.startswith(pkg + '::') and k.split('::', 1)[1].split('/')[0] in tests:
                del res[k]
        absorb(r.stdout.splitlines())
        open(L + '/retry%d_%s.txt' % (attempt, re.sub(r'[^A-Za-z0-9]', '_', pkg)), 'w').write(r.stdout + r.stderr)
    bad = sorted(k for k in want if res.get(k) != 'pass')
with open(out, 'w') as o:
    if not bad:
        o.write('suite: ok (%d/%d pinned tests pass with the change applied)\n' % (len(want), len(want)))
        if first_bad:
            o.write('  (%d did not pass in the full run on the loaded machine and passed when their top-level tests were re-run alone: %s)\n'
                    % (len(first_bad), ', '.join(first_bad[:6])))
    else:
        o.write('suite: %d of %d pinned tests do not pass with the change applied (also when re-run alone, twice)\n' % (len(bad), len(want)))
        for k in bad:
            o.write('  %s -> %s\n' % (k, res.get(k, 'missing')))
print(open(out).read().strip()[:1500])

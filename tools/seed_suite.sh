#!/bin/bash
# seed_suite.sh <seeded-dir-name>
# Confirms that the repository's pinned test suite (the stable_pass list of /root/.vp/BASELINE.json)
# still passes with a stored seeded defect applied: scratch worktree, patch, the baseline command,
# compare. Writes /verif/seeded/<dir>/suite.txt ("suite: ok ..." or the failing tests).
set -u
S=/verif/seeded/$1
export GOFLAGS=-mod=mod GOPROXY=off
WT=/tmp/seeds-$$
L=/tmp/seeds-$$.logs
mkdir -p $L
git -C /repo worktree add -q $WT HEAD || exit 2
[ "$1" = _baseline ] || git -C $WT apply $S/patch.diff || { git -C /repo worktree remove --force $WT; exit 2; }
for m in . integration_tests; do
  n=$(echo $m | tr -c 'a-z_\n' '_')
  (cd $WT/$m && go test -mod=mod -json -vet=off -count=1 -timeout 25m ./... > $L/$n.json 2> $L/$n.err)
done
python3 - $L $S/suite.txt <<'EOF'
import json, sys, glob
L, out = sys.argv[1], sys.argv[2]
want = set(json.load(open('/root/.vp/BASELINE.json'))['stable_pass'])
res = {}
for f in glob.glob(L + '/*.json'):
    for line in open(f, errors='replace'):
        try:
            e = json.loads(line)
        except Exception:
            continue
        t = e.get('Test')
        if not t or e.get('Action') not in ('pass', 'fail', 'skip'):
            continue
        res[e['Package'] + '::' + t] = e['Action']
bad = sorted(k for k in want if res.get(k) != 'pass')
with open(out, 'w') as o:
    if not bad:
        o.write('suite: ok (%d/%d pinned tests pass with the change applied)\n' % (len(want), len(want)))
    else:
        o.write('suite: %d of %d pinned tests do not pass with the change applied\n' % (len(bad), len(want)))
        for k in bad:
            o.write('  %s -> %s\n' % (k, res.get(k, 'missing')))
print(open(out).read().strip()[:1500])
EOF
git -C /repo worktree remove --force $WT
# keep the raw logs of a run that did not pass (outside /verif), for diagnosis
if grep -q '^suite: ok' $S/suite.txt; then rm -rf $L; else rm -rf /tmp/seedsuite-logs-$1; mv $L /tmp/seedsuite-logs-$1; fi

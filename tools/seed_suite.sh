#!/bin/bash
# seed_suite.sh <seeded-dir-name>
# Confirms that the repository's pinned test suite (the stable_pass list of /root/.vp/BASELINE.json)
# still passes with a stored seeded defect applied: scratch worktree, patch, the baseline command,
# compare (tools/seed_suite_cmp.py; flaky timing tests are re-run alone). Writes
# /verif/seeded/<dir>/suite.txt ("suite: ok ..." or the failing tests). `_baseline` = no patch.
set -u
S=/verif/seeded/$1
export GOFLAGS=-mod=mod GOPROXY=off
WT=/tmp/seeds-$$
L=/tmp/seeds-$$.logs
mkdir -p $L
git -C /repo worktree add -q $WT HEAD || exit 2
[ "$1" = _baseline ] || git -C $WT apply $S/patch.diff || { git -C /repo worktree remove --force $WT; exit 2; }
for m in . integration_tests; do
  n=$(echo $m | tr -c 'a-z_\n' '_')
  (cd $WT/$m && go test -mod=mod -json -vet=off -count=1 -timeout 25m ./... > $L/$n.json 2> $L/$n.err)
done
python3 /verif/tools/seed_suite_cmp.py $L $S/suite.txt $WT
git -C /repo worktree remove --force $WT
# keep the raw logs of a run that did not pass (outside /verif), for diagnosis
if grep -q '^suite: ok' $S/suite.txt; then rm -rf $L; else rm -rf /tmp/seedsuite-logs-$1; mv $L /tmp/seedsuite-logs-$1; fi

#!/bin/bash
# seed_verify.sh <PROP> <name> <out-dir> <demo-file> <demo-dest-dir-in-repo> <go test args...>
# Confirms a seeded defect in a scratch worktree: demo passes without the change, fails with it,
# then runs ./check <PROP> quick against the changed tree; stores everything under /verif/seeded/<PROP>-<name>/.
set -u
PROP=$1; NAME=$2; OUT=$3; DEMO=$4; DEST=$5; shift 5
export GOFLAGS=-mod=mod GOPROXY=off
WT=/tmp/seedv-$PROP-$NAME
D=/verif/seeded/$PROP-$NAME
mkdir -p $D
git -C /repo worktree add -q $WT HEAD || exit 2
cp $OUT/$DEMO $WT/$DEST/
(cd $WT/${RUNDIR:-.} && go test -vet=off -count=1 "$@" > $D/demo_without_change.log 2>&1; echo "exit=$?" >> $D/demo_without_change.log)
git -C $WT apply $OUT/patch.diff || { echo "patch does not apply"; git -C /repo worktree remove --force $WT; exit 2; }
(cd $WT && go build ./... && cd $WT/${RUNDIR:-.} && go test -vet=off -count=1 "$@" > $D/demo_with_change.log 2>&1; echo "exit=$?" >> $D/demo_with_change.log)
rm -f $WT/$DEST/$DEMO
(cd /verif && VERIF_REPO=$WT timeout 3000 ./check ${CHECKS:-$PROP} ${TIER:-quick} > $D/check_quick.log 2>&1; echo "exit=$?" >> $D/check_quick.log)
git -C /repo worktree remove --force $WT
cp $OUT/patch.diff $D/patch.diff; cp $OUT/$DEMO $D/; cp $OUT/meta.json $D/meta.orig.json 2>/dev/null
echo "without: $(tail -1 $D/demo_without_change.log)  with: $(tail -1 $D/demo_with_change.log)  check: $(tail -1 $D/check_quick.log)"
grep -m3 "^VIOLATION\|violation key" $D/check_quick.log | cut -c1-200

#!/usr/bin/env python3
"""Regenerates MANIFEST.json from the table below (kept in one place so it stays valid)."""
import json, os
V = os.path.dirname(os.path.dirname(os.path.abspath(__file__)))
ALL = ["C%02d" % i for i in range(1, 21)]

CHECKS = {
 "C19": dict(
  engine="enum", category="model_checking", design="5/C19",
  technique="bounded exhaustive input enumeration on the real functions (all strings <= L over a boundary alphabet in sorted order, integer boundary grid + dense ranges) against algebraic laws and reference decoders",
  text="Every input of the stated finite grids is run through the real encoders/decoders; round trip with suffix, order isomorphism, prefix freedom (consecutive pairs of a sorted enumeration imply all pairs) and malformed-input rejection are evaluated on each. Exhaustive within the grid; nothing is sampled.",
  note="Trusted: Go's bytes.Compare / encoding/binary as the reference order and varint; well-formedness of variable-length integers is defined by the harness' reference decoders (non-canonical long forms are not called malformed). Values outside the grids are not covered."),
}

TXN_NOTE = ("Trusted: the harness seams (store RPC wrapper, PD wrapper, virtual clock shims injected by import rewriting of `time`/`math/rand`), "
 "the quiescence detector (Go 1.26 scheduler metrics under GOMAXPROCS=1, cross-checked by stack snapshots), mocktikv as store semantics for 2PC (itself checked by C12; two defects found through these checks were fixed). "
 "Interleavings are at seam granularity (RPC / TSO request / API boundary / virtual timer); bounds as reported in the evidence file.")

CHECKS["C01"] = dict(
  engine="parksched", category="model_checking", design="5/C01",
  technique="stateless model checking of the implementation: controlled scheduler over real goroutines, exhaustive DFS over seam-event interleavings with a preemption bound (plus one topology deviation - real region split / NotLeader at any RPC - in the topology suite), SI auditor on every execution",
  text="For every pair of small transaction programs of the table (reads, writes, inserts, deletes, pessimistic locks over two colliding keys; layouts with and without a region split) every interleaving of the two clients' TSO requests, store RPCs (incl. background), API boundaries and virtual back-off timers with <= P preemptions is executed on the real client code, and the recorded history is audited against the MVCC ground truth (read values, lost updates, insert semantics, real-time order, one commit ts). Bounded-exhaustive, no sampling; a time budget may cut the table (reported as exhaustive:false with the covered part).",
  note=TXN_NOTE)
CHECKS["C02"] = dict(
  engine="parksched", category="fault_enumeration", design="5/C02",
  technique="crash-point enumeration on the implementation: the victim client is killed at every seam event index (request undelivered / delivered-unanswered), exhaustive over shapes x layouts x recovery orders, interleaved with a concurrent actor under a preemption bound",
  text="Every crash point of Commit (each TSO request and each store RPC, foreground and background, both crash forms) for every victim shape/layout/mode is executed on the real client, then locks expire and real recovery actors (snapshot reader, GC lock resolution, conflicting writer) run; the final MVCC state must be all-or-nothing with one commit ts, lock-free, consistent with what the dead client had been told, and equal to what the recovery reader saw.",
  note=TXN_NOTE)
CHECKS["C03"] = dict(
  engine="parksched", category="fault_enumeration", design="5/C03",
  technique="fault-script enumeration at the store seam of the implementation (all placements of <= F deviations - lost request / answer as a plain or a typed deadline-exceeded error, store down, region errors, real split - at every RPC of Commit) combined with bounded-preemption interleaving with a reader whose resolver sees the locks expired; plus a definitely failing commit (scripted write-conflict answer) raced by a reader explored as an actor",
  text="All single (quick) and double (thorough) faults from {drop request, drop response, NotLeader, EpochNotMatch, ServerIsBusy, StaleCommand, real region split before delivery, clock jump past the TTL with a concurrent reader/resolver} at every RPC index of the committing client; Commit's answer (nil / definite error / undetermined) is compared with the final MVCC state after forced resolution; 'undetermined' is accepted only when a commit-point message was lost.",
  note=TXN_NOTE)
CHECKS["C17"] = dict(
  engine="seqx", category="model_checking", design="5/C17",
  technique="explicit-state BFS over the real Latches at method and slot-critical-section granularity (canonical state = white-box slot dump), from the empty state and from generated states with >= 5 nodes per slot and oracle-scale timestamps around the expiry window (recycling), plus enumeration of Lock/UnLock arrival orders through the real scheduler goroutine",
  text="All reachable states of <= 4 transactions x <= 3 keys over slot layouts that force collisions, every relative order of start/commit timestamps, every order of first-acquire / wake-up / unlock steps, checked against a ghost holder map (exclusivity, exact staleness, no stuck waiter in any terminal state). Part (b) drives the real LatchesScheduler goroutine through every order of caller steps.",
  note="Trusted: white-box accessors (tiny, add-only); recycle() kept out by pool size; keys within one Lock distinct; part (b) quiescence detection under GOMAXPROCS=1. Randomized stress named in the property is replaced by deeper exhaustive bounds.")

CHECKS["C04"] = dict(
  engine="parksched", category="model_checking", design="5/C04",
  technique="passive request-stream monitor evaluated on every execution of exhaustive enumerations on the implementation (single faults / region errors / real splits at every RPC, one-key batches, heart-beat ticker fired at every point incl. programs whose primary is chosen anew, program pairs under a preemption bound)",
  text="The Percolator ordering and timestamp rules of the property are an automaton over the recorded request/response stream; it is run on every execution produced by four bounded-exhaustive enumerations of the real client (see evidence rule). Every explored stream is an implementation run.",
  note=TXN_NOTE + " The property text is cut at 2048 characters; its last clause is read as the pessimistic-check flag.")
CHECKS["C06"] = dict(
  engine="parksched", category="model_checking", design="5/C06",
  technique="exhaustive enumeration of transaction programs (lock-call options, aggressive-locking stages, commit/rollback) x contending transaction, all seam interleavings under a preemption bound on the implementation; 1PC / async attempts that fall back to 2PC included, plus one region error or real split at every clean-up RPC; invariant: no lock of an ended transaction once drained",
  text="All programs of one transaction up to the depth bound from the per-mode alphabet, each against four contenders (none, optimistic writer, pessimistic locker, deadlock shape), every interleaving with <= P preemptions, no message lost; after everything drained and without moving the clock past any TTL the store is scanned for locks of ended transactions.",
  note=TXN_NOTE)
CHECKS["C09"] = dict(
  engine="seqx", category="model_checking", design="5/C09",
  technique="explicit-state BFS over sequences of topology changes, cache manipulations, stale PD answers and every lookup API on the real RegionCache over the mock cluster (canonical state = topology + white-box cache dump), cache states incl. cold / warm / invalidated / TTL-expired / scheduled-for-reload, left- and right-derive splits, rewritten EpochNotMatch answers; invariant on the mock cluster's own region versions",
  text="Breadth-first search to the depth bound over an alphabet of 87-207 operations from two root topologies, plain and mem-comparable PD codecs; after every operation all lookup results are checked for containment / gap-free coverage / grouping, the cache index for regression, and a Get for every key must converge to the true leader.",
  note="Trusted: mock cluster as ground truth (epochs patched to TiKV rules after split/merge), white-box accessors, background goroutines replaced by explicit explorer operations, back-off via the repo's skip-sleep failpoint.")
CHECKS["C10"] = dict(
  engine="envx", category="model_checking", design="5/C10",
  technique="exhaustive enumeration of fault scripts (all answer sequences up to length F from 21-33 answers, with success / repeat-last / cycle tails) x replica-read modes x commands x liveness x forwarding on the real RegionRequestSender with a scripted client",
  text="Every script of store answers up to the bound, for every configuration of the grid, is run through the real SendReqCtx; bounded attempts, back-off budget, genuine responses only, write commands never flagged replica/stale read, read-ts validation, retry marker and peer targeting are checked on every attempt.",
  note="Trusted: scripted client / liveness probe, the repo's skip-sleep failpoint for back-off (accounting stays real), deterministic jitter shim for config/retry/config.go; one SendReqCtx call per run.")
CHECKS["C20"] = dict(
  engine="seqx", category="model_checking", design="5/C20",
  technique="explicit-state BFS over operation sequences of the real Backoffer (virtual clock and jitter as enumerated environment answers) against a reference accountant, plus exhaustive long chains (128+ back-offs) of every built-in and synthetic kind with a per-step oracle",
  text="All sequences up to the depth bound of Backoff kinds, per-call maxima, Clone/Fork/UpdateUsingForked/Reset, cancel/kill between and during sleeps, over two budgets and two weights, jitter in {min,max}; after each operation totals, per-kind accounting, error kind on exhaustion and sleep bounds are compared with an integer reference model.",
  note="Trusted: vtime/vrand shims injected by import rewriting of config/retry; excluded kind's cap lowered with the package's test setter so exhaustion is reachable; merge specified as copy onto the parent chain.")

CHECKS["C07"] = dict(
  engine="seqx", category="model_checking", design="5/C07",
  technique="explicit-state BFS over operation sequences of the real KVUnionStore / BufferBatchGetter on both buffers against an ordered-map model with undo stack (dedup by canonical model state), key sets incl. duplicates in a batch and prefixes longer than the in-node prefix",
  text="All sequences to the depth bound of set/delete/get/batch-get/iter/iter-reverse/staging/release/cleanup/checkpoint/revert over an adversarial key pool, for every subset of the snapshot key pool and both buffer implementations; after each operation the whole observation set (all gets, batch-gets, iterators over all bound pairs) is compared with the model.",
  note="Trusted: the map-backed snapshot, the reference model (rt/models/omap); KVTxn's read/write methods are one-line delegations to the driven objects.")
CHECKS["C08"] = dict(
  engine="seqx", category="model_checking", design="5/C08",
  technique="explicit-state BFS over operation sequences of the real ART and RBT buffers, compared with each other and with a reference ordered map with staging/undo/flag rules; plus a fan-out grid crossing the 4/16/48/256 node sizes",
  text="All sequences to the depth bound over several adversarial configurations (prefix-related keys, long shared prefixes, flag classes, value sizes at arena block boundaries, entry/buffer/key-length limits) and an exhaustive insertion/deletion grid; after each operation the observation set (Get, flags, iterators all bounds, snapshot reads, Len/Size/Dirty, InspectStage, SelectValueHistory, handles) is compared on ART, RBT and the model.",
  note="Trusted: reference model (rt/models/omap) with a live checkpoint treated as a barrier; loud iterator failure demanded of ART only (RBT has no sequence check).")
CHECKS["C11"] = dict(
  engine="seqx", category="model_checking", design="5/C11",
  technique="explicit-state BFS over raw-KV call sequences on the real rawkv.Client over mocktikv, times deviation-bounded enumeration of topology changes injected before each RPC, against a sorted-map model",
  text="All sequences to the depth bound over an alphabet of 235 calls (all bound pairs, limits, duplicates, 600-1200-key batches cut into unequal sub-batches, key-only, CAS, checksum) on every layout of two split keys; before any RPC of a call one (quick) or two (thorough) topology changes (split, merge, leader transfer) may be injected; every call result and a full observation set are compared with the model.",
  note="Trusted: mocktikv raw handlers (TTL / key-only unsupported there, accepted as such), epochs patched to TiKV rules through white-box helpers, sorted-map model.")
CHECKS["C15"] = dict(
  engine="enum", category="model_checking", design="5/C15",
  technique="exhaustive enumeration over the command catalogue discovered by reflection x fields x keyspace ids x modes on the real codec (marker filling, prefix/strip classification), plus differential exhaustive workloads under v1 / two keyspaces on one store",
  text="Every command type (53, found by probing), every byte / nested field reachable by reflection, both codec modes and 3-8 keyspace ids: key-like fields must be prefixed on encode and stripped on decode, ranges clamped to the keyspace, region descriptions clipped; AttachContext / GenRegionErrorResp / batch conversion hold for every command; raw and transactional op sequences (depth 3-4) give identical results under v1, keyspace A and keyspace B and never leak across keyspaces.",
  note="Trusted: key-likeness decided by field name; documented exclusions (deprecated fields, stream responses, Compact) listed in the evidence; differential part uses single-region mocktikv.")

CHECKS["C12"] = dict(
  engine="seqx", category="model_checking", design="5/C12, appendix B",
  technique="explicit-state BFS over command sequences on the real MVCCLevelDB (directly and through the RPC handlers) against a reference Percolator MVCC model (dedup by canonical model state)",
  text="All sequences to the depth bound over an alphabet of 163-360 concrete commands (every command of the property with its option variants, 2-3 keys, 2-3 transactions, pairwise distinct timestamps in every order) from two root states; every answer (error class + payload a client acts on) and a full observation set (gets at every timestamp, scans, reverse scans, lock scans) are compared with the model, and the stated laws are invariants of every reached state. The 'randomly beyond' clause of the property is replaced by deeper exhaustive bounds.",
  note="Trusted: the reference model rt/models/refmvcc, written from TiKV's documented semantics and the property text; behaviours on which the text is silent are tolerated and listed in the evidence.")

CHECKS["C13"] = dict(
  engine="parksched", category="model_checking", design="5/C13",
  technique="stateless model checking of the real pdOracle: controlled scheduler with points at call start, PD issue, PD deliver and the pointer Load/Store/CompareAndSwap steps of the cached-timestamp update (import-rewritten sync/atomic), exhaustive DFS with a preemption bound; plus exhaustive script enumeration for commit-wait and the adaptive update interval",
  text="All unordered pairs (quick) / triples (thorough) of 40 caller programs, every interleaving with <= 2 preemptions of issue / deliver / atomic steps and an optional background tick; a per-step monitor reads the cached timestamp white-box. Sequential parts: all PD answer scripts of length <= 4 over {c-1, c, c+1, error} x timeouts for the commit-wait, a full grid for the adaptive interval and the expiry pair.",
  note="Trusted: scripted PD (issue and deliver are separate transitions), atomic shim (rt/c13atomic) and ticker-by-scenario clock shim (rt/c13x/ctime) injected by import rewriting of oracle/oracles/pd.go; sync.Map / mutex / singleflight internals are not points.")
CHECKS["C14"] = dict(
  engine="parksched", category="model_checking", design="5/C14",
  technique="crash-point enumeration of two victim transactions followed by the real GC lock resolution as an explored actor (scan limit 1..3, region split before any of its RPCs; one preemption inside the pass for a dead async-commit transaction), under the controlled scheduler; plus exhaustive grids on the real range task / delete-range task (static layouts, a region split injected between lookup and delivery of each request, the caller cancelling its context during each handler call) / safe-point check (learned before and during the read)",
  text="Lock populations are produced by crashing two victims at every combination of seam events within the fault budget (committed primary with unresolved secondaries, rolled back, pending, async-commit, 1PC, pessimistic locks), then tikv.ResolveLocksForRange runs with every scan limit and an optional split; after a successful pass no lock <= safe point remains, committed versions are unchanged and every victim is all-or-nothing and ack-consistent. RunOnRange is run over every layout x range x concurrency x regions-per-task x failing sub-range, DeleteRangeTask over the same grid against a map, snapshot reads at sp-1 / sp / sp+1.",
  note=TXN_NOTE + " GC starts only after every transaction below the safe point ended or crashed; lock-only keys are avoided on unistore (it keeps no commit record for them).")

CHECKS["C05"] = dict(
  engine="parksched", category="model_checking", design="5/C05",
  technique="crash-point enumeration of two writers to produce every kind of leftover lock, then an exhaustive grid over the real snapshot API (timestamps x access paths x bounds x batch sizes x key-only x warm/cold x SetSnapshotTS x split before each RPC) compared with the MVCC truth of the resolved final state; plus reads under enumerated store faults (one deviation at any read RPC, both batch-get paths, one preemption) and a reader explored as an actor against a dead async-commit writer",
  text="MVCC histories come from crashing two writers at every combination of <= 2 store RPCs over committed base data (pending, committed-primary-unresolved-secondaries, rolled back, pessimistic, async-commit / 1PC locks, locks of later transactions); on each distinct history every snapshot timestamp between its events is read through point get, batch get of every subset (each also on a cold snapshot of its own) and of 5134 keys (beyond the per-region batch limit, cut before / between / after the real keys), forward and reverse scans over every bound pair with batch sizes 2 and 3 and key-only, repeated on the warm snapshot, after SetSnapshotTS to every other timestamp and back, and with a region split before each of the first RPCs; every answer equals the MVCC truth.",
  note=TXN_NOTE + " Unbounded reverse scans are the recorded known finding keyed under C01; on unistore reverse / unbounded scans are left out (store-side artefacts).")

CHECKS["C16"] = dict(
  engine="parksched", category="model_checking", design="5/C16",
  technique="exhaustive enumeration of pipelined-transaction programs (set/delete/get/batch-get/flush/flush-wait, commit or rollback) x layouts with flushed keys on region borders, flush completion interleaved with the following calls under a preemption bound (thorough: a lost flush RPC), plus a resolver that expires and rolls back the flushed locks at every decision point a region split right before any read of the flushed buffer, and a key-error answer to any one batch of a multi-batch flush, on the real pipelined KVTxn over unistore",
  text="Every program to the depth bound ending in commit or rollback on three layouts; every call is a scheduling point so that a running flush completes before or after the next calls; reads must return the latest program-order write at any tier, each mutation is part of exactly one flush generation, generations increase with at most one in flight, and after commit / rollback and drain every flushed key has the primary's outcome and no lock of the transaction is left.",
  note=TXN_NOTE + " unistore is the only backend (the in-repo mock has no Flush / BufferBatchGet); flush and resolve concurrency 1. The memory-level PipelinedMemDB harness of DESIGN (a) is subsumed by driving the real transaction.")

CHECKS["C18"] = dict(
  engine="envx", category="model_checking", design="5/C18",
  technique="stateless DFS over environment events (submit / answer in any order / stream drop / cancel / time-out / Close) on the real RPCClient over real gRPC on an in-memory listener with a scripted server; virtualised time and contexts inside the batch client; finite and default concurrency limits, healthy-store liveness oracle; quiescence by scheduler metrics cross-checked with stack snapshots",
  text="All event sequences with at most F deviation events for 2-3 (thorough 4) callers and several client configurations (concurrency limit, two connections, forwarding, async API); every call must return exactly once with its own payload or an allowed error, a stream failure must not fail calls of another stream, answered calls return, nothing stays blocked after its time-out or after Close, no panic. Level 1 of DESIGN C18: client-internal interleavings between two events are left to the Go scheduler.",
  note="Trusted: scripted server, vtime/vctx shims injected by import rewriting of three files of internal/client, real gRPC internals (not owned; executions longer than 0.5 s are discarded and repeated, a violation needs 3 audited reproductions). A call pending until its own time-out after another stream failed is recorded as an observation only (the property promises no more).")

PENDING = {}
for p in ALL:
    if p not in CHECKS:
        PENDING[p] = "check not built yet in this round (planned, see DESIGN.md section 5); not claimed until its harness is committed"

def main():
    m = {
     "version": 1,
     "setup_cmd": "./setup.sh",
     "hooks": {
      "guard": "verif",
      "enable": "no source hooks: instrumentation is injected at build time with `go build -overlay build/<profile>/overlay.json` generated by bin/mkoverlay from /repo's working tree (virtual packages verifrt/**, verifh/**, white-box zz_verif_*.go files, import-rewritten copies); see DESIGN.md section 2",
      "baseline_off_cmd": "cd /repo && go test -vet=off -count=1 -timeout 25m ./...",
      "source_commits": [],
      "add_only": True,
     },
     "engines": [
      {"name": "enum", "path": "harness/c19", "serves_properties": ["C15", "C19"], "kind_free_text": "bounded exhaustive input enumeration against laws/reference decoders"},
      {"name": "envx", "path": "harness/c10", "serves_properties": ["C10", "C18"], "kind_free_text": "deviation-bounded enumeration of environment answers (fault scripts) on sequential code"},
      {"name": "parksched", "path": "rt/sched", "serves_properties": ["C01", "C02", "C03", "C04", "C05", "C06", "C13", "C14", "C16"], "kind_free_text": "controlled scheduler for real goroutines parked at seam points + deviation-bounded stateless DFS (preemption / fault budgets), replay by event identity, sharded over worker processes"},
      {"name": "seqx", "path": "harness/c17", "serves_properties": ["C07", "C08", "C09", "C11", "C12", "C17", "C20"], "kind_free_text": "explicit-state BFS over operation sequences of real objects against a reference model"},
     ],
     "checks": [],
     "not_applicable": [],
     "notes": "All checks: ./check <ID> <quick|thorough>; exit 0 held / 1 VIOLATION / 2 harness build failure. Known findings: known_findings.txt.",
    }
    for p in ALL:
        if p in CHECKS:
            c = CHECKS[p]
            m["checks"].append({
             "property_id": p,
             "quick_cmd": "./check %s quick" % p,
             "thorough_cmd": "./check %s thorough" % p,
             "evidence_file": "/verif/evidence/%s.json" % p,
             "replay_cmd_template": "./check %s quick --replay {path}" % p,
             "engine": c["engine"],
             "level_claimed": {"category": c["category"], "text": c["text"], "design_ref": c["design"]},
             "level_note": c["note"],
             "technique": c["technique"],
            })
        else:
            m["not_applicable"].append({"property_id": p, "reason": PENDING[p]})
    extra = os.path.join(V, "tools", "manifest_extra.json")
    if os.path.exists(extra):
        e = json.load(open(extra))
        m["engines"] = e.get("engines", m["engines"])
    json.dump(m, open(os.path.join(V, "MANIFEST.json"), "w"), indent=1)
    print("MANIFEST.json: %d checks, %d not_applicable" % (len(m["checks"]), len(m["not_applicable"])))
main()

package apicodec

// White-box accessors for the C19 harness (added by the overlay only).

func VerifEncodeMemKey(k []byte) []byte { return (&memComparableCodec{}).encodeKey(k) }

func VerifDecodeMemKey(k []byte) ([]byte, error) { return (&memComparableCodec{}).decodeKey(k) }

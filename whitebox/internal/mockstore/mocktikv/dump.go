package mocktikv

import (
	"github.com/pingcap/goleveldb/leveldb"
	"github.com/pingcap/kvproto/pkg/kvrpcpb"
	"github.com/tikv/client-go/v2/internal/mockstore/deadlock"
)

// White-box accessors for the C12 harness (added by the overlay only): a raw
// dump of the MVCC column family so that the harness can compare the complete
// stored state (locks with every field, write records) with the reference model.

// VerifLock is the decoded lock record of a key.
type VerifLock struct {
	StartTS, TTL, ForUpdateTS, MinCommitTS uint64
	Primary, Value                         []byte
	Op                                     kvrpcpb.Op
}

// VerifWrite is one decoded write record (Type: 0 put, 1 delete, 2 rollback, 3 lock).
type VerifWrite struct {
	Type              int
	StartTS, CommitTS uint64
	Version           uint64 // version part of the storage key
	Value             []byte
}

// VerifEntry is everything stored for one key, in storage order.
type VerifEntry struct {
	Key    []byte
	Lock   *VerifLock
	Writes []VerifWrite
}

// VerifDump returns all entries of the store in storage order.
func (mvcc *MVCCLevelDB) VerifDump() ([]VerifEntry, error) {
	mvcc.mu.RLock()
	defer mvcc.mu.RUnlock()
	iter := newIterator(mvcc.getDB(""), nil)
	defer iter.Release()
	var out []VerifEntry
	for iter.Valid() {
		key, ver, err := mvccDecode(iter.Key())
		if err != nil {
			return nil, err
		}
		if len(out) == 0 || string(out[len(out)-1].Key) != string(key) {
			out = append(out, VerifEntry{Key: append([]byte{}, key...)})
		}
		e := &out[len(out)-1]
		if ver == lockVer {
			var l mvccLock
			if err := l.UnmarshalBinary(iter.Value()); err != nil {
				return nil, err
			}
			e.Lock = &VerifLock{StartTS: l.startTS, TTL: l.ttl, ForUpdateTS: l.forUpdateTS, MinCommitTS: l.minCommitTS,
				Primary: l.primary, Value: l.value, Op: l.op}
		} else {
			var v mvccValue
			if err := v.UnmarshalBinary(iter.Value()); err != nil {
				return nil, err
			}
			e.Writes = append(e.Writes, VerifWrite{Type: int(v.valueType), StartTS: v.startTS, CommitTS: v.commitTS, Version: ver, Value: v.value})
		}
		iter.Next()
	}
	return out, iter.Error()
}

// VerifReset empties the store (every MVCC entry deleted in one batch, fresh
// deadlock detector) so that an instance can be reused for the next sequence;
// MVCCLevelDB only ever looks at the store through iterators, for which an
// emptied store and a new one are the same. Returns the number of deleted entries.
func (mvcc *MVCCLevelDB) VerifReset() (int, error) {
	mvcc.mu.Lock()
	defer mvcc.mu.Unlock()
	db := mvcc.getDB("")
	iter := db.NewIterator(nil, nil)
	batch := &leveldb.Batch{}
	n := 0
	for iter.Next() {
		batch.Delete(iter.Key())
		n++
	}
	iter.Release()
	if err := iter.Error(); err != nil {
		return n, err
	}
	mvcc.deadlockDetector = deadlock.NewDetector()
	if n == 0 {
		return 0, nil
	}
	return n, db.Write(batch, nil)
}

package mocktikv

import (
	"github.com/pingcap/kvproto/pkg/errorpb"
	"github.com/pingcap/kvproto/pkg/kvrpcpb"
)

// VerifCloseRawDBs closes the per-column-family raw DBs that Close() leaves
// open (Close only closes the default one), so that a harness creating many
// short-lived stores does not leak leveldb goroutines. Used by harness c11.
func (mvcc *MVCCLevelDB) VerifCloseRawDBs() {
	mvcc.mu.Lock()
	defer mvcc.mu.Unlock()
	for cf, db := range mvcc.dbs {
		if cf != defaultCf {
			_ = db.Close()
			delete(mvcc.dbs, cf)
		}
	}
}

// VerifCheckRequestContext runs the store-side request-context check (store,
// peer, leader, region epoch) of the store listening on addr, exactly as
// RPCClient.SendRequest does before handling a command. Harness c11 uses it to
// give RawBatchDelete the region-error behaviour the other raw commands have
// (the mock's CmdRawBatchDelete case lacks the early return).
func VerifCheckRequestContext(c *Cluster, addr string, ctx *kvrpcpb.Context) *errorpb.Error {
	store := c.GetStoreByAddr(addr)
	if store == nil {
		return nil
	}
	s := &Session{cluster: c, storeID: store.GetId()}
	return s.CheckRequestContext(ctx)
}

// VerifSplitRaw is SplitRaw with TiKV's epoch rule: the split-off region gets
// the parent's (incremented) version instead of starting again at 1. The
// client's region cache treats a region whose version is lower than that of a
// cached intersecting region as stale, which relies on this rule.
func (c *Cluster) VerifSplitRaw(regionID, newRegionID uint64, rawKey []byte, peerIDs []uint64, leaderPeerID uint64) {
	c.Lock()
	defer c.Unlock()
	parent := c.regions[regionID]
	child := parent.split(newRegionID, rawKey, peerIDs, leaderPeerID)
	child.Meta.RegionEpoch.Version = parent.Meta.RegionEpoch.Version
	c.regions[newRegionID] = child
}

// VerifMerge is Merge with TiKV's epoch rule: the merged region's version is
// max(version1, version2)+1 (the mock only increments the first region's).
func (c *Cluster) VerifMerge(regionID1, regionID2 uint64) {
	c.Lock()
	defer c.Unlock()
	r1, r2 := c.regions[regionID1], c.regions[regionID2]
	v := r1.Meta.RegionEpoch.Version
	if v2 := r2.Meta.RegionEpoch.Version; v2 > v {
		v = v2
	}
	r1.merge(r2.Meta.GetEndKey())
	r1.Meta.RegionEpoch.Version = v + 1
	delete(c.regions, regionID2)
}

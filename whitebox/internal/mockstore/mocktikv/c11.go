package mocktikv

import (
	"github.com/pingcap/kvproto/pkg/errorpb"
	"github.com/pingcap/kvproto/pkg/kvrpcpb"
)

// VerifCloseRawDBs closes the per-column-family raw DBs that Close() leaves
// open (Close only closes the default one), so that a harness creating many
// short-lived stores does not leak leveldb goroutines. Used by harness c11.
func (mvcc *MVCCLevelDB) VerifCloseRawDBs() {
	mvcc.mu.Lock()
	defer mvcc.mu.Unlock()
	for cf, db := range mvcc.dbs {
		if cf != defaultCf {
			_ = db.Close()
			delete(mvcc.dbs, cf)
		}
	}
}

// VerifCheckRequestContext runs the store-side request-context check (store,
// peer, leader, region epoch) of the store listening on addr, exactly as
// RPCClient.SendRequest does before handling a command. Harness c11 uses it to
// give RawBatchDelete the region-error behaviour the other raw commands have
// (the mock's CmdRawBatchDelete case lacks the early return).
func VerifCheckRequestContext(c *Cluster, addr string, ctx *kvrpcpb.Context) *errorpb.Error {
	store := c.GetStoreByAddr(addr)
	if store == nil {
		return nil
	}
	s := &Session{cluster: c, storeID: store.GetId()}
	return s.CheckRequestContext(ctx)
}

package mocktikv

import (
	"github.com/pingcap/kvproto/pkg/errorpb"
	"github.com/pingcap/kvproto/pkg/kvrpcpb"
)

// VerifCloseRawDBs closes the per-column-family raw DBs that Close() leaves
// open (Close only closes the default one), so that a harness creating many
// short-lived stores does not leak leveldb goroutines. Used by harness c11.
func (mvcc *MVCCLevelDB) VerifCloseRawDBs() {
	mvcc.mu.Lock()
	defer mvcc.mu.Unlock()
	for cf, db := range mvcc.dbs {
		if cf != defaultCf {
			_ = db.Close()
			delete(mvcc.dbs, cf)
		}
	}
}

// VerifCheckRequestContext runs the store-side request-context check (store,
// peer, leader, region epoch) of the store listening on addr, exactly as
// RPCClient.SendRequest does before handling a command. Harness c11 uses it to
// give RawBatchDelete the region-error behaviour the other raw commands have
// (the mock's CmdRawBatchDelete case lacks the early return).
func VerifCheckRequestContext(c *Cluster, addr string, ctx *kvrpcpb.Context) *errorpb.Error {
	store := c.GetStoreByAddr(addr)
	if store == nil {
		return nil
	}
	s := &Session{cluster: c, storeID: store.GetId()}
	return s.CheckRequestContext(ctx)
}

// VerifSplitRaw / VerifMerge used to re-implement SplitRaw / Merge with TiKV's region version rule,
// because the mock's own rule made fresh regions look stale to the client's region cache. That was a
// defect of the mock (fixed in the repository: "mocktikv split/merge follow TiKV's region version
// rule"); the helpers now only forward to the real methods, so the mock's rule itself is under test.
func (c *Cluster) VerifSplitRaw(regionID, newRegionID uint64, rawKey []byte, peerIDs []uint64, leaderPeerID uint64) {
	c.SplitRaw(regionID, newRegionID, rawKey, peerIDs, leaderPeerID)
}

func (c *Cluster) VerifMerge(regionID1, regionID2 uint64) {
	c.Merge(regionID1, regionID2)
}

package unionstore

// White-box accessors for the C08/C07 harnesses (added by the overlay only).

// VerifC08NewRbtMemDB returns the red-black-tree backed MemBuffer (unexported in the repository).
func VerifC08NewRbtMemDB() *rbtDBWithContext { return newRbtDBWithContext() }

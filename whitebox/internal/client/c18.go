package client

import "golang.org/x/sync/singleflight"

// VerifInflight reports, for the pool of addr, the number of entries in the in-flight tables
// (batchCommandsClient.batched) and the sum of the `sent` counters of its batch clients.
func VerifInflight(c *RPCClient, addr string) (entries int, sent int64) {
	c.RLock()
	pool := c.connPools[addr]
	c.RUnlock()
	if pool == nil || pool.batchConn == nil {
		return 0, 0
	}
	for _, bc := range pool.batchCommandsClients {
		bc.batched.Range(func(_, _ interface{}) bool { entries++; return true })
		sent += bc.sent.Load()
	}
	return
}

// VerifCollapseReset empties the process-wide flight table of the request-collapse layer (resolveRegionSf), so
// that an execution of the C18 harness (part C) never sees a flight of an earlier execution in the same process.
func VerifCollapseReset() { resolveRegionSf = singleflight.Group{} }

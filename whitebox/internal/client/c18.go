package client

import "time"

// VerifSetDialTimeout replaces the real-time budget of waitConnReady / grpc dial (5 s by default) for
// the C18 harness: an execution there must not depend on a wall-clock timer.
func VerifSetDialTimeout(c *RPCClient, d time.Duration) { c.option.dialTimeout = d }

package latch

// White-box accessors for the C17 harness (added by the overlay only; accessors only, no logic
// of the package is re-implemented here).

// VerifAcquire results.
const (
	VerifSuccess = int(acquireSuccess)
	VerifLocked  = int(acquireLocked)
	VerifStale   = int(acquireStale)
)

// VerifLatchListCount is the node count per slot from which acquireSlot starts recycling.
const VerifLatchListCount = latchListCount

// VerifExpireMS is expireDuration in milliseconds (the physical part of a TSO timestamp counts ms).
const VerifExpireMS = int64(expireDuration / 1e6)

// VerifRecycle is the global Latches.recycle(currentTS) that LatchesScheduler.run starts in a
// goroutine of its own.
func VerifRecycle(l *Latches, currentTS uint64) { l.recycle(currentTS) }

func VerifGenLock(l *Latches, startTS uint64, keys [][]byte) *Lock { return l.genLock(startTS, keys) }
func VerifAcquire(l *Latches, lock *Lock) int                      { return int(l.acquire(lock)) }
func VerifAcquireSlot(l *Latches, lock *Lock) int                  { return int(l.acquireSlot(lock)) }
func VerifRelease(l *Latches, lock *Lock, wl []*Lock) []*Lock      { return l.release(lock, wl) }
func VerifReleaseSlot(l *Latches, lock *Lock) *Lock                { return l.releaseSlot(lock) }
func VerifSlotID(l *Latches, key []byte) int                       { return l.slotID(key) }
func VerifNumSlots(l *Latches) int                                 { return len(l.slots) }
func VerifLatches(s *LatchesScheduler) *Latches                    { return s.latches }
func VerifUnlockChLen(s *LatchesScheduler) int                     { return len(s.unlockCh) }

// VerifLockInfo is a copy of the private fields of a Lock.
type VerifLockInfo struct {
	Keys          [][]byte
	RequiredSlots []int
	AcquiredCount int
	StartTS       uint64
	CommitTS      uint64
	IsStale       bool
}

// VerifInfo reads the lock's fields (caller must make sure nobody mutates the lock concurrently).
func VerifInfo(lock *Lock) VerifLockInfo {
	return VerifLockInfo{lock.keys, lock.requiredSlots, lock.acquiredCount, lock.startTS, lock.commitTS, lock.isStale}
}

// VerifNode is one node of a slot's queue.
type VerifNode struct {
	Key         []byte
	MaxCommitTS uint64
	Holder      *Lock
	SlotID      int
}

// VerifSlot is a copy of one slot.
type VerifSlot struct {
	Nodes   []VerifNode // in list order
	Count   int
	Waiting []*Lock
}

// VerifDump copies the contents of all slots (each under its own mutex).
func VerifDump(l *Latches) []VerifSlot {
	out := make([]VerifSlot, len(l.slots))
	for i := range l.slots {
		s := &l.slots[i]
		s.Lock()
		out[i].Nodes = make([]VerifNode, 0, s.count)
		for n := s.queue; n != nil; n = n.next {
			out[i].Nodes = append(out[i].Nodes, VerifNode{n.key, n.maxCommitTS, n.value, n.slotID})
		}
		out[i].Count = s.count
		out[i].Waiting = append([]*Lock(nil), s.waiting...)
		s.Unlock()
	}
	return out
}

package locate

// White-box accessors for the C09 harness (added by the overlay only).
// Accessors only: nothing here changes the behaviour of the package.

import (
	"context"
	"sync/atomic"
	"time"

	"github.com/pingcap/kvproto/pkg/kvrpcpb"
	"github.com/tikv/client-go/v2/kv"
	"github.com/tikv/client-go/v2/tikvrpc"
)

// VerifC09Entry describes one cached *Region.
type VerifC09Entry struct {
	ID, Ver, ConfVer uint64
	Start, End       []byte
	TTL              int64 // raw ttl (epoch seconds, -1 = invalidated)
	SyncFlags        int32
	InvalidReason    int32
	PeerIDs          []uint64 // peer id of every (available) peer, meta order
	PeerStores       []uint64 // store id of the cached *Store of every peer, same order
	WorkStore        uint64   // store id the cache believes to be the leader
	EpochStale       []bool   // per peer store: store fail epoch differs from the recorded one
}

// VerifC09Store describes one cached *Store.
type VerifC09Store struct {
	ID       uint64
	Resolve  uint64
	Liveness uint32
}

// VerifC09Dump is the whole index content.
type VerifC09Dump struct {
	Sorted  []VerifC09Entry // btree order
	Regions []VerifC09Entry // c.mu.regions (map, unordered)
	Latest  [][3]uint64     // c.mu.latestVersions: id, ver, confVer (unordered)
	Stores  []VerifC09Store // unordered
}

func verifC09Entry(r *Region) VerifC09Entry {
	e := VerifC09Entry{ID: r.meta.Id, Ver: r.meta.GetRegionEpoch().GetVersion(), ConfVer: r.meta.GetRegionEpoch().GetConfVer(),
		Start: r.StartKey(), End: r.EndKey(), TTL: atomic.LoadInt64(&r.ttl), SyncFlags: r.getSyncFlags(),
		InvalidReason: atomic.LoadInt32((*int32)(&r.invalidReason))}
	for _, p := range r.meta.Peers {
		e.PeerIDs = append(e.PeerIDs, p.Id)
	}
	rs := r.getStore()
	for i, s := range rs.stores {
		e.PeerStores = append(e.PeerStores, s.storeID)
		e.EpochStale = append(e.EpochStale, atomic.LoadUint32(&s.epoch) != rs.storeEpochs[i])
	}
	if s, _, _, _ := r.WorkStorePeer(rs); s != nil {
		e.WorkStore = s.storeID
	}
	return e
}

// VerifC09DumpCache reads the three index structures under the read lock.
func VerifC09DumpCache(c *RegionCache) (d VerifC09Dump) {
	c.mu.RLock()
	c.mu.sorted.b.Ascend(func(item *btreeItem) bool {
		d.Sorted = append(d.Sorted, verifC09Entry(item.cachedRegion))
		return true
	})
	for _, r := range c.mu.regions {
		d.Regions = append(d.Regions, verifC09Entry(r))
	}
	for id, v := range c.mu.latestVersions {
		d.Latest = append(d.Latest, [3]uint64{id, v.GetVer(), v.GetConfVer()})
	}
	c.mu.RUnlock()
	c.stores.forEach(func(s *Store) {
		d.Stores = append(d.Stores, VerifC09Store{ID: s.storeID, Resolve: uint64(s.getResolveState()), Liveness: uint32(s.getLivenessState())})
	})
	return
}

// VerifC09SetTTL overwrites the TTL of a cached region (what region_cache_test.go does to expire an entry).
func VerifC09SetTTL(c *RegionCache, id RegionVerID, ttl int64) bool {
	r := c.GetCachedRegionWithRLock(id)
	if r == nil {
		return false
	}
	atomic.StoreInt64(&r.ttl, ttl)
	return true
}

// VerifC09Drop empties the cache (RegionCache.clear, test-only helper of the package).
func VerifC09Drop(c *RegionCache) { c.clear() }

// VerifC09GCRound runs one round of the cache GC body synchronously (covers the whole index while it has < 256 entries).
func VerifC09GCRound(c *RegionCache) {
	c.gcRoundFunc(256)(context.Background(), time.Now())
}

// VerifC09SetLiveness installs the liveness probe answer (test knob of the store cache).
func VerifC09SetLiveness(c *RegionCache, up func(storeID uint64) bool) {
	c.stores.setMockRequestLiveness(func(_ context.Context, s *Store) livenessState {
		if up(s.storeID) {
			return reachable
		}
		return unreachable
	})
}

// VerifC09BgTick runs synchronously what the background goroutines do on a tick:
// re-resolve the stores marked needCheck and re-probe the stores that are not reachable
// (body of startHealthCheckLoop without the PD re-resolve timer).
func VerifC09BgTick(c *RegionCache) {
	c.checkAndResolve(nil, func(s *Store) bool { return s.getResolveState() == needCheck })
	c.stores.forEach(func(s *Store) {
		if s.getLivenessState() != reachable {
			atomic.StoreUint32(&s.livenessState, uint32(requestLiveness(context.Background(), s, c.stores)))
		}
	})
}

// Sync-flag bits of a cached region, for reading VerifC09Entry.SyncFlags.
const (
	VerifC09FlagReloadOnAccess       = needReloadOnAccess
	VerifC09FlagExpireAfterTTL       = needExpireAfterTTL
	VerifC09FlagDelayedReloadPending = needDelayedReloadPending
	VerifC09FlagDelayedReloadReady   = needDelayedReloadReady
)

// VerifC09SelectReplica runs the replica choice of one replica-read (mixed) request on a cached
// region: newReplicaSelector + nextForReplicaReadMixed, i.e. what replicaSelector.next does before
// it builds the RPC context; the request is then dropped (caller cancelled). The randomly chosen
// target is discarded, so the only effects are the deterministic ones of the strategy: a region
// with a stale store epoch is marked needDelayedReloadPending, a region without any candidate
// replica is invalidated. Returns false when there is no valid cached region.
func VerifC09SelectReplica(c *RegionCache, id RegionVerID) bool {
	req := tikvrpc.NewReplicaReadRequest(tikvrpc.CmdGet, &kvrpcpb.GetRequest{}, kv.ReplicaReadMixed, nil)
	s, err := newReplicaSelector(c, id, req)
	if err != nil || s == nil {
		return false
	}
	s.attempts++
	s.nextForReplicaReadMixed(req)
	return true
}

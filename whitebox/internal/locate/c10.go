package locate

// White-box accessors for the C10 harness (added by the overlay only).
// Nothing here runs unless the C10 harness calls it.

import (
	"context"
	"sync/atomic"
)

// VerifC10MaxReplicaAttempt exposes the per-replica attempt limit of the selector.
func VerifC10MaxReplicaAttempt() int { return maxReplicaAttempt }

// VerifC10SetRandIntn replaces the tie-break random source of the replica selector
// (the package already keeps it in a variable "only use for testing").
// Must be called while no request is in flight.
func VerifC10SetRandIntn(f func(n int) int) { randIntn = f }

// Liveness values as plain integers for the harness.
const (
	VerifC10Reachable   = uint32(reachable)
	VerifC10Unreachable = uint32(unreachable)
	VerifC10Unknown     = uint32(unknown)
)

// VerifC10SetLivenessProbe installs a scripted store-liveness probe (same knob the unit tests use).
func (c *RegionCache) VerifC10SetLivenessProbe(f func(storeID uint64) uint32) {
	c.stores.setMockRequestLiveness(func(ctx context.Context, s *Store) livenessState {
		return livenessState(f(s.storeID))
	})
}

// VerifC10SetCachedLiveness sets the cached liveness state of a store (what the selector reads).
func (c *RegionCache) VerifC10SetCachedLiveness(storeID uint64, l uint32) bool {
	s, ok := c.stores.get(storeID)
	if !ok {
		return false
	}
	atomic.StoreUint32(&s.livenessState, l)
	return true
}

// VerifC10MarkSlow marks a store slow the way a ServerIsBusy answer does.
func (c *RegionCache) VerifC10MarkSlow(storeID uint64) bool {
	s, ok := c.stores.get(storeID)
	if !ok {
		return false
	}
	s.healthStatus.markAlreadySlow()
	return s.healthStatus.IsSlow()
}

// VerifC10SetForwarding sets the forwarding switch of this cache (normally copied from the
// global config when the cache is created).
func (c *RegionCache) VerifC10SetForwarding(on bool) { c.enableForwarding = on }

// VerifC10SelectorString describes the selector state after a call (diagnostics only).
func (s *RegionRequestSender) VerifC10SelectorString() string {
	if s.replicaSelector == nil {
		return "<nil>"
	}
	return s.replicaSelector.String()
}

// VerifC10ProxyIdx returns the remembered proxy of a cached region (regionStore.proxyTiKVIdx:
// -1 = none) or -2 when the region is not in the cache.
func (c *RegionCache) VerifC10ProxyIdx(id RegionVerID) int {
	r := c.GetCachedRegionWithRLock(id)
	if r == nil {
		return -2
	}
	return int(r.getStore().proxyTiKVIdx)
}

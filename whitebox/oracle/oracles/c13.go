package oracles

import "github.com/tikv/client-go/v2/oracle"

// White-box accessors for the C13 harness (read-only).

// VerifLastTS returns the cached (low-resolution) timestamp of a transaction scope.
func VerifLastTS(o oracle.Oracle, scope string) (uint64, bool) {
	p, ok := o.(*pdOracle)
	if !ok {
		return 0, false
	}
	return p.getLastTS(scope)
}

// VerifAdaptive returns (configured interval ns, adaptive interval ns, adaptive state name).
// Only meaningful at quiescence (the state field is owned by the updateTS goroutine).
func VerifAdaptive(o oracle.Oracle) (int64, int64, string) {
	p, ok := o.(*pdOracle)
	if !ok {
		return 0, 0, ""
	}
	return p.lastTSUpdateInterval.Load(), p.adaptiveLastTSUpdateInterval.Load(), p.adaptiveUpdateIntervalState.state.String()
}

// VerifShrinkPending reports whether a requested staleness is waiting in the shrink channel.
func VerifShrinkPending(o oracle.Oracle) bool {
	p, ok := o.(*pdOracle)
	return ok && len(p.adaptiveUpdateIntervalState.shrinkIntervalCh) > 0
}

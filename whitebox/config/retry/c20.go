package retry

// White-box accessors for the C20 harness (read-only views of unexported
// configuration plus the package's own test-only setter).

// VerifCfgParams returns the parameters a Config was built with.
func VerifCfgParams(c *Config) (name string, base, cap, jitter int, err error) {
	return c.name, c.fnCfg.base, c.fnCfg.cap, c.fnCfg.jitter, c.err
}

// VerifExcludedLimit returns the own cap (ms) of a budget-excluded kind.
func VerifExcludedLimit(name string) (int, bool) {
	v, ok := isSleepExcluded[name]
	return v, ok
}

// VerifSetExcludedLimit is setBackoffExcluded (the package's test-only
// setter): it changes the cap of an already excluded kind.
func VerifSetExcludedLimit(name string, maxVal int) {
	setBackoffExcluded(name, maxVal)
}

package main

import (
	"bytes"
	"context"

	"github.com/gogo/protobuf/proto"
	"github.com/pingcap/kvproto/pkg/metapb"
	pd "github.com/tikv/pd/client"
	"github.com/tikv/pd/client/clients/router"
	"github.com/tikv/pd/client/opt"
	"github.com/tikv/pd/client/pkg/caller"
)

// stalePD wraps the real mock PD client. Every region query is a synchronisation
// point for the white-box no-regression check (the cache never holds c.mu while
// it talks to PD), and - when the explorer armed it - the next region query is
// answered once from a recorded OLDER, self-consistent snapshot of the whole
// region table (what a lagging PD follower would say).
type stalePD struct {
	pd.Client
	w       *world
	pending int // 0: fresh; n>0: answer the next region query from the snapshot n topology changes back
	served  int // stale answers given so far
}

// The mock returns its inner client here, which would silently unwrap us.
func (p *stalePD) WithCallerComponent(caller.Component) pd.Client { return p }

func cloneRegion(r *router.Region) *router.Region {
	if r == nil {
		return &router.Region{}
	}
	c := &router.Region{Meta: proto.Clone(r.Meta).(*metapb.Region)}
	if r.Leader != nil {
		c.Leader = proto.Clone(r.Leader).(*metapb.Peer)
	}
	return c
}

// take returns the snapshot to answer from (nil: answer fresh) and disarms.
func (p *stalePD) take() []*router.Region {
	p.w.pdSync()
	if p.pending == 0 {
		return nil
	}
	n := p.pending
	p.pending = 0
	if len(p.w.hist) <= n {
		return nil
	}
	p.served++
	p.w.st.staleServed.Add(1)
	return p.w.hist[len(p.w.hist)-1-n]
}

// note classifies a stale answer against what the cache holds right now (coverage only): does it
// describe a held region id with an older version, or with the held version and a lower conf version?
func (p *stalePD) note(rs ...*router.Region) {
	w := p.w
	if !w.check {
		return
	}
	for _, r := range rs {
		if r == nil || r.Meta == nil {
			continue
		}
		id, ver, conf := r.Meta.GetId(), r.Meta.GetRegionEpoch().GetVersion(), r.Meta.GetRegionEpoch().GetConfVer()
		lowerVer, lowerConf := false, false
		for i := range w.prev.Sorted {
			e := &w.prev.Sorted[i]
			if e.ID == id {
				lowerVer = lowerVer || ver < e.Ver
				lowerConf = lowerConf || (ver == e.Ver && conf < e.ConfVer)
			}
		}
		if lowerVer {
			w.st.staleLowerVer.Add(1)
		} else if lowerConf {
			w.st.staleLowerConf.Add(1)
		}
	}
}

func keyIn(start, end, key []byte) bool {
	return bytes.Compare(start, key) <= 0 && (len(end) == 0 || bytes.Compare(key, end) < 0)
}

func snapByKey(s []*router.Region, key []byte) *router.Region {
	for _, r := range s {
		if keyIn(r.Meta.StartKey, r.Meta.EndKey, key) {
			return r
		}
	}
	return nil
}

func (p *stalePD) GetRegion(ctx context.Context, key []byte, opts ...opt.GetRegionOption) (*router.Region, error) {
	if s := p.take(); s != nil {
		r := cloneRegion(snapByKey(s, key))
		p.note(r)
		return r, nil
	}
	return p.Client.GetRegion(ctx, key, opts...)
}

func (p *stalePD) GetPrevRegion(ctx context.Context, key []byte, opts ...opt.GetRegionOption) (*router.Region, error) {
	if s := p.take(); s != nil {
		cur := snapByKey(s, key)
		if cur == nil || len(cur.Meta.StartKey) == 0 {
			return &router.Region{}, nil
		}
		for _, r := range s {
			if bytes.Equal(r.Meta.EndKey, cur.Meta.StartKey) {
				return cloneRegion(r), nil
			}
		}
		return &router.Region{}, nil
	}
	return p.Client.GetPrevRegion(ctx, key, opts...)
}

func (p *stalePD) GetRegionByID(ctx context.Context, id uint64, opts ...opt.GetRegionOption) (*router.Region, error) {
	if s := p.take(); s != nil {
		for _, r := range s {
			if r.Meta.Id == id {
				return cloneRegion(r), nil
			}
		}
		return &router.Region{}, nil
	}
	return p.Client.GetRegionByID(ctx, id, opts...)
}

// scanSnap mirrors mocktikv.Cluster.ScanRegions on a recorded snapshot (sorted by start key).
func scanSnap(s []*router.Region, start, end []byte, limit int) []*router.Region {
	var out []*router.Region
	for _, r := range s {
		if len(r.Meta.EndKey) != 0 && bytes.Compare(r.Meta.EndKey, start) <= 0 {
			continue
		}
		if len(end) > 0 && bytes.Compare(r.Meta.StartKey, end) >= 0 {
			break
		}
		out = append(out, cloneRegion(r))
		if limit > 0 && len(out) >= limit {
			break
		}
	}
	return out
}

func (p *stalePD) ScanRegions(ctx context.Context, start, end []byte, limit int, opts ...opt.GetRegionOption) ([]*router.Region, error) {
	if s := p.take(); s != nil {
		rs := scanSnap(s, start, end, limit)
		p.note(rs...)
		return rs, nil
	}
	//nolint:staticcheck
	return p.Client.ScanRegions(ctx, start, end, limit, opts...)
}

// batchScan is BatchScanRegions written against a single-range scan function,
// treating an empty range end as +inf.
func batchScan(scan func(start, end []byte, limit int) []*router.Region, ranges []router.KeyRange, limit int) []*router.Region {
	var out []*router.Region
	var last *router.Region
	for _, kr := range ranges {
		if last != nil {
			if len(last.Meta.EndKey) == 0 {
				break
			}
			if len(kr.EndKey) > 0 && bytes.Compare(last.Meta.EndKey, kr.EndKey) >= 0 {
				continue
			}
			if bytes.Compare(last.Meta.EndKey, kr.StartKey) > 0 {
				kr.StartKey = last.Meta.EndKey
			}
		}
		rs := scan(kr.StartKey, kr.EndKey, limit-len(out))
		if len(rs) > 0 {
			last = rs[len(rs)-1]
		}
		out = append(out, rs...)
		if limit > 0 && len(out) >= limit {
			break
		}
	}
	return out
}

func sameRegionList(a, b []*router.Region) bool {
	if len(a) != len(b) {
		return false
	}
	for i := range a {
		if a[i].Meta.GetId() != b[i].Meta.GetId() {
			return false
		}
	}
	return true
}

func (p *stalePD) BatchScanRegions(ctx context.Context, ranges []router.KeyRange, limit int, opts ...opt.GetRegionOption) ([]*router.Region, error) {
	if s := p.take(); s != nil {
		rs := batchScan(func(a, b []byte, l int) []*router.Region { return scanSnap(s, a, b, l) }, ranges, limit)
		p.note(rs...)
		return rs, nil
	}
	cp := append([]router.KeyRange{}, ranges...)
	raw, err := p.Client.BatchScanRegions(ctx, cp, limit, opts...)
	if err != nil || !p.w.cfg.fixMockBatchScan {
		return raw, err
	}
	// The mock's BatchScanRegions skips a range whose end is "" (unbounded) as soon as an
	// earlier range produced a region (it compares lastRegion.EndKey >= "" ), i.e. it answers
	// with a gap that a real PD would not produce. To keep exploring the cache logic behind it
	// the answer is recomputed from the real Cluster.ScanRegions; divergences are counted.
	fixed := batchScan(func(a, b []byte, l int) []*router.Region {
		//nolint:staticcheck
		rs, _ := p.Client.ScanRegions(ctx, a, b, l, opts...)
		return rs
	}, ranges, limit)
	if !sameRegionList(raw, fixed) {
		p.w.st.mockBatchScanDiverged.Add(1)
		return fixed, nil
	}
	return raw, nil
}

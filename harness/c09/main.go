// C09: region lookups contain their keys, cover ranges gap-free, never regress.
//
// Explicit-state breadth-first search (DESIGN.md 3.2/3.3, section 5 C09) over sequences of
// topology changes, cache manipulations, one-shot stale PD answers and lookups, executed on
// the REAL locate.RegionCache over the real mocktikv cluster / PD client / RPC client.
// A state is the op history that reaches it (successor = fresh instance + replay + one op);
// states are merged by the canonical key of world.canon (see the argument there).
package main

import (
	"crypto/sha256"
	"encoding/json"
	"flag"
	"fmt"
	"os"
	"runtime"
	"runtime/pprof"
	"sort"
	"strings"
	"sync"
	"sync/atomic"

	"github.com/pingcap/failpoint"
	"github.com/pingcap/log"
	"github.com/tikv/client-go/v2/internal/mockstore/mocktikv"
	"github.com/tikv/client-go/v2/util"
	"github.com/tikv/client-go/v2/verifrt/ev"
	"go.uber.org/zap"
)

type stats struct {
	evals, transitions, executions, staleServed, mockBatchScanDiverged atomic.Int64
	convSkipped, convServed, convRounds, convChecked, groupUnknown     atomic.Int64
	diverged, dups, deadInstances, nontrivial                          atomic.Int64
	// reload-scheduled cache states: lookups executed (with oracles) on an entry flagged for reload,
	// new states holding an entry flagged needReloadOnAccess / needDelayedReloadPending / ...Ready
	reloadLookups, stOnAccess, stPending, stReady, stAnyReload atomic.Int64
	// derived-split part: right-derive splits executed, EpochNotMatch answers rewritten TiKV-like per
	// order, judged installs of a region id the cache already held, stale PD answers that described
	// a held region id with the same version and a lower conf version / with a lower version, new
	// states with a leftover older version of a region id in the ordered index / with a region id
	// that latestVersions has forgotten although an entry of it is cached
	rightDerive, enmDerivedFirst, enmDerivedLast, sameIDInstalls atomic.Int64
	staleLowerConf, staleLowerVer, stLeftover, stForgotten       atomic.Int64
}

// ---------- alphabet ----------

type alphaSpec struct {
	splitKeys, lookupKeys, cacheKeys []int
	rangeStarts                      []int // -1 = ""
	maxBatch                         int   // ranges per batch
	batchBounds                      []int // bounds usable in batches (pool indices; inf is always allowed as last end)
	groupMax                         int
	splitLeft                        bool
	maxBack                          int
	peers, stores, emptyKey          bool
	sched                            bool     // reload-scheduling letters: sched(k) = OnSendFail(scheduleReload), selm(k) = replica selector sees a stale store epoch
	noInval                          bool     // leave out inval/expire/drop (the reload part: those states are the main plans' business)
	sendx                            bool     // send with scripted TiKV-like EpochNotMatch answers, derived region first / last
	lookupKinds                      []string // nil = all point lookup kinds
}

func genBatches(bounds []int, maxRanges int) [][][2]int {
	var out [][][2]int
	var rec func(cur [][2]int, from int)
	rec = func(cur [][2]int, from int) {
		if len(cur) > 0 {
			out = append(out, append([][2]int{}, cur...))
		}
		if len(cur) == maxRanges || (len(cur) > 0 && cur[len(cur)-1][1] == inf) {
			return
		}
		for si, s := range bounds {
			if s < from {
				continue
			}
			for _, e := range append(append([]int{}, bounds[si+1:]...), inf) {
				rec(append(cur, [2]int{s, e}), e)
			}
		}
	}
	rec(nil, -1)
	sort.SliceStable(out, func(i, j int) bool { return len(out[i]) < len(out[j]) })
	return out
}

func buildAlphabet(s alphaSpec) []Op {
	var a []Op
	// lookups first (simplest), then cache manipulation, then topology, then PD misbehaviour
	kinds := s.lookupKinds
	if kinds == nil {
		kinds = []string{"try", "locate", "locend", "byid", "byidc", "send"}
	}
	for _, kind := range kinds {
		for _, k := range s.lookupKeys {
			a = append(a, Op{Kind: kind, K: k})
		}
		// The empty key (first region). Not for LocateEndKey: "" as an END key would have to mean +inf
		// (Region.ContainsByEnd), but locating the last region is documented as not implemented
		// (rawkv.ReverseScan); LocateEndKey("") answers the first region.
		if s.emptyKey && (kind == "try" || kind == "locate") {
			a = append(a, Op{Kind: kind, K: -1})
		}
	}
	if s.sendx {
		for _, ord := range []int{enmDerivedFirst, enmDerivedLast} {
			for _, k := range s.lookupKeys {
				a = append(a, Op{Kind: "sendx", K: k, Ord: ord})
			}
		}
	}
	for _, st := range s.rangeStarts {
		for e := st + 1; e <= inf; e++ {
			a = append(a, Op{Kind: "range", R: [][2]int{{st, e}}})
		}
	}
	for _, b := range genBatches(s.batchBounds, s.maxBatch) {
		a = append(a, Op{Kind: "batch", R: b})
	}
	var sub func(cur []int, from int)
	sub = func(cur []int, from int) {
		if len(cur) > 0 {
			a = append(a, Op{Kind: "group", Keys: append([]int{}, cur...)})
		}
		if len(cur) == s.groupMax {
			return
		}
		for _, k := range s.lookupKeys {
			if k >= from {
				sub(append(cur, k), k+1)
			}
		}
	}
	sub(nil, 0)
	cacheKinds := []string{"inval", "expire"}
	if s.noInval {
		cacheKinds = nil
	}
	if s.sched {
		cacheKinds = append(cacheKinds, "sched", "selm")
	}
	for _, kind := range cacheKinds {
		for _, k := range s.cacheKeys {
			a = append(a, Op{Kind: kind, K: k})
		}
	}
	a = append(a, Op{Kind: "gc"})
	if !s.noInval {
		a = append(a, Op{Kind: "drop"})
	}
	a = append(a, Op{Kind: "bgtick"})
	for _, k := range s.splitKeys {
		a = append(a, Op{Kind: "split", K: k})
	}
	if s.splitLeft {
		for _, k := range s.splitKeys {
			a = append(a, Op{Kind: "splitl", K: k})
		}
	}
	for _, k := range s.splitKeys {
		a = append(a, Op{Kind: "merge", K: k})
	}
	for _, k := range s.cacheKeys {
		a = append(a, Op{Kind: "leader", K: k})
	}
	if s.peers {
		for _, kind := range []string{"rmpeer", "addpeer"} {
			for _, k := range s.cacheKeys {
				a = append(a, Op{Kind: kind, K: k})
			}
		}
	}
	if s.stores {
		for _, kind := range []string{"stop", "start"} {
			for i := 0; i < 3; i++ {
				a = append(a, Op{Kind: kind, K: i})
			}
		}
	}
	for b := 1; b <= s.maxBack; b++ {
		a = append(a, Op{Kind: "stale", K: b})
	}
	return a
}

// ---------- generated roots of the derived-split part ----------

type rootDef struct {
	name, desc string
	ops        []Op
	quick      bool // right derive, layouts 1 / 3, with a conf change
	right13    bool // right derive, layouts 1 / 3
}

// derivedRoots is the state generator of the derived-split part: the full grid
//
//	layout  x  derive side  x  conf change after the split  x  refresh
//
// layout: "1" = one region [,+inf) cached, split at c; "3" = regions [,b) [b,d) [d,+inf) all
// cached, the middle one split at c; "3e" = the same, the LAST one split at e.
// derive side: right (splitl: the original id stays on the RIGHT half, the left half is a new
// region - the cached parent then lingers in the ordered index under the parent's start key when
// the derived region is learned) or left (split).
// conf change: none, or a peer of the id-keeping half is removed after the split (conf version +1).
// refresh: none (the cache still holds only the parent), or the parent's TTL has run out and the
// id-keeping half has been looked up (the cache holds the expired parent AND the derived region).
// Quick uses the right-derive roots with a conf change of layouts 1 and 3 (4 roots), thorough the
// whole grid (24).
func derivedRoots() []rootDef {
	var out []rootDef
	type layout struct {
		name, desc string
		warm       []Op
		splitAt    int
		leftKey    int // a key of the left half (= the parent's first pool key)
		rightKey   int // a key of the right half
		quick      bool
	}
	s3 := []Op{{Kind: "split", K: 1}, {Kind: "split", K: 3}, {Kind: "range", R: [][2]int{{0, inf}}}}
	layouts := []layout{
		{"1", "1 region [,+inf) cached, split at c", []Op{{Kind: "locate", K: 0}}, 2, 0, 2, true},
		{"3", "3 regions [,b) [b,d) [d,+inf) all cached, [b,d) split at c", s3, 2, 1, 2, true},
		{"3e", "3 regions [,b) [b,d) [d,+inf) all cached, [d,+inf) split at e", s3, 4, 3, 4, false},
	}
	for _, l := range layouts {
		for _, right := range []bool{true, false} {
			for _, conf := range []bool{false, true} {
				for _, refresh := range []bool{false, true} {
					r := rootDef{quick: l.quick && right && conf, right13: l.quick && right}
					ops := append([]Op{}, l.warm...)
					keeper, side, kind := l.leftKey, "left", "split"
					if right {
						keeper, side, kind = l.rightKey, "right", "splitl"
					}
					ops = append(ops, Op{Kind: kind, K: l.splitAt})
					r.name = "derived-" + l.name + "-" + side
					r.desc = l.desc + ", original id stays on the " + side + " half"
					if conf {
						ops = append(ops, Op{Kind: "rmpeer", K: keeper})
						r.name += "-conf"
						r.desc += "; then a peer of the id-keeping half is removed"
					}
					if refresh {
						ops = append(ops, Op{Kind: "expire", K: l.leftKey}, Op{Kind: "locate", K: keeper})
						r.name += "-refreshed"
						r.desc += "; then the cached parent expires and the id-keeping half is looked up"
					}
					r.ops = ops
					out = append(out, r)
				}
			}
		}
	}
	return out
}

// derivedRootNames: "quick" = right derive + conf change, layouts 1 and 3 (4 roots); "right13" = right
// derive, layouts 1 and 3 (8 roots); "all" = the whole grid (24 roots).
func derivedRootNames(set string) []string {
	var n []string
	for _, r := range derivedRoots() {
		if set == "all" || (set == "right13" && r.right13) || (set == "quick" && r.quick) {
			n = append(n, r.name)
		}
	}
	return n
}

// ---------- search ----------

// digest is the 128-bit hash of a canonical state key (the keys are ~1 KB strings; a collision
// among < 10^7 states has probability < 10^-24).
type digest [16]byte

func dig(s string) digest {
	h := sha256.Sum256([]byte(s))
	var d digest
	copy(d[:], h[:16])
	return d
}

type node struct {
	parent  *node
	op      int32
	depth   int32
	key     digest
	enabled []int32
}

func (n *node) history(alpha []Op) []Op {
	var h []Op
	for x := n; x.parent != nil; x = x.parent {
		h = append(h, alpha[x.op])
	}
	for i, j := 0, len(h)-1; i < j; i, j = i+1, j-1 {
		h[i], h[j] = h[j], h[i]
	}
	return h
}

type replay struct {
	Mode     string   `json:"mode"`
	Ops      []Op     `json:"ops"`
	Converge bool     `json:"converge_check_after_last_op"`
	Text     []string `json:"readable"`
}

func mkReplay(cfg *config, ops []Op, conv bool) replay {
	r := replay{Mode: cfg.mode(), Ops: ops, Converge: conv}
	for _, o := range ops {
		r.Text = append(r.Text, o.String())
	}
	return r
}

type violRec struct {
	key, what     string
	depth, pi, oi int
	rep           replay
	count         int64
}

type collector struct {
	mu sync.Mutex
	m  map[string]*violRec
}

func (c *collector) add(key, what string, depth, pi, oi int, rep func() replay) {
	c.mu.Lock()
	defer c.mu.Unlock()
	v := c.m[key]
	if v == nil {
		c.m[key] = &violRec{key: key, what: what, depth: depth, pi: pi, oi: oi, rep: rep(), count: 1}
		return
	}
	v.count++
	if depth < v.depth || (depth == v.depth && (pi < v.pi || (pi == v.pi && oi < v.oi))) {
		v.what, v.depth, v.pi, v.oi, v.rep = what, depth, pi, oi, rep()
	}
}

type cand struct{ pi, oi int32 }

type candMap struct {
	sh [64]struct {
		sync.Mutex
		m map[digest]cand
	}
}

func newCandMap() *candMap {
	c := &candMap{}
	for i := range c.sh {
		c.sh[i].m = map[digest]cand{}
	}
	return c
}

func (c *candMap) offer(key digest, pi, oi int32) {
	s := &c.sh[key[0]%64]
	s.Lock()
	if o, ok := s.m[key]; !ok || pi < o.pi || (pi == o.pi && oi < o.oi) {
		s.m[key] = cand{pi, oi}
	}
	s.Unlock()
}

type explorer struct {
	run      *ev.Run
	cfg      *config
	alpha    []Op
	depth    int
	st       *stats
	coll     *collector
	outMu    sync.Mutex
	outcomes map[string]int64
	samples  *ev.Samples
	visited  map[digest]struct{}
	global   map[digest]struct{} // union over all plans (mode-tagged), for the state count
	roots    [][]Op
	perDepth []int
	maxDepth int
	workers  int
}

func parallel(n, workers int, f func(worker, i int)) {
	var next atomic.Int64
	var wg sync.WaitGroup
	for w := 0; w < workers; w++ {
		wg.Add(1)
		go func(w int) {
			defer wg.Done()
			for {
				i := int(next.Add(1)) - 1
				if i >= n {
					return
				}
				f(w, i)
			}
		}(w)
	}
	wg.Wait()
}

func (x *explorer) search(mvccs []mocktikv.MVCCStore) {
	// Roots: the bootstrap layout (one region) and layouts reached by a setup prefix (their ops
	// are part of every history below them but do not count towards the depth).
	x.visited = map[digest]struct{}{}
	var frontier []*node
	for _, setup := range x.roots {
		n := &node{}
		w := newWorld(x.cfg, mvccs[0], x.st)
		for _, o := range setup {
			idx := -1
			for i, a := range x.alpha {
				if a.String() == o.String() {
					idx = i
				}
			}
			if idx < 0 || !w.applicable(o) {
				panic("harness: bad root setup op " + o.String())
			}
			w.apply(o)
			n = &node{parent: n, op: int32(idx)}
		}
		n.key = dig(w.canon())
		n.enabled = x.enabledOps(w)
		x.global[dig(x.cfg.mode()+w.canon())] = struct{}{}
		if _, dup := x.visited[n.key]; !dup {
			x.visited[n.key] = struct{}{}
			frontier = append(frontier, n)
		}
	}
	x.perDepth = []int{len(frontier)}
	const maxStates = 4_000_000
	for d := 0; d < x.depth && len(frontier) > 0; d++ {
		if x.run.Expired() {
			x.run.Incomplete(fmt.Sprintf("%s: wall-clock budget hit before depth %d", x.cfg.mode(), d+1))
			return
		}
		cands := newCandMap()
		localOut := make([]map[string]int64, x.workers)
		for i := range localOut {
			localOut[i] = map[string]int64{}
		}
		parallel(len(frontier), x.workers, func(wk, i int) {
			n := frontier[i]
			h := n.history(x.alpha)
			for _, oi := range n.enabled {
				op := x.alpha[oi]
				w := newWorld(x.cfg, mvccs[wk], x.st)
				for _, o := range h {
					w.apply(o)
				}
				w.check = true
				w.report = func(key, what string) {
					x.coll.add(key, what, d+1, i, int(oi), func() replay { return mkReplay(x.cfg, append(append([]Op{}, h...), op), false) })
				}
				out := w.apply(op)
				x.st.transitions.Add(int64(len(h) + 1))
				x.st.executions.Add(1)
				localOut[wk][op.Kind+":"+out]++
				if w.dead {
					x.st.deadInstances.Add(1)
					continue
				}
				key := dig(w.canon())
				if x.st.executions.Load()%4099 == 0 {
					x.samples.Add(func() any {
						return map[string]any{"mode": x.cfg.mode(), "ops": mkReplay(x.cfg, append(append([]Op{}, h...), op), false).Text,
							"outcome": out, "cluster": w.topoStr(), "cache": w.cacheStr(&w.prev)}
					})
				}
				if _, seen := x.visited[key]; seen {
					x.st.dups.Add(1)
					continue
				}
				cands.offer(key, int32(i), oi)
			}
		})
		x.outMu.Lock()
		for _, m := range localOut {
			for k, v := range m {
				x.outcomes[k] += v
			}
		}
		x.outMu.Unlock()
		// deterministic choice of the representative history of every new state
		type pick struct {
			key digest
			c   cand
		}
		var picks []pick
		for i := range cands.sh {
			for k, c := range cands.sh[i].m {
				picks = append(picks, pick{k, c})
			}
		}
		sort.Slice(picks, func(i, j int) bool {
			if picks[i].c.pi != picks[j].c.pi {
				return picks[i].c.pi < picks[j].c.pi
			}
			return picks[i].c.oi < picks[j].c.oi
		})
		next := make([]*node, len(picks))
		for i, p := range picks {
			next[i] = &node{parent: frontier[p.c.pi], op: p.c.oi, depth: int32(d + 1), key: p.key}
			x.visited[p.key] = struct{}{}
		}
		// finalize every new state: enabled ops + terminal convergence check
		gk := make([]digest, len(next))
		parallel(len(next), x.workers, func(wk, i int) {
			n := next[i]
			h := n.history(x.alpha)
			w := newWorld(x.cfg, mvccs[wk], x.st)
			for _, o := range h {
				w.apply(o)
			}
			x.st.transitions.Add(int64(len(h)))
			cs := w.canon()
			gk[i] = dig(x.cfg.mode() + cs)
			if dig(cs) != n.key {
				x.st.diverged.Add(1)
			}
			if d+1 < x.depth { // the last level is not expanded
				n.enabled = x.enabledOps(w)
			}
			if w.nontrivial() {
				x.st.nontrivial.Add(1)
			}
			w.countReloadState()
			w.check = true
			w.report = func(key, what string) {
				x.coll.add(key, what, d+1, i, 1<<30, func() replay { return mkReplay(x.cfg, h, true) })
			}
			w.converge(12)
			x.st.convChecked.Add(1)
		})
		for _, g := range gk {
			x.global[g] = struct{}{}
		}
		frontier = next
		x.perDepth = append(x.perDepth, len(next))
		x.maxDepth = d + 1
		fmt.Fprintf(os.Stderr, "c09 %s depth %d: new states %d, total %d, executions %d\n", x.cfg.mode(), d+1, len(next), len(x.visited), x.st.executions.Load())
		if len(x.visited) > maxStates {
			x.run.Incomplete(fmt.Sprintf("%s: state cap %d hit at depth %d", x.cfg.mode(), maxStates, d+1))
			return
		}
	}
}

func (x *explorer) enabledOps(w *world) []int32 {
	var e []int32
	for i, o := range x.alpha {
		if w.applicable(o) {
			e = append(e, int32(i))
		}
	}
	return e
}

// ---------- main ----------

// replayOnce re-runs a stored history on a fresh instance with all oracles and says whether a
// violation with the wanted key (any key if empty) shows up again.
func replayOnce(rep replay, wantKey string, verbose bool) bool {
	cfg := &config{codec: rep.Mode == "codec", maxRegions: 4, maxBack: 2, budgetMs: 20000, fixMockBatchScan: true}
	mv := mocktikv.MustNewMVCCStore()
	defer mv.Close()
	w := newWorld(cfg, mv, &stats{})
	w.check = true
	hit := false
	w.report = func(key, what string) {
		if verbose {
			fmt.Printf("  violation key=%s: %s\n", key, what)
		}
		if wantKey == "" || key == wantKey {
			hit = true
		}
	}
	for _, o := range rep.Ops {
		if !w.applicable(o) {
			if verbose {
				fmt.Printf("  %-40s not applicable (skipped)\n", o)
			}
			continue
		}
		out := w.apply(o)
		if verbose {
			fmt.Printf("  %-40s -> %-28s cluster %s cache %s\n", o, out, w.topoStr(), w.cacheStr(&w.prev))
		}
		if w.dead {
			return hit
		}
	}
	if rep.Converge {
		w.converge(12)
	}
	return hit
}

func runReplay(path string) {
	b, err := os.ReadFile(path)
	if err != nil {
		fmt.Fprintln(os.Stderr, err)
		os.Exit(2)
	}
	var f struct {
		Key    string `json:"key"`
		Replay replay `json:"replay"`
	}
	if err := json.Unmarshal(b, &f); err != nil {
		fmt.Fprintln(os.Stderr, err)
		os.Exit(2)
	}
	if replayOnce(f.Replay, f.Key, true) {
		fmt.Printf("VIOLATION property=C09 replay=%s\n", path)
		os.Exit(1)
	}
	fmt.Println("replay: violation not reproduced")
	os.Exit(0)
}

func main() {
	replayFile := flag.String("replay", "", "re-run the op sequence of a replay file")
	depthFlag := flag.Int("depth", 0, "override search depth (both modes)")
	modeFlag := flag.String("mode", "", "plain|codec: run only this mode")
	planFlag := flag.String("plan", os.Getenv("VERIF_ONLY"), "run only the plans whose name contains this substring (also env VERIF_ONLY); the evidence is then marked not exhaustive")
	flag.Parse()

	log.ReplaceGlobals(zap.NewNop(), &log.ZapProperties{Level: zap.NewAtomicLevel()})
	// Back-off without sleeping, the way the repository's tests do it: the budget accounting
	// stays, only time.After is skipped.
	util.EnableFailpoints()
	if err := failpoint.Enable("tikvclient/fastBackoffBySkipSleep", "return"); err != nil {
		fmt.Fprintln(os.Stderr, "cannot enable fastBackoffBySkipSleep:", err)
		os.Exit(2)
	}
	if *replayFile != "" {
		runReplay(*replayFile)
	}
	if pf := os.Getenv("C09_CPUPROFILE"); pf != "" {
		if f, err := os.Create(pf); err == nil {
			pprof.StartCPUProfile(f)
			defer pprof.StopCPUProfile()
		}
	}

	run := ev.Start("C09", "model_checking")
	all := []int{0, 1, 2, 3, 4}
	type plan struct {
		name  string
		cfg   config
		spec  alphaSpec
		depth int
		roots []string // names of rootSets entries; nil = the two cold roots
	}
	base := config{maxRegions: 4, maxBack: 1, budgetMs: 20000, fixMockBatchScan: true}
	codecOf := func(c config) config { c.codec = true; return c }
	// small: split points b,d (<= 3 regions), ranges/batches over a,c,e(+inf), no peer changes.
	small := alphaSpec{splitKeys: []int{1, 3}, lookupKeys: all, cacheKeys: []int{0, 2, 4}, rangeStarts: []int{0, 2},
		maxBatch: 2, batchBounds: []int{0, 2, 4}, groupMax: 2, maxBack: 1, stores: true}
	smallCfg := base
	smallCfg.maxRegions = 3
	// medium: every pool key everywhere; ranges start at pool keys, batches of <= 2 ranges, groups of <= 2
	// keys, the new region of a split takes the right half, stale answers one table back.
	medium := alphaSpec{splitKeys: all, lookupKeys: all, cacheKeys: all, rangeStarts: all,
		maxBatch: 2, batchBounds: all, groupMax: 2, maxBack: 1, peers: true, stores: true}
	// full: additionally ranges from -inf, batches of <= 3 ranges, groups of <= 3 keys, left-half splits,
	// stale answers up to two tables back.
	full := alphaSpec{splitKeys: all, lookupKeys: all, cacheKeys: all, rangeStarts: []int{-1, 0, 1, 2, 3, 4},
		maxBatch: 3, batchBounds: all, groupMax: 3, maxBack: 2, splitLeft: true, peers: true, stores: true, emptyKey: true}
	fullCfg := base
	fullCfg.maxBack = 2
	// Reload-scheduled cache states are first-class letters of every alphabet: sched(k) and selm(k)
	// (see world.apply); gc turns a pending delayed reload into a ready one.
	small.sched, medium.sched, full.sched = true, true, true
	// The reload part: its own search from WARM roots (all three regions cached; the second root
	// additionally has [,b) flagged reload-on-access, [b,d) delayed-reload-ready and store 1's epoch
	// stale), so that  schedule -> topology change / stale PD answer -> lookup  chains fit into the
	// depth. Every lookup API, every pool key (LocateEndKey exactly on region borders included),
	// topology letters, stale PD answers; no invalidate / expire / drop letters (main plans).
	reload := alphaSpec{splitKeys: all, lookupKeys: all, cacheKeys: all, rangeStarts: all,
		maxBatch: 2, batchBounds: []int{0, 2, 4}, groupMax: 2, maxBack: 1, peers: true, sched: true, noInval: true}
	reloadFull := reload
	reloadFull.rangeStarts, reloadFull.batchBounds, reloadFull.maxBack, reloadFull.stores, reloadFull.splitLeft = []int{-1, 0, 1, 2, 3, 4}, all, 2, true, true
	warm := []string{"warm3", "warm3-reload-scheduled"}
	// The derived-split part (see derivedRoots): its own search from generated roots in which a warm
	// region has just been split - by default with the ORIGINAL id staying on the RIGHT half (splitl,
	// TiKV's right derive) - so that the chains  conf change / scripted EpochNotMatch answer in either
	// order / eviction of the leftover older version by an intersecting insert or by TTL GC / stale PD
	// answer with the same version and a lower conf version / reload  fit into the depth. Every point
	// lookup API incl. sendx, ranges from a, inval / expire / gc / drop, every topology letter incl. both
	// split kinds and peer changes, stale answers.
	derived := alphaSpec{splitKeys: all, lookupKeys: all, cacheKeys: all, rangeStarts: []int{0}, groupMax: 0, maxBatch: 0,
		maxBack: 1, peers: true, splitLeft: true, sendx: true, lookupKinds: []string{"locate", "byid", "send"}}
	derivedMore := derived
	derivedMore.lookupKinds = []string{"locate", "locend", "byid", "byidc", "send"}
	derivedFull := derived
	derivedFull.rangeStarts, derivedFull.maxBack, derivedFull.stores, derivedFull.sched, derivedFull.lookupKinds = all, 2, true, true, nil
	var plans []plan
	if run.Quick() {
		mc := medium
		mc.stores, mc.peers = false, false
		rc := reload
		rc.peers = false
		plans = []plan{
			{"plain/medium", base, medium, 4, nil},
			{"codec/medium-no-store-peer-ops", codecOf(base), mc, 3, nil},
			{"plain/reload-scheduled", base, reload, 4, warm},
			{"codec/reload-scheduled-no-peer-ops", codecOf(base), rc, 3, warm},
			{"plain/derived-split", base, derived, 4, derivedRootNames("quick")},
		}
	} else {
		plans = []plan{
			{"plain/full", fullCfg, full, 4, nil},
			{"codec/full", codecOf(fullCfg), full, 4, nil},
			{"plain/medium", base, medium, 5, nil},
			{"plain/small", smallCfg, small, 6, nil},
			{"plain/reload-scheduled", base, reload, 5, warm},
			{"plain/reload-scheduled-full", fullCfg, reloadFull, 4, warm},
			{"codec/reload-scheduled", codecOf(base), reload, 4, warm},
			{"plain/derived-split", base, derivedMore, 5, derivedRootNames("right13")},
			{"plain/derived-split-grid", base, derivedMore, 4, derivedRootNames("all")},
			{"plain/derived-split-full", fullCfg, derivedFull, 3, derivedRootNames("all")},
			{"codec/derived-split", codecOf(base), derived, 4, derivedRootNames("quick")},
			{"plain/derived-split-from-warm", base, derived, 5, []string{"warm1", "warm3"}},
		}
	}
	s3 := []Op{{Kind: "split", K: 1}, {Kind: "split", K: 3}}
	w3 := append(append([]Op{}, s3...), Op{Kind: "range", R: [][2]int{{0, inf}}})
	rootSets := map[string]struct {
		ops  []Op
		desc string
	}{
		"cold1":                  {nil, "1 region, cold cache"},
		"cold3":                  {s3, "3 regions [,b) [b,d) [d,+inf), cold cache"},
		"warm3":                  {w3, "3 regions [,b) [b,d) [d,+inf), all cached (LocateKeyRange(a,+inf))"},
		"warm3-reload-scheduled": {append(append([]Op{}, w3...), Op{Kind: "sched", K: 0}, Op{Kind: "selm", K: 2}, Op{Kind: "gc"}), "3 regions all cached; OnSendFail(scheduleReload) on [,b) -> needReloadOnAccess and store 1 epoch stale; replica selector on [b,d) + one gc round -> needDelayedReloadReady"},
	}

	rootSets["warm1"] = struct {
		ops  []Op
		desc string
	}{[]Op{{Kind: "locate", K: 0}}, "1 region [,+inf), cached (LocateKey(a))"}
	for _, r := range derivedRoots() {
		rootSets[r.name] = struct {
			ops  []Op
			desc string
		}{r.ops, r.desc}
	}

	workers := runtime.NumCPU()
	if workers > 32 {
		workers = 32
	}
	mvccs := make([]mocktikv.MVCCStore, workers)
	for i := range mvccs {
		mvccs[i] = mocktikv.MustNewMVCCStore()
	}
	st := &stats{}
	coll := &collector{m: map[string]*violRec{}}
	samples := ev.NewSamples(10, run.Seed)
	outcomes := map[string]int64{}
	bounds := map[string]any{}
	states := 0
	global := map[digest]struct{}{}
	for _, p := range plans {
		if *modeFlag != "" && *modeFlag != p.cfg.mode() {
			continue
		}
		if *planFlag != "" && !strings.Contains(p.name, *planFlag) {
			run.Incomplete("plan " + p.name + " skipped by -plan/VERIF_ONLY=" + *planFlag)
			continue
		}
		if *depthFlag > 0 {
			p.depth = *depthFlag
		}
		cfg := p.cfg
		if p.roots == nil {
			p.roots = []string{"cold1", "cold3"}
		}
		var roots [][]Op
		var rootDesc []string
		for _, rn := range p.roots {
			roots = append(roots, rootSets[rn].ops)
			rootDesc = append(rootDesc, rootSets[rn].desc)
		}
		x := &explorer{global: global, run: run, cfg: &cfg, alpha: buildAlphabet(p.spec), depth: p.depth, st: st, coll: coll,
			outcomes: outcomes, samples: samples, workers: workers, roots: roots}
		fmt.Fprintf(os.Stderr, "c09 %s: alphabet %d ops, depth %d, %d workers\n", p.name, len(x.alpha), p.depth, workers)
		div0, rl0 := st.diverged.Load(), st.reloadLookups.Load()
		rd0, e10, e20, sc0, lo0 := st.rightDerive.Load(), st.enmDerivedFirst.Load(), st.enmDerivedLast.Load(), st.staleLowerConf.Load(), st.stLeftover.Load()
		x.search(mvccs)
		states = len(global)
		bounds[p.name] = map[string]any{"depth_requested": p.depth, "depth_completed": x.maxDepth, "alphabet_ops": len(x.alpha),
			"new_states_per_depth": x.perDepth, "roots": rootDesc, "reload_scheduling_letters": p.spec.sched,
			"scripted_epoch_not_match_letters": p.spec.sendx, "right_derive_split_letters": p.spec.splitLeft,
			"right_derive_splits": st.rightDerive.Load() - rd0, "epoch_not_match_rewritten_derived_first": st.enmDerivedFirst.Load() - e10, "epoch_not_match_rewritten_derived_last": st.enmDerivedLast.Load() - e20,
			"stale_pd_answers_same_version_lower_conf_version_than_cached": st.staleLowerConf.Load() - sc0, "states_with_leftover_older_version": st.stLeftover.Load() - lo0,
			"lookups_on_reload_scheduled_entry": st.reloadLookups.Load() - rl0, "replay_divergences": st.diverged.Load() - div0, "key_pool": pool, "max_regions": cfg.maxRegions, "stores": 3, "stale_tables_back": cfg.maxBack}
	}

	keys := make([]string, 0, len(coll.m))
	for k := range coll.m {
		keys = append(keys, k)
	}
	sort.Strings(keys)
	vcount := map[string]int64{}
	for _, k := range keys {
		v := coll.m[k]
		vcount[k] = v.count
		// DESIGN 6 (4): a violation is re-run from its replay artefact before it is reported
		again := 0
		for i := 0; i < 5; i++ {
			if replayOnce(v.rep, v.key, false) {
				again++
			}
		}
		if again == 0 {
			run.Incomplete(fmt.Sprintf("violation %s (%s) did not reproduce from its replay in 5 runs: not reported", k, v.what))
			continue
		}
		if again < 5 {
			run.Note("violation %s reproduced only %d/5 times from its replay", k, again)
		}
		n := v.count
		if n > 1000 {
			n = 1000
		}
		for i := int64(0); i < n; i++ {
			run.Violation(v.key, v.what, v.rep)
		}
		run.Note("violation %s: %d failing executions, shortest: %s", k, v.count, strings.Join(v.rep.Text, "; "))
	}
	if st.mockBatchScanDiverged.Load() > 0 {
		run.Note("mocktikv pdClient.BatchScanRegions skipped an unbounded range after an earlier range %d times (answer recomputed from Cluster.ScanRegions by the PD wrapper)", st.mockBatchScanDiverged.Load())
	}
	if st.diverged.Load() > 0 {
		run.Note("%d replays of a stored history reached a different canonical state (non-determinism)", st.diverged.Load())
	}
	outList := make([]string, 0, len(outcomes))
	for k := range outcomes {
		outList = append(outList, k)
	}
	sort.Strings(outList)
	cov := ev.Coverage{
		"states":                        states,
		"transitions":                   st.transitions.Load(),
		"executions":                    st.executions.Load(),
		"traces_validated_against_impl": st.executions.Load() + st.convChecked.Load(),
		"evaluations":                   st.evals.Load(),
		"distinct_nontrivial":           st.nontrivial.Load(),
		"rule": "BFS over op histories on a 3-store mock cluster (main plans: cold roots with 1 region / 3 regions; reload-scheduled plans: warm 3-region roots, one of them with entries already flagged needReloadOnAccess and needDelayedReloadReady), one search per plan (mode x alphabet x depth, see bounds), states counted once across plans of a mode; every enabled op of the alphabet is executed on a fresh instance after replaying the history; " +
			"states = distinct canonical (ground truth, cache dump, armed stale answer, older tables); non-trivial = cluster has >= 2 regions and the cache holds >= 1 entry; " +
			"every new state also gets the terminal convergence check (Get of every pool key must be served by the true leader); " +
			"reload-scheduled cache states are letters of every alphabet: sched(k) = GetTiKVRPCContext + OnSendFail(scheduleReload=true) on the cached entry of k, selm(k) = replica selector of a mixed replica read on an entry with a stale store epoch (-> needDelayedReloadPending), gc = one GC round (-> needDelayedReloadReady); " +
			"lookups_on_reload_scheduled_entry counts judged lookups that had to consult a usable entry flagged for reload, states_with_* count new states holding such an entry; a violation of such a lookup carries the key suffix :on-reload-scheduled-entry; " +
			"derived-split plans: BFS from GENERATED roots = grid layout {1 region split at c, middle of 3 regions split at c, last of 3 regions split at e} x derive side {right: original id stays on the right half (splitl), left} x {no conf change, a peer of the id-keeping half removed} x {cache holds only the parent, parent expired and id-keeping half looked up} (quick: the 4 right-derive roots with a conf change of the first two layouts, depth 4; thorough: the 8 right-derive roots of the first two layouts at depth 5, all 24 at depth 4 and at depth 3 with the full alphabet, codec mode at depth 4, and depth 5 from the plain warm roots), " +
			"alphabet = every point lookup incl. sendx(k,order) = send whose EpochNotMatch answers are rewritten TiKV-like (id-keeping region + all current regions overlapping the requested version's range, id-keeping region first / last), ranges from a, inval/expire/gc/drop, split/splitl/merge/leader/rmpeer/addpeer on every pool key, one-shot stale PD answers; " +
			"the no-regress oracle judges every installed entry of a region id the cache already held against the newest epoch among the HELD ENTRIES (version, then conf version), not against latestVersions (same_region_installs_judged)",
		"bounds":                                                       bounds,
		"distinct_outcomes":                                            len(outList),
		"outcome_counts":                                               outcomes,
		"duplicate_successors":                                         st.dups.Load(),
		"stale_pd_answers_served":                                      st.staleServed.Load(),
		"convergence_states":                                           st.convChecked.Load(),
		"convergence_gets_served":                                      st.convServed.Load(),
		"convergence_gets_skipped":                                     st.convSkipped.Load(),
		"convergence_rounds_total":                                     st.convRounds.Load(),
		"replay_divergences":                                           st.diverged.Load(),
		"instances_lost_to_panic":                                      st.deadInstances.Load(),
		"group_unknown_version":                                        st.groupUnknown.Load(),
		"mock_batchscan_divergence":                                    st.mockBatchScanDiverged.Load(),
		"lookups_on_reload_scheduled_entry":                            st.reloadLookups.Load(),
		"states_with_reload_scheduled_entry":                           st.stAnyReload.Load(),
		"states_with_need_reload_on_access":                            st.stOnAccess.Load(),
		"states_with_need_delayed_reload_pending":                      st.stPending.Load(),
		"states_with_need_delayed_reload_ready":                        st.stReady.Load(),
		"right_derive_splits":                                          st.rightDerive.Load(),
		"epoch_not_match_rewritten_derived_first":                      st.enmDerivedFirst.Load(),
		"epoch_not_match_rewritten_derived_last":                       st.enmDerivedLast.Load(),
		"same_region_installs_judged":                                  st.sameIDInstalls.Load(),
		"stale_pd_answers_lower_version_than_cached_same_region":       st.staleLowerVer.Load(),
		"stale_pd_answers_same_version_lower_conf_version_than_cached": st.staleLowerConf.Load(),
		"states_with_leftover_older_version_of_a_region":               st.stLeftover.Load(),
		"states_with_cached_region_forgotten_by_latest_versions":       st.stForgotten.Load(),
		"violation_counts":                                             vcount,
		"samples":                                                      samples.List(),
	}
	pprof.StopCPUProfile()
	run.Finish(cov, []string{
		"ground truth = mocktikv.Cluster; epochs are made TiKV-like by the harness after Split/Merge (new half gets parent's version+1 and conf version, merge target gets max+1) because the mock starts new regions at version 1, which would make epochs of overlapping regions incomparable",
		"every region always has a leader (the leader peer is never removed): LocateKeyRange documents that leaderless regions are omitted",
		"background goroutines of RegionCache are stopped (Close) right after construction; their bodies run as explicit ops: gc (gcRoundFunc), bgtick (checkAndResolve + health re-probe); liveness probe answers the cluster's store state",
		"TTL expiry by storing ttl=now-10 into the entry (as region_cache_test.go does); back-off sleeps skipped with the tikvclient/fastBackoffBySkipSleep failpoint, budget 20000 virtual ms per call",
		"a lookup may return a stale not-yet-invalidated cached region: containment/coverage are judged on the returned locations' own ranges; overlaps tolerated, order and gaps are not",
		"stale PD answer = the next region query (GetRegion/GetPrevRegion/GetRegionByID/ScanRegions/BatchScanRegions) is answered once from a complete older region table",
		"mocktikv pdClient.BatchScanRegions drops an unbounded range that follows another range; the PD wrapper recomputes such answers from Cluster.ScanRegions (counted in mock_batchscan_divergence)",
		"merge keeps the left region's id (mock limitation); GroupSortedMutationsByRegion (txnkv/transaction, unexported) is not driven",
		"reload scheduling: sched(k) is the single OnSendFail(scheduleReload=true, err) call the sender makes when its failed-store set covers the region (earlier failures of the same sender may have hit other regions); selm(k) runs newReplicaSelector + nextForReplicaReadMixed and drops the request before buildRPCContext (the randomly chosen target is discarded, only the deterministic flag / invalidation effects stay); the forwarding-proxy exhaustion path (enableForwarding) sets the same needReloadOnAccess flag and is not driven separately",
		"a lookup violation gets the suffix :on-reload-scheduled-entry only when the call consumed no stale PD answer (a stale answer keeps the key ...:after-stale-pd-answer)",
		"splitl(k) = Cluster.Split followed by swapping the two halves' ranges: the original region id (and its peers) keeps the RIGHT half, the new id gets the left half (TiKV's right derive); sendx rewrites only the CurrentRegions list of an EpochNotMatch answer the mock store gives anyway (the mock compares the whole epoch, TiKV only the version for reads: a conf-only difference is answered EpochNotMatch with the id-keeping region alone); the list names all current regions overlapping the old range (a batch split's answer), TiKV's single-split answer names the region and one sibling",
		"regress:region-id:* keys: 'held' = entries of the ordered index and of the by-version map in the dump taken at the previous PD query / op end, valid or not (an invalidated entry still blocks older descriptions in the unchanged code through latestVersions)",
	})
}

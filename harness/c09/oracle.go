package main

import (
	"fmt"
	"sort"
	"strings"
	"time"

	"github.com/tikv/client-go/v2/internal/locate"
)

func locStr(l *locate.KeyLocation) string {
	if l == nil {
		return "<nil>"
	}
	e := string(l.EndKey)
	if e == "" {
		e = "+inf"
	}
	return fmt.Sprintf("r%d@%d.%d[%s,%s)", l.Region.GetID(), l.Region.GetVer(), l.Region.GetConfVer(), l.StartKey, e)
}

func locsStr(ls []*locate.KeyLocation) string {
	var p []string
	for _, l := range ls {
		p = append(p, locStr(l))
	}
	return "[" + strings.Join(p, " ") + "]"
}

func (w *world) topoStr() string {
	var p []string
	for _, r := range w.topo() {
		e := r.end
		if e == "" {
			e = "+inf"
		}
		p = append(p, fmt.Sprintf("r%d@%d.%d[%s,%s)", r.id, r.ver, r.conf, r.start, e))
	}
	return strings.Join(p, " ")
}

func (w *world) cacheStr(d *locate.VerifC09Dump) string {
	now := time.Now().Unix()
	var p []string
	for _, e := range d.Sorted {
		end := string(e.End)
		if end == "" {
			end = "+inf"
		}
		p = append(p, fmt.Sprintf("r%d@%d.%d[%s,%s)%s%s", e.ID, e.Ver, e.ConfVer, e.Start, end, ttlClass(e.TTL, now), flagClass(e.SyncFlags)))
	}
	return "{" + strings.Join(p, " ") + "}"
}

// flagClass renders the reload-related sync flags of an entry (messages only).
func flagClass(f int32) string {
	s := ""
	if f&locate.VerifC09FlagReloadOnAccess != 0 {
		s += "!reload-on-access"
	}
	if f&locate.VerifC09FlagDelayedReloadPending != 0 {
		s += "!delayed-pending"
	}
	if f&locate.VerifC09FlagDelayedReloadReady != 0 {
		s += "!delayed-ready"
	}
	return s
}

func ttlClass(ttl, now int64) string {
	switch {
	case ttl == -1:
		return "!inv"
	case ttl < now:
		return "!exp"
	}
	return ""
}

// freshness classifies a returned location against the ground truth (outcome statistics only;
// a stale-but-not-yet-invalidated answer is legal).
func (w *world) freshness(l *locate.KeyLocation) string {
	for _, r := range w.topo() {
		if r.id == l.Region.GetID() {
			if r.ver == l.Region.GetVer() && r.conf == l.Region.GetConfVer() {
				return "fresh"
			}
			return "stale-epoch"
		}
	}
	return "stale-gone"
}

// checkLoc: the returned location must contain the key, judged on the location's own range
// ([start,end) for LocateKey/TryLocateKey, (start,end] for LocateEndKey).
func (w *world) checkLoc(api, k string, byEnd bool, l *locate.KeyLocation, err error) string {
	if err != nil {
		return "err:" + errClass(err)
	}
	if !w.check {
		return "ok"
	}
	w.st.evals.Add(1)
	s, e := string(l.StartKey), string(l.EndKey)
	ok := s <= k && (e == "" || k < e)
	if byEnd {
		ok = (k == "" && e == "") || (k != "" && s < k && (e == "" || k <= e))
	}
	if !ok {
		w.viol(api+":not-contained", fmt.Sprintf("%s returned %s which does not contain the key; cache before %s; cluster %s",
			w.curOp, locStr(l), w.cacheStr(&w.opPre), w.topoStr()))
		return "VIOL"
	}
	return "ok:" + w.freshness(l)
}

func (w *world) checkByID(id uint64, l *locate.KeyLocation, err error) string {
	if err != nil {
		return "err:" + errClass(err)
	}
	if !w.check {
		return "ok"
	}
	w.st.evals.Add(1)
	if l.Region.GetID() != id {
		w.report(w.classKey("locate-by-id:wrong-region"), fmt.Sprintf("%s asked for region %d, got %s", w.curOp, id, locStr(l)))
		return "VIOL"
	}
	return "ok:" + w.freshness(l)
}

// coverWalk: the locations, TAKEN IN ORDER, must cover every requested range up to its end
// (an empty end is +inf and needs a location whose end is empty). Judged on the returned
// locations' own ranges; overlaps and redundant entries are tolerated (a stale cached region
// next to a fresh one is legal), going backwards is not. Returns the first uncovered point.
func coverWalk(locs []*locate.KeyLocation, ranges [][2]string) (ok bool, missing string, overlap bool) {
	i := 0
	for _, r := range ranges {
		pos, fromLoc := r[0], false
		for {
			j := i
			for j < len(locs) && !(string(locs[j].StartKey) <= pos && (len(locs[j].EndKey) == 0 || pos < string(locs[j].EndKey))) {
				j++
			}
			if j == len(locs) {
				return false, pos, overlap
			}
			if fromLoc && string(locs[j].StartKey) < pos {
				overlap = true
			}
			i = j
			e := string(locs[j].EndKey)
			if e == "" || (r[1] != "" && e >= r[1]) {
				break
			}
			pos, fromLoc = e, true
		}
	}
	return true, "", overlap
}

func (w *world) checkCover(api string, ranges [][2]string, locs []*locate.KeyLocation, err error, pre *locate.VerifC09Dump) string {
	if err != nil {
		return "err:" + errClass(err)
	}
	if !w.check {
		return "ok"
	}
	w.st.evals.Add(1)
	ok, missing, overlap := coverWalk(locs, ranges)
	if !ok {
		// Classify by what the cache held for the uncovered point before the call: a usable entry
		// (any, not only the one a point search would pick) that reaches +inf, else a bounded one.
		class := "gap"
		now := time.Now().Unix()
		for i := range pre.Sorted {
			e := &pre.Sorted[i]
			if e.TTL < now || e.SyncFlags&9 != 0 || string(e.Start) > missing || (len(e.End) != 0 && missing >= string(e.End)) {
				continue
			}
			if len(e.End) == 0 {
				class = "cached-unbounded-last-region-dropped"
				break
			}
			class = "cached-region-dropped"
		}
		w.report(w.classKey(api+":"+class), fmt.Sprintf("%s returned %s: key %q of the requested ranges is not covered (in order); cache before %s; cluster %s",
			w.curOp, locsStr(locs), missing, w.cacheStr(pre), w.topoStr()))
		return "VIOL"
	}
	fresh := true
	for _, l := range locs {
		fresh = fresh && w.freshness(l) == "fresh"
	}
	out := fmt.Sprintf("ok:n=%d", len(locs))
	if !fresh {
		out += ":stale"
	}
	if overlap {
		out += ":overlap"
	}
	return out
}

// checkGroups: every key in exactly one group, and that group's region version contains the
// key. A RegionVerID carries no range; (id, version) determines the range (the version grows
// at every range change), so the range is taken from the tables recorded from the cluster.
func (w *world) checkGroups(keys [][]byte, groups map[locate.RegionVerID][][]byte, first locate.RegionVerID, err error) string {
	if err != nil {
		return "err:" + errClass(err)
	}
	if !w.check {
		return "ok"
	}
	w.st.evals.Add(1)
	seen := map[string]int{}
	var firstOf locate.RegionVerID
	for id, ks := range groups {
		rng, known := w.verRng[[2]uint64{id.GetID(), id.GetVer()}]
		for _, k := range ks {
			seen[string(k)]++
			if string(k) == string(keys[0]) {
				firstOf = id
			}
			if known && !(rng[0] <= string(k) && (rng[1] == "" || string(k) < rng[1])) {
				w.report(w.classKey("group-keys:region-does-not-contain-key"), fmt.Sprintf("%s put key %q into region %d ver %d = [%s,%s)", w.curOp, k, id.GetID(), id.GetVer(), rng[0], rng[1]))
				return "VIOL"
			}
			if !known {
				w.st.groupUnknown.Add(1)
			}
		}
	}
	for _, k := range keys {
		if seen[string(k)] != 1 {
			w.report(w.classKey("group-keys:key-not-in-exactly-one-group"), fmt.Sprintf("%s: key %q appears in %d groups", w.curOp, k, seen[string(k)]))
			return "VIOL"
		}
	}
	if firstOf != first {
		w.report(w.classKey("group-keys:first-region-mismatch"), fmt.Sprintf("%s: first=%v but key %q is in %v", w.curOp, first, keys[0], firstOf))
		return "VIOL"
	}
	return fmt.Sprintf("ok:groups=%d", len(groups))
}

// checkNoRegress compares two consecutive white-box dumps. Between two dumps the cache has
// installed at most the regions of ONE PD answer / one store answer (dumps are taken at every
// PD region query and after every op), so "what the cache already holds" is the older dump.
//  1. per region id the newest cached version / conf version (the cache's own latestVersions
//     bookkeeping) never decreases;
//  2. a newly installed entry is not older (version) than a previously cached entry that
//     starts inside its range, nor older than a previously cached entry of the same region;
//  3. per region id, INDEPENDENT of latestVersions: the newest epoch among the entries the cache
//     held (ordered index and by-version map of the older dump, valid or not) is computed by the
//     harness; a newly installed entry of that id with a lower version, or with that version and
//     a lower conf version, is a regression. The key says which component went back and whether
//     the cache's latestVersions had lost the id at that moment although it still held an entry
//     of it (the state that disarms the cache's own same-region check).
func (w *world) checkNoRegress(a, b *locate.VerifC09Dump) {
	w.st.evals.Add(1)
	old := map[uint64][2]uint64{}
	for _, l := range a.Latest {
		old[l[0]] = [2]uint64{l[1], l[2]}
	}
	for _, l := range b.Latest {
		if o, ok := old[l[0]]; ok && (l[1] < o[0] || l[2] < o[1]) {
			w.report("regress:latest-version-decreased", fmt.Sprintf("%s: region %d cached as ver %d conf %d, was ver %d conf %d; cache before %s after %s",
				w.curOp, l[0], l[1], l[2], o[0], o[1], w.cacheStr(a), w.cacheStr(b)))
		}
	}
	had := map[[3]uint64]bool{}
	for _, e := range a.Sorted {
		had[[3]uint64{e.ID, e.Ver, e.ConfVer}] = true
	}
	// newest epoch held per region id, from the entries themselves (lexicographic: version, then
	// conf version among the entries of that version)
	held := map[uint64][2]uint64{}
	hold := func(es []locate.VerifC09Entry) {
		for i := range es {
			e := &es[i]
			if h, ok := held[e.ID]; !ok || e.Ver > h[0] || (e.Ver == h[0] && e.ConfVer > h[1]) {
				held[e.ID] = [2]uint64{e.Ver, e.ConfVer}
			}
		}
	}
	hold(a.Sorted)
	hold(a.Regions)
	for _, e := range a.Regions {
		had[[3]uint64{e.ID, e.Ver, e.ConfVer}] = true
	}
	reported := map[[3]uint64]bool{}
	for _, n := range b.Sorted {
		if had[[3]uint64{n.ID, n.Ver, n.ConfVer}] {
			continue
		}
		for _, o := range a.Sorted {
			inside := string(o.Start) >= string(n.Start) && (len(n.End) == 0 || string(o.Start) < string(n.End))
			if inside && o.Ver > n.Ver {
				w.report("regress:older-entry-installed-over-newer-overlapping", fmt.Sprintf("%s: installed r%d@%d [%s,%s) although r%d@%d starting at %q inside it was cached; cache before %s after %s",
					w.curOp, n.ID, n.Ver, n.Start, n.End, o.ID, o.Ver, o.Start, w.cacheStr(a), w.cacheStr(b)))
			}
			if o.ID == n.ID && (o.Ver > n.Ver || o.ConfVer > n.ConfVer) {
				w.report("regress:older-entry-of-same-region-installed", fmt.Sprintf("%s: installed r%d@%d.%d although r%d@%d.%d was cached; cache before %s after %s",
					w.curOp, n.ID, n.Ver, n.ConfVer, o.ID, o.Ver, o.ConfVer, w.cacheStr(a), w.cacheStr(b)))
			}
		}
		h, ok := held[n.ID]
		if !ok || reported[[3]uint64{n.ID, n.Ver, n.ConfVer}] {
			continue
		}
		w.st.sameIDInstalls.Add(1)
		what := ""
		switch {
		case n.Ver < h[0]:
			what = "version"
		case n.Ver == h[0] && n.ConfVer < h[1]:
			what = "conf-version"
		}
		if what == "" {
			continue
		}
		reported[[3]uint64{n.ID, n.Ver, n.ConfVer}] = true
		key := "regress:region-id:" + what + "-went-back"
		if _, known := old[n.ID]; !known {
			key += ":while-latest-version-forgotten"
		}
		w.report(key, fmt.Sprintf("%s: installed r%d@%d.%d [%s,%s) although the cache held r%d@%d.%d (latestVersions before: %v); cache before %s after %s",
			w.curOp, n.ID, n.Ver, n.ConfVer, n.Start, n.End, n.ID, h[0], h[1], old[n.ID], w.cacheStr(a), w.cacheStr(b)))
	}
}

// leftoverIDs: region ids of which the ordered index holds more than one entry (an older version
// of the region lingering under another start key next to a newer one).
func leftoverIDs(d *locate.VerifC09Dump) int {
	n, seen := 0, map[uint64]int{}
	for i := range d.Sorted {
		seen[d.Sorted[i].ID]++
		if seen[d.Sorted[i].ID] == 2 {
			n++
		}
	}
	return n
}

// forgottenIDs: region ids with an entry in the ordered index but none in latestVersions.
func forgottenIDs(d *locate.VerifC09Dump) int {
	lat := map[uint64]bool{}
	for _, l := range d.Latest {
		lat[l[0]] = true
	}
	n, seen := 0, map[uint64]bool{}
	for i := range d.Sorted {
		if id := d.Sorted[i].ID; !lat[id] && !seen[id] {
			seen[id] = true
			n++
		}
	}
	return n
}

// ---- canonical state key ----

type renamer struct {
	m map[uint64]int
}

func (r *renamer) of(id uint64) int {
	if id == 0 {
		return 0
	}
	if v, ok := r.m[id]; ok {
		return v
	}
	r.m[id] = len(r.m) + 1
	return r.m[id]
}

// canon is the dedup key: ground truth (region table with epochs, peers, leaders, store
// up/down), the complete cache content (three index structures, per entry validity class,
// sync flags, invalid reason, peers, believed leader, store-epoch staleness, cached store
// states), the armed stale answer and the older tables a stale answer could still come from.
// Region and peer ids are renamed in order of first appearance (fresh ids are never compared
// by value in the code under test), so states that differ only in id numbering merge.
// Nothing else survives between two ops: back-offers, senders and replica selectors are
// created per call. Merged states therefore have the same futures for every observation.
func (w *world) canon() string {
	var b strings.Builder
	rid, pid := &renamer{m: map[uint64]int{}}, &renamer{m: map[uint64]int{}}
	table := func(t []regionInfo) {
		for _, r := range t {
			fmt.Fprintf(&b, "%d@%d.%d[%s,%s)L%d{", rid.of(r.id), r.ver, r.conf, r.start, r.end, pid.of(r.leader))
			for _, p := range r.peers {
				fmt.Fprintf(&b, "%d/%d,", pid.of(p.id), p.store)
			}
			b.WriteString("}")
		}
	}
	b.WriteString("T")
	table(w.topo())
	b.WriteString("|U")
	for _, s := range w.stores {
		if w.up[s] {
			b.WriteByte('1')
		} else {
			b.WriteByte('0')
		}
	}
	fmt.Fprintf(&b, "|P%d", w.pd.pending)
	for back := 1; back <= w.cfg.maxBack; back++ {
		b.WriteString("|H")
		if len(w.hist) > back {
			table(snapInfo(w, w.hist[len(w.hist)-1-back]))
		}
	}
	now := time.Now().Unix()
	entry := func(e *locate.VerifC09Entry) string {
		var s strings.Builder
		fmt.Fprintf(&s, "%d@%d.%d[%s,%s)%s f%d r%d w%d{", rid.of(e.ID), e.Ver, e.ConfVer, e.Start, e.End, ttlClass(e.TTL, now), e.SyncFlags, e.InvalidReason, e.WorkStore)
		for i := range e.PeerStores {
			id := uint64(0)
			if i < len(e.PeerIDs) {
				id = e.PeerIDs[i]
			}
			fmt.Fprintf(&s, "%d/%d/%v,", pid.of(id), e.PeerStores[i], e.EpochStale[i])
		}
		s.WriteString("}")
		return s.String()
	}
	d := &w.prev
	b.WriteString("|C")
	for i := range d.Sorted {
		b.WriteString(entry(&d.Sorted[i]))
	}
	// the by-version map and the latest-version map, in an order that does not depend on raw ids
	// unless two entries are otherwise identical
	regs := append([]locate.VerifC09Entry{}, d.Regions...)
	sort.Slice(regs, func(i, j int) bool {
		x, y := &regs[i], &regs[j]
		if string(x.Start) != string(y.Start) {
			return string(x.Start) < string(y.Start)
		}
		if x.Ver != y.Ver {
			return x.Ver < y.Ver
		}
		if x.ConfVer != y.ConfVer {
			return x.ConfVer < y.ConfVer
		}
		return x.ID < y.ID
	})
	b.WriteString("|M")
	for i := range regs {
		b.WriteString(entry(&regs[i]))
	}
	var lat []string
	for _, l := range d.Latest {
		lat = append(lat, fmt.Sprintf("%d@%d.%d", rid.of(l[0]), l[1], l[2]))
	}
	sort.Strings(lat)
	b.WriteString("|L" + strings.Join(lat, ","))
	var sts []string
	for _, s := range d.Stores {
		sts = append(sts, fmt.Sprintf("%d:%d:%d", s.ID, s.Resolve, s.Liveness))
	}
	sort.Strings(sts)
	b.WriteString("|S" + strings.Join(sts, ","))
	return b.String()
}

// nontrivial: at least two regions in the cluster and at least one cached entry.
func (w *world) nontrivial() bool {
	return len(w.cluster.GetAllRegions()) >= 2 && len(w.prev.Sorted) >= 1
}

// countReloadState: coverage of the reload-scheduled cache-state class (usable entries only).
func (w *world) countReloadState() {
	now := time.Now().Unix()
	var f int32
	for i := range w.prev.Sorted {
		if e := &w.prev.Sorted[i]; e.TTL > now {
			f |= e.SyncFlags
		}
	}
	if f&locate.VerifC09FlagReloadOnAccess != 0 {
		w.st.stOnAccess.Add(1)
	}
	if f&locate.VerifC09FlagDelayedReloadPending != 0 {
		w.st.stPending.Add(1)
	}
	if f&locate.VerifC09FlagDelayedReloadReady != 0 {
		w.st.stReady.Add(1)
	}
	if f&(locate.VerifC09FlagReloadOnAccess|locate.VerifC09FlagDelayedReloadPending|locate.VerifC09FlagDelayedReloadReady) != 0 {
		w.st.stAnyReload.Add(1)
	}
	// coverage of the leftover-version class
	if leftoverIDs(&w.prev) > 0 {
		w.st.stLeftover.Add(1)
	}
	if forgottenIDs(&w.prev) > 0 {
		w.st.stForgotten.Add(1)
	}
}

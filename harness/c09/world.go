package main

import (
	"context"
	"errors"
	"fmt"
	"os"
	"sort"
	"strings"
	"time"

	"github.com/pingcap/kvproto/pkg/kvrpcpb"
	"github.com/pingcap/kvproto/pkg/metapb"
	"github.com/tikv/client-go/v2/config/retry"
	"github.com/tikv/client-go/v2/internal/apicodec"
	"github.com/tikv/client-go/v2/internal/client"
	"github.com/tikv/client-go/v2/internal/locate"
	"github.com/tikv/client-go/v2/internal/mockstore/mocktikv"
	"github.com/tikv/client-go/v2/kv"
	"github.com/tikv/client-go/v2/oracle"
	"github.com/tikv/client-go/v2/tikvrpc"
	"github.com/tikv/client-go/v2/util/codec"
	pd "github.com/tikv/pd/client"
	"github.com/tikv/pd/client/clients/router"
)

// pool is the key pool: lookup keys, split points and range bounds. Index
// len(pool) as a range end means "" (+inf), index -1 as a range start means "" (-inf).
var pool = []string{"a", "b", "c", "d", "e"}

const inf = 5

func keyOf(i int) string {
	if i < 0 || i >= len(pool) {
		return ""
	}
	return pool[i]
}

// Op is one explorer decision. JSON form is the replay artefact.
type Op struct {
	Kind string   `json:"op"`
	K    int      `json:"k,omitempty"`    // key index; store index (0..2) for stop/start; snapshots back for stale
	R    [][2]int `json:"r,omitempty"`    // ranges for range/batch
	Keys []int    `json:"keys,omitempty"` // keys for group
	Ord  int      `json:"ord,omitempty"`  // sendx: order of the regions in the scripted EpochNotMatch answer (1 = derived region first, 2 = derived region last)
}

func (o Op) String() string {
	switch o.Kind {
	case "stop", "start":
		return fmt.Sprintf("%s(store#%d)", o.Kind, o.K+1)
	case "stale":
		return fmt.Sprintf("pdStaleOnce(back=%d)", o.K)
	case "drop", "gc", "bgtick":
		return o.Kind
	case "sendx":
		return fmt.Sprintf("sendx(%s,%s)", keyOf(o.K), enmOrdName(o.Ord))
	case "range", "batch":
		var p []string
		for _, r := range o.R {
			s, e := keyOf(r[0]), keyOf(r[1])
			if s == "" {
				s = "-inf"
			}
			if e == "" {
				e = "+inf"
			}
			p = append(p, "["+s+","+e+")")
		}
		return o.Kind + "(" + strings.Join(p, ",") + ")"
	case "group":
		var p []string
		for _, k := range o.Keys {
			p = append(p, keyOf(k))
		}
		return "group(" + strings.Join(p, ",") + ")"
	}
	if k := keyOf(o.K); k != "" {
		return fmt.Sprintf("%s(%s)", o.Kind, k)
	}
	return o.Kind + `("")`
}

// enmOrdName names the order of the current regions in a scripted EpochNotMatch answer. "Derived"
// is the region that kept the id of the region the request was addressed to.
func enmOrdName(ord int) string {
	if ord == enmDerivedLast {
		return "derived-last"
	}
	return "derived-first"
}

const (
	enmDerivedFirst = 1
	enmDerivedLast  = 2
)

var errInjectedSendFail = errors.New("injected: send failed on the last untried store")

type peerInfo struct{ id, store uint64 }

type regionInfo struct {
	id, ver, conf uint64
	start, end    string
	peers         []peerInfo
	leader        uint64 // peer id
}

func (r *regionInfo) contains(k string) bool {
	return r.start <= k && (r.end == "" || k < r.end)
}

func (r *regionInfo) leaderStore() uint64 {
	for _, p := range r.peers {
		if p.id == r.leader {
			return p.store
		}
	}
	return 0
}

func (r *regionInfo) storeSet() string {
	var s []int
	for _, p := range r.peers {
		s = append(s, int(p.store))
	}
	sort.Ints(s)
	return fmt.Sprint(s)
}

type config struct {
	codec            bool // CodecPDClient(ModeTxn) + mem-comparable region keys, else plain PD client + raw keys
	maxRegions       int
	maxBack          int // how many topology changes back a stale PD answer may go
	budgetMs         int // back-off budget per API call (virtual: sleeps are skipped)
	fixMockBatchScan bool
}

func (c *config) mode() string {
	if c.codec {
		return "codec"
	}
	return "plain"
}

// world is one instance: real mock cluster + mock PD (wrapped) + real RegionCache + mock RPC client.
type world struct {
	cfg          *config
	st           *stats
	cluster      *mocktikv.Cluster
	pd           *stalePD
	cache        *locate.RegionCache
	client       client.Client
	stores       []uint64
	up           map[uint64]bool
	hist         [][]*router.Region      // region table after every region-changing topology op (hist[0] = initial)
	verRng       map[[2]uint64][2]string // (region id, version) -> range, from every table ever recorded
	epochPatched bool                    // the topology op just applied was edited by the harness (splitl)
	prev         locate.VerifC09Dump     // last white-box dump (for the no-regression check)
	check        bool                    // oracles on/off (off while replaying a prefix)
	report       func(key, what string)  // violation sink
	curOp        string                  // for messages
	tp           []regionInfo            // cached ground truth (reset by snapshot)
	served0      int                     // stale answers served before the current op
	dead         bool                    // the code under test panicked: locks may be held, do not touch the instance again
	opPre        locate.VerifC09Dump     // dump at the start of the current op (messages)
	reloadHit    bool                    // the current lookup touches a usable cached entry that is scheduled for reload
	enmOrd       int                     // != 0 while a sendx op runs: EpochNotMatch answers of the store are rewritten TiKV-like in this order
	enmDone      int                     // EpochNotMatch answers rewritten by the current op
}

type codecClient struct {
	client.Client
	codec apicodec.Codec
}

func (c *codecClient) SendRequest(ctx context.Context, addr string, req *tikvrpc.Request, timeout time.Duration) (*tikvrpc.Response, error) {
	req, err := c.codec.EncodeRequest(req)
	if err != nil {
		return nil, err
	}
	resp, err := c.Client.SendRequest(ctx, addr, req, timeout)
	if err != nil {
		return nil, err
	}
	return c.codec.DecodeResponse(req, resp)
}

// enmClient sits directly on the mock RPC client (below the codec wrapper). While a sendx op runs
// it rewrites the CurrentRegions list of every EpochNotMatch answer the way a TiKV store reports
// it: the region that still has the request's id plus every other current region that overlaps the
// range the request's (id, version) stood for - i.e. the siblings created by the split(s) - with
// the id-keeping ("derived") region first or last. The mock itself always answers
// [region, right neighbour], so the LEFT sibling of a right-derive split is never reported by it
// (except by accident when the region is the last one: its "next" region is the first region).
type enmClient struct {
	client.Client
	w *world
}

func (c *enmClient) SendRequest(ctx context.Context, addr string, req *tikvrpc.Request, timeout time.Duration) (*tikvrpc.Response, error) {
	resp, err := c.Client.SendRequest(ctx, addr, req, timeout)
	if err != nil || resp == nil || c.w.enmOrd == 0 {
		return resp, err
	}
	re, rerr := resp.GetRegionError()
	if rerr != nil || re == nil || re.GetEpochNotMatch() == nil {
		return resp, err
	}
	if cur := c.w.tikvCurrentRegions(req.Context.GetRegionId(), req.Context.GetRegionEpoch().GetVersion(), c.w.enmOrd); cur != nil {
		re.EpochNotMatch.CurrentRegions = cur
		c.w.enmDone++
		if c.w.check {
			if c.w.enmOrd == enmDerivedLast {
				c.w.st.enmDerivedLast.Add(1)
			} else {
				c.w.st.enmDerivedFirst.Add(1)
			}
		}
	}
	return resp, err
}

// overlapsOld: the current regions other than `id` that overlap the range [s,e) (key order).
func overlapsOld(t []regionInfo, id uint64, s, e string) []uint64 {
	var out []uint64
	for i := range t {
		r := &t[i]
		if r.id != id && (e == "" || r.start < e) && (r.end == "" || s < r.end) {
			out = append(out, r.id)
		}
	}
	return out
}

// tikvCurrentRegions builds the scripted CurrentRegions list (clones of the cluster's metas, in
// the cluster's own key encoding). nil = leave the mock's answer alone (unknown old range, region gone).
func (w *world) tikvCurrentRegions(id, ver uint64, ord int) []*metapb.Region {
	rng, ok := w.verRng[[2]uint64{id, ver}]
	self, _ := w.cluster.GetRegion(id)
	if !ok || self == nil {
		return nil
	}
	var others []*metapb.Region
	for _, oid := range overlapsOld(w.topo(), id, rng[0], rng[1]) {
		if m, _ := w.cluster.GetRegion(oid); m != nil {
			others = append(others, m)
		}
	}
	if ord == enmDerivedLast {
		return append(others, self)
	}
	return append([]*metapb.Region{self}, others...)
}

func newWorld(cfg *config, mvcc mocktikv.MVCCStore, st *stats) *world {
	w := &world{cfg: cfg, st: st, up: map[uint64]bool{}, verRng: map[[2]uint64][2]string{}}
	w.cluster = mocktikv.NewCluster(mvcc)
	w.stores, _, _, _ = mocktikv.BootstrapWithMultiStores(w.cluster, 3)
	for _, s := range w.stores {
		w.up[s] = true
	}
	w.pd = &stalePD{Client: mocktikv.NewPDClient(w.cluster), w: w}
	var pdc pd.Client = w.pd
	if cfg.codec {
		pdc = locate.NewCodecPDClient(apicodec.ModeTxn, w.pd)
	}
	w.cache = locate.NewRegionCache(pdc)
	// Stop the background goroutines (store resolve, health, GC ticks) the way the tests tear
	// down; their bodies are explorer operations instead (gc, bgtick). The runner stays closed,
	// so the health-check loop that a failed send would start is not spawned either.
	w.cache.Close()
	locate.VerifC09SetLiveness(w.cache, func(id uint64) bool { return w.up[id] })
	var cl client.Client = &enmClient{Client: mocktikv.NewRPCClient(w.cluster, mvcc, nil), w: w}
	if cfg.codec {
		cl = &codecClient{Client: cl, codec: apicodec.NewCodecV1(apicodec.ModeTxn)}
	}
	w.client = cl
	w.snapshot()
	w.prev = locate.VerifC09DumpCache(w.cache)
	return w
}

func (w *world) dec(k []byte) string {
	if len(k) == 0 || !w.cfg.codec {
		return string(k)
	}
	_, raw, err := codec.DecodeBytes(k, nil)
	if err != nil {
		panic(fmt.Sprintf("harness: cannot decode region key %x: %v", k, err))
	}
	return string(raw)
}

func (w *world) infoOf(m *metapb.Region, leader uint64) regionInfo {
	ri := regionInfo{id: m.Id, ver: m.GetRegionEpoch().GetVersion(), conf: m.GetRegionEpoch().GetConfVer(),
		start: w.dec(m.StartKey), end: w.dec(m.EndKey), leader: leader}
	for _, p := range m.Peers {
		ri.peers = append(ri.peers, peerInfo{p.Id, p.StoreId})
	}
	return ri
}

// topo reads the ground truth from the mock cluster, sorted by start key.
func (w *world) topo() []regionInfo {
	if w.tp != nil {
		return w.tp
	}
	var out []regionInfo
	for _, r := range w.cluster.GetAllRegions() {
		_, leader := w.cluster.GetRegion(r.Meta.Id)
		out = append(out, w.infoOf(r.Meta, leader))
	}
	sort.Slice(out, func(i, j int) bool { return out[i].start < out[j].start })
	w.tp = out
	return out
}

func snapInfo(w *world, s []*router.Region) []regionInfo {
	var out []regionInfo
	for _, r := range s {
		out = append(out, w.infoOf(r.Meta, r.Leader.GetId()))
	}
	return out
}

func regionOf(t []regionInfo, k string) *regionInfo {
	for i := range t {
		if t[i].contains(k) {
			return &t[i]
		}
	}
	return nil
}

// snapshot records the current region table (what a fresh PD would answer).
func (w *world) snapshot() {
	w.tp = nil // the region table changed
	s := w.cluster.ScanRegions(nil, nil, 0)
	if w.check && len(w.hist) > 0 && !w.epochPatched {
		w.checkClusterEpochs(snapInfo(w, w.hist[len(w.hist)-1]), snapInfo(w, s))
	}
	w.epochPatched = false
	w.hist = append(w.hist, s)
	for _, r := range snapInfo(w, s) {
		w.verRng[[2]uint64{r.id, r.ver}] = [2]string{r.start, r.end}
	}
}

// checkClusterEpochs: the mock cluster itself has to order region descriptions the way the client's
// region cache relies on (and TiKV guarantees): a region whose key range changed (split, merge) carries
// a version greater than that of every region of the previous table that overlaps its new range -
// otherwise a client still holding one of those sees the new description as not newer and keeps or
// prefers the old one. Descriptions whose range did not change keep their version.
func (w *world) checkClusterEpochs(old, cur []regionInfo) {
	overlap := func(a, b *regionInfo) bool {
		return (a.end == "" || b.start < a.end) && (b.end == "" || a.start < b.end)
	}
	for i := range cur {
		n := &cur[i]
		changed := true
		for j := range old {
			o := &old[j]
			if o.id == n.id && o.start == n.start && o.end == n.end {
				changed = false
				if n.ver != o.ver {
					w.report("mock-cluster:version-changed-without-range-change", fmt.Sprintf("%s: region %d [%s,%s) went from version %d to %d although its range did not change", w.curOp, n.id, n.start, n.end, o.ver, n.ver))
				}
			}
		}
		if !changed {
			continue
		}
		for j := range old {
			o := &old[j]
			if overlap(n, o) && n.ver <= o.ver {
				w.report("mock-cluster:region-version-not-advanced", fmt.Sprintf("%s: region %d now covers [%s,%s) at version %d, but the previous table had region %d [%s,%s) at version %d overlapping it: a client holding that description does not see the new one as newer", w.curOp, n.id, n.start, n.end, n.ver, o.id, o.start, o.end, o.ver))
			}
		}
	}
}

func (w *world) live(id uint64) *mocktikv.Region {
	for _, r := range w.cluster.GetAllRegions() {
		if r.Meta.Id == id {
			return r
		}
	}
	return nil
}

func setEpoch(r *mocktikv.Region, conf, ver uint64) {
	r.Meta.RegionEpoch = &metapb.RegionEpoch{ConfVer: conf, Version: ver}
}

// cachedEntryFor mirrors SortedRegions.SearchByKey(key,false) on a dump.
func cachedEntryFor(d *locate.VerifC09Dump, k string) *locate.VerifC09Entry {
	var best *locate.VerifC09Entry
	for i := range d.Sorted {
		if string(d.Sorted[i].Start) <= k {
			best = &d.Sorted[i]
		}
	}
	if best != nil && (len(best.End) == 0 || k < string(best.End)) {
		return best
	}
	return nil
}

func verIDOf(e *locate.VerifC09Entry) locate.RegionVerID {
	return locate.NewRegionVerID(e.ID, e.ConfVer, e.Ver)
}

// applicable decides from the ground truth and the last dump whether op changes or observes anything.
func (w *world) applicable(o Op) bool {
	t := w.topo()
	switch o.Kind {
	case "split", "splitl":
		r := regionOf(t, keyOf(o.K))
		return len(t) < w.cfg.maxRegions && r.start != keyOf(o.K)
	case "merge":
		k := keyOf(o.K)
		for i := 1; i < len(t); i++ {
			if t[i].start == k {
				return t[i-1].storeSet() == t[i].storeSet()
			}
		}
		return false
	case "leader":
		return w.nextLeader(regionOf(t, keyOf(o.K))) != 0
	case "rmpeer":
		return len(regionOf(t, keyOf(o.K)).peers) >= 2
	case "addpeer":
		return len(regionOf(t, keyOf(o.K)).peers) < len(w.stores)
	case "stop":
		return w.up[w.stores[o.K]]
	case "start":
		return !w.up[w.stores[o.K]]
	case "inval":
		e := cachedEntryFor(&w.prev, keyOf(o.K))
		return e != nil && e.TTL != -1
	case "expire":
		e := cachedEntryFor(&w.prev, keyOf(o.K))
		return e != nil && e.TTL > time.Now().Unix()
	case "sched":
		// a usable entry that is not yet scheduled (a second OnSendFail only bumps epochs further)
		e := cachedEntryFor(&w.prev, keyOf(o.K))
		return e != nil && e.TTL > time.Now().Unix() && e.SyncFlags&locate.VerifC09FlagReloadOnAccess == 0
	case "selm":
		// the replica selector marks a region only when it sees a stale store epoch
		e := cachedEntryFor(&w.prev, keyOf(o.K))
		// (an entry flagged needReloadOnAccess is not "valid" for newReplicaSelector: no selector is built)
		if e == nil || e.TTL <= time.Now().Unix() || e.SyncFlags&(locate.VerifC09FlagReloadOnAccess|locate.VerifC09FlagDelayedReloadPending|locate.VerifC09FlagDelayedReloadReady) != 0 {
			return false
		}
		for _, st := range e.EpochStale {
			if st {
				return true
			}
		}
		return false
	case "drop":
		return len(w.prev.Sorted)+len(w.prev.Regions)+len(w.prev.Stores) > 0
	case "gc", "bgtick":
		return len(w.prev.Sorted)+len(w.prev.Stores) > 0
	case "stale":
		return w.pd.pending == 0 && o.K >= 1 && o.K <= w.cfg.maxBack && len(w.hist) > o.K
	case "byidc":
		e := cachedEntryFor(&w.prev, keyOf(o.K))
		return e != nil && e.ID != regionOf(t, keyOf(o.K)).id
	case "sendx":
		// The request must go out with a cached entry whose region id still exists with another
		// VERSION (then the store answers EpochNotMatch and has siblings to report). The two orders
		// differ only when there is at least one sibling.
		e := cachedEntryFor(&w.prev, keyOf(o.K))
		if e == nil || e.TTL <= time.Now().Unix() || e.SyncFlags&reloadNow != 0 {
			return false
		}
		for i := range t {
			if t[i].id == e.ID && t[i].ver != e.Ver {
				n := len(overlapsOld(t, e.ID, string(e.Start), string(e.End)))
				return n >= 1 || o.Ord == enmDerivedFirst
			}
		}
		return false
	}
	return true
}

// nextLeader: the next peer after the leader (cyclic, meta order) that sits on a running store.
func (w *world) nextLeader(r *regionInfo) uint64 {
	for i, p := range r.peers {
		if p.id == r.leader {
			for d := 1; d < len(r.peers); d++ {
				if q := r.peers[(i+d)%len(r.peers)]; w.up[q.store] {
					return q.id
				}
			}
		}
	}
	return 0
}

// viol reports a lookup violation; the class gets a suffix when a stale PD answer was consumed
// by the very call that failed (different cause, different finding).
func (w *world) viol(key, what string) {
	key = w.classKey(key)
	if w.pd.served != w.served0 {
		key += ":after-stale-pd-answer"
	}
	w.report(key, what)
}

// classKey names the cache-state class of a failing lookup: the call touched a usable cached
// entry that was scheduled for reload (needReloadOnAccess / needDelayedReloadReady) and no stale
// PD answer was consumed by the call (a stale answer is its own cause and keeps its own key).
func (w *world) classKey(key string) string {
	if w.reloadHit && w.pd.served == w.served0 {
		key += ":on-reload-scheduled-entry"
	}
	return key
}

const reloadNow = locate.VerifC09FlagReloadOnAccess | locate.VerifC09FlagDelayedReloadReady

// touchesReloadScheduled: does the cache (last dump) hold a usable entry flagged for reload that
// the lookup described by o has to consult? Points use [start,end) or (start,end] (by end key),
// ranges use overlap, by-id uses the id.
func (w *world) touchesReloadScheduled(o Op) bool {
	now := time.Now().Unix()
	hit := func(f func(s, e string) bool) bool {
		for i := range w.prev.Sorted {
			e := &w.prev.Sorted[i]
			if e.TTL > now && e.SyncFlags&reloadNow != 0 && f(string(e.Start), string(e.End)) {
				return true
			}
		}
		return false
	}
	point := func(k string, byEnd bool) bool {
		return hit(func(s, e string) bool {
			if byEnd {
				return s < k && (e == "" || k <= e)
			}
			return s <= k && (e == "" || k < e)
		})
	}
	switch o.Kind {
	case "locate", "try", "send", "sendx":
		return point(keyOf(o.K), false)
	case "locend":
		return point(keyOf(o.K), true)
	case "group":
		for _, k := range o.Keys {
			if point(keyOf(k), false) {
				return true
			}
		}
	case "range", "batch":
		for _, r := range o.R {
			a, b := keyOf(r[0]), keyOf(r[1])
			if hit(func(s, e string) bool { return (b == "" || s < b) && (e == "" || a < e) }) {
				return true
			}
		}
	case "byid", "byidc":
		id := regionOf(w.topo(), keyOf(o.K)).id
		if o.Kind == "byidc" {
			if c := cachedEntryFor(&w.prev, keyOf(o.K)); c != nil {
				id = c.ID
			}
		}
		for i := range w.prev.Sorted {
			e := &w.prev.Sorted[i]
			if e.ID == id && e.TTL > now && e.SyncFlags&reloadNow != 0 {
				return true
			}
		}
	}
	return false
}

func (w *world) bo() *retry.Backoffer {
	return retry.NewBackofferWithVars(context.Background(), w.cfg.budgetMs, nil)
}

// pdSync is called at every PD region query and after every op: dump + no-regression check.
func (w *world) pdSync() {
	d := locate.VerifC09DumpCache(w.cache)
	if w.check {
		w.checkNoRegress(&w.prev, &d)
	}
	w.prev = d
}

// apply executes one op on the real code, with all oracles if w.check. It returns the
// outcome class (for the distinct-outcome count). Panics of the code under test are violations.
func (w *world) apply(o Op) (outcome string) {
	w.curOp = o.String()
	w.served0 = w.pd.served
	w.opPre = w.prev
	w.reloadHit = w.touchesReloadScheduled(o)
	if w.reloadHit && w.check {
		w.st.reloadLookups.Add(1)
		defer func() { outcome += "@reload-scheduled" }()
	}
	defer func() {
		if p := recover(); p != nil {
			msg := fmt.Sprint(p)
			if strings.HasPrefix(msg, "harness:") {
				panic(p)
			}
			if w.check {
				w.report(o.Kind+":panic", fmt.Sprintf("%s panicked: %v", o, p))
			}
			outcome = "panic"
			w.dead = true
			return
		}
		w.pdSync()
	}()
	k := keyOf(o.K)
	switch o.Kind {
	// ---- topology (ground truth changes; the cache is not told) ----
	case "split", "splitl":
		t := w.topo()
		r := regionOf(t, k)
		newID := w.cluster.AllocID()
		peerIDs := w.cluster.AllocIDs(len(r.peers))
		li := 0
		for i, p := range r.peers {
			if p.id == r.leader {
				li = i
			}
		}
		if w.cfg.codec {
			w.cluster.Split(r.id, newID, []byte(k), peerIDs, peerIDs[li])
		} else {
			w.cluster.SplitRaw(r.id, newID, []byte(k), peerIDs, peerIDs[li])
		}
		old, nw := w.live(r.id), w.live(newID)
		// (The mock used to start the split-off region at its own version counter; the harness patched the
		// epoch to TiKV's rule here. Since the repository fix "mocktikv split/merge follow TiKV's region
		// version rule" the mock's own result is used as it is.)
		if o.Kind == "splitl" { // the new id takes the LEFT half (TiKV's right-derive split)
			if w.check {
				w.st.rightDerive.Add(1)
			}
			old.Meta.StartKey, old.Meta.EndKey, nw.Meta.StartKey, nw.Meta.EndKey = nw.Meta.StartKey, nw.Meta.EndKey, old.Meta.StartKey, old.Meta.EndKey
			w.epochPatched = true // the harness swapped the halves itself: not the mock's own result
		}
		w.snapshot()
	case "merge":
		t := w.topo()
		for i := 1; i < len(t); i++ {
			if t[i].start == k {
				w.cluster.Merge(t[i-1].id, t[i].id) // the mock's own epoch rule (TiKV's since the repository fix)
			}
		}
		w.snapshot()
	case "leader":
		r := regionOf(w.topo(), k)
		w.cluster.ChangeLeader(r.id, w.nextLeader(r))
		w.snapshot()
	case "rmpeer":
		r := regionOf(w.topo(), k)
		for _, p := range r.peers {
			if p.id != r.leader {
				w.cluster.RemovePeer(r.id, p.id)
				break
			}
		}
		w.snapshot()
	case "addpeer":
		r := regionOf(w.topo(), k)
		for _, s := range w.stores {
			has := false
			for _, p := range r.peers {
				has = has || p.store == s
			}
			if !has {
				w.cluster.AddPeer(r.id, s, w.cluster.AllocID())
				break
			}
		}
		w.snapshot()
	case "stop":
		w.cluster.StopStore(w.stores[o.K])
		w.up[w.stores[o.K]] = false
	case "start":
		w.cluster.StartStore(w.stores[o.K])
		w.up[w.stores[o.K]] = true

	// ---- cache manipulation ----
	case "inval":
		w.cache.InvalidateCachedRegion(verIDOf(cachedEntryFor(&w.prev, k)))
	case "expire":
		locate.VerifC09SetTTL(w.cache, verIDOf(cachedEntryFor(&w.prev, k)), time.Now().Unix()-10)
	case "sched":
		// What RegionRequestSender.onSendFail does once NeedReloadRegion says that every store was
		// tried: OnSendFail(..., scheduleReload=true, err). The entry stays valid and is flagged
		// needReloadOnAccess; the failed store's epoch is bumped and the work peer switched.
		ctx, err := w.cache.GetTiKVRPCContext(w.bo(), verIDOf(cachedEntryFor(&w.prev, k)), kv.ReplicaReadLeader, 0)
		if err != nil || ctx == nil {
			return "no-ctx"
		}
		w.cache.OnSendFail(w.bo(), ctx, true, errInjectedSendFail)
		return "scheduled"
	case "selm":
		// Replica choice of a replica-read request on the entry: a stale store epoch makes the
		// selector flag the region needDelayedReloadPending (the next gc round makes it ...Ready).
		if !locate.VerifC09SelectReplica(w.cache, verIDOf(cachedEntryFor(&w.prev, k))) {
			return "no-selector"
		}
		return "selected"
	case "drop":
		locate.VerifC09Drop(w.cache)
	case "gc":
		locate.VerifC09GCRound(w.cache)
	case "bgtick":
		locate.VerifC09BgTick(w.cache)
	case "stale":
		w.pd.pending = o.K

	// ---- lookups ----
	case "locate":
		loc, err := w.cache.LocateKey(w.bo(), []byte(k))
		return w.checkLoc("locate-key", k, false, loc, err)
	case "locend":
		loc, err := w.cache.LocateEndKey(w.bo(), []byte(k))
		return w.checkLoc("locate-end-key", k, true, loc, err)
	case "try":
		loc := w.cache.TryLocateKey([]byte(k))
		if loc == nil {
			return "miss"
		}
		return w.checkLoc("try-locate-key", k, false, loc, nil)
	case "byid", "byidc":
		id := regionOf(w.topo(), k).id
		if o.Kind == "byidc" {
			id = cachedEntryFor(&w.prev, k).ID
		}
		loc, err := w.cache.LocateRegionByID(w.bo(), id)
		return w.checkByID(id, loc, err)
	case "range":
		s, e := keyOf(o.R[0][0]), keyOf(o.R[0][1])
		pre := w.prev
		locs, err := w.cache.LocateKeyRange(w.bo(), []byte(s), []byte(e))
		return w.checkCover("locate-key-range", [][2]string{{s, e}}, locs, err, &pre)
	case "batch":
		var rs [][2]string
		var krs []kv.KeyRange
		for _, r := range o.R {
			rs = append(rs, [2]string{keyOf(r[0]), keyOf(r[1])})
			krs = append(krs, kv.KeyRange{StartKey: []byte(keyOf(r[0])), EndKey: []byte(keyOf(r[1]))})
		}
		pre := w.prev
		locs, err := w.cache.BatchLocateKeyRanges(w.bo(), krs)
		return w.checkCover("batch-locate", rs, locs, err, &pre)
	case "group":
		var keys [][]byte
		for _, i := range o.Keys {
			keys = append(keys, []byte(keyOf(i)))
		}
		groups, first, err := w.cache.GroupKeysByRegion(w.bo(), keys, nil)
		return w.checkGroups(keys, groups, first, err)
	case "send":
		out, _ := w.sendOnce(w.bo(), k)
		return out
	case "sendx":
		// send with TiKV-like EpochNotMatch answers (see enmClient) in the order o.Ord
		w.enmOrd, w.enmDone = o.Ord, 0
		out, _ := w.sendOnce(w.bo(), k)
		w.enmOrd = 0
		if w.enmDone == 0 {
			out += ":no-enm"
		}
		return out
	default:
		panic("harness: unknown op " + o.Kind)
	}
	return "done"
}

// sendOnce is one round of what KVSnapshot.get does: locate, then SendReqCtx of a Get.
func (w *world) sendOnce(bo *retry.Backoffer, k string) (outcome string, served bool) {
	loc, err := w.cache.LocateKey(bo, []byte(k))
	if o := w.checkLoc("locate-key", k, false, loc, err); err != nil || strings.HasPrefix(o, "VIOL") {
		return "locate-" + o, false
	}
	req := tikvrpc.NewRequest(tikvrpc.CmdGet, &kvrpcpb.GetRequest{Key: []byte(k), Version: 100}, kvrpcpb.Context{})
	sender := locate.NewRegionRequestSender(w.cache, w.client, oracle.NoopReadTSValidator{})
	resp, rpcCtx, _, err := sender.SendReqCtx(bo, req, loc.Region, time.Second, tikvrpc.TiKV)
	w.st.evals.Add(1)
	if err != nil {
		return "err:" + errClass(err), false
	}
	regionErr, err := resp.GetRegionError()
	if err != nil {
		return "err:" + errClass(err), false
	}
	if regionErr != nil {
		switch {
		case regionErr.GetEpochNotMatch() != nil:
			return "region-error:epoch-not-match", false
		case regionErr.GetNotLeader() != nil:
			return "region-error:not-leader", false
		case regionErr.GetRegionNotFound() != nil:
			return "region-error:region-not-found", false
		}
		return "region-error:other", false
	}
	// served: must be the leader peer of the region that really holds the key.
	truth := regionOf(w.topo(), k)
	if w.check && (rpcCtx == nil || rpcCtx.Region.GetID() != truth.id || rpcCtx.Region.GetVer() != truth.ver ||
		rpcCtx.Peer.GetId() != truth.leader) {
		w.report(w.classKey("send:served-by-wrong-region-or-peer"), fmt.Sprintf("%s: Get(%s) answered via %v, truth region %d ver %d leader peer %d",
			w.curOp, k, rpcCtx, truth.id, truth.ver, truth.leader))
		return "VIOL", false
	}
	if g, ok := resp.Resp.(*kvrpcpb.GetResponse); !ok || g.Error != nil {
		return "key-error", false
	}
	return "served", true
}

func errClass(err error) string {
	s := err.Error()
	for _, c := range []string{"MaxSleep", "maxSleep", "no available peers", "region not found", "region unavailable", "unavailable"} {
		if strings.Contains(s, c) {
			return c
		}
	}
	if len(s) > 60 {
		s = s[:60]
	}
	if os.Getenv("C09_DEBUG_ERR") != "" {
		fmt.Fprintf(os.Stderr, "ERR: %+v\n", err)
	}
	return s
}

// converge is the terminal check of a state: with the topology frozen, every key whose
// region leader sits on a running store must be served by that leader within the budget.
// Destructive (the instance is discarded afterwards).
func (w *world) converge(rounds int) {
	w.curOp = "converge"
	for ki, k := range pool {
		truth := regionOf(w.topo(), k)
		if truth.leader == 0 || !w.up[truth.leaderStore()] {
			w.st.convSkipped.Add(1)
			continue
		}
		func() {
			defer func() {
				if p := recover(); p != nil {
					w.report("converge:panic", fmt.Sprintf("Get(%s) after the topology stopped changing panicked: %v", k, p))
				}
			}()
			bo := w.bo()
			var trail []string
			for r := 0; r < rounds; r++ {
				locate.VerifC09BgTick(w.cache) // time passes: health / resolve loops tick
				w.served0 = w.pd.served
				w.opPre = w.prev
				w.reloadHit = w.touchesReloadScheduled(Op{Kind: "send", K: ki})
				out, served := w.sendOnce(bo, k)
				w.pdSync()
				if served {
					w.st.convServed.Add(1)
					w.st.convRounds.Add(int64(r + 1))
					return
				}
				trail = append(trail, out)
				if strings.HasPrefix(out, "region-error") {
					if err := bo.Backoff(retry.BoRegionMiss, fmt.Errorf("region error")); err != nil {
						trail = append(trail, "budget")
						break
					}
				}
			}
			w.report("converge:not-served", fmt.Sprintf("Get(%s) not served by leader (store %d) within %d rounds / %d ms budget: %v",
				k, truth.leaderStore(), rounds, w.cfg.budgetMs, trail))
		}()
	}
}

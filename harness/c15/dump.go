package main

import (
	"fmt"
	"reflect"
)

// dumpLeaves prints every byte leaf of every request / response type with its class.
func dumpLeaves(cmds []*cmdInfo) {
	for _, c := range cmds {
		for _, side := range []string{"req", "resp"} {
			t := c.ReqT
			if side == "resp" {
				t = c.RespT
			}
			if t == nil || t.Kind() != reflect.Ptr || t.Elem().Kind() != reflect.Struct {
				continue
			}
			b := &builder{sliceLen: 1, maxRec: 2, request: side == "req", skipped: map[string]bool{}}
			m := b.newMsg(t.Elem())
			fl := flatten(m)
			seen := map[string]bool{}
			for _, l := range fl.leaves {
				if seen[l.Norm] {
					continue
				}
				seen[l.Norm] = true
				fmt.Printf("LEAF %s %s %s class=%d\n", c.Name, side, l.Norm, l.Class)
			}
			for k := range b.skipped {
				fmt.Printf("SKIP %s %s %s\n", c.Name, side, k)
			}
		}
	}
}

package main

// Response decoding checks (c): every key-like field stripped exactly, foreign
// keys rejected, regions clipped / skipped / rejected.

import (
	"bytes"
	"fmt"
	"reflect"
	"sort"
	"strings"
	"sync"

	"github.com/pingcap/kvproto/pkg/errorpb"
	"github.com/pingcap/kvproto/pkg/metapb"
	"github.com/tikv/client-go/v2/tikvrpc"
)

// regionRoutable: the region request sender accepts the command, so region
// errors (with region descriptions) can come back for it.
func regionRoutable(ci *cmdInfo) bool {
	ok := false
	probe(func() {
		ok = tikvrpc.SetContextNoAttach(tikvrpc.NewRequest(ci.Cmd, reflect.New(ci.ReqT.Elem()).Interface()), nil, nil) == nil
	})
	return ok
}

// responses the codec documents as out of scope
func responseExcluded(ci *cmdInfo) (bool, string) {
	if ci.RespT == nil {
		return true, "no response message"
	}
	if ci.Stream {
		return true, "server-streaming RPC: Response.Resp is a stream wrapper, codec_v2.go decodes no stream payload (CopStream: explicit error 'streaming coprocessor is not supported yet')"
	}
	if ci.Name == "BatchCop" || ci.Name == "DispatchMPPTask" {
		return true, "codec_v2.go DecodeResponse: 'There aren't range infos in BatchCop and MPPTask responses' (retry_regions are used by id only)"
	}
	if keyspaceByID(ci.ReqT) {
		return true, "keyspace passed by id inside the message (codec.go setAPICtx); cursor keys are opaque to the client"
	}
	return false, ""
}

type decFail struct {
	kind, cmd, top, typeField, norm, detail string
	ref                                     caseRef
}

var (
	decMu    sync.Mutex
	decFails []decFail
	decOcc   = map[string]map[string]bool{} // kind|typeField -> set of cmd/norm where it was demanded
)

func decDemanded(kind, typeField, cmd, norm string) {
	decMu.Lock()
	k := kind + "|" + typeField
	if decOcc[k] == nil {
		decOcc[k] = map[string]bool{}
	}
	decOcc[k][cmd+"/"+norm] = true
	decMu.Unlock()
}

func decFailure(f decFail) {
	decMu.Lock()
	decFails = append(decFails, f)
	decMu.Unlock()
}

// finishDecodeReport turns the collected per-leaf failures into violations:
// a (message type, field) that fails in every place it occurs is one
// type-level violation; otherwise one violation per command and top-level field.
func finishDecodeReport() {
	decMu.Lock()
	defer decMu.Unlock()
	failSet := map[string]map[string]bool{}
	for _, f := range decFails {
		k := f.kind + "|" + f.typeField
		if failSet[k] == nil {
			failSet[k] = map[string]bool{}
		}
		failSet[k][f.cmd+"/"+f.norm] = true
	}
	typeLevel := map[string]bool{}
	for k, fs := range failSet {
		cmds := map[string]bool{}
		for cn := range fs {
			cmds[strings.SplitN(cn, "/", 2)[0]] = true
		}
		if len(fs) == len(decOcc[k]) && len(cmds) > 1 {
			typeLevel[k] = true
		}
	}
	type agg struct {
		items map[string]bool
		first decFail
		n     int
	}
	out := map[string]*agg{}
	var order []string
	for _, f := range decFails {
		k := f.kind + "|" + f.typeField
		key := "decode:" + f.kind + ":" + f.cmd + ":" + f.top
		if typeLevel[k] {
			key = "decode:" + f.kind + ":*:" + f.typeField
		}
		a := out[key]
		if a == nil {
			a = &agg{items: map[string]bool{}, first: f}
			out[key] = a
			order = append(order, key)
		}
		a.n++
		if typeLevel[k] {
			a.items[f.cmd] = true
		} else {
			a.items[f.norm] = true
		}
	}
	sort.Strings(order)
	for _, key := range order {
		a := out[key]
		items := sortedKeys(a.items)
		if len(items) > 12 {
			items = append(items[:12], fmt.Sprintf("... %d more", len(items)-12))
		}
		viol(key, fmt.Sprintf("%s; first: %s; affected: %s (%d cases)", describeKind(a.first.kind), a.first.detail, strings.Join(items, ","), a.n), a.first.ref)
	}
}

func describeKind(k string) string {
	switch k {
	case "not-stripped":
		return "key-like response field still carries the keyspace prefix / region encoding after DecodeResponse"
	case "foreign-accepted":
		return "a key of another keyspace in a response was accepted without error"
	case "value-changed":
		return "non-key response field changed by DecodeResponse"
	}
	return k
}

// wire returns what TiKV would send for logical key m in a field of class cls.
func (cc *codecCase) wire(cls int, m []byte) []byte {
	switch cls {
	case clsKey:
		return cat(cc.Prefix, m)
	case clsRegionKey:
		return memEnc(cat(cc.Prefix, m))
	}
	return m
}

type builtResp struct {
	msg      reflect.Value
	fl       *flat
	expected map[string]string // path -> logical marker
}

func buildResponse(ci *cmdInfo, cc *codecCase, foreignPath string, foreignPrefix []byte) *builtResp {
	b := &builder{sliceLen: 2, maxRec: 2}
	msg := b.newMsg(ci.RespT.Elem())
	fl := flatten(msg)
	br := &builtResp{msg: msg, fl: fl, expected: map[string]string{}}
	for _, l := range fl.leaves {
		m := append([]byte{}, l.Val.Bytes()...)
		br.expected[l.Path] = string(m)
		if l.Path == foreignPath {
			if l.Class == clsRegionKey {
				setBytes(l.Val, memEnc(cat(foreignPrefix, m)))
			} else {
				setBytes(l.Val, cat(foreignPrefix, m))
			}
			continue
		}
		setBytes(l.Val, cc.wire(l.Class, m))
	}
	return br
}

func encodedFor(ci *cmdInfo, cc *codecCase) (*tikvrpc.Request, error) {
	req, _ := buildRequest(ci, false, false)
	nTransitions.Add(1)
	return cc.Codec.EncodeRequest(req)
}

func checkDecode(ci *cmdInfo, cc *codecCase) {
	if ex, why := responseExcluded(ci); ex {
		exclude(fmt.Sprintf("response of %s: %s", ci.Name, why))
		return
	}
	routable := regionRoutable(ci)
	ref := caseRef{Kind: "decode", Cmd: ci.Name, Mode: cc.ModeName, ID: cc.ID}
	var passedKeyLeaves []*leafInfo
	guard("decode:"+ci.Name, ref, func() {
		// zero response: the success path
		enc, err := encodedFor(ci, cc)
		if err != nil {
			return // reported by checkEncode
		}
		zero := reflect.New(ci.RespT.Elem())
		out, err := cc.Codec.DecodeResponse(enc, &tikvrpc.Response{Resp: zero.Interface()})
		nTransitions.Add(1)
		nEvals.Add(1)
		if err != nil || out == nil || len(diffFlat(flatten(reflect.New(ci.RespT.Elem())), flatten(reflect.ValueOf(out.Resp)))) > 0 {
			viol("decode:zero-response:"+ci.Name, fmt.Sprintf("DecodeResponse(%s, empty response) = %v", ci.Name, err), ref)
		}

		enc, _ = encodedFor(ci, cc)
		br := buildResponse(ci, cc, "", nil)
		// non-byte values before
		before := map[string]string{}
		for p, v := range br.fl.vals {
			if !strings.HasPrefix(v, "b:") {
				before[p] = v
			}
		}
		out, err = cc.Codec.DecodeResponse(enc, &tikvrpc.Response{Resp: br.msg.Interface()})
		nTransitions.Add(1)
		nTraces.Add(1)
		if err != nil || out == nil {
			viol("decode:error:"+ci.Name, fmt.Sprintf("DecodeResponse(%s) of a response holding only keys of keyspace %s failed: %v", ci.Name, cc.tag(), err), ref)
			return
		}
		outcome("decode-ok")
		got := flatten(reflect.ValueOf(out.Resp))
		for _, l := range br.fl.leaves {
			demanded := true
			if l.Top == "RegionError" && !routable {
				demanded = false
			}
			tf := l.Parent.String() + "." + l.Field
			state(fmt.Sprintf("dec/%s/%s/%s", ci.Name, cc.tag(), l.Norm), l.Class != clsOther)
			if !demanded {
				continue
			}
			nEvals.Add(1)
			want := "b:" + br.expected[l.Path]
			g, ok := got.vals[l.Path]
			if l.Class == clsOther {
				decDemanded("value-changed", tf, ci.Name, l.Norm)
				if !ok || g != want {
					decFailure(decFail{kind: "value-changed", cmd: ci.Name, top: l.Top, typeField: tf, norm: l.Norm, ref: ref,
						detail: fmt.Sprintf("%s.%s under %s: %q -> %q", ci.Name, l.Path, cc.tag(), want[2:], strings.TrimPrefix(g, "b:"))})
				}
				continue
			}
			decDemanded("not-stripped", tf, ci.Name, l.Norm)
			if !ok || g != want {
				decFailure(decFail{kind: "not-stripped", cmd: ci.Name, top: l.Top, typeField: tf, norm: l.Norm, ref: ref,
					detail: fmt.Sprintf("%s.%s under %s: wire %x decoded to %x, want %x", ci.Name, l.Path, cc.tag(), cc.wire(l.Class, []byte(br.expected[l.Path])), strings.TrimPrefix(g, "b:"), br.expected[l.Path])})
				continue
			}
			// range bounds (start/end pairs) are clipped, not rejected: covered by the region grid
			isBound := l.Field == "Start" || l.Field == "End" || l.Field == "StartKey" || l.Field == "EndKey"
			if l.Class == clsKey && !isBound {
				passedKeyLeaves = append(passedKeyLeaves, l)
			}
		}
		for p, v := range before {
			nEvals.Add(1)
			if g := got.vals[p]; g != v {
				if !routable && strings.HasPrefix(p, "RegionError") {
					continue
				}
				top := strings.SplitN(strings.SplitN(strings.SplitN(p, ".", 2)[0], "[", 2)[0], "#", 2)[0]
				viol("decode:value-changed:"+ci.Name+":"+top, fmt.Sprintf("DecodeResponse(%s) changed %s: %q -> %q", ci.Name, p, v, g), ref)
			}
		}
		samples.Add(func() any {
			return map[string]any{"kind": "decode", "cmd": ci.Name, "codec": cc.tag(), "byte_fields": len(br.fl.leaves), "resp": ci.RespT.String()}
		})
	})
	// foreign keys, one field at a time: DecodeKey documents errKeyOutOfBound
	seen := map[string]bool{}
	for _, l := range passedKeyLeaves {
		if seen[l.Norm] {
			continue // one instance per repeated field
		}
		seen[l.Norm] = true
		for fi, fp := range cc.Foreign {
			fref := caseRef{Kind: "decode-foreign", Cmd: ci.Name, Mode: cc.ModeName, ID: cc.ID, Info: map[string]any{"field": l.Path, "foreign_prefix": fmt.Sprintf("%x", fp)}}
			guard("decode-foreign:"+ci.Name, fref, func() {
				enc, err := encodedFor(ci, cc)
				if err != nil {
					return
				}
				br := buildResponse(ci, cc, l.Path, fp)
				_, err = cc.Codec.DecodeResponse(enc, &tikvrpc.Response{Resp: br.msg.Interface()})
				nTransitions.Add(1)
				nTraces.Add(1)
				nEvals.Add(1)
				tf := l.Parent.String() + "." + l.Field
				state(fmt.Sprintf("decf/%s/%s/%s/%d", ci.Name, cc.tag(), l.Norm, fi), true)
				decDemanded("foreign-accepted", tf, ci.Name, l.Norm)
				if err == nil {
					decFailure(decFail{kind: "foreign-accepted", cmd: ci.Name, top: l.Top, typeField: tf, norm: l.Norm, ref: fref,
						detail: fmt.Sprintf("%s.%s = %x%s under %s decoded without error", ci.Name, l.Path, fp, br.expected[l.Path], cc.tag())})
				} else {
					outcome("foreign-rejected")
				}
			})
		}
	}
}

// ---- region clipping ----

type bound struct {
	raw  []byte
	name string
}

func decPrefix(p []byte) []byte {
	q := append([]byte{}, p...)
	for i := len(q) - 1; i >= 0; i-- {
		q[i]--
		if q[i] != 0xff {
			break
		}
	}
	return q
}

func (cc *codecCase) regionBounds() []bound {
	return []bound{
		{nil, "unbounded"},
		{[]byte("a"), "v1-key-below"},
		{cat(decPrefix(cc.Prefix), []byte("zz")), "prev-keyspace"},
		{cc.Prefix, "keyspace-start"},
		{cat(cc.Prefix, []byte("a")), "inner-a"},
		{cat(cc.Prefix, []byte("m")), "inner-m"},
		{cc.End, "keyspace-end"},
		{cat(cc.End, []byte("a")), "next-keyspace"},
		{[]byte("z"), "above-all"},
	}
}

// clipModel: reference clipping of region [s,e) (e empty = +inf, s empty = -inf) to the keyspace.
func (cc *codecCase) clipModel(s, e []byte) (start, end []byte, ok bool) {
	if bytes.Compare(s, cc.End) >= 0 || (len(e) > 0 && bytes.Compare(e, cc.Prefix) <= 0) {
		return nil, nil, false
	}
	if bytes.Compare(s, cc.Prefix) > 0 {
		start = s[len(cc.Prefix):]
	}
	if len(e) > 0 && bytes.Compare(e, cc.End) < 0 {
		end = e[len(cc.Prefix):]
	}
	return start, end, true
}

func memOrEmpty(b []byte) []byte {
	if len(b) == 0 {
		return nil
	}
	return memEnc(b)
}

func checkRegionClipping(cc *codecCase, cmds []*cmdInfo) {
	bs := cc.regionBounds()
	// commands whose responses can carry region errors / region lists
	type target struct {
		ci       *cmdInfo
		regionFs []string // top-level []*metapb.Region fields
	}
	var targets []target
	for _, ci := range cmds {
		if ex, _ := responseExcluded(ci); ex || !regionRoutable(ci) {
			continue
		}
		t := target{ci: ci}
		rt := ci.RespT.Elem()
		if f, ok := rt.FieldByName("RegionError"); !ok || f.Type != reflect.TypeOf((*errorpb.Error)(nil)) {
			continue
		}
		for i := 0; i < rt.NumField(); i++ {
			f := rt.Field(i)
			if f.Type == reflect.TypeOf([]*metapb.Region(nil)) && !fieldInfo(rt)[f.Name].deprecated {
				t.regionFs = append(t.regionFs, f.Name)
			}
		}
		targets = append(targets, t)
	}
	for si, s := range bs {
		for ei, e := range bs {
			_, _ = si, ei
			if len(e.raw) > 0 && bytes.Compare(s.raw, e.raw) >= 0 {
				continue // not a region
			}
			ws, we, overlap := cc.clipModel(s.raw, e.raw)
			nontrivial := overlap && (len(ws) == 0 || len(we) == 0) && (len(s.raw) > 0 || len(e.raw) > 0)
			ref := caseRef{Kind: "region", Mode: cc.ModeName, ID: cc.ID, Info: map[string]any{"start": s.name, "end": e.name, "start_raw": fmt.Sprintf("%x", s.raw), "end_raw": fmt.Sprintf("%x", e.raw)}}
			shape := s.name + ".." + e.name
			guard("region", ref, func() {
				// DecodeRange on plain keys
				state(fmt.Sprintf("region/%s/%s/DecodeRange", cc.tag(), shape), nontrivial)
				ds, de, err := cc.Codec.DecodeRange(s.raw, e.raw)
				nTransitions.Add(1)
				nTraces.Add(1)
				nEvals.Add(1)
				checkClip("DecodeRange", shape, cc, ds, de, err, ws, we, overlap, ref)
				// DecodeRegionRange on memcomparable keys
				state(fmt.Sprintf("region/%s/%s/DecodeRegionRange", cc.tag(), shape), nontrivial)
				ds, de, err = cc.Codec.DecodeRegionRange(memOrEmpty(s.raw), memOrEmpty(e.raw))
				nTransitions.Add(1)
				nTraces.Add(1)
				nEvals.Add(1)
				checkClip("DecodeRegionRange", shape, cc, ds, de, err, ws, we, overlap, ref)
			})
			for _, t := range targets {
				t := t
				cref := ref
				cref.Cmd = t.ci.Name
				guard("region:"+t.ci.Name, cref, func() {
					inside := &metapb.Region{Id: 9, StartKey: memEnc(cat(cc.Prefix, []byte("p"))), EndKey: memEnc(cat(cc.Prefix, []byte("q")))}
					// EpochNotMatch: regions outside are skipped (documented), overlapping ones clipped
					state(fmt.Sprintf("region/%s/%s/EpochNotMatch/%s", cc.tag(), shape, t.ci.Name), nontrivial)
					resp := reflect.New(t.ci.RespT.Elem())
					re := &errorpb.Error{EpochNotMatch: &errorpb.EpochNotMatch{CurrentRegions: []*metapb.Region{
						{Id: 7, StartKey: memOrEmpty(s.raw), EndKey: memOrEmpty(e.raw)}, inside}}}
					resp.Elem().FieldByName("RegionError").Set(reflect.ValueOf(re))
					enc, err := encodedFor(t.ci, cc)
					if err != nil {
						return
					}
					out, err := cc.Codec.DecodeResponse(enc, &tikvrpc.Response{Resp: resp.Interface()})
					nTransitions.Add(1)
					nTraces.Add(1)
					nEvals.Add(1)
					if err != nil {
						viol("region:EpochNotMatch:error", fmt.Sprintf("%s: EpochNotMatch with region %s under %s: error %v (outside regions must be skipped, not fail)", t.ci.Name, shape, cc.tag(), err), cref)
					} else {
						rerr, _ := out.GetRegionError()
						got := rerr.GetEpochNotMatch().GetCurrentRegions()
						var want [][2][]byte
						if overlap {
							want = append(want, [2][]byte{ws, we})
						}
						want = append(want, [2][]byte{[]byte("p"), []byte("q")})
						okk := len(got) == len(want)
						for i := 0; okk && i < len(got); i++ {
							okk = bytes.Equal(got[i].StartKey, want[i][0]) && bytes.Equal(got[i].EndKey, want[i][1])
						}
						if !okk {
							viol("region:EpochNotMatch:"+clipKind(overlap, ws, we), fmt.Sprintf("%s: EpochNotMatch region %s under %s decoded to %v, want %x", t.ci.Name, shape, cc.tag(), regionStr(got), want), cref)
						} else {
							outcome("epoch-not-match-" + clipKind(overlap, ws, we))
						}
					}
					// KeyNotInRegion
					state(fmt.Sprintf("region/%s/%s/KeyNotInRegion/%s", cc.tag(), shape, t.ci.Name), nontrivial)
					resp = reflect.New(t.ci.RespT.Elem())
					re = &errorpb.Error{KeyNotInRegion: &errorpb.KeyNotInRegion{Key: cat(cc.Prefix, []byte("k")), RegionId: 3, StartKey: memOrEmpty(s.raw), EndKey: memOrEmpty(e.raw)}}
					resp.Elem().FieldByName("RegionError").Set(reflect.ValueOf(re))
					enc, _ = encodedFor(t.ci, cc)
					out, err = cc.Codec.DecodeResponse(enc, &tikvrpc.Response{Resp: resp.Interface()})
					nTransitions.Add(1)
					nTraces.Add(1)
					nEvals.Add(1)
					var ds, de []byte
					if err == nil {
						rerr, _ := out.GetRegionError()
						k := rerr.GetKeyNotInRegion()
						ds, de = k.GetStartKey(), k.GetEndKey()
						if !bytes.Equal(k.GetKey(), []byte("k")) {
							viol("region:KeyNotInRegion:key", fmt.Sprintf("%s: KeyNotInRegion.Key decoded to %x", t.ci.Name, k.GetKey()), cref)
						}
					}
					checkClip("KeyNotInRegion", shape, cc, ds, de, err, ws, we, overlap, cref)
					// region lists (SplitRegion)
					for _, fn := range t.regionFs {
						state(fmt.Sprintf("region/%s/%s/%s.%s", cc.tag(), shape, t.ci.Name, fn), nontrivial)
						resp = reflect.New(t.ci.RespT.Elem())
						resp.Elem().FieldByName(fn).Set(reflect.ValueOf([]*metapb.Region{{Id: 7, StartKey: memOrEmpty(s.raw), EndKey: memOrEmpty(e.raw)}}))
						enc, _ = encodedFor(t.ci, cc)
						out, err = cc.Codec.DecodeResponse(enc, &tikvrpc.Response{Resp: resp.Interface()})
						nTransitions.Add(1)
						nTraces.Add(1)
						nEvals.Add(1)
						ds, de = nil, nil
						if err == nil {
							rs := reflect.ValueOf(out.Resp).Elem().FieldByName(fn).Interface().([]*metapb.Region)
							if len(rs) != 1 {
								viol("region:list:"+t.ci.Name+"."+fn, fmt.Sprintf("region list changed length to %d", len(rs)), cref)
								continue
							}
							ds, de = rs[0].StartKey, rs[0].EndKey
						}
						checkClip(t.ci.Name+"."+fn, shape, cc, ds, de, err, ws, we, overlap, cref)
					}
				})
			}
		}
	}
}

func clipKind(overlap bool, ws, we []byte) string {
	switch {
	case !overlap:
		return "outside"
	case len(ws) == 0 && len(we) == 0:
		return "covers-keyspace"
	case len(ws) == 0:
		return "overlaps-start"
	case len(we) == 0:
		return "overlaps-end"
	}
	return "inside"
}

func regionStr(rs []*metapb.Region) string {
	var sb strings.Builder
	for _, r := range rs {
		fmt.Fprintf(&sb, "[%x,%x)", r.StartKey, r.EndKey)
	}
	return sb.String()
}

func checkClip(via, shape string, cc *codecCase, ds, de []byte, err error, ws, we []byte, overlap bool, ref caseRef) {
	kind := clipKind(overlap, ws, we)
	if !overlap {
		if err == nil {
			viol("region:"+via+":outside-accepted", fmt.Sprintf("%s: region %s lies outside keyspace %s but decoded to [%x,%x) without error", via, shape, cc.tag(), ds, de), ref)
		} else {
			outcome("region-outside-rejected")
		}
		return
	}
	if err != nil {
		viol("region:"+via+":"+kind+":rejected", fmt.Sprintf("%s: region %s overlaps keyspace %s but was rejected: %v", via, shape, cc.tag(), err), ref)
		return
	}
	if !bytes.Equal(ds, ws) || !bytes.Equal(de, we) {
		viol("region:"+via+":"+kind+":wrong-clip", fmt.Sprintf("%s: region %s under %s decoded to [%x,%x), want [%x,%x)", via, shape, cc.tag(), ds, de, ws, we), ref)
		return
	}
	outcome("region-" + kind)
}

package main

// (c') Sparse response shapes.
//
// checkDecode fills EVERY byte field of a response at once, so a pair always
// has a key, a key error always has every arm, a lock always has secondaries.
// Real stores send the opposite: a locked key inside a BatchGet / Scan answer
// is a KvPair with an EMPTY key and only an Error; a KeyError has exactly one
// arm; a lock of a non-async-commit transaction has no secondaries. The
// property demands that every key-bearing field that IS present is stripped,
// whatever else is absent next to it or above it.
//
// Enumeration (bounded, exhaustive, by reflection - no hand-kept list):
//
//	node     = every message (struct) position of the fully generated response,
//	           identified by its index-free path ("Pairs", "Pairs.Error",
//	           "Pairs.Error.Locked", "" = the response itself)
//	optional = the direct fields of a node that carry keys: key-like []byte,
//	           key-like [][]byte, and nested / repeated / oneof messages whose
//	           subtree holds at least one key-like leaf
//	mask     = which optional fields of ONE node are absent (zero value)
//	context  = dense-all   : everything else fully populated, mask applied to every
//	                         instance of the node (both elements of repeated fields)
//	           dense-first : mask applied to the first instance only (a response that
//	                         mixes pairs with a key and pairs with only an error)
//	           sparse-chain: of every ancestor of the node only the field leading to
//	                         the node is present (pair WITHOUT key -> error with ONLY
//	                         Locked -> the masked lock), below the node everything that
//	                         the mask keeps is fully populated
//	bound    = nodes with k <= maskFull optional fields: all 2^k masks; larger nodes
//	           (KeyError: 10 arms): masks with <= maskEdge absent or <= maskEdge present
//
// Oracle (property text only): DecodeResponse succeeds; every key-like leaf that
// is present holds exactly the logical key again; every absent one is still
// empty; no other value, length or nil-ness changed.

import (
	"fmt"
	"reflect"
	"sort"
	"strings"
	"sync"
	"sync/atomic"

	"github.com/tikv/client-go/v2/tikvrpc"
)

type spOpt struct {
	name      string // Go field name
	typeField string // "kvrpcpb.KvPair.Key"
	msg       bool   // nested message(s), not a byte field
}

type spNode struct {
	norm string       // index-free path from the response, "" = the response
	typ  reflect.Type // struct type of the node
	opts []spOpt
	idx  int
	rep  bool // the node or one of its ancestors is an element of a repeated field
}

const (
	ctxDenseAll = iota
	ctxDenseFirst
	ctxSparse
)

var ctxNames = []string{"dense", "first-instance", "sparse-chain"}

type spShape struct {
	node   *spNode
	ctx    int
	absent uint32 // bit i: opts[i] absent
	nAbs   int
}

func (s spShape) absentNames() []string {
	var out []string
	for i, o := range s.node.opts {
		if s.absent&(1<<i) != 0 {
			out = append(out, o.name)
		}
	}
	if len(out) == 0 {
		out = []string{"none"}
	}
	return out
}

// sig: the stable name of the shape class: context, node TYPE (not path, so that
// Pairs / Kvs / Errors of different commands fall together) and absent fields.
func (s spShape) sig() string {
	return ctxNames[s.ctx] + ":" + s.node.typ.String() + ":absent=" + strings.Join(s.absentNames(), "+")
}

func (s spShape) id() string {
	return fmt.Sprintf("%s|%s|%s", ctxNames[s.ctx], s.node.norm, strings.Join(s.absentNames(), "+"))
}

// rank: simplest first (context, number of absent fields, node position, mask).
func (s spShape) less(o spShape) bool {
	if s.ctx != o.ctx {
		return s.ctx < o.ctx
	}
	if s.nAbs != o.nAbs {
		return s.nAbs < o.nAbs
	}
	if s.node.idx != o.node.idx {
		return s.node.idx < o.node.idx
	}
	return s.absent < o.absent
}

func hasKeyLeaf(v reflect.Value) bool {
	for _, l := range flatten(v).leaves {
		if l.Class != clsOther && l.Val.Len() > 0 {
			return true
		}
	}
	return false
}

// unwrapMsgs returns the struct values (addressable) held by a message-typed
// field: pointer, slice of pointers / structs, oneof interface, plain struct.
func unwrapMsgs(fv reflect.Value) []reflect.Value {
	switch fv.Kind() {
	case reflect.Ptr:
		if !fv.IsNil() && fv.Elem().Kind() == reflect.Struct {
			return []reflect.Value{fv.Elem()}
		}
	case reflect.Struct:
		return []reflect.Value{fv}
	case reflect.Interface:
		if !fv.IsNil() {
			e := fv.Elem()
			if e.Kind() == reflect.Ptr && !e.IsNil() && e.Elem().Kind() == reflect.Struct {
				return []reflect.Value{e.Elem()}
			}
		}
	case reflect.Slice:
		if isBytes(fv.Type()) || (fv.Type().Elem().Kind() == reflect.Slice) {
			return nil
		}
		var out []reflect.Value
		for i := 0; i < fv.Len(); i++ {
			out = append(out, unwrapMsgs(fv.Index(i))...)
		}
		return out
	}
	return nil
}

// discoverNodes walks the fully generated response breadth-first.
func discoverNodes(root reflect.Value, skipTop map[string]bool) []*spNode {
	type item struct {
		v    reflect.Value
		norm string
		rep  bool
	}
	var nodes []*spNode
	seen := map[string]bool{}
	queue := []item{{root.Elem(), "", false}}
	for len(queue) > 0 {
		it := queue[0]
		queue = queue[1:]
		if seen[it.norm] {
			continue
		}
		seen[it.norm] = true
		t := it.v.Type()
		n := &spNode{norm: it.norm, typ: t, rep: it.rep}
		for i := 0; i < t.NumField(); i++ {
			sf := t.Field(i)
			if !exported(sf) {
				continue
			}
			if it.norm == "" && skipTop[sf.Name] {
				continue
			}
			fv := it.v.Field(i)
			tf := t.String() + "." + sf.Name
			if isBytes(sf.Type) || (sf.Type.Kind() == reflect.Slice && isBytes(sf.Type.Elem())) {
				if classify(t, sf.Name) != clsOther && fv.Len() > 0 {
					n.opts = append(n.opts, spOpt{name: sf.Name, typeField: tf})
				}
				continue
			}
			subs := unwrapMsgs(fv)
			if len(subs) == 0 {
				continue
			}
			keyed := false
			for _, s := range subs {
				if hasKeyLeaf(s.Addr()) {
					keyed = true
				}
			}
			if !keyed {
				continue
			}
			n.opts = append(n.opts, spOpt{name: sf.Name, typeField: tf, msg: true})
			queue = append(queue, item{subs[0], join(it.norm, sf.Name), it.rep || fv.Kind() == reflect.Slice})
		}
		if len(n.opts) > 0 && len(n.opts) <= 30 {
			n.idx = len(nodes)
			nodes = append(nodes, n)
		}
	}
	return nodes
}

func popcount(x uint32) int {
	c := 0
	for ; x != 0; x &= x - 1 {
		c++
	}
	return c
}

// masksFor: all masks for small nodes, the two edges of the lattice for large ones.
func masksFor(k, maskFull, maskEdge int) []uint32 {
	var out []uint32
	for m := uint32(0); m < 1<<k; m++ {
		a := popcount(m)
		if k <= maskFull || a <= maskEdge || k-a <= maskEdge {
			out = append(out, m)
		}
	}
	return out
}

func zeroField(v reflect.Value, name string) {
	f := v.FieldByName(name)
	f.Set(reflect.Zero(f.Type()))
}

// applyShape removes fields from the fully generated message.
func applyShape(v reflect.Value, norm string, sh spShape, byNorm map[string]*spNode) {
	target := sh.node.norm
	if norm == target {
		for i, o := range sh.node.opts {
			if sh.absent&(1<<i) != 0 {
				zeroField(v, o.name)
			}
		}
		return
	}
	rest := target
	if norm != "" {
		if !strings.HasPrefix(target, norm+".") {
			return
		}
		rest = target[len(norm)+1:]
	}
	next := strings.SplitN(rest, ".", 2)[0]
	if sh.ctx == ctxSparse {
		if n := byNorm[norm]; n != nil {
			for _, o := range n.opts {
				if o.name != next {
					zeroField(v, o.name)
				}
			}
		}
	}
	subs := unwrapMsgs(v.FieldByName(next))
	for i, s := range subs {
		if sh.ctx == ctxDenseFirst && i > 0 {
			break
		}
		applyShape(s, join(norm, next), sh, byNorm)
	}
}

type spFail struct {
	kind, cmd, top, detail string
	codec                  string
	shape                  spShape
	ref                    caseRef
}

var (
	spMu      sync.Mutex
	spFails   []spFail
	spShapes  atomic.Int64 // distinct (command, codec, shape)
	spNodes   atomic.Int64 // distinct (command, node)
	spByCtx   [3]atomic.Int64
	spLeaves  atomic.Int64 // present key-like leaves checked
	spAbsent  atomic.Int64 // absent key-like leaves checked
	spCmds    sync.Map
	spMaxOpts atomic.Int64
)

func spFailure(f spFail) {
	spMu.Lock()
	spFails = append(spFails, f)
	spMu.Unlock()
}

func sparseBounds() (maskFull, maskEdge int) {
	if run.Thorough() {
		return 12, 3
	}
	return 4, 2
}

func topOf(p string) string {
	return strings.SplitN(strings.SplitN(strings.SplitN(p, ".", 2)[0], "[", 2)[0], "#", 2)[0]
}

func checkSparseDecode(ci *cmdInfo, cc *codecCase) {
	if ex, _ := responseExcluded(ci); ex {
		return // listed by checkDecode
	}
	routable := regionRoutable(ci)
	skipTop := map[string]bool{}
	if !routable {
		skipTop["RegionError"] = true // not demanded, see checkDecode
	}
	maskFull, maskEdge := sparseBounds()
	full := (&builder{sliceLen: 2, maxRec: 2}).newMsg(ci.RespT.Elem())
	nodes := discoverNodes(full, skipTop)
	if len(nodes) == 0 {
		return
	}
	byNorm := map[string]*spNode{}
	for _, n := range nodes {
		byNorm[n.norm] = n
		if int64(len(n.opts)) > spMaxOpts.Load() {
			spMaxOpts.Store(int64(len(n.opts)))
		}
		if _, dup := stateSeen.LoadOrStore("spnode/"+ci.Name+"/"+n.norm, true); !dup {
			spNodes.Add(1)
		}
	}
	spCmds.Store(ci.Name, true)
	var shapes []spShape
	for _, n := range nodes {
		for _, m := range masksFor(len(n.opts), maskFull, maskEdge) {
			for ctx := ctxDenseAll; ctx <= ctxSparse; ctx++ {
				if m == 0 && ctx != ctxSparse {
					continue // the fully populated response: checkDecode
				}
				if n.norm == "" && ctx != ctxDenseAll {
					continue // the response itself: one instance, no ancestors
				}
				if ctx == ctxDenseFirst && !n.rep {
					continue // a single instance: same as dense
				}
				shapes = append(shapes, spShape{node: n, ctx: ctx, absent: m, nAbs: popcount(m)})
			}
		}
	}
	sort.SliceStable(shapes, func(i, j int) bool { return shapes[i].less(shapes[j]) })
	// EncodeRequest never changes the caller's request (checkEncode), DecodeResponse
	// recycles the ENCODED one: encode afresh for every shape from one plain request
	plainReq, _ := buildRequest(ci, false, false)
	// Baseline: the fully populated response. What already fails there is a defect that
	// does not depend on the shape and is reported by checkDecode under its own key;
	// the sparse part reports only failures that the fully populated response does not show.
	baseFail := map[string]bool{} // kind|path
	baseline := true
	shapes = append([]spShape{{node: nodes[0], ctx: ctxDenseAll}}, shapes...)
	for _, sh := range shapes {
		sh := sh
		isBase := baseline
		baseline = false
		ref := caseRef{Kind: "decode-sparse", Cmd: ci.Name, Mode: cc.ModeName, ID: cc.ID,
			Info: map[string]any{"node": sh.node.norm, "node_type": sh.node.typ.String(), "context": ctxNames[sh.ctx], "absent": sh.absentNames()}}
		guard("decode-sparse:"+ci.Name, ref, func() {
			nTransitions.Add(1)
			enc, err := cc.Codec.EncodeRequest(plainReq)
			if err != nil {
				return // reported by checkEncode
			}
			msg := (&builder{sliceLen: 2, maxRec: 2}).newMsg(ci.RespT.Elem())
			applyShape(msg.Elem(), "", sh, byNorm)
			fl := flatten(msg)
			want := fl.vals // logical markers: taken before the wire values are written into the message
			present, absent := 0, 0
			isKey := map[string]*leafInfo{}
			for _, l := range fl.leaves {
				if l.Class == clsOther {
					continue
				}
				if l.Top == "RegionError" && !routable {
					continue
				}
				isKey[l.Path] = l
				if l.Val.Len() == 0 {
					absent++
					continue // absent stays absent: nothing is put on the wire for it
				}
				present++
				setBytes(l.Val, cc.wire(l.Class, l.Val.Bytes()))
			}
			if isBase {
				// not counted: the same case as checkDecode's
			} else if _, dup := stateSeen.LoadOrStore(fmt.Sprintf("sp/%s/%s/%s", ci.Name, cc.tag(), sh.id()), true); !dup {
				nStates.Add(1)
				spShapes.Add(1)
				spByCtx[sh.ctx].Add(1)
				if present > 0 && (absent > 0 || sh.ctx == ctxSparse) {
					nNontrivial.Add(1)
				}
			}
			out, err := cc.Codec.DecodeResponse(enc, &tikvrpc.Response{Resp: msg.Interface()})
			nTransitions.Add(1)
			nTraces.Add(1)
			nEvals.Add(1)
			if (err != nil || out == nil) && isBase {
				baseFail["error"] = true // decode:error:<cmd> of checkDecode
				return
			}
			if err != nil || out == nil {
				if baseFail["error"] {
					return
				}
				spFailure(spFail{kind: "error", cmd: ci.Name, top: topOf(sh.node.norm), codec: cc.tag(), shape: sh, ref: ref,
					detail: fmt.Sprintf("DecodeResponse(%s) under %s, shape %s at %q: %v", ci.Name, cc.tag(), sh.sig(), sh.node.norm, err)})
				return
			}
			got := flatten(reflect.ValueOf(out.Resp))
			// one failure per (kind, top) and shape: the one with the smallest path
			type rep struct{ path, detail string }
			reported := map[string]*rep{}
			fail := func(kind, path string, detail func() string) {
				if isBase {
					baseFail[kind+"|"+path] = true
					return
				}
				if baseFail[kind+"|"+path] {
					return
				}
				k := kind + "|" + topOf(path)
				if r := reported[k]; r == nil || path < r.path {
					reported[k] = &rep{path, detail()}
				}
			}
			defer func() {
				for k, r := range reported {
					kt := strings.SplitN(k, "|", 2)
					spFailure(spFail{kind: kt[0], cmd: ci.Name, top: kt[1], codec: cc.tag(), shape: sh, ref: ref, detail: r.detail})
				}
			}()
			for p := range fl.vals {
				if !routable && strings.HasPrefix(p, "RegionError") {
					continue
				}
				w := want[p]
				g, ok := got.vals[p]
				nEvals.Add(1)
				if l := isKey[p]; l != nil {
					if w == "b:" {
						spAbsent.Add(1)
						if !ok || g != "b:" {
							fail("absent-changed", p, func() string { return fmt.Sprintf("%s.%s under %s, shape %s at %q: absent key field decoded to %x", ci.Name, p, cc.tag(), sh.sig(), sh.node.norm, strings.TrimPrefix(g, "b:")) })
						}
						continue
					}
					spLeaves.Add(1)
					if !ok || g != w {
						fail("not-stripped", p, func() string { return fmt.Sprintf("%s.%s under %s, shape %s at %q: wire %x decoded to %x, want %x", ci.Name, p, cc.tag(), sh.sig(), sh.node.norm,
							cc.wire(l.Class, []byte(w[2:])), strings.TrimPrefix(g, "b:"), w[2:]) })
					}
					continue
				}
				if !ok || g != w {
					fail("value-changed", p, func() string { return fmt.Sprintf("%s.%s under %s, shape %s at %q: %q -> %q", ci.Name, p, cc.tag(), sh.sig(), sh.node.norm, w, g) })
				}
			}
			for p := range got.vals {
				if _, ok := want[p]; !ok && !(!routable && strings.HasPrefix(p, "RegionError")) {
					p := p
					fail("value-changed", p, func() string { return fmt.Sprintf("%s.%s under %s, shape %s at %q: appeared after decode (%q)", ci.Name, p, cc.tag(), sh.sig(), sh.node.norm, got.vals[p]) })
				}
			}
			if isBase {
				return
			}
			outcome("decode-sparse-ok")
			samples.Add(func() any {
				return map[string]any{"kind": "decode-sparse", "cmd": ci.Name, "codec": cc.tag(), "node": sh.node.norm, "context": ctxNames[sh.ctx],
					"absent": sh.absentNames(), "present_key_fields": present, "absent_key_fields": absent}
			})
		})
	}
}

func describeSparseKind(k string) string {
	switch k {
	case "not-stripped":
		return "a key-like response field that is present still carries the keyspace prefix when sibling / ancestor key fields are absent"
	case "absent-changed":
		return "an absent (empty) key field of a response is no longer empty after DecodeResponse"
	case "value-changed":
		return "DecodeResponse changed a non-key value / the structure of a sparse response"
	case "error":
		return "DecodeResponse rejects a response that holds only keys of its own keyspace"
	}
	return k
}

// finishSparseReport: per (kind, command, top-level field) the SIMPLEST failing
// shape names the class; equal classes of several commands are one violation.
func finishSparseReport() {
	spMu.Lock()
	defer spMu.Unlock()
	type pick struct {
		f spFail
		n int
	}
	best := map[string]*pick{}
	for _, f := range spFails {
		k := f.kind + "|" + f.cmd + "|" + f.top
		p := best[k]
		if p == nil {
			best[k] = &pick{f: f, n: 1}
			continue
		}
		p.n++
		// simplest shape; ties (same shape under several codecs, workers run in parallel) by codec name
		if f.shape.less(p.f.shape) || (!p.f.shape.less(f.shape) && f.codec < p.f.codec) {
			p.f = f
		}
	}
	type agg struct {
		cmds  map[string]bool
		first spFail
		n     int
	}
	groups := map[string]*agg{}
	var bk []string
	for k := range best {
		bk = append(bk, k)
	}
	sort.Strings(bk)
	for _, k := range bk {
		p := best[k]
		g := p.f.kind + "|" + p.f.shape.sig()
		a := groups[g]
		if a == nil {
			a = &agg{cmds: map[string]bool{}, first: p.f}
			groups[g] = a
		}
		a.cmds[p.f.cmd+"."+p.f.top] = true
		a.n += p.n
	}
	var gk []string
	for g := range groups {
		gk = append(gk, g)
	}
	sort.Strings(gk)
	for _, g := range gk {
		a := groups[g]
		cmds := map[string]bool{}
		for c := range a.cmds {
			cmds[strings.SplitN(c, ".", 2)[0]] = true
		}
		who := "*"
		if len(cmds) == 1 {
			who = a.first.cmd
		}
		key := "decode-sparse:" + a.first.kind + ":" + who + ":" + a.first.shape.sig()
		viol(key, fmt.Sprintf("%s; simplest failing shape: %s; first: %s; affected: %s (%d failing shape x codec cases)",
			describeSparseKind(a.first.kind), a.first.shape.sig(), a.first.detail, strings.Join(sortedKeys(a.cmds), ","), a.n), a.first.ref)
	}
}

func sparseStats() map[string]any {
	maskFull, maskEdge := sparseBounds()
	n := 0
	spCmds.Range(func(_, _ any) bool { n++; return true })
	return map[string]any{
		"commands_with_key_bearing_nodes": n,
		"nodes":                           spNodes.Load(),
		"shapes":                          spShapes.Load(),
		"shapes_dense_all":                spByCtx[ctxDenseAll].Load(),
		"shapes_dense_first_instance":     spByCtx[ctxDenseFirst].Load(),
		"shapes_sparse_chain":             spByCtx[ctxSparse].Load(),
		"present_key_leaves_checked":      spLeaves.Load(),
		"absent_key_leaves_checked":       spAbsent.Load(),
		"max_optional_fields_of_a_node":   spMaxOpts.Load(),
		"mask_full_up_to":                 maskFull,
		"mask_edge":                       maskEdge,
	}
}

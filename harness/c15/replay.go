package main

import (
	"encoding/json"
	"fmt"
	"strings"
	"sync"
	"sync/atomic"

	"github.com/pingcap/failpoint"
	"github.com/tikv/client-go/v2/internal/apicodec"
	"github.com/tikv/client-go/v2/util"
)

// replayCase re-runs the part of the check a replay file points to and reports
// whether the recorded violation key shows up again.
func replayCase(key string, raw json.RawMessage, cmds []*cmdInfo) int {
	var ref caseRef
	var ds diffSeq
	isDiff := json.Unmarshal(raw, &ds) == nil && len(ds.Ops) > 0
	if !isDiff {
		if err := json.Unmarshal(raw, &ref); err != nil {
			// plain string artefacts (catalogue problems): re-run discovery only
			_, problems := discover()
			for _, p := range problems {
				viol("catalogue", p, p)
			}
		}
	}
	if isDiff {
		util.EnableFailpoints()
		failpoint.Enable("tikvclient/fastBackoffBySkipSleep", "return")
	}
	if isDiff && ds.Txn {
		// txn sequences are cheap: re-run the whole depth they belong to
		runTxnDifferential(len(ds.Ops))
	} else if isDiff {
		alpha := rawAlphabet()
		idx := func(o rop) int {
			for i, a := range alpha {
				if a.String() == o.String() {
					return i
				}
			}
			return 0
		}
		n := len(alpha)
		seqA := make([]int, len(ds.Ops))
		seqB := make([]int, len(ds.Ops))
		seqV := make([]int, len(ds.Ops))
		for i, o := range ds.Ops {
			seqA[i] = idx(o)
			seqB[i] = (seqA[i] + 7) % n
			seqV[i] = (seqA[i] + 13) % n
		}
		var a, b atomic.Int64
		runShared(alpha, ds.Pair, seqA, seqB, seqV, runIsolated(alpha, seqA), runIsolated(alpha, seqB), runIsolated(alpha, seqV), ds, &a, &b, &sync.Map{})
	} else if ref.Kind != "" {
		if strings.Contains(key, ":*:") {
			ref.Cmd = "" // type-level finding: needs the whole catalogue to be classified again
		}
		ids := []uint32{ref.ID}
		var ccs []*codecCase
		for _, cc := range makeCodecs(ids) {
			if ref.Mode == "" || cc.ModeName == ref.Mode {
				ccs = append(ccs, cc)
			}
		}
		if ref.Kind == "plumbing" {
			ccs = nil
		}
		checkCodecConstruction(ids)
		for _, ci := range cmds {
			if ref.Cmd != "" && ci.Name != ref.Cmd {
				continue
			}
			checkPlumbing(ci)
			for _, cc := range ccs {
				checkEncode(ci, cc)
				checkDecode(ci, cc)
				checkSparseDecode(ci, cc)
				checkRanges(ci, cc)
			}
		}
		for _, cc := range ccs {
			checkKeyAndRangeLaws(cc)
			checkRegionClipping(cc, cmds)
			checkPDCodec(cc)
		}
		finishDecodeReport()
		finishSparseReport()
	}
	_ = apicodec.ModeRaw
	violMu.Lock()
	defer violMu.Unlock()
	if violKeys[key] {
		fmt.Printf("VIOLATION property=C15 key=%s (replay reproduces)\n", key)
		return 1
	}
	fmt.Printf("replay: key %s not reproduced (other keys seen: %d)\n", key, len(violKeys))
	return 0
}

package main

// CodecPDClient (internal/locate/pd_codec.go) over a scripted PD: keys are
// prefixed + memcomparable-encoded towards PD, regions coming back are clipped
// to the keyspace, regions entirely outside are rejected.

import (
	"bytes"
	"context"
	"fmt"

	"github.com/pingcap/kvproto/pkg/keyspacepb"
	"github.com/pingcap/kvproto/pkg/metapb"
	"github.com/pingcap/kvproto/pkg/pdpb"
	"github.com/tikv/client-go/v2/internal/locate"
	pd "github.com/tikv/pd/client"
	"github.com/tikv/pd/client/clients/router"
	"github.com/tikv/pd/client/opt"
	"github.com/tikv/pd/client/pkg/caller"
)

type fakePD struct {
	pd.Client
	meta       *keyspacepb.KeyspaceMeta
	ret        func() []*router.Region
	gotKey     []byte
	gotStart   []byte
	gotEnd     []byte
	gotRanges  []router.KeyRange
	gotSplit   [][]byte
	calledWith string
}

func (f *fakePD) LoadKeyspace(ctx context.Context, name string) (*keyspacepb.KeyspaceMeta, error) {
	return f.meta, nil
}
func (f *fakePD) WithCallerComponent(caller.Component) pd.Client { return f }
func (f *fakePD) one() *router.Region {
	rs := f.ret()
	if len(rs) == 0 {
		return nil
	}
	return rs[0]
}
func (f *fakePD) GetRegion(ctx context.Context, key []byte, opts ...opt.GetRegionOption) (*router.Region, error) {
	f.gotKey = key
	return f.one(), nil
}
func (f *fakePD) GetPrevRegion(ctx context.Context, key []byte, opts ...opt.GetRegionOption) (*router.Region, error) {
	f.gotKey = key
	return f.one(), nil
}
func (f *fakePD) GetRegionByID(ctx context.Context, regionID uint64, opts ...opt.GetRegionOption) (*router.Region, error) {
	return f.one(), nil
}
func (f *fakePD) ScanRegions(ctx context.Context, key, endKey []byte, limit int, opts ...opt.GetRegionOption) ([]*router.Region, error) {
	f.gotStart, f.gotEnd = key, endKey
	return f.ret(), nil
}
func (f *fakePD) BatchScanRegions(ctx context.Context, keyRanges []router.KeyRange, limit int, opts ...opt.GetRegionOption) ([]*router.Region, error) {
	f.gotRanges = keyRanges
	return f.ret(), nil
}
func (f *fakePD) SplitRegions(ctx context.Context, splitKeys [][]byte, opts ...opt.RegionsOption) (*pdpb.SplitRegionsResponse, error) {
	f.gotSplit = splitKeys
	return &pdpb.SplitRegionsResponse{}, nil
}
func (f *fakePD) Close() {}

// bucketModel: reference clipping of bucket boundaries (see DecodeBucketKeys):
// boundaries at or below the keyspace start collapse into one leading "",
// boundaries at or above the keyspace end into one trailing "", the rest is stripped.
func (cc *codecCase) bucketModel(keys [][]byte) [][]byte {
	var out [][]byte
	low, high := false, false
	for i, k := range keys {
		switch {
		case (i == 0 && len(k) == 0) || (len(k) > 0 && bytes.Compare(k, cc.Prefix) <= 0) || (i != len(keys)-1 && len(k) == 0):
			low = true
		case (i == len(keys)-1 && len(k) == 0) || bytes.Compare(k, cc.End) >= 0:
			high = true
		default:
			out = append(out, k[len(cc.Prefix):])
		}
	}
	if low {
		out = append([][]byte{{}}, out...)
	}
	if high {
		out = append(out, []byte{})
	}
	return out
}

func keysStr(ks [][]byte) string {
	s := ""
	for _, k := range ks {
		s += fmt.Sprintf("%x,", k)
	}
	return "[" + s + "]"
}

func eqKeys(a, b [][]byte) bool {
	if len(a) != len(b) {
		return false
	}
	for i := range a {
		if !bytes.Equal(a[i], b[i]) {
			return false
		}
	}
	return true
}

func checkPDCodec(cc *codecCase) {
	ref := caseRef{Kind: "pdcodec", Mode: cc.ModeName, ID: cc.ID}
	ctx := context.Background()
	guard("pdcodec", ref, func() {
		f := &fakePD{meta: &keyspacepb.KeyspaceMeta{Keyspace: &keyspacepb.KeyspaceMeta_Id{Id: cc.ID}, Name: cc.Name, State: keyspacepb.KeyspaceState_ENABLED}}
		c, err := locate.NewCodecPDClientWithKeyspace(cc.Mode, f, cc.Name)
		if err != nil {
			viol("pdcodec:new", fmt.Sprintf("NewCodecPDClientWithKeyspace: %v", err), ref)
			return
		}
		if !bytes.Equal(c.GetCodec().GetKeyspace(), cc.Prefix) {
			viol("pdcodec:new", fmt.Sprintf("codec prefix %x, want %x", c.GetCodec().GetKeyspace(), cc.Prefix), ref)
		}
		// request side
		f.ret = func() []*router.Region { return nil }
		for _, k := range [][]byte{{}, []byte("k"), {0xff, 0xff}} {
			state(fmt.Sprintf("pd/%s/GetRegion-key/%x", cc.tag(), k), true)
			r, err := c.GetRegion(ctx, k)
			nTransitions.Add(1)
			nEvals.Add(1)
			if r != nil || err != nil {
				viol("pdcodec:nil-region", fmt.Sprintf("GetRegion with no region returned %v,%v", r, err), ref)
			}
			if !bytes.Equal(f.gotKey, memEnc(cat(cc.Prefix, k))) {
				viol("pdcodec:GetRegion:key", fmt.Sprintf("GetRegion(%x) asked PD for %x, want mem(%x)", k, f.gotKey, cat(cc.Prefix, k)), ref)
			}
			c.GetPrevRegion(ctx, k)
			nTransitions.Add(1)
			nEvals.Add(1)
			if !bytes.Equal(f.gotKey, memEnc(cat(cc.Prefix, k))) {
				viol("pdcodec:GetPrevRegion:key", fmt.Sprintf("GetPrevRegion(%x) asked PD for %x", k, f.gotKey), ref)
			}
		}
		for _, s := range rangeBounds {
			for _, e := range rangeBounds {
				state(fmt.Sprintf("pd/%s/scan-range/%x/%x", cc.tag(), s, e), len(s) == 0 || len(e) == 0)
				wantS := memEnc(cat(cc.Prefix, s))
				wantE := memEnc(cc.End)
				if len(e) > 0 {
					wantE = memEnc(cat(cc.Prefix, e))
				}
				c.ScanRegions(ctx, s, e, 10)
				nTransitions.Add(2)
				nEvals.Add(2)
				if !bytes.Equal(f.gotStart, wantS) || !bytes.Equal(f.gotEnd, wantE) {
					viol("pdcodec:ScanRegions:range", fmt.Sprintf("ScanRegions(%x,%x) under %s asked PD for [%x,%x), want [%x,%x)", s, e, cc.tag(), f.gotStart, f.gotEnd, wantS, wantE), ref)
				}
				c.BatchScanRegions(ctx, []router.KeyRange{{StartKey: s, EndKey: e}, {StartKey: []byte("x1"), EndKey: []byte("x2")}}, 10)
				if len(f.gotRanges) != 2 || !bytes.Equal(f.gotRanges[0].StartKey, wantS) || !bytes.Equal(f.gotRanges[0].EndKey, wantE) ||
					!bytes.Equal(f.gotRanges[1].StartKey, memEnc(cat(cc.Prefix, []byte("x1")))) || !bytes.Equal(f.gotRanges[1].EndKey, memEnc(cat(cc.Prefix, []byte("x2")))) {
					viol("pdcodec:BatchScanRegions:range", fmt.Sprintf("BatchScanRegions(%x,%x) under %s asked PD for %v", s, e, cc.tag(), f.gotRanges), ref)
				}
			}
		}
		c.SplitRegions(ctx, [][]byte{[]byte("a"), {}, {0xff}})
		nTransitions.Add(1)
		nEvals.Add(1)
		if len(f.gotSplit) != 3 || !bytes.Equal(f.gotSplit[0], memEnc(cat(cc.Prefix, []byte("a")))) || !bytes.Equal(f.gotSplit[1], memEnc(cc.Prefix)) || !bytes.Equal(f.gotSplit[2], memEnc(cat(cc.Prefix, []byte{0xff}))) {
			viol("pdcodec:SplitRegions:keys", fmt.Sprintf("SplitRegions sent %s", keysStr(f.gotSplit)), ref)
		}

		// response side: the region grid
		bs := cc.regionBounds()
		for si, s := range bs {
			for ei, e := range bs {
				if len(e.raw) > 0 && bytes.Compare(s.raw, e.raw) >= 0 {
					continue
				}
				ws, we, overlap := cc.clipModel(s.raw, e.raw)
				shape := s.name + ".." + e.name
				// bucket boundaries: the region bounds plus every grid point strictly inside
				rawBuckets := [][]byte{s.raw}
				for bi := 1; bi < len(bs); bi++ {
					if bi > si && (ei == 0 || bi < ei) && bytes.Compare(bs[bi].raw, s.raw) > 0 && (len(e.raw) == 0 || bytes.Compare(bs[bi].raw, e.raw) < 0) {
						rawBuckets = append(rawBuckets, bs[bi].raw)
					}
				}
				rawBuckets = append(rawBuckets, e.raw)
				mk := func() []*router.Region {
					var bk [][]byte
					for _, k := range rawBuckets {
						bk = append(bk, memOrEmpty(k))
					}
					return []*router.Region{{Meta: &metapb.Region{Id: 7, StartKey: memOrEmpty(s.raw), EndKey: memOrEmpty(e.raw)},
						Buckets: &metapb.Buckets{RegionId: 7, Version: 1, Keys: bk}}}
				}
				f.ret = mk
				rref := ref
				rref.Info = map[string]any{"start": s.name, "end": e.name, "start_raw": fmt.Sprintf("%x", s.raw), "end_raw": fmt.Sprintf("%x", e.raw)}
				nontrivial := overlap && (len(ws) == 0 || len(we) == 0) && (len(s.raw) > 0 || len(e.raw) > 0)
				type call struct {
					name string
					f    func() ([]*router.Region, error)
				}
				single := func(r *router.Region, err error) ([]*router.Region, error) {
					if r == nil {
						return nil, err
					}
					return []*router.Region{r}, err
				}
				for _, cl := range []call{
					{"GetRegion", func() ([]*router.Region, error) { return single(c.GetRegion(ctx, []byte("k"))) }},
					{"GetPrevRegion", func() ([]*router.Region, error) { return single(c.GetPrevRegion(ctx, []byte("k"))) }},
					{"GetRegionByID", func() ([]*router.Region, error) { return single(c.GetRegionByID(ctx, 7)) }},
					{"ScanRegions", func() ([]*router.Region, error) { return c.ScanRegions(ctx, nil, nil, 10) }},
					{"BatchScanRegions", func() ([]*router.Region, error) {
						return c.BatchScanRegions(ctx, []router.KeyRange{{}}, 10)
					}},
				} {
					state(fmt.Sprintf("pd/%s/%s/%s", cc.tag(), cl.name, shape), nontrivial)
					rs, err := cl.f()
					nTransitions.Add(1)
					nTraces.Add(1)
					nEvals.Add(2)
					var ds, de []byte
					if err == nil {
						if len(rs) != 1 || rs[0].Meta == nil {
							viol("pdcodec:"+cl.name+":lost-region", fmt.Sprintf("%s returned %d regions for region %s", cl.name, len(rs), shape), rref)
							continue
						}
						ds, de = rs[0].Meta.StartKey, rs[0].Meta.EndKey
					}
					checkClip("pd."+cl.name, shape, cc, ds, de, err, ws, we, overlap, rref)
					if err == nil && overlap {
						want := cc.bucketModel(rawBuckets)
						if got := rs[0].Buckets.GetKeys(); !eqKeys(got, want) {
							viol("pdcodec:buckets:"+clipKind(overlap, ws, we), fmt.Sprintf("%s: bucket keys %s of region %s under %s decoded to %s, want %s", cl.name, keysStr(rawBuckets), shape, cc.tag(), keysStr(got), keysStr(want)), rref)
						} else {
							outcome("buckets-" + clipKind(overlap, ws, we))
						}
					}
				}
			}
		}
	})
}

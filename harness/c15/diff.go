package main

// (e) Differential raw workload: API v1, v2 keyspace A and v2 keyspace B on ONE
// mock store. Every operation sequence up to the depth bound is executed; what A
// and B observe must equal what an isolated v1 client observes for the same
// logical operations, and the store must only ever hold prefixed keys for them.

import (
	"bytes"
	"context"
	"fmt"
	"os"
	"runtime"
	"runtime/pprof"
	"strings"
	"sync"
	"sync/atomic"
	"time"

	"github.com/pingcap/kvproto/pkg/keyspacepb"
	"github.com/tikv/client-go/v2/internal/apicodec"
	"github.com/tikv/client-go/v2/internal/client"
	"github.com/tikv/client-go/v2/internal/locate"
	"github.com/tikv/client-go/v2/internal/mockstore/mocktikv"
	"github.com/tikv/client-go/v2/rawkv"
	"github.com/tikv/client-go/v2/tikv"
	"github.com/tikv/client-go/v2/tikvrpc"
	pd "github.com/tikv/pd/client"
	"github.com/tikv/pd/client/pkg/caller"
)

// codecClient applies the codec around the transport exactly like
// tikv.CodecClient / RPCClient.SendRequest do.
type codecClient struct {
	client.Client
	codec apicodec.Codec
}

func (c *codecClient) SendRequest(ctx context.Context, addr string, req *tikvrpc.Request, timeout time.Duration) (*tikvrpc.Response, error) {
	enc, err := c.codec.EncodeRequest(req)
	if err != nil {
		return nil, err
	}
	resp, err := c.Client.SendRequest(ctx, addr, enc, timeout)
	if err != nil {
		return nil, err
	}
	return c.codec.DecodeResponse(enc, resp)
}

func (c *codecClient) Close() error { return nil } // the transport is shared

// ksPD adds keyspace metadata to the mock PD (its LoadKeyspace returns nil).
type ksPD struct {
	pd.Client
	metas map[string]*keyspacepb.KeyspaceMeta
}

func (p *ksPD) LoadKeyspace(ctx context.Context, name string) (*keyspacepb.KeyspaceMeta, error) {
	return p.metas[name], nil
}
func (p *ksPD) WithCallerComponent(c caller.Component) pd.Client {
	return &ksPD{p.Client.WithCallerComponent(c), p.metas}
}

type store struct {
	mvcc  mocktikv.MVCCStore
	rpc   *mocktikv.RPCClient
	pdc   pd.Client
	close []func()
}

func newStore() *store {
	mvcc := mocktikv.MustNewMVCCStore()
	cluster := mocktikv.NewCluster(mvcc)
	mocktikv.BootstrapWithSingleStore(cluster)
	s := &store{mvcc: mvcc, rpc: mocktikv.NewRPCClient(cluster, mvcc, nil), pdc: mocktikv.NewPDClient(cluster)}
	return s
}

func (s *store) Close() {
	if diffAbort.Load() {
		return // an abandoned operation may still be using the store
	}
	for _, f := range s.close {
		f()
	}
	s.rpc.Close()
	s.pdc.Close()
}

// wipe empties the physical store (raw and MVCC data live in the same leveldb)
// and confirms it, so that a reused world starts every sequence from the same
// empty state a fresh store would have.
func (s *store) wipe() bool {
	rk, ok := s.mvcc.(mocktikv.RawKV)
	if !ok {
		return false
	}
	rk.RawDeleteRange("", nil, nil)
	return len(rk.RawScan("", nil, nil, 1)) == 0
}

// world = one mock store plus the clients bound to it. Worlds are reused across
// sequences (after wipe) because every mocktikv instance pins a 4 MiB leveldb
// memtable for ~30s after Close; creating one per sequence exhausts memory at
// thorough depth. Client-side caches (region cache) stay warm, data does not.
type world struct {
	st   *store
	raw  []*rawkv.Client
	txn  []*tikv.KVStore
	uses int
	// dirty: an operation failed or disagreed with the reference; client-side state
	// (region cache, store liveness) may be affected, so the world is not reused.
	dirty atomic.Bool
}

// A world is retired after worldMaxUses sequences: the mock's leveldb keeps every
// overwritten / deleted version (and mocktikv never releases its scan iterators),
// so scans over a long-lived store get slower and slower.
const worldMaxUses = 400

var (
	worldMu    sync.Mutex
	worldPools = map[string][]*world{}
)

func getWorld(key string, mk func(w *world) error) (*world, error) {
	worldMu.Lock()
	if l := worldPools[key]; len(l) > 0 {
		w := l[len(l)-1]
		worldPools[key] = l[:len(l)-1]
		worldMu.Unlock()
		return w, nil
	}
	worldMu.Unlock()
	w := &world{st: newStore()}
	if err := mk(w); err != nil {
		return nil, err
	}
	return w, nil
}

func putWorld(key string, w *world) {
	if diffAbort.Load() {
		return // abandoned operations may still run on it
	}
	w.uses++
	if w.uses >= worldMaxUses || w.dirty.Load() {
		w.close()
		return
	}
	if !w.st.wipe() {
		run.Incomplete("differential: could not wipe a mock store for reuse")
		w.close()
		return
	}
	worldMu.Lock()
	worldPools[key] = append(worldPools[key], w)
	worldMu.Unlock()
}

func (w *world) close() {
	if diffAbort.Load() {
		return
	}
	for _, t := range w.txn {
		t.Close()
	}
	w.st.Close()
}

func closeWorlds() {
	worldMu.Lock()
	defer worldMu.Unlock()
	for k, l := range worldPools {
		for _, w := range l {
			w.close()
		}
		delete(worldPools, k)
	}
}

// rawClient builds a rawkv client; ks < 0 means API v1.
func (s *store) rawClient(ks int64) (*rawkv.Client, error) {
	var cpd *locate.CodecPDClient
	if ks < 0 {
		cpd = locate.NewCodecPDClient(apicodec.ModeRaw, s.pdc)
	} else {
		name := fmt.Sprintf("ks%d", ks)
		var err error
		cpd, err = locate.NewCodecPDClientWithKeyspace(apicodec.ModeRaw, &ksPD{s.pdc, map[string]*keyspacepb.KeyspaceMeta{
			name: {Keyspace: &keyspacepb.KeyspaceMeta_Id{Id: uint32(ks)}, Name: name, State: keyspacepb.KeyspaceState_ENABLED}}}, name)
		if err != nil {
			return nil, err
		}
	}
	rc := locate.NewRegionCache(cpd)
	p := rawkv.ClientProbe{Client: &rawkv.Client{}}
	p.SetRegionCache(rc)
	p.SetPDClient(cpd)
	p.SetRPCClient(&codecClient{s.rpc, cpd.GetCodec()})
	s.close = append(s.close, rc.Close)
	return p.Client, nil
}

// ---- liveness guard ----
//
// A correct client answers every operation of this workload in well under a
// millisecond. A broken codec can turn an operation into minutes of internal
// back-off (the decode error is retried like a network failure). The guard is
// not an oracle: an operation that does not return within opGuard makes the
// run incomplete (exhaustive:false) and stops the differential part early.
const opGuard = 10 * time.Second

var (
	diffAbort     atomic.Bool
	diffViolCount atomic.Int64
)

const diffViolCap = 200 // enough counterexamples; the enumeration is shortest-first

func guarded(f func() string) (res string, timedOut bool) {
	ch := make(chan string, 1)
	go func() { ch <- f() }()
	t := time.NewTimer(opGuard)
	defer t.Stop()
	select {
	case r := <-ch:
		return r, false
	case <-t.C:
		diffAbort.Store(true)
		return "TIMEOUT", true
	}
}

func diffStopped() bool {
	if diffAbort.Load() {
		run.Incomplete(fmt.Sprintf("differential workload stopped early: an operation did not return within the %v liveness guard", opGuard))
		return true
	}
	if diffViolCount.Load() > diffViolCap {
		run.Incomplete(fmt.Sprintf("differential workload stopped after %d violating observations (shortest sequences first)", diffViolCap))
		return true
	}
	return false
}

// ---- operations ----

type rop struct {
	Kind string `json:"op"`
	Keys []int  `json:"keys,omitempty"`
	S    string `json:"start,omitempty"`
	E    string `json:"end,omitempty"`
}

func (o rop) String() string {
	return fmt.Sprintf("%s%v[%q,%q)", o.Kind, o.Keys, o.S, o.E)
}

var diffKeys = []string{"a", "b", "c"}

func rawAlphabet() []rop {
	var a []rop
	for k := range diffKeys {
		a = append(a, rop{Kind: "put", Keys: []int{k}})
	}
	for k := range diffKeys {
		a = append(a, rop{Kind: "get", Keys: []int{k}})
	}
	for k := range diffKeys {
		a = append(a, rop{Kind: "del", Keys: []int{k}})
	}
	a = append(a, rop{Kind: "bget", Keys: []int{0, 1, 2}}, rop{Kind: "bput", Keys: []int{0, 2}}, rop{Kind: "bdel", Keys: []int{0, 1}})
	for _, s := range []string{"", "b"} {
		for _, e := range []string{"", "c"} {
			a = append(a, rop{Kind: "scan", S: s, E: e})
		}
	}
	for _, up := range []string{"c", "d"} {
		for _, lo := range []string{"", "b"} {
			a = append(a, rop{Kind: "rscan", S: up, E: lo})
		}
	}
	a = append(a, rop{Kind: "rscan", S: "", E: ""})
	for _, s := range []string{"", "b"} {
		for _, e := range []string{"", "c"} {
			a = append(a, rop{Kind: "delrange", S: s, E: e})
		}
	}
	return a
}

func fmtKV(keys, vals [][]byte) string {
	var sb strings.Builder
	for i := range keys {
		fmt.Fprintf(&sb, "%q=%q,", keys[i], vals[i])
	}
	return sb.String()
}

// apply runs one operation; tag marks the values written by this client.
// boundedTop replaces an unbounded upper end by "d" (used for the API v1 client
// on the shared store, whose unbounded ranges legitimately cover the keyspaces).
func applyRaw(c *rawkv.Client, o rop, tag string, step int, boundedTop bool) (res string) {
	defer func() {
		if p := recover(); p != nil {
			res = fmt.Sprintf("PANIC:%v", p)
		}
	}()
	ctx := context.Background()
	key := func(i int) []byte { return []byte(diffKeys[i]) }
	val := func(i int) []byte { return []byte(fmt.Sprintf("%s%d.%d", tag, step, i)) }
	// empty bound = nil: mocktikv hands a non-nil empty end straight to leveldb as
	// Limit "", which selects nothing (a mock artefact unrelated to the codec)
	bnd := func(s string) []byte {
		if s == "" {
			return nil
		}
		return []byte(s)
	}
	end := bnd(o.E)
	if boundedTop && len(end) == 0 && (o.Kind == "scan" || o.Kind == "delrange") {
		end = []byte("d")
	}
	var err error
	switch o.Kind {
	case "put":
		err = c.Put(ctx, key(o.Keys[0]), val(o.Keys[0]))
		res = "ok"
	case "get":
		var v []byte
		v, err = c.Get(ctx, key(o.Keys[0]))
		res = fmt.Sprintf("%q/%v", v, v == nil)
	case "del":
		err = c.Delete(ctx, key(o.Keys[0]))
		res = "ok"
	case "bget":
		var ks [][]byte
		for _, i := range o.Keys {
			ks = append(ks, key(i))
		}
		var vs [][]byte
		vs, err = c.BatchGet(ctx, ks)
		res = fmtKV(ks, vs)
		for _, v := range vs {
			res += fmt.Sprint(v == nil)
		}
	case "bput":
		var ks, vs [][]byte
		for _, i := range o.Keys {
			ks = append(ks, key(i))
			vs = append(vs, val(i))
		}
		err = c.BatchPut(ctx, ks, vs)
		res = "ok"
	case "bdel":
		var ks [][]byte
		for _, i := range o.Keys {
			ks = append(ks, key(i))
		}
		err = c.BatchDelete(ctx, ks)
		res = "ok"
	case "scan":
		var ks, vs [][]byte
		ks, vs, err = c.Scan(ctx, bnd(o.S), end, 10)
		res = fmtKV(ks, vs)
	case "rscan":
		var ks, vs [][]byte
		ks, vs, err = c.ReverseScan(ctx, bnd(o.S), bnd(o.E), 10)
		res = fmtKV(ks, vs)
	case "delrange":
		err = c.DeleteRange(ctx, bnd(o.S), end)
		res = "ok"
	}
	if err != nil {
		res = "ERR:" + err.Error()
	}
	return o.Kind + ":" + res
}

func apply(c *rawkv.Client, o rop, tag string, step int, boundedTop bool) string {
	r, _ := guarded(func() string { return applyRaw(c, o, tag, step, boundedTop) })
	return r
}

func normalise(res, tag string) string { return strings.ReplaceAll(res, "\""+tag, "\"#") }

// seesForeign reports whether a result shows a value written by another client.
func seesForeign(res, own string) bool {
	for _, t := range []string{"A", "B", "V"} {
		if t != own && strings.Contains(res, "\""+t) {
			return true
		}
	}
	return false
}

type diffSeq struct {
	Pair [2]uint32 `json:"keyspaces"`
	Ops  []rop     `json:"ops"`
	Txn  bool      `json:"txn,omitempty"`
}

func decodeSeq(idx, depth, n int) []int {
	out := make([]int, depth)
	for i := depth - 1; i >= 0; i-- {
		out[i] = idx % n
		idx /= n
	}
	return out
}

func encodeSeq(s []int, n int) int {
	idx := 0
	for _, v := range s {
		idx = idx*n + v
	}
	return idx
}

// runIsolated: API v1 client alone on a fresh store.
func runIsolated(alpha []rop, seq []int) []string {
	w, err := getWorld("raw-iso", func(w *world) error {
		c, err := w.st.rawClient(-1)
		w.raw = []*rawkv.Client{c}
		return err
	})
	if err != nil {
		return []string{"ERR:" + err.Error()}
	}
	defer putWorld("raw-iso", w)
	c := w.raw[0]
	var out []string
	for i, oi := range seq {
		out = append(out, normalise(apply(c, alpha[oi], "#", i, false), "#"))
	}
	out = append(out, apply(c, rop{Kind: "scan"}, "#", 99, false))
	for _, r := range out {
		if strings.Contains(r, "ERR:") {
			w.dirty.Store(true)
		}
	}
	return out
}

// runDifferential enumerates all sequences of length 1..depth (shorter first).
func runDifferential(depth int) map[string]any {
	alpha := rawAlphabet()
	n := len(alpha)
	pairs := [][2]uint32{{1, 2}}
	if run.Thorough() {
		pairs = [][2]uint32{{1, 2}, {0xFFFFFE, 0xFFFFFF}, {0xFFFFFF, 0}}
	}
	var seqs, opsRun, storeKeysChecked atomic.Int64
	distinctFinal := sync.Map{}
	distinctRes := sync.Map{}
	start := time.Now()
	for d := 1; d <= depth; d++ {
		total := 1
		for i := 0; i < d; i++ {
			total *= n
		}
		// reference table: isolated v1 runs
		refs := make([][]string, total)
		parallel(total, func(i int) {
			refs[i] = runIsolated(alpha, decodeSeq(i, d, n))
			opsRun.Add(int64(d + 1))
			distinctFinal.Store(refs[i][d], true)
		})
		for _, pair := range pairs {
			// further keyspace pairs (ids at the top of the id space) only at depth 3:
			// they vary the prefix arithmetic, not the interleavings
			if pair != pairs[0] && d != 3 {
				continue
			}
			pair := pair
			parallel(total, func(i int) {
				if run.Expired() {
					run.Incomplete("differential: wall-clock budget reached")
					return
				}
				if diffStopped() {
					return
				}
				seqA := decodeSeq(i, d, n)
				seqB := make([]int, d)
				seqV := make([]int, d)
				for j, v := range seqA {
					seqB[j] = (v + 7) % n
					seqV[j] = (v + 13) % n
				}
				ops := make([]rop, d)
				for j, v := range seqA {
					ops[j] = alpha[v]
				}
				replay := diffSeq{Pair: pair, Ops: ops}
				runShared(alpha, pair, seqA, seqB, seqV, refs[i], refs[encodeSeq(seqB, n)], refs[encodeSeq(seqV, n)], replay, &opsRun, &storeKeysChecked, &distinctRes)
				seqs.Add(1)
				nTraces.Add(1)
				nStates.Add(1)
				if d >= 2 {
					nNontrivial.Add(1)
				}
			})
		}
	}
	cnt := func(m *sync.Map) int {
		c := 0
		m.Range(func(_, _ any) bool { c++; return true })
		return c
	}
	nTransitions.Add(opsRun.Load())
	var ms runtime.MemStats
	runtime.ReadMemStats(&ms)
	if pf := os.Getenv("VERIF_C15_HEAPPROF"); pf != "" {
		if f, err := os.Create(pf); err == nil {
			pprof.WriteHeapProfile(f)
			f.Close()
		}
	}
	run.Note("after raw differential: goroutines=%d heap_inuse_mb=%d sys_mb=%d", runtime.NumGoroutine(), ms.HeapInuse>>20, ms.Sys>>20)
	return map[string]any{"alphabet": n, "depth": depth, "keyspace_pairs": pairs, "sequences": seqs.Load(), "api_calls": opsRun.Load(),
		"distinct_final_states": cnt(&distinctFinal), "distinct_results": cnt(&distinctRes), "physical_keys_checked": storeKeysChecked.Load(),
		"wall_s": int(time.Since(start).Seconds()), "mode": "raw (mocktikv, single region)"}
}

func parallel(total int, f func(i int)) {
	var wg sync.WaitGroup
	var next atomic.Int64
	for w := 0; w < 16; w++ {
		wg.Add(1)
		go func() {
			defer wg.Done()
			for {
				i := int(next.Add(1)) - 1
				if i >= total {
					return
				}
				f(i)
			}
		}()
	}
	wg.Wait()
}

func opKind(o rop) string {
	if o.S == "" && o.E == "" && (o.Kind == "scan" || o.Kind == "rscan" || o.Kind == "delrange") {
		return o.Kind + "-unbounded"
	}
	if (o.Kind == "scan" || o.Kind == "delrange") && o.E == "" {
		return o.Kind + "-open-end"
	}
	if o.Kind == "rscan" && o.E == "" {
		return o.Kind + "-open-lower"
	}
	return o.Kind
}

func runShared(alpha []rop, pair [2]uint32, seqA, seqB, seqV []int, refA, refB, refV []string, replay diffSeq,
	opsRun, keysChecked *atomic.Int64, distinctRes *sync.Map) {
	wkey := fmt.Sprintf("raw-%d-%d", pair[0], pair[1])
	w, err := getWorld(wkey, func(w *world) error {
		for _, ks := range []int64{int64(pair[0]), int64(pair[1]), -1} {
			c, err := w.st.rawClient(ks)
			if err != nil {
				return err
			}
			w.raw = append(w.raw, c)
		}
		return nil
	})
	if err != nil {
		viol("diff:setup", fmt.Sprintf("cannot build clients: %v", err), replay)
		return
	}
	defer putWorld(wkey, w)
	ca, cb, cv := w.raw[0], w.raw[1], w.raw[2]
	d := len(seqA)
	check := func(who, tag string, got string, want string, o rop) {
		nEvals.Add(1)
		distinctRes.Store(normalise(got, tag), true)
		if strings.Contains(got, "PANIC:") {
			viol("diff:panic:"+opKind(o), fmt.Sprintf("%s client panicked in %v: %s", who, o, got), replay)
			return
		}
		if strings.Contains(got, "TIMEOUT") {
			run.Note("differential: %s %v did not return within %v (sequence %v)", who, o, opGuard, replay.Ops)
			return
		}
		if strings.Contains(got, "ERR:") {
			w.dirty.Store(true)
		}
		if normalise(got, tag) != want {
			diffViolCount.Add(1)
			w.dirty.Store(true)
			key := "diff:" + who + ":" + opKind(o)
			if seesForeign(got, tag) {
				key = "diff:isolation:" + who + ":" + opKind(o)
			}
			viol(key, fmt.Sprintf("%s %v returned %s; an isolated API v1 client gets %s", who, o, got, want), replay)
		}
	}
	who := []string{"keyspaceA", "keyspaceB", "v1-shared"}
	for i := 0; i < d; i++ {
		oa, ob, ov := alpha[seqA[i]], alpha[seqB[i]], alpha[seqV[i]]
		check(who[0], "A", apply(ca, oa, "A", i, false), refA[i], oa)
		check(who[1], "B", apply(cb, ob, "B", i, false), refB[i], ob)
		check(who[2], "V", apply(cv, ov, "V", i, true), refV[i], ov)
		opsRun.Add(3)
		if diffAbort.Load() {
			return
		}
	}
	// final logical state of each client: an unbounded scan (the sharp case)
	full := rop{Kind: "scan"}
	check(who[0], "A", apply(ca, full, "A", 99, false), refA[d], full)
	check(who[1], "B", apply(cb, full, "B", 99, false), refB[d], full)
	check(who[2], "V", apply(cv, full, "V", 99, true), refV[d], full)
	opsRun.Add(3)
	if diffAbort.Load() {
		return
	}
	// physical store content seen without any codec prefix: only own-prefixed keys with own values
	ks, vs, err := cv.Scan(context.Background(), nil, nil, 1000)
	opsRun.Add(1)
	if err != nil {
		viol("diff:physical-scan", err.Error(), replay)
		return
	}
	pa, _ := refPrefix(apicodec.ModeRaw, pair[0])
	pb, _ := refPrefix(apicodec.ModeRaw, pair[1])
	count := map[string]int{}
	for i, k := range ks {
		keysChecked.Add(1)
		nEvals.Add(1)
		var owner string
		var logical []byte
		switch {
		case bytes.HasPrefix(k, pa):
			owner, logical = "A", k[4:]
		case bytes.HasPrefix(k, pb):
			owner, logical = "B", k[4:]
		default:
			owner, logical = "V", k
		}
		okKey := false
		for _, dk := range diffKeys {
			if string(logical) == dk {
				okKey = true
			}
		}
		if !okKey || !bytes.HasPrefix(vs[i], []byte(owner)) {
			viol("diff:physical-key", fmt.Sprintf("store holds key %x = %q: not a keyspace-prefixed key of its writer (A=%x B=%x)", k, vs[i], pa, pb), replay)
		}
		count[owner]++
	}
	want := map[string]int{"A": strings.Count(refA[d], "="), "B": strings.Count(refB[d], "="), "V": strings.Count(refV[d], "=")}
	got := map[string]int{"A": count["A"], "B": count["B"], "V": count["V"]}
	if fmt.Sprint(got) != fmt.Sprint(want) {
		viol("diff:physical-count", fmt.Sprintf("store holds %v keys per writer, the reference final states have %v", got, want), replay)
	}
	dsamples.Add(func() any {
		var os []string
		for _, o := range replay.Ops {
			os = append(os, o.String())
		}
		return map[string]any{"kind": "differential", "keyspaces": pair, "ops_A": os, "final_A": refA[d]}
	})
}

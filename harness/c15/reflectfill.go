package main

// Generic reflection helpers: build a fully populated protobuf message of any
// type, enumerate / flatten all of its leaves, classify byte leaves.

import (
	"fmt"
	"reflect"
	"sort"
	"strconv"
	"strings"
	"sync"
	"unicode"

	gogodesc "github.com/gogo/protobuf/protoc-gen-gogo/descriptor"
	"github.com/pingcap/kvproto/pkg/errorpb"
	"github.com/pingcap/kvproto/pkg/kvrpcpb"
	"github.com/pingcap/kvproto/pkg/metapb"
)

var (
	typRegion         = reflect.TypeOf(metapb.Region{})
	typKeyNotInRegion = reflect.TypeOf(errorpb.KeyNotInRegion{})
	typBucketVer      = reflect.TypeOf(errorpb.BucketVersionNotMatch{})
	typKeyError       = reflect.TypeOf(kvrpcpb.KeyError{})
	typRegionError    = reflect.TypeOf(errorpb.Error{})
	typContext        = reflect.TypeOf(kvrpcpb.Context{})
)

// leaf classes
const (
	clsOther     = 0 // not a key: must pass through the codec unchanged
	clsKey       = 1 // a user key: keyspace prefix on the wire
	clsRegionKey = 2 // a region boundary: memcomparable(prefix+key) on the wire
)

func splitCamel(s string) []string {
	var out []string
	start := 0
	rs := []rune(s)
	for i := 1; i < len(rs); i++ {
		if unicode.IsUpper(rs[i]) && (!unicode.IsUpper(rs[i-1]) || (i+1 < len(rs) && unicode.IsLower(rs[i+1]))) {
			out = append(out, string(rs[start:i]))
			start = i
		}
	}
	return append(out, string(rs[start:]))
}

var keyWords = map[string]bool{"Key": true, "Keys": true, "Start": true, "End": true, "Primary": true,
	"Secondaries": true, "Secondary": true, "Split": true}

// classify decides by NAME ONLY whether a []byte / [][]byte field carries keys.
// The rule is stated in the evidence (`rule`): a field is key-like iff one of
// the CamelCase words of its Go name is Key, Keys, Start, End, Primary,
// Secondar(y|ies) or Split. Values, data, plans, tags, ids, hashes are not.
// Region boundaries (fields of metapb.Region, KeyNotInRegion.start/end, bucket
// keys of BucketVersionNotMatch) are additionally memcomparable-encoded.
type classKey struct {
	t reflect.Type
	f string
}

var classCache sync.Map // classKey -> int (pure function of its arguments)

func classify(parent reflect.Type, field string) int {
	k := classKey{parent, field}
	if c, ok := classCache.Load(k); ok {
		return c.(int)
	}
	c := classifyUncached(parent, field)
	classCache.Store(k, c)
	return c
}

func classifyUncached(parent reflect.Type, field string) int {
	isKey := false
	for _, w := range splitCamel(field) {
		if keyWords[w] {
			isKey = true
		}
	}
	if !isKey {
		return clsOther
	}
	if parent == typRegion {
		return clsRegionKey
	}
	if parent == typKeyNotInRegion && (field == "StartKey" || field == "EndKey") {
		return clsRegionKey
	}
	if parent == typBucketVer {
		return clsRegionKey
	}
	return clsKey
}

// ---- proto descriptor info (deprecated flag, field number) ----

type fieldMeta struct {
	deprecated bool
	number     int
}

var (
	fmMu    sync.Mutex
	fmCache = map[reflect.Type]map[string]fieldMeta{}
	fmDone  sync.Map // completed entries of fmCache, read without the lock
)

type descMsg interface {
	Descriptor() ([]byte, []int)
	Reset()
	String() string
	ProtoMessage()
}

func protoName(tag string) (name string, num int) {
	for i, p := range strings.Split(tag, ",") {
		if i == 1 {
			num, _ = strconv.Atoi(p)
		}
		if strings.HasPrefix(p, "name=") {
			name = p[5:]
		}
	}
	return
}

// fieldInfo returns the proto metadata of the Go fields of struct type t.
func fieldInfo(t reflect.Type) map[string]fieldMeta {
	if m, ok := fmDone.Load(t); ok {
		return m.(map[string]fieldMeta)
	}
	fmMu.Lock()
	defer fmMu.Unlock()
	if m, ok := fmCache[t]; ok {
		return m
	}
	defer func() { fmDone.Store(t, fmCache[t]) }()
	m := map[string]fieldMeta{}
	fmCache[t] = m
	depr := map[string]bool{}
	func() {
		defer func() { recover() }()
		if dm, ok := reflect.New(t).Interface().(descMsg); ok {
			_, md := gogodesc.ForMessage(dm)
			for _, f := range md.GetField() {
				if f.GetOptions().GetDeprecated() {
					depr[f.GetName()] = true
				}
			}
		}
	}()
	for i := 0; i < t.NumField(); i++ {
		f := t.Field(i)
		tag := f.Tag.Get("protobuf")
		if tag == "" {
			continue
		}
		n, num := protoName(tag)
		m[f.Name] = fieldMeta{deprecated: depr[n], number: num}
	}
	return m
}

// explicitSkips: fields never populated although not flagged deprecated.
var explicitSkips = map[string]string{
	"kvrpcpb.SplitRegionResponse.Errors": "proto comment: reserved for file based transaction; never produced for this client",
}

// ---- builder ----

type builder struct {
	n        int
	boolVal  bool
	sliceLen int
	maxRec   int // how many times one message type may occur on a path
	request  bool
	empty    bool            // byte leaves stay empty
	skipped  map[string]bool // "Type.Field" skipped with a reason (collected for the evidence)
}

func (b *builder) next() int { b.n++; return b.n }

func exported(f reflect.StructField) bool {
	return f.PkgPath == "" && !strings.HasPrefix(f.Name, "XXX_")
}

func isBytes(t reflect.Type) bool {
	return t.Kind() == reflect.Slice && t.Elem().Kind() == reflect.Uint8
}

// skipField: fields that are left unset when messages are generated.
func (b *builder) skipField(parent reflect.Type, f reflect.StructField) (bool, string) {
	fm := fieldInfo(parent)[f.Name]
	if fm.deprecated {
		return true, "deprecated in the proto definition"
	}
	if why, ok := explicitSkips[parent.String()+"."+f.Name]; ok {
		return true, why
	}
	_ = fm.number
	if b.request {
		ft := f.Type
		for ft.Kind() == reflect.Ptr || ft.Kind() == reflect.Slice {
			ft = ft.Elem()
		}
		if ft == typKeyError || ft == typRegionError {
			return true, "error descriptor inside a request message (response-only part of a shared type)"
		}
	}
	return false, ""
}

func (b *builder) newMsg(t reflect.Type) reflect.Value { // t: struct type; returns pointer
	v := reflect.New(t)
	b.fillStruct(v.Elem(), map[reflect.Type]int{})
	return v
}

func (b *builder) fillStruct(v reflect.Value, onPath map[reflect.Type]int) {
	t := v.Type()
	onPath[t]++
	defer func() { onPath[t]-- }()
	for i := 0; i < t.NumField(); i++ {
		f := t.Field(i)
		if !exported(f) {
			continue
		}
		if skip, why := b.skipField(t, f); skip {
			if b.skipped != nil {
				b.skipped[t.String()+"."+f.Name+": "+why] = true
			}
			continue
		}
		b.fillValue(v.Field(i), t, onPath)
	}
}

func (b *builder) fillValue(fv reflect.Value, parent reflect.Type, onPath map[reflect.Type]int) {
	ft := fv.Type()
	switch ft.Kind() {
	case reflect.Ptr:
		et := ft.Elem()
		if et.Kind() == reflect.Struct {
			if onPath[et] >= b.maxRec {
				return
			}
			nv := reflect.New(et)
			b.fillStruct(nv.Elem(), onPath)
			fv.Set(nv)
		} else {
			nv := reflect.New(et)
			b.fillValue(nv.Elem(), parent, onPath)
			fv.Set(nv)
		}
	case reflect.Struct:
		b.fillStruct(fv, onPath)
	case reflect.Slice:
		et := ft.Elem()
		if et.Kind() == reflect.Uint8 {
			if b.empty {
				return
			}
			fv.Set(reflect.ValueOf([]byte(fmt.Sprintf("m%04d", b.next()))).Convert(ft))
			return
		}
		if (et.Kind() == reflect.Ptr && et.Elem().Kind() == reflect.Struct && onPath[et.Elem()] >= b.maxRec) ||
			(et.Kind() == reflect.Struct && onPath[et] >= b.maxRec) {
			return
		}
		s := reflect.MakeSlice(ft, b.sliceLen, b.sliceLen)
		for i := 0; i < b.sliceLen; i++ {
			b.fillValue(s.Index(i), parent, onPath)
		}
		fv.Set(s)
	case reflect.Interface:
		// oneof: take the first wrapper of the parent that implements the interface.
		pv := reflect.New(parent)
		m := pv.MethodByName("XXX_OneofWrappers")
		if !m.IsValid() {
			return
		}
		for _, w := range m.Call(nil)[0].Interface().([]interface{}) {
			wt := reflect.TypeOf(w)
			if wt.Implements(ft) {
				nv := reflect.New(wt.Elem())
				b.fillStruct(nv.Elem(), onPath)
				fv.Set(nv)
				return
			}
		}
	case reflect.Bool:
		fv.SetBool(b.boolVal)
	case reflect.Int, reflect.Int8, reflect.Int16, reflect.Int32, reflect.Int64:
		fv.SetInt(int64(b.next()%5 + 1))
	case reflect.Uint, reflect.Uint8, reflect.Uint16, reflect.Uint32, reflect.Uint64:
		fv.SetUint(uint64(b.next()%97 + 1))
	case reflect.Float32, reflect.Float64:
		fv.SetFloat(float64(b.next()))
	case reflect.String:
		fv.SetString("s" + strconv.Itoa(b.next()))
	case reflect.Map:
		// no map field carries keys in the catalogue; left empty
	}
}

// ---- flatten ----

type leafInfo struct {
	Path   string       // with indices: Mutations[0].Key
	Norm   string       // without indices: Mutations.Key
	Top    string       // top-level field name
	Parent reflect.Type // struct that holds the field
	Field  string
	Class  int
	Bytes  bool
	Val    reflect.Value // addressable for byte leaves
}

type flat struct {
	vals   map[string]string
	leaves []*leafInfo
}

func flatten(root reflect.Value) *flat {
	f := &flat{vals: map[string]string{}}
	for root.Kind() == reflect.Ptr || root.Kind() == reflect.Interface {
		if root.IsNil() {
			return f
		}
		root = root.Elem()
	}
	f.walkStruct(root, "", "", "")
	return f
}

func join(p, s string) string {
	if p == "" {
		return s
	}
	return p + "." + s
}

func (f *flat) walkStruct(v reflect.Value, path, norm, top string) {
	t := v.Type()
	for i := 0; i < t.NumField(); i++ {
		sf := t.Field(i)
		if !exported(sf) {
			continue
		}
		tp := top
		if tp == "" {
			tp = sf.Name
		}
		f.walk(v.Field(i), join(path, sf.Name), join(norm, sf.Name), tp, t, sf.Name)
	}
}

func (f *flat) walk(v reflect.Value, path, norm, top string, parent reflect.Type, field string) {
	switch v.Kind() {
	case reflect.Ptr:
		if v.IsNil() {
			f.vals[path] = "<nil>"
			return
		}
		if v.Elem().Kind() == reflect.Struct {
			f.walkStruct(v.Elem(), path, norm, top)
		} else {
			f.walk(v.Elem(), path, norm, top, parent, field)
		}
	case reflect.Struct:
		f.walkStruct(v, path, norm, top)
	case reflect.Interface:
		if v.IsNil() {
			f.vals[path] = "<nil>"
			return
		}
		e := v.Elem()
		p := path + "(" + e.Type().String() + ")"
		if e.Kind() == reflect.Ptr && !e.IsNil() && e.Elem().Kind() == reflect.Struct {
			f.walkStruct(e.Elem(), p, norm, top)
		} else {
			f.vals[p] = fmt.Sprintf("%v", e.Interface())
		}
	case reflect.Slice:
		if isBytes(v.Type()) {
			f.vals[path] = "b:" + string(v.Bytes())
			f.leaves = append(f.leaves, &leafInfo{Path: path, Norm: norm, Top: top, Parent: parent, Field: field,
				Class: classify(parent, field), Bytes: true, Val: v})
			return
		}
		f.vals[path+"#len"] = strconv.Itoa(v.Len())
		for i := 0; i < v.Len(); i++ {
			f.walk(v.Index(i), path+"["+strconv.Itoa(i)+"]", norm, top, parent, field)
		}
	case reflect.Map:
		f.vals[path+"#len"] = strconv.Itoa(v.Len())
	default:
		f.vals[path] = fmt.Sprintf("%v", v.Interface())
	}
}

func (f *flat) sortedPaths() []string {
	out := make([]string, 0, len(f.vals))
	for k := range f.vals {
		out = append(out, k)
	}
	sort.Strings(out)
	return out
}

// diff returns the paths whose value differs between a and b (missing counts).
func diffFlat(a, b *flat) []string {
	var out []string
	for k, va := range a.vals {
		if vb, ok := b.vals[k]; !ok || va != vb {
			out = append(out, k)
		}
	}
	for k := range b.vals {
		if _, ok := a.vals[k]; !ok {
			out = append(out, k)
		}
	}
	sort.Strings(out)
	return out
}

func setBytes(v reflect.Value, b []byte) {
	v.Set(reflect.ValueOf(append([]byte{}, b...)).Convert(v.Type()))
}

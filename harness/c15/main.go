// C15: keyspace (API v2) encoding is transparent, isolating and complete over
// the whole command catalogue. Bounded exhaustive enumeration (DESIGN.md 3.4 /
// section 5 C15): catalogue x codec mode x keyspace id x field, range grids,
// region clipping grids, per-command tikvrpc plumbing, and a differential raw
// workload (v1 / v2 keyspace A / v2 keyspace B on one mock store).
package main

import (
	"encoding/json"
	"flag"
	"fmt"
	"os"
	"runtime/pprof"
	"sort"
	"sync"
	"sync/atomic"

	"github.com/pingcap/failpoint"
	"github.com/pingcap/log"
	"github.com/tikv/client-go/v2/util"
	"github.com/tikv/client-go/v2/verifrt/ev"
	"go.uber.org/zap"
)

var (
	run      *ev.Run
	samples  *ev.Samples // catalogue cases
	dsamples *ev.Samples // differential cases

	// measured counters
	nStates      atomic.Int64 // distinct (command, mode, keyspace, field) cases + grid points
	nTransitions atomic.Int64 // encode / decode / tikvrpc calls on the real code
	nTraces      atomic.Int64 // executions compared with a reference
	nEvals       atomic.Int64 // oracle evaluations
	nNontrivial  atomic.Int64

	outMu     sync.Mutex
	outcomes  = map[string]int{} // distinct observed outcome classes
	excluded  = map[string]bool{}
	stateSeen sync.Map
)

var cpuProfStop = func() {}

var sparseSem = make(chan struct{}, 16)

func outcome(k string) {
	outMu.Lock()
	outcomes[k]++
	outMu.Unlock()
}

func exclude(what string) {
	outMu.Lock()
	excluded[what] = true
	outMu.Unlock()
}

// state counts a distinct case once.
func state(key string, nontrivial bool) {
	if _, dup := stateSeen.LoadOrStore(key, true); dup {
		return
	}
	nStates.Add(1)
	if nontrivial {
		nNontrivial.Add(1)
	}
}

// guard runs f; a panic in the code under test becomes a violation.
func guard(key string, replay any, f func()) {
	defer func() {
		if p := recover(); p != nil {
			run.Violation(key+":panic", fmt.Sprintf("panic: %v", p), replay)
		}
	}()
	f()
}

func sortedKeys(m map[string]bool) []string {
	out := make([]string, 0, len(m))
	for k := range m {
		out = append(out, k)
	}
	sort.Strings(out)
	return out
}

func main() {
	dump := flag.Bool("dump", false, "print the discovered catalogue and exit")
	replay := flag.String("replay", "", "replay file written by a previous run")
	flag.Parse()
	// the codec logs every rejected key with a stack trace; keep stdout for the verdict
	log.ReplaceGlobals(zap.NewNop(), &log.ZapProperties{})

	if pf := os.Getenv("VERIF_C15_CPUPROF"); pf != "" {
		if f, err := os.Create(pf); err == nil {
			pprof.StartCPUProfile(f)
			defer pprof.StopCPUProfile()
			cpuProfStop = pprof.StopCPUProfile
		}
	}
	run = ev.Start("C15", "model_checking")
	samples = ev.NewSamples(6, run.Seed)
	dsamples = ev.NewSamples(4, run.Seed)

	cmds, problems := discover()
	if *dump {
		for _, c := range cmds {
			fmt.Printf("%-28s %4d req=%v resp=%v (%s) stream=%v gen=%v rpc=%v\n", c.Name, c.Cmd, c.ReqT, c.RespT, c.RespFrom, c.Stream, c.GenOK, c.RPCResp)
		}
		for _, p := range problems {
			fmt.Println("PROBLEM", p)
		}
		dumpLeaves(cmds)
		return
	}
	if *replay != "" {
		os.Exit(doReplay(*replay, cmds))
	}
	for _, p := range problems {
		run.Violation("catalogue", p, p)
	}

	ids := []uint32{0, 0x0100FF, 0xFFFFFF}
	diffDepth, txnDepth := 3, 3
	if run.Thorough() {
		ids = []uint32{0, 1, 0xFF, 0xFFFF, 0x0100FF, 0x7FFFFF, 0xFFFFFE, 0xFFFFFF}
		diffDepth, txnDepth = 4, 4
	}

	checkCodecConstruction(ids)
	codecs := makeCodecs(ids)
	// sparse response shapes: quick uses the two boundary ids (the shape logic does not depend on the id), thorough all
	sparseIDs := map[uint32]bool{}
	var sparseIDList []uint32
	for _, id := range ids {
		if run.Thorough() || id == 0 || id == 0xFFFFFF {
			sparseIDs[id] = true
			sparseIDList = append(sparseIDList, id)
		}
	}

	var wg sync.WaitGroup
	for _, ci := range cmds {
		ci := ci
		wg.Add(1)
		go func() {
			defer wg.Done()
			checkPlumbing(ci)
			for _, cc := range codecs {
				checkEncode(ci, cc)
				checkDecode(ci, cc)
				checkRanges(ci, cc)
			}
		}()
		// sparse response shapes: the large part, one worker per (command, codec)
		for _, cc := range codecs {
			cc := cc
			if !sparseIDs[cc.ID] {
				continue
			}
			wg.Add(1)
			go func() {
				defer wg.Done()
				sparseSem <- struct{}{}
				defer func() { <-sparseSem }()
				checkSparseDecode(ci, cc)
			}()
		}
	}
	for _, cc := range codecs {
		cc := cc
		wg.Add(1)
		go func() {
			defer wg.Done()
			checkKeyAndRangeLaws(cc)
			checkRegionClipping(cc, cmds)
			checkPDCodec(cc)
		}()
	}
	wg.Wait()
	finishDecodeReport()
	finishSparseReport()

	// Retry back-off inside the client keeps its budget accounting but does not
	// really sleep (repository failpoint): a request that can never succeed
	// (e.g. a response the codec rejects) then fails fast and deterministically
	// instead of after 20s of wall-clock back-off.
	util.EnableFailpoints()
	if err := failpoint.Enable("tikvclient/fastBackoffBySkipSleep", "return"); err != nil {
		run.Note("cannot enable fastBackoffBySkipSleep: %v", err)
	}
	diffStats := runDifferential(diffDepth)
	txnStats := runTxnDifferential(txnDepth)
	closeWorlds()

	outMu.Lock()
	oc := map[string]int{}
	for k, v := range outcomes {
		oc[k] = v
	}
	ex := sortedKeys(excluded)
	outMu.Unlock()

	names := []string{}
	for _, c := range cmds {
		names = append(names, c.Name)
	}
	cov := ev.Coverage{
		"states":                        nStates.Load(),
		"transitions":                   nTransitions.Load(),
		"traces_validated_against_impl": nTraces.Load(),
		"evaluations":                   nEvals.Load(),
		"distinct_nontrivial":           nNontrivial.Load(),
		"rule": "catalogue = every CmdType in 0..4095 with a name; request type by probing the accessor set of *tikvrpc.Request " +
			"(type-assertion panics of CallRPC/CallDebugRPC/ToBatchCommandsRequest/AttachContext), response type from GenRegionErrorResp, " +
			"else the gRPC client interface. Every message is generated by reflection with every []byte/[][]byte/nested/repeated field set to a " +
			"distinct marker (2 elements per repeated field, recursion depth 2); a byte field is key-like iff a CamelCase word of its name is " +
			"Key(s)/Start/End/Primary/Secondar*/Split. state = distinct (command, mode, keyspace, field|grid point); non-trivial = the case involves a key-like field, " +
			"a range bound at a keyspace boundary or a region overlapping the boundary. differential: all raw op sequences of the stated depth over 3 keys. " +
			"sparse response shapes (sparse_decode): for every response, every message node (index-free path) that directly holds key-bearing optional fields " +
			"(key-like []byte / [][]byte, nested / repeated messages with a key-like leaf beneath) x every mask of absent fields (all 2^k for k <= mask_full_up_to, else <= mask_edge absent or <= mask_edge present) " +
			"x context {dense: rest fully populated, all instances; first-instance: only element 0 of repeated ancestors masked; sparse-chain: every ancestor keeps only the field leading to the node}: " +
			"each present key-like leaf must decode to its logical key, each absent one stay empty, nothing else change; state = (command, codec, node, context, mask), non-trivial = at least one key-like leaf present next to an absent one / under a sparse chain. " +
			"differential txn alphabet includes crashed writers (prewrite a,b,c + commit of the primary only; prewrite b,c only) whose locks the later readers (get, batch get, forward / reverse scans) meet at pair level.",
		"bounds": map[string]any{"keyspace_ids": ids, "modes": []string{"raw", "txn"}, "commands": len(cmds),
			"repeated_len": 2, "recursion": 2, "differential_depth": diffDepth, "differential_txn_depth": txnDepth, "differential_keys": 3,
			"sparse_mask_full_up_to": sparseStats()["mask_full_up_to"], "sparse_mask_edge": sparseStats()["mask_edge"], "sparse_contexts": ctxNames, "sparse_keyspace_ids": sparseIDList},
		"commands":          names,
		"distinct_outcomes": oc,
		"excluded":          ex,
		"differential":      diffStats,
		"differential_txn":  txnStats,
		"sparse_decode":     sparseStats(),
		"samples":           append(samples.List(), dsamples.List()...),
	}
	cpuProfStop()
	run.Finish(cov, []string{
		"Key-likeness is decided by field name only (rule above); a key-bearing field with an unrelated name would be treated as a value.",
		"Every command is checked under both codec modes: codec_v2.go does not restrict commands by mode, the expected prefix is always the codec's own ('r'/'x' + 3-byte id).",
		"Not demanded (listed in coverage.excluded with the reason): deprecated proto fields, error descriptors inside request messages, SplitRegionResponse.errors (reserved), " +
			"Compact (keyspace passed by id, opaque cursors), streaming responses, BatchCop/MPPTask responses (DecodeResponse documents 'no range infos'), commands without Context field for AttachContext, " +
			"commands whose response has no region_error for GenRegionErrorResp, commands without an arm in the BatchCommands unions for the batch round trip.",
		"RegionError decoding is demanded only for commands the region request sender accepts (SetContextNoAttach returns no error); range bounds in responses follow clipping (DecodeRange), single keys rejection (DecodeKey).",
		"Sparse response shapes: one node is masked at a time (plus the ancestor chain in the sparse-chain context); simultaneous masks at two unrelated nodes are not enumerated. An absent region / range bound means 'unbounded' and must come back empty (clipping). " +
			"Differential crashed writers: mocktikv has no async commit / 1PC / Flush, so locks with secondaries and BufferBatchGet are covered by the decode parts only; with 3 keys the resolver takes the lite (per-key) ResolveLock path.",
		"CmdEmpty is outside the catalogue as defined (its String() is the unknown form).",
		"Differential workload: mocktikv with a single unbounded region (under API v2 PD-side region keys are memcomparable while mocktikv's raw handlers compare plain keys, so split layouts are not expressible); " +
			"empty bounds are passed as nil (mocktikv treats a non-nil empty end as an empty range); the API v1 client on the shared store only uses ranges bounded by \"d\" because its unbounded ranges legitimately cover the keyspaces.",
		"Mock stores are reused for up to 400 sequences after a verified physical wipe (leveldb memtables of closed mocktikv instances stay pinned for ~30s); client caches stay warm across sequences, stores are retired after any error or disagreement.",
		"Client back-off runs with the repository failpoint fastBackoffBySkipSleep (budget accounting kept, no real sleep); a 10s per-operation liveness guard only ever yields exhaustive:false, never a violation.",
		"The in-harness RPC wrapper applies codec.EncodeRequest / DecodeResponse around mocktikv exactly like tikv.CodecClient / RPCClient.SendRequest; mocktikv's GC-state client panics for keyspace ids, the harness substitutes the keyspace-agnostic one.",
	})
}

func doReplay(path string, cmds []*cmdInfo) int {
	b, err := os.ReadFile(path)
	if err != nil {
		fmt.Fprintln(os.Stderr, err)
		return 2
	}
	var rf struct {
		Key    string          `json:"key"`
		Replay json.RawMessage `json:"replay"`
	}
	if err := json.Unmarshal(b, &rf); err != nil {
		fmt.Fprintln(os.Stderr, err)
		return 2
	}
	return replayCase(rf.Key, rf.Replay, cmds)
}

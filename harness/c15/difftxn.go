package main

// (e, transactional part) The same differential idea in txn mode: three
// KVStores (API v1, v2 keyspace A, v2 keyspace B) over ONE mocktikv; every
// sequence of small transactions must give each client exactly what an
// isolated API v1 store gives for the same logical keys. Includes unbounded
// forward and reverse snapshot scans, a two-key 2PC and reading through an
// expired prewrite lock (lock description decode -> CheckTxnStatus/ResolveLock
// re-encode).

import (
	"context"
	"fmt"
	"sort"
	"strings"
	"sync"
	"sync/atomic"
	"time"

	"github.com/pingcap/kvproto/pkg/keyspacepb"
	tikverr "github.com/tikv/client-go/v2/error"
	"github.com/tikv/client-go/v2/internal/client"
	"github.com/tikv/client-go/v2/kv"
	"github.com/tikv/client-go/v2/oracle"
	"github.com/tikv/client-go/v2/tikv"
	"github.com/tikv/client-go/v2/txnkv/transaction"
	pd "github.com/tikv/pd/client"
	pdgc "github.com/tikv/pd/client/clients/gc"
	"github.com/tikv/pd/client/constants"
	"github.com/tikv/pd/client/pkg/caller"
)

type noCloseClient struct{ client.Client }

func (noCloseClient) Close() error { return nil }

type noClosePD struct {
	pd.Client
	metas map[string]*keyspacepb.KeyspaceMeta
}

func (noClosePD) Close() {}

// mocktikv's GC states client panics ("unimplemented") for any keyspace id; the
// GC state plays no role here, so every store gets the keyspace-agnostic one.
func (p noClosePD) GetGCStatesClient(keyspaceID uint32) pdgc.GCStatesClient {
	return p.Client.GetGCStatesClient(constants.NullKeyspaceID)
}
func (p noClosePD) LoadKeyspace(ctx context.Context, name string) (*keyspacepb.KeyspaceMeta, error) {
	return p.metas[name], nil
}
func (p noClosePD) WithCallerComponent(c caller.Component) pd.Client {
	return noClosePD{p.Client.WithCallerComponent(c), p.metas}
}

func (s *store) txnStore(ks int64) (*tikv.KVStore, error) {
	if ks < 0 {
		return tikv.NewTestTiKVStore(noCloseClient{s.rpc}, noClosePD{s.pdc, nil}, nil, nil, 0)
	}
	name := fmt.Sprintf("ks%d", ks)
	meta := keyspacepb.KeyspaceMeta{Keyspace: &keyspacepb.KeyspaceMeta_Id{Id: uint32(ks)}, Name: name, State: keyspacepb.KeyspaceState_ENABLED}
	return tikv.NewTestKeyspaceTiKVStore(noCloseClient{s.rpc}, noClosePD{s.pdc, map[string]*keyspacepb.KeyspaceMeta{name: &meta}}, nil, nil, 0, meta)
}

func txnAlphabet() []rop {
	var a []rop
	for k := range diffKeys {
		a = append(a, rop{Kind: "set", Keys: []int{k}})
	}
	a = append(a, rop{Kind: "del", Keys: []int{0}}, rop{Kind: "del", Keys: []int{1}})
	a = append(a, rop{Kind: "get", Keys: []int{0}}, rop{Kind: "get", Keys: []int{2}})
	a = append(a, rop{Kind: "bget", Keys: []int{0, 1, 2}})
	a = append(a, rop{Kind: "iter", S: "", E: ""}, rop{Kind: "iter", S: "b", E: ""}, rop{Kind: "iter", S: "", E: "c"})
	a = append(a, rop{Kind: "riter", S: "", E: ""}, rop{Kind: "riter", S: "c", E: ""}, rop{Kind: "riter", S: "", E: "b"})
	a = append(a, rop{Kind: "set2", Keys: []int{0, 2}})
	a = append(a, rop{Kind: "lockread", Keys: []int{1}})
	// crashed writers: the locks they leave are met by the LATER letters of the
	// sequence (and by the closing full scans). BatchGet and Scan answers report
	// such a lock at pair level: a KvPair with an empty key and only an Error.
	// crash2pc: prewrite a,b,c (primary a), commit the primary only -> readers must roll forward.
	// crashpw : prewrite b,c (primary b), nothing committed       -> readers must roll back.
	a = append(a, rop{Kind: "crash2pc", Keys: []int{0, 1, 2}})
	a = append(a, rop{Kind: "crashpw", Keys: []int{1, 2}})
	return a
}

func isCrashOp(o rop) bool { return o.Kind == "crash2pc" || o.Kind == "crashpw" }

func txnApplyRaw(s *tikv.KVStore, o rop, tag string, step int) (res string) {
	defer func() {
		if p := recover(); p != nil {
			res = fmt.Sprintf("%s:PANIC:%v", o.Kind, p)
		}
	}()
	ctx := context.Background()
	key := func(i int) []byte { return []byte(diffKeys[i]) }
	val := func(i int) []byte { return []byte(fmt.Sprintf("%s%d.%d", tag, step, i)) }
	bnd := func(s string) []byte {
		if s == "" {
			return nil
		}
		return []byte(s)
	}
	txn, err := s.Begin()
	if err != nil {
		return o.Kind + ":ERR:begin:" + err.Error()
	}
	switch o.Kind {
	case "set", "set2":
		for _, i := range o.Keys {
			if err = txn.Set(key(i), val(i)); err != nil {
				break
			}
		}
		if err == nil {
			err = txn.Commit(ctx)
		}
		res = "ok"
	case "del":
		if err = txn.Delete(key(o.Keys[0])); err == nil {
			err = txn.Commit(ctx)
		}
		res = "ok"
	case "get":
		var e kv.ValueEntry
		e, err = txn.Get(ctx, key(o.Keys[0]))
		if tikverr.IsErrNotFound(err) {
			res, err = "notfound", nil
		} else {
			res = fmt.Sprintf("%q", e.Value)
		}
		txn.Rollback()
	case "bget":
		var ks [][]byte
		for _, i := range o.Keys {
			ks = append(ks, key(i))
		}
		var m map[string]kv.ValueEntry
		m, err = txn.BatchGet(ctx, ks)
		var parts []string
		for k, v := range m {
			parts = append(parts, fmt.Sprintf("%q=%q", k, v.Value))
		}
		sort.Strings(parts)
		res = strings.Join(parts, ",")
		txn.Rollback()
	case "iter", "riter":
		var it interface {
			Valid() bool
			Key() []byte
			Value() []byte
			Next() error
			Close()
		}
		if o.Kind == "iter" {
			it, err = txn.Iter(bnd(o.S), bnd(o.E))
		} else {
			it, err = txn.IterReverse(bnd(o.S), bnd(o.E))
		}
		if err == nil {
			var sb strings.Builder
			for n := 0; it.Valid() && n < 10; n++ {
				fmt.Fprintf(&sb, "%q=%q,", it.Key(), it.Value())
				if err = it.Next(); err != nil {
					break
				}
			}
			it.Close()
			res = sb.String()
		}
		txn.Rollback()
	case "crash2pc", "crashpw":
		for _, i := range o.Keys {
			if err = txn.Set(key(i), val(i)); err != nil {
				break
			}
		}
		if err != nil {
			break
		}
		var c transaction.CommitterProbe
		c, err = transaction.TxnProbe{KVTxn: txn}.NewCommitter(1)
		if err != nil {
			break
		}
		c.SetPrimaryKey(key(o.Keys[0]))
		c.SetLockTTL(1) // the writer is dead: its locks expire at once
		if err = c.PrewriteAllMutations(ctx); err != nil {
			break
		}
		if o.Kind == "crash2pc" {
			var ts uint64
			ts, err = s.GetOracle().GetTimestamp(ctx, &oracle.Option{TxnScope: oracle.GlobalTxnScope})
			if err != nil {
				break
			}
			c.SetCommitTS(ts)
			if err = c.CommitMutations(ctx); err != nil { // primary only
				break
			}
		}
		c.CloseTTLManager()
		time.Sleep(3 * time.Millisecond)
		res = "ok"
	case "lockread":
		// leave an expired prewrite lock, then read through it
		k := key(o.Keys[0])
		if err = txn.Set(k, val(o.Keys[0])); err != nil {
			break
		}
		var c transaction.CommitterProbe
		c, err = transaction.TxnProbe{KVTxn: txn}.NewCommitter(1)
		if err != nil {
			break
		}
		c.SetLockTTL(1)
		if err = c.PrewriteAllMutations(ctx); err != nil {
			break
		}
		time.Sleep(3 * time.Millisecond)
		var rd *transaction.KVTxn
		rd, err = s.Begin()
		if err != nil {
			break
		}
		var e kv.ValueEntry
		e, err = rd.Get(ctx, k)
		if tikverr.IsErrNotFound(err) {
			res, err = "notfound", nil
		} else {
			res = fmt.Sprintf("%q", e.Value)
		}
		rd.Rollback()
	}
	if err != nil {
		res = "ERR:" + err.Error()
	}
	return o.Kind + ":" + res
}

func txnApply(s *tikv.KVStore, o rop, tag string, step int) string {
	r, _ := guarded(func() string { return txnApplyRaw(s, o, tag, step) })
	return r
}

func runTxnIsolated(alpha []rop, seq []int) []string {
	w, err := getWorld("txn-iso", func(w *world) error {
		st, err := w.st.txnStore(-1)
		if err == nil {
			w.txn = []*tikv.KVStore{st}
		}
		return err
	})
	if err != nil {
		return []string{"ERR:" + err.Error()}
	}
	defer putWorld("txn-iso", w)
	st := w.txn[0]
	var out []string
	for i, oi := range seq {
		out = append(out, normalise(txnApply(st, alpha[oi], "#", i), "#"))
	}
	out = append(out, txnApply(st, rop{Kind: "iter"}, "#", 99), txnApply(st, rop{Kind: "riter"}, "#", 99))
	for _, r := range out {
		if strings.Contains(r, "ERR:") {
			w.dirty.Store(true)
		}
	}
	return out
}

func runTxnDifferential(depth int) map[string]any {
	alpha := txnAlphabet()
	n := len(alpha)
	pair := [2]uint32{1, 2}
	var seqs, opsRun atomic.Int64
	distinctRes := sync.Map{}
	start := time.Now()
	for d := 1; d <= depth; d++ {
		total := 1
		for i := 0; i < d; i++ {
			total *= n
		}
		refs := make([][]string, total)
		parallel(total, func(i int) {
			refs[i] = runTxnIsolated(alpha, decodeSeq(i, d, n))
			opsRun.Add(int64(d + 2))
		})
		parallel(total, func(i int) {
			if run.Expired() {
				run.Incomplete("txn differential: wall-clock budget reached")
				return
			}
			if diffStopped() {
				return
			}
			seqA := decodeSeq(i, d, n)
			seqB := make([]int, d)
			seqV := make([]int, d)
			ops := make([]rop, d)
			for j, v := range seqA {
				seqB[j] = (v + 5) % n
				seqV[j] = (v + 11) % n
				ops[j] = alpha[v]
			}
			replay := diffSeq{Pair: pair, Ops: ops, Txn: true}
			refA, refB, refV := refs[i], refs[encodeSeq(seqB, n)], refs[encodeSeq(seqV, n)]
			w, err := getWorld("txn-shared", func(w *world) error {
				for _, ks := range []int64{int64(pair[0]), int64(pair[1]), -1} {
					st, err := w.st.txnStore(ks)
					if err != nil {
						return err
					}
					w.txn = append(w.txn, st)
				}
				return nil
			})
			if err != nil {
				viol("difftxn:setup", fmt.Sprintf("cannot build stores: %v", err), replay)
				return
			}
			defer putWorld("txn-shared", w)
			sa, sb, sv := w.txn[0], w.txn[1], w.txn[2]
			// crashed: a crashed writer of this client's own sequence precedes step j, so the
			// operation may meet the locks it left (named in the violation key)
			crashed := func(seq []int, j int) string {
				for _, v := range seq[:j] {
					if isCrashOp(alpha[v]) {
						return ":after-crashed-writer"
					}
				}
				return ""
			}
			check := func(who, tag, got, want string, o rop, suffix string) {
				nEvals.Add(1)
				distinctRes.Store(normalise(got, tag), true)
				if strings.Contains(got, "PANIC:") {
					viol("difftxn:panic:"+opKindTxn(o), fmt.Sprintf("%s store panicked in %v: %s", who, o, got), replay)
					return
				}
				if strings.Contains(got, "TIMEOUT") {
					run.Note("txn differential: %s %v did not return within %v (sequence %v)", who, o, opGuard, replay.Ops)
					return
				}
				if strings.Contains(got, "ERR:") {
					w.dirty.Store(true)
				}
				if normalise(got, tag) != want {
					diffViolCount.Add(1)
					w.dirty.Store(true)
					key := "difftxn:" + who + ":" + opKindTxn(o) + suffix
					if seesForeign(got, tag) {
						key = "difftxn:isolation:" + who + ":" + opKindTxn(o) + suffix
					}
					viol(key, fmt.Sprintf("%s %v returned %s; an isolated API v1 store gives %s", who, o, got, want), replay)
				}
			}
			for j := 0; j < d; j++ {
				check("keyspaceA", "A", txnApply(sa, alpha[seqA[j]], "A", j), refA[j], alpha[seqA[j]], crashed(seqA, j))
				check("keyspaceB", "B", txnApply(sb, alpha[seqB[j]], "B", j), refB[j], alpha[seqB[j]], crashed(seqB, j))
				// the API v1 store shares the cluster but only ever uses bounded ranges (its
				// unbounded scans legitimately cover the keyspaces): map open ends to "d"
				ov := alpha[seqV[j]]
				got := txnApply(sv, boundV1(ov), "V", j)
				check("v1-shared", "V", got, refV[j], ov, crashed(seqV, j))
				opsRun.Add(3)
				if diffAbort.Load() {
					return
				}
			}
			full, rfull := rop{Kind: "iter"}, rop{Kind: "riter"}
			check("keyspaceA", "A", txnApply(sa, full, "A", 99), refA[d], full, crashed(seqA, d))
			check("keyspaceB", "B", txnApply(sb, full, "B", 99), refB[d], full, crashed(seqB, d))
			check("keyspaceA", "A", txnApply(sa, rfull, "A", 99), refA[d+1], rfull, crashed(seqA, d))
			check("keyspaceB", "B", txnApply(sb, rfull, "B", 99), refB[d+1], rfull, crashed(seqB, d))
			check("v1-shared", "V", txnApply(sv, boundV1(full), "V", 99), refV[d], full, crashed(seqV, d))
			opsRun.Add(5)
			dsamples.Add(func() any {
				var os []string
				for _, o := range ops {
					os = append(os, o.String())
				}
				return map[string]any{"kind": "differential-txn", "ops_A": os, "results_A_reference": refA}
			})
			seqs.Add(1)
			nTraces.Add(1)
			nStates.Add(1)
			if d >= 2 {
				nNontrivial.Add(1)
			}
		})
	}
	c := 0
	distinctRes.Range(func(_, _ any) bool { c++; return true })
	nTransitions.Add(opsRun.Load())
	return map[string]any{"alphabet": n, "depth": depth, "keyspace_pair": pair, "sequences": seqs.Load(), "transactions": opsRun.Load(),
		"distinct_results": c, "wall_s": int(time.Since(start).Seconds()), "mode": "txn (mocktikv, single region, KVStore per client)"}
}

func boundV1(o rop) rop {
	if o.Kind == "iter" && o.E == "" {
		o.E = "d"
	}
	if o.Kind == "riter" && o.S == "" {
		o.S = "d"
	}
	return o
}

func opKindTxn(o rop) string {
	switch {
	case (o.Kind == "iter" || o.Kind == "riter") && o.S == "" && o.E == "":
		return o.Kind + "-unbounded"
	case o.Kind == "iter" && o.E == "":
		return o.Kind + "-open-end"
	case o.Kind == "riter" && o.S == "":
		return o.Kind + "-open-upper"
	}
	return o.Kind
}

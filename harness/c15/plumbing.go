package main

// (d) per command: AttachContext / SetContext, GenRegionErrorResp + GetRegionError,
// ToBatchCommandsRequest / FromBatchCommandsResponse.

import (
	"fmt"
	"reflect"

	"github.com/gogo/protobuf/proto"
	"github.com/pingcap/kvproto/pkg/errorpb"
	"github.com/pingcap/kvproto/pkg/kvrpcpb"
	"github.com/pingcap/kvproto/pkg/metapb"
	"github.com/pingcap/kvproto/pkg/tikvpb"
	"github.com/tikv/client-go/v2/tikvrpc"
)

type regionErrGetter interface {
	GetRegionError() *errorpb.Error
}

var ctxPtrT = reflect.TypeOf((*kvrpcpb.Context)(nil))

// unionArms maps message type -> oneof wrapper type of a batch union.
func unionArms(holder interface{}) map[reflect.Type]reflect.Type {
	out := map[reflect.Type]reflect.Type{}
	m := reflect.ValueOf(holder).MethodByName("XXX_OneofWrappers")
	if !m.IsValid() {
		return out
	}
	for _, w := range m.Call(nil)[0].Interface().([]interface{}) {
		wt := reflect.TypeOf(w) // *Wrapper
		if wt.Elem().NumField() == 1 {
			out[wt.Elem().Field(0).Type] = wt
		}
	}
	return out
}

var (
	reqArms  = unionArms(&tikvpb.BatchCommandsRequest_Request{})
	respArms = unionArms(&tikvpb.BatchCommandsResponse_Response{})
)

func msgContext(req *tikvrpc.Request) *kvrpcpb.Context {
	v := reflect.ValueOf(req.Req)
	if v.Kind() != reflect.Ptr || v.IsNil() {
		return nil
	}
	f := v.Elem().FieldByName("Context")
	if !f.IsValid() || f.Type() != ctxPtrT || f.IsNil() {
		return nil
	}
	return f.Interface().(*kvrpcpb.Context)
}

func checkPlumbing(ci *cmdInfo) {
	ref := caseRef{Kind: "plumbing", Cmd: ci.Name}
	_, hasCtx := ci.ReqT.Elem().FieldByName("Context")
	if hasCtx {
		f, _ := ci.ReqT.Elem().FieldByName("Context")
		hasCtx = f.Type == ctxPtrT
	}
	newMsg := func() reflect.Value {
		b := &builder{sliceLen: 1, maxRec: 2, request: true}
		m := b.newMsg(ci.ReqT.Elem())
		if hasCtx {
			m.Elem().FieldByName("Context").Set(reflect.Zero(ctxPtrT))
		}
		return m
	}
	ctx1 := kvrpcpb.Context{RegionId: 77, RegionEpoch: &metapb.RegionEpoch{ConfVer: 3, Version: 4}, Peer: &metapb.Peer{Id: 5, StoreId: 6},
		ApiVersion: kvrpcpb.APIVersion_V2, Keyspace: &kvrpcpb.Context_KeyspaceId{KeyspaceId: 456}, KeyspaceName: "ks", RequestSource: "src", Priority: kvrpcpb.CommandPri_High}
	ctx2 := kvrpcpb.Context{RegionId: 78, RegionEpoch: &metapb.RegionEpoch{ConfVer: 9, Version: 9}, Peer: &metapb.Peer{Id: 8, StoreId: 9},
		ApiVersion: kvrpcpb.APIVersion_V2, Keyspace: &kvrpcpb.Context_KeyspaceId{KeyspaceId: 789}, KeyspaceName: "ks2", RequestSource: "src2"}

	// ---- AttachContext / SetContext ----
	guard("AttachContext:"+ci.Name, ref, func() {
		state("attach/"+ci.Name, hasCtx)
		msg := newMsg()
		req := tikvrpc.NewRequest(ci.Cmd, msg.Interface())
		ok := tikvrpc.AttachContext(req, ctx1)
		nTransitions.Add(1)
		nTraces.Add(1)
		nEvals.Add(1)
		if !hasCtx {
			outcome(fmt.Sprintf("attach-no-context-field-%v", ok))
			exclude(fmt.Sprintf("AttachContext(%s): request message %v has no Context field, nothing to attach (AttachContext returned %v)", ci.Name, ci.ReqT, ok))
			return
		}
		if !ok {
			viol("AttachContext:rejected:"+ci.Name, fmt.Sprintf("AttachContext returns false for %s although %v has a Context field: the context (api version, keyspace id, region) never reaches the message", ci.Name, ci.ReqT), ref)
			return
		}
		got := msgContext(req)
		if got == nil || !proto.Equal(got, &ctx1) || !proto.Equal(&req.Context, &ctx1) {
			viol("AttachContext:not-set:"+ci.Name, fmt.Sprintf("after AttachContext(%s) the message context is %v, want %v", ci.Name, got, &ctx1), ref)
			return
		}
		outcome("attach-ok")
		// a second attach (retry) must not modify the message that may already be in the batch send loop
		first := req.Req
		ok = tikvrpc.AttachContext(req, ctx2)
		nTransitions.Add(1)
		nEvals.Add(2)
		got = msgContext(req)
		if !ok || got == nil || !proto.Equal(got, &ctx2) {
			viol("AttachContext:second-not-set:"+ci.Name, fmt.Sprintf("second AttachContext(%s): message context %v, want %v", ci.Name, got, &ctx2), ref)
		}
		old := msgContext(&tikvrpc.Request{Req: first})
		if req.Req == first || old == nil || !proto.Equal(old, &ctx1) {
			viol("AttachContext:patches-sent-message:"+ci.Name, fmt.Sprintf("second AttachContext(%s) modified the previously attached message (Request.Req doc: may be read concurrently by the batch send loop)", ci.Name), ref)
		}
		// everything but the context is carried over to the patched copy
		a, b := flatten(reflect.ValueOf(first)), flatten(reflect.ValueOf(req.Req))
		for _, p := range diffFlat(a, b) {
			if len(p) < 7 || p[:7] != "Context" {
				viol("AttachContext:copy-differs:"+ci.Name, fmt.Sprintf("patched copy of %s differs at %s", ci.Name, p), ref)
				break
			}
		}
		// SetContext
		msg = newMsg()
		req = tikvrpc.NewRequest(ci.Cmd, msg.Interface())
		req.RequestSource = "rs"
		region := &metapb.Region{Id: 42, RegionEpoch: &metapb.RegionEpoch{ConfVer: 1, Version: 2}}
		peer := &metapb.Peer{Id: 11, StoreId: 12}
		err := tikvrpc.SetContext(req, region, peer)
		nTransitions.Add(1)
		nEvals.Add(1)
		got = msgContext(req)
		if err != nil || got == nil || got.RegionId != 42 || !proto.Equal(got.RegionEpoch, region.RegionEpoch) || !proto.Equal(got.Peer, peer) || got.RequestSource != "rs" {
			viol("SetContext:"+ci.Name, fmt.Sprintf("SetContext(%s) = %v, message context %v", ci.Name, err, got), ref)
		}
		req = tikvrpc.NewRequest(ci.Cmd, newMsg().Interface())
		if err := tikvrpc.SetContextNoAttach(req, region, peer); err != nil || req.RegionId != 42 || req.Peer != peer {
			viol("SetContextNoAttach:"+ci.Name, fmt.Sprintf("SetContextNoAttach(%s) = %v", ci.Name, err), ref)
		}
	})

	// ---- GenRegionErrorResp / GetRegionError ----
	guard("GenRegionErrorResp:"+ci.Name, ref, func() {
		e := &errorpb.Error{Message: "m", EpochNotMatch: &errorpb.EpochNotMatch{}}
		req := tikvrpc.NewRequest(ci.Cmd, newMsg().Interface())
		resp, err := tikvrpc.GenRegionErrorResp(req, e)
		nTransitions.Add(1)
		nTraces.Add(1)
		nEvals.Add(1)
		// the response type the RPC really has
		want := ci.RPCResp
		carries := false
		if want != nil {
			_, carries = reflect.New(want.Elem()).Interface().(regionErrGetter)
		}
		state("generr/"+ci.Name, carries || err == nil)
		if err != nil {
			if carries {
				viol("GenRegionErrorResp:missing:"+ci.Name, fmt.Sprintf("GenRegionErrorResp(%s) = %v although its response %v has a region_error field", ci.Name, err, want), ref)
			} else {
				outcome("generr-not-applicable")
				exclude(fmt.Sprintf("GenRegionErrorResp(%s): response %v has no region_error field (store-level / streaming command); the function documents an error", ci.Name, ci.RespT))
			}
			return
		}
		if resp == nil {
			viol("GenRegionErrorResp:nil:"+ci.Name, "nil response without error", ref)
			return
		}
		got, gerr := resp.GetRegionError()
		nTransitions.Add(1)
		nEvals.Add(1)
		if gerr != nil || got != e {
			viol("GenRegionErrorResp:roundtrip:"+ci.Name, fmt.Sprintf("GetRegionError(GenRegionErrorResp(%s, e)) = %v, %v", ci.Name, got, gerr), ref)
			return
		}
		if want != nil && !ci.Stream && reflect.TypeOf(resp.Resp) != want {
			viol("GenRegionErrorResp:type:"+ci.Name, fmt.Sprintf("GenRegionErrorResp(%s) builds %T, the RPC answers %v", ci.Name, resp.Resp, want), ref)
			return
		}
		outcome("generr-ok")
	})

	// ---- batch conversion ----
	guard("batch:"+ci.Name, ref, func() {
		reqW, hasReqArm := reqArms[ci.ReqT]
		var respW reflect.Type
		hasRespArm := false
		if ci.RespT != nil {
			respW, hasRespArm = respArms[ci.RespT]
		}
		msg := newMsg()
		req := tikvrpc.NewRequest(ci.Cmd, msg.Interface())
		br := req.ToBatchCommandsRequest()
		nTransitions.Add(1)
		nTraces.Add(1)
		nEvals.Add(1)
		state("batch/"+ci.Name, hasReqArm && hasRespArm)
		if !(hasReqArm && hasRespArm) {
			if br != nil {
				viol("batch:unexpected:"+ci.Name, fmt.Sprintf("ToBatchCommandsRequest(%s) = %T although the batch union has no arm for it", ci.Name, br.Cmd), ref)
			}
			outcome("batch-no-arm")
			exclude(fmt.Sprintf("batch conversion of %s: BatchCommands union has no arm for %v / %v", ci.Name, ci.ReqT, ci.RespT))
			return
		}
		if br == nil || br.Cmd == nil {
			viol("batch:missing:"+ci.Name, fmt.Sprintf("ToBatchCommandsRequest(%s) = nil although BatchCommandsRequest has the arm %v", ci.Name, reqW), ref)
			return
		}
		if reflect.TypeOf(br.Cmd) != reqW || reflect.ValueOf(br.Cmd).Elem().Field(0).Interface() != msg.Interface() {
			viol("batch:wrong-arm:"+ci.Name, fmt.Sprintf("ToBatchCommandsRequest(%s) = %T holding a different message", ci.Name, br.Cmd), ref)
			return
		}
		// wire round trip of the entry keeps the content
		bs, err := br.Marshal()
		back := &tikvpb.BatchCommandsRequest_Request{}
		nEvals.Add(1)
		if err != nil || back.Unmarshal(bs) != nil || reflect.TypeOf(back.Cmd) != reqW ||
			!proto.Equal(reflect.ValueOf(back.Cmd).Elem().Field(0).Interface().(proto.Message), msg.Interface().(proto.Message)) {
			viol("batch:wire-roundtrip:"+ci.Name, fmt.Sprintf("batch entry of %s does not survive marshal/unmarshal", ci.Name), ref)
		}
		// response side
		rb := &builder{sliceLen: 1, maxRec: 2}
		rmsg := rb.newMsg(ci.RespT.Elem())
		w := reflect.New(respW.Elem())
		w.Elem().Field(0).Set(rmsg)
		entry := &tikvpb.BatchCommandsResponse_Response{}
		reflect.ValueOf(entry).Elem().FieldByName("Cmd").Set(w)
		resp, err := tikvrpc.FromBatchCommandsResponse(entry)
		nTransitions.Add(1)
		nEvals.Add(1)
		if err != nil || resp == nil || resp.Resp != rmsg.Interface() {
			viol("batch:response:"+ci.Name, fmt.Sprintf("FromBatchCommandsResponse(%v) = %v, %v", respW, resp, err), ref)
			return
		}
		outcome("batch-ok")
	})
}

package main

// Codec cases, request encoding checks (b) and range grids.

import (
	"bytes"
	"encoding/binary"
	"fmt"
	"reflect"
	"sort"
	"strings"
	"sync"

	"github.com/pingcap/kvproto/pkg/keyspacepb"
	"github.com/pingcap/kvproto/pkg/kvrpcpb"
	"github.com/tikv/client-go/v2/internal/apicodec"
	"github.com/tikv/client-go/v2/tikvrpc"
	"github.com/tikv/client-go/v2/util/codec"
)

type codecCase struct {
	Mode     apicodec.Mode
	ModeName string
	ID       uint32
	Name     string
	Codec    apicodec.Codec
	Prefix   []byte   // computed by the harness, not read from the codec
	End      []byte   // first key after the keyspace
	Foreign  [][]byte // prefixes of neighbouring keyspaces / the other mode
}

func (cc *codecCase) tag() string { return fmt.Sprintf("%s/%06x", cc.ModeName, cc.ID) }

func modeByte(m apicodec.Mode) byte {
	if m == apicodec.ModeRaw {
		return 'r'
	}
	return 'x'
}

func refPrefix(m apicodec.Mode, id uint32) (prefix, end []byte) {
	prefix = []byte{modeByte(m), byte(id >> 16), byte(id >> 8), byte(id)}
	end = make([]byte, 4)
	binary.BigEndian.PutUint32(end, binary.BigEndian.Uint32(prefix)+1)
	return
}

func memEnc(b []byte) []byte { return codec.EncodeBytes(nil, b) }

func cat(a, b []byte) []byte { return append(append([]byte{}, a...), b...) }

func makeCodecs(ids []uint32) []*codecCase {
	var out []*codecCase
	for _, m := range []apicodec.Mode{apicodec.ModeRaw, apicodec.ModeTxn} {
		for _, id := range ids {
			name := fmt.Sprintf("ks%06x", id)
			c, err := apicodec.NewCodecV2(m, &keyspacepb.KeyspaceMeta{Keyspace: &keyspacepb.KeyspaceMeta_Id{Id: id}, Name: name})
			if err != nil {
				viol("codec:new", fmt.Sprintf("NewCodecV2(mode %d, id %#x) failed: %v", m, id, err), map[string]any{"mode": m, "id": id})
				continue
			}
			cc := &codecCase{Mode: m, ID: id, Name: name, Codec: c, ModeName: map[apicodec.Mode]string{apicodec.ModeRaw: "raw", apicodec.ModeTxn: "txn"}[m]}
			cc.Prefix, cc.End = refPrefix(m, id)
			other := apicodec.Mode(apicodec.ModeTxn)
			if m == apicodec.ModeTxn {
				other = apicodec.ModeRaw
			}
			for _, fid := range []uint32{id ^ 1, (id + 0x100) & 0xFFFFFF} {
				p, _ := refPrefix(m, fid)
				cc.Foreign = append(cc.Foreign, p)
			}
			p, _ := refPrefix(other, id)
			cc.Foreign = append(cc.Foreign, p)
			out = append(out, cc)
		}
	}
	return out
}

// checkCodecConstruction: legal ids accepted with the right prefix, illegal rejected.
func checkCodecConstruction(ids []uint32) {
	for _, m := range []apicodec.Mode{apicodec.ModeRaw, apicodec.ModeTxn} {
		for _, id := range ids {
			guard("codec:new", id, func() {
				c, err := apicodec.NewCodecV2(m, &keyspacepb.KeyspaceMeta{Keyspace: &keyspacepb.KeyspaceMeta_Id{Id: id}, Name: "n"})
				nTransitions.Add(1)
				nEvals.Add(1)
				p, _ := refPrefix(m, id)
				if err != nil || !bytes.Equal(c.GetKeyspace(), p) || uint32(c.GetKeyspaceID()) != id || c.GetAPIVersion() != kvrpcpb.APIVersion_V2 {
					viol("codec:new", fmt.Sprintf("NewCodecV2(mode %d,id %#x): err=%v", m, id, err), id)
				}
			})
		}
		for _, id := range []uint32{0x1000000, 0x1000001, 0x80000000, 0xFFFFFFFF} {
			guard("codec:new-illegal", id, func() {
				c, err := apicodec.NewCodecV2(m, &keyspacepb.KeyspaceMeta{Keyspace: &keyspacepb.KeyspaceMeta_Id{Id: id}, Name: "n"})
				nTransitions.Add(1)
				nEvals.Add(1)
				state(fmt.Sprintf("illegal-id/%d/%x", m, id), true)
				if err == nil {
					viol("codec:new-illegal-id-accepted", fmt.Sprintf("NewCodecV2 accepted keyspace id %#x (> 0xFFFFFF), prefix %x", id, c.GetKeyspace()), id)
				}
			})
		}
	}
	guard("codec:new-nil", nil, func() {
		if _, err := apicodec.NewCodecV2(apicodec.ModeRaw, nil); err == nil {
			viol("codec:new-nil-meta-accepted", "NewCodecV2(nil meta) returned no error", nil)
		}
		if _, err := apicodec.NewCodecV2(apicodec.Mode(7), &keyspacepb.KeyspaceMeta{Keyspace: &keyspacepb.KeyspaceMeta_Id{Id: 1}}); err == nil {
			viol("codec:new-unknown-mode-accepted", "NewCodecV2(mode 7) returned no error", nil)
		}
	})
}

// ---- violations with own bookkeeping (replay needs to know the keys) ----

var (
	violMu   sync.Mutex
	violKeys = map[string]bool{}
)

func viol(key, what string, replay any) {
	violMu.Lock()
	violKeys[key] = true
	violMu.Unlock()
	run.Violation(key, what, replay)
}

type caseRef struct {
	Kind string `json:"kind"`
	Cmd  string `json:"cmd,omitempty"`
	Mode string `json:"mode,omitempty"`
	ID   uint32 `json:"keyspace_id"`
	Info any    `json:"info,omitempty"`
}

// ---- request building ----

// keyspaceByID: the request message itself carries api_version + keyspace id
// (codec.go setAPICtx fills them): the receiver applies the keyspace, so the
// codec documents that it does not touch the key fields of such a message.
func keyspaceByID(t reflect.Type) bool {
	_, a := t.Elem().FieldByName("Keyspace")
	_, b := t.Elem().FieldByName("ApiVersion")
	return a && b
}

func buildRequest(ci *cmdInfo, boolVal, empty bool) (*tikvrpc.Request, reflect.Value) {
	b := &builder{sliceLen: 2, maxRec: 2, request: true, boolVal: boolVal, empty: empty}
	msg := b.newMsg(ci.ReqT.Elem())
	req := &tikvrpc.Request{}
	wb := &builder{sliceLen: 1, maxRec: 2, request: true, n: 5000}
	wb.fillStruct(reflect.ValueOf(req).Elem(), map[reflect.Type]int{})
	req.Type = ci.Cmd
	req.Req = msg.Interface()
	return req, msg
}

func wrapperFlat(r *tikvrpc.Request) *flat {
	w := *r
	w.Req = nil
	return flatten(reflect.ValueOf(&w))
}

func isAPICtxPath(p string) bool {
	return strings.Contains(p, "Keyspace") || strings.HasSuffix(p, "ApiVersion")
}

// checkEncode: every key-like field prefixed, nothing else touched, original intact.
func checkEncode(ci *cmdInfo, cc *codecCase) {
	byID := keyspaceByID(ci.ReqT)
	if byID {
		exclude(fmt.Sprintf("request %s: message carries api_version+keyspace id itself (codec.go setAPICtx); its key fields (opaque TiFlash compaction cursors) are not prefixed by design", ci.Name))
	}
	for _, variant := range []struct {
		name        string
		bools, empt bool
	}{{"filled", false, false}, {"filled-bools", true, false}, {"empty-bytes", false, true}} {
		ref := caseRef{Kind: "encode", Cmd: ci.Name, Mode: cc.ModeName, ID: cc.ID, Info: variant.name}
		guard("encode:"+ci.Name, ref, func() {
			req, msg := buildRequest(ci, variant.bools, variant.empt)
			before := flatten(reflect.ValueOf(req))
			beforeMsg := flatten(msg)
			beforeW := wrapperFlat(req)
			origPtr := req.Req

			enc, err := cc.Codec.EncodeRequest(req)
			nTransitions.Add(1)
			nTraces.Add(1)
			if err != nil || enc == nil {
				viol("encode:error:"+ci.Name, fmt.Sprintf("EncodeRequest(%s) under %s failed: %v", ci.Name, cc.tag(), err), ref)
				return
			}
			outcome("encode-ok")
			// (1) original untouched (EncodeRequest: "MUST encode on cloned request, other than overwrite the original")
			nEvals.Add(1)
			if d := diffFlat(before, flatten(reflect.ValueOf(req))); len(d) > 0 || req.Req != origPtr {
				viol("encode:mutates-original:"+ci.Name, fmt.Sprintf("EncodeRequest(%s) changed the caller's request at %v", ci.Name, d), ref)
			}
			// (2) wrapper: only the api context changes, to the codec's values
			encW := wrapperFlat(enc)
			for _, p := range diffFlat(beforeW, encW) {
				if !isAPICtxPath(p) {
					viol("encode:wrapper-changed:"+ci.Name, fmt.Sprintf("EncodeRequest(%s) changed Request.%s: %q -> %q", ci.Name, p, beforeW.vals[p], encW.vals[p]), ref)
				}
			}
			nEvals.Add(1)
			if enc.Type != ci.Cmd || enc.GetApiVersion() != kvrpcpb.APIVersion_V2 || enc.GetKeyspaceId() != cc.ID || enc.GetKeyspaceName() != cc.Name {
				viol("encode:api-context:"+ci.Name, fmt.Sprintf("encoded %s under %s has api=%v keyspace=%d name=%q", ci.Name, cc.tag(), enc.GetApiVersion(), enc.GetKeyspaceId(), enc.GetKeyspaceName()), ref)
			}
			// (3) message leaves
			encMsg := flatten(reflect.ValueOf(enc.Req))
			isLeaf := map[string]*leafInfo{}
			for _, l := range beforeMsg.leaves {
				isLeaf[l.Path] = l
			}
			bad := map[string][]string{}
			seenNorm := map[string]bool{}
			for _, p := range beforeMsg.sortedPaths() {
				was := beforeMsg.vals[p]
				got, ok := encMsg.vals[p]
				l := isLeaf[p]
				nEvals.Add(1)
				if l != nil {
					state(fmt.Sprintf("enc/%s/%s/%s", ci.Name, cc.tag(), l.Norm), l.Class != clsOther)
				}
				if l != nil && l.Class != clsOther && !byID {
					marker := was[2:]
					if !variant.empt && marker == "" {
						continue // field left unset by the generator (deprecated), nothing to demand
					}
					if variant.empt {
						// empty key: prefix (or keyspace end for an unbounded range end), or left unset where documented
						if ok && (got == "b:" || got == "b:"+string(cc.Prefix) || got == "b:"+string(cc.End)) {
							continue
						}
						bad["encode:empty-key:"+ci.Name+":"+l.Top] = append(bad["encode:empty-key:"+ci.Name+":"+l.Top], fmt.Sprintf("%s=%q", p, got))
						continue
					}
					if !ok || got != "b:"+string(cc.Prefix)+marker {
						k := "encode:not-prefixed:" + ci.Name + ":" + l.Top
						if !seenNorm[l.Norm] {
							seenNorm[l.Norm] = true
							bad[k] = append(bad[k], fmt.Sprintf("%s: sent %x, want %x", l.Norm, strings.TrimPrefix(got, "b:"), string(cc.Prefix)+marker))
						}
					}
					continue
				}
				if !ok || got != was {
					if isAPICtxPath(p) {
						continue // checked below
					}
					top := strings.SplitN(strings.SplitN(p, ".", 2)[0], "[", 2)[0]
					top = strings.SplitN(top, "#", 2)[0]
					k := "encode:non-key-changed:" + ci.Name + ":" + top
					bad[k] = append(bad[k], fmt.Sprintf("%s: %q -> %q", p, was, got))
				}
			}
			for p := range encMsg.vals {
				if _, ok := beforeMsg.vals[p]; !ok && !isAPICtxPath(p) {
					k := "encode:non-key-changed:" + ci.Name + ":" + strings.SplitN(p, ".", 2)[0]
					bad[k] = append(bad[k], "appeared: "+p)
				}
			}
			keys := make([]string, 0, len(bad))
			for k := range bad {
				keys = append(keys, k)
			}
			sort.Strings(keys)
			for _, k := range keys {
				items := bad[k]
				if len(items) > 6 {
					items = append(items[:6], fmt.Sprintf("... %d more", len(items)-6))
				}
				viol(k, fmt.Sprintf("%s under codec v2 %s (%s): %s", ci.Name, cc.tag(), variant.name, strings.Join(items, "; ")), ref)
			}
			// api context carried inside the message (MPP task meta, Compact): must name this keyspace
			for p, v := range encMsg.vals {
				if strings.HasSuffix(p, "ApiVersion") && !strings.HasPrefix(p, "Context.") && v != beforeMsg.vals[p] && v != "V2" {
					viol("encode:message-api-context:"+ci.Name, fmt.Sprintf("%s.%s = %s", ci.Name, p, v), ref)
				}
				if strings.HasSuffix(p, ".KeyspaceId") && !strings.HasPrefix(p, "Context.") && v != beforeMsg.vals[p] && v != fmt.Sprint(cc.ID) {
					viol("encode:message-api-context:"+ci.Name, fmt.Sprintf("%s.%s = %s, want %d", ci.Name, p, v, cc.ID), ref)
				}
			}
			// (4) a retry encodes the same request again: identical result (no double prefix)
			enc2, err2 := cc.Codec.EncodeRequest(req)
			nTransitions.Add(1)
			nEvals.Add(1)
			if err2 != nil || len(diffFlat(encMsg, flatten(reflect.ValueOf(enc2.Req)))) > 0 {
				viol("encode:retry-differs:"+ci.Name, fmt.Sprintf("second EncodeRequest(%s) differs from the first", ci.Name), ref)
			}
			// (5) no aliasing of key bytes between the wire message and the caller's message
			for _, l := range encMsg.leaves {
				// only fields the codec rewrote; untouched fields are shared by design (shallow clone)
				if l.Class != clsOther && l.Val.Len() > 0 && !variant.empt && !byID && encMsg.vals[l.Path] != beforeMsg.vals[l.Path] {
					bs := l.Val.Bytes()
					bs[len(bs)-1] ^= 0x55
				}
			}
			nEvals.Add(1)
			if d := diffFlat(before, flatten(reflect.ValueOf(req))); len(d) > 0 {
				viol("encode:aliases-original:"+ci.Name, fmt.Sprintf("key bytes of the encoded %s share memory with the caller's request: %v", ci.Name, d), ref)
			}
			samples.Add(func() any {
				return map[string]any{"kind": "encode", "cmd": ci.Name, "codec": cc.tag(), "variant": variant.name, "byte_fields": len(beforeMsg.leaves)}
			})
		})
	}
}

// ---- ranges ----

type rangeRef struct {
	parent   string // path of the struct holding the bounds
	start    string // field names
	end      string
	norm     string
	top      string
	hasRev   bool
	revField string
}

func findRanges(msg reflect.Value) []rangeRef {
	fl := flatten(msg)
	type pe struct{ start, end *leafInfo }
	byParent := map[string]*pe{}
	var order []string
	for _, l := range fl.leaves {
		i := strings.LastIndex(l.Path, ".")
		parent := ""
		if i >= 0 {
			parent = l.Path[:i]
		}
		var isStart, isEnd bool
		switch l.Field {
		case "StartKey", "Start":
			isStart = true
		case "EndKey", "End":
			isEnd = true
		}
		if !isStart && !isEnd || strings.HasSuffix(l.Path, "]") {
			continue
		}
		e := byParent[parent]
		if e == nil {
			e = &pe{}
			byParent[parent] = e
			order = append(order, parent)
		}
		if isStart {
			e.start = l
		} else {
			e.end = l
		}
	}
	var out []rangeRef
	seenNorm := map[string]bool{}
	for _, p := range order {
		e := byParent[p]
		if e.start == nil || e.end == nil {
			continue
		}
		n := e.start.Norm
		if seenNorm[n] {
			continue // one instance per repeated field
		}
		seenNorm[n] = true
		r := rangeRef{parent: p, start: e.start.Field, end: e.end.Field, norm: strings.TrimSuffix(n, "."+e.start.Field), top: e.start.Top}
		if _, ok := e.start.Parent.FieldByName("Reverse"); ok {
			r.hasRev = true
		}
		out = append(out, r)
	}
	return out
}

func leafByPath(fl *flat, p string) *leafInfo {
	for _, l := range fl.leaves {
		if l.Path == p {
			return l
		}
	}
	return nil
}

var rangeBounds = [][]byte{nil, {0x00}, []byte("a"), []byte("m\xff"), {0xff, 0xff, 0xff, 0xff, 0xff}}

// checkRanges: all combinations of bounds, forward and reverse.
func checkRanges(ci *cmdInfo, cc *codecCase) {
	if keyspaceByID(ci.ReqT) {
		return
	}
	_, probeMsg := buildRequest(ci, false, false)
	for _, rr := range findRanges(probeMsg) {
		revs := []bool{false}
		if rr.hasRev {
			revs = []bool{false, true}
		}
		for _, rev := range revs {
			for _, s := range rangeBounds {
				for _, e := range rangeBounds {
					ref := caseRef{Kind: "range", Cmd: ci.Name, Mode: cc.ModeName, ID: cc.ID, Info: map[string]any{"range": rr.norm, "start": fmt.Sprintf("%x", s), "end": fmt.Sprintf("%x", e), "reverse": rev}}
					guard("range:"+ci.Name, ref, func() {
						req, msg := buildRequest(ci, false, false)
						fl := flatten(msg)
						ls, le := leafByPath(fl, join(rr.parent, rr.start)), leafByPath(fl, join(rr.parent, rr.end))
						if ls == nil || le == nil {
							return
						}
						setBytes(ls.Val, s)
						setBytes(le.Val, e)
						if rr.hasRev && rr.parent == "" {
							msg.Elem().FieldByName("Reverse").SetBool(rev)
						} else if rev {
							return // Reverse only occurs on top-level ranges in the catalogue
						}
						enc, err := cc.Codec.EncodeRequest(req)
						nTransitions.Add(1)
						nTraces.Add(1)
						if err != nil {
							viol("range:error:"+ci.Name, fmt.Sprintf("EncodeRequest failed: %v", err), ref)
							return
						}
						ef := flatten(reflect.ValueOf(enc.Req))
						gs, ge := leafByPath(ef, join(rr.parent, rr.start)), leafByPath(ef, join(rr.parent, rr.end))
						if gs == nil || ge == nil {
							viol("encode:not-prefixed:"+ci.Name+":"+rr.top, fmt.Sprintf("range %s missing after encode", rr.norm), ref)
							return
						}
						gotS, gotE := gs.Val.Bytes(), ge.Val.Bytes()
						// model: lower bound -> prefix+lower; upper bound -> prefix+upper, unbounded -> keyspace end
						lower, upper := s, e
						if rev {
							lower, upper = e, s
						}
						wantLo := cat(cc.Prefix, lower)
						wantHi := cc.End
						if len(upper) > 0 {
							wantHi = cat(cc.Prefix, upper)
						}
						gotLo, gotHi := gotS, gotE
						if rev {
							gotLo, gotHi = gotE, gotS
						}
						boundary := len(s) == 0 || len(e) == 0 || s[0] == 0 || s[0] == 0xff || e[0] == 0 || e[0] == 0xff
						state(fmt.Sprintf("range/%s/%s/%s/%x/%x/%v", ci.Name, cc.tag(), rr.norm, s, e, rev), boundary)
						nEvals.Add(3)
						dir := "forward"
						if rev {
							dir = "reverse"
						}
						if !bytes.Equal(gotLo, wantLo) || !bytes.Equal(gotHi, wantHi) {
							k := "range:wrong-bounds:" + dir + ":" + ci.Name + ":" + rr.top
							if bytes.Equal(gotS, s) && bytes.Equal(gotE, e) {
								k = "encode:not-prefixed:" + ci.Name + ":" + rr.top
							}
							viol(k, fmt.Sprintf("%s %s range %s [%x,%x) under %s: wire start=%x end=%x, want lower=%x upper=%x", ci.Name, dir, rr.norm, s, e, cc.tag(), gotS, gotE, wantLo, wantHi), ref)
							return
						}
						// laws, independent of the exact model: containment and order
						in := func(k []byte) bool { return bytes.Compare(k, cc.Prefix) >= 0 && bytes.Compare(k, cc.End) <= 0 }
						if !in(gotLo) || !in(gotHi) {
							viol("range:outside-keyspace:"+ci.Name+":"+rr.top, fmt.Sprintf("encoded bounds %x,%x leave [%x,%x]", gotLo, gotHi, cc.Prefix, cc.End), ref)
						}
						logicalOrdered := len(upper) == 0 || bytes.Compare(lower, upper) <= 0
						if logicalOrdered != (bytes.Compare(gotLo, gotHi) <= 0) {
							viol("range:order:"+ci.Name+":"+rr.top, fmt.Sprintf("order of bounds not preserved: [%x,%x) -> [%x,%x)", lower, upper, gotLo, gotHi), ref)
						}
						outcome("range-ok")
					})
				}
			}
		}
	}
}

// checkKeyAndRangeLaws: the key / range primitives of the Codec interface.
func checkKeyAndRangeLaws(cc *codecCase) {
	keys := [][]byte{{}, {0}, {0, 0}, []byte("a"), []byte("a\x00"), []byte("b"), []byte("m\xff"), {0xff}, {0xff, 0xff, 0xff, 0xff, 0xff, 0xff, 0xff, 0xff, 0xff}}
	c := cc.Codec
	ref := caseRef{Kind: "laws", Mode: cc.ModeName, ID: cc.ID}
	guard("laws", ref, func() {
		for i, k := range keys {
			state(fmt.Sprintf("key/%s/%x", cc.tag(), k), true)
			ek := c.EncodeKey(k)
			nTransitions.Add(4)
			nEvals.Add(4)
			if !bytes.Equal(ek, cat(cc.Prefix, k)) {
				viol("key:EncodeKey", fmt.Sprintf("EncodeKey(%x)=%x under %s", k, ek, cc.tag()), ref)
			}
			dk, err := c.DecodeKey(ek)
			if err != nil || !bytes.Equal(dk, k) {
				viol("key:DecodeKey-roundtrip", fmt.Sprintf("DecodeKey(EncodeKey(%x))=%x,%v", k, dk, err), ref)
			}
			rk := c.EncodeRegionKey(k)
			if !bytes.Equal(rk, memEnc(cat(cc.Prefix, k))) {
				viol("key:EncodeRegionKey", fmt.Sprintf("EncodeRegionKey(%x)=%x", k, rk), ref)
			}
			drk, err := c.DecodeRegionKey(rk)
			if err != nil || !bytes.Equal(drk, k) {
				viol("key:DecodeRegionKey-roundtrip", fmt.Sprintf("DecodeRegionKey(EncodeRegionKey(%x))=%x,%v", k, drk, err), ref)
			}
			if id, err := apicodec.ParseKeyspaceID(ek); err != nil || uint32(id) != cc.ID {
				viol("key:ParseKeyspaceID", fmt.Sprintf("ParseKeyspaceID(%x)=%d,%v want %d", ek, id, err, cc.ID), ref)
			}
			if p, rest, err := apicodec.DecodeKey(ek, kvrpcpb.APIVersion_V2); err != nil || !bytes.Equal(p, cc.Prefix) || !bytes.Equal(rest, k) {
				viol("key:apicodec.DecodeKey", fmt.Sprintf("apicodec.DecodeKey(%x)=%x,%x,%v", ek, p, rest, err), ref)
			}
			// keys of other keyspaces / the other mode are rejected
			for _, fp := range cc.Foreign {
				fk := cat(fp, k)
				nTransitions.Add(1)
				nEvals.Add(1)
				if got, err := c.DecodeKey(fk); err == nil {
					viol("key:foreign-key-accepted", fmt.Sprintf("DecodeKey(%x) under %s returned %x without error", fk, cc.tag(), got), ref)
				}
				if got, err := c.DecodeRegionKey(memEnc(fk)); err == nil {
					viol("key:foreign-region-key-accepted", fmt.Sprintf("DecodeRegionKey(mem(%x)) under %s returned %x without error", fk, cc.tag(), got), ref)
				}
			}
			// order isomorphism + containment
			for _, k2 := range keys[i+1:] {
				nEvals.Add(2)
				if sign(bytes.Compare(k, k2)) != sign(bytes.Compare(c.EncodeKey(k), c.EncodeKey(k2))) {
					viol("key:order", fmt.Sprintf("EncodeKey does not preserve the order of %x,%x", k, k2), ref)
				}
				if sign(bytes.Compare(k, k2)) != sign(bytes.Compare(c.EncodeRegionKey(k), c.EncodeRegionKey(k2))) {
					viol("key:region-order", fmt.Sprintf("EncodeRegionKey does not preserve the order of %x,%x", k, k2), ref)
				}
			}
			if bytes.Compare(ek, cc.Prefix) < 0 || bytes.Compare(ek, cc.End) >= 0 {
				viol("key:outside", fmt.Sprintf("EncodeKey(%x)=%x outside [%x,%x)", k, ek, cc.Prefix, cc.End), ref)
			}
		}
		// EncodeRange / EncodeRegionRange and their inverses
		for _, s := range keys {
			for _, e := range keys {
				state(fmt.Sprintf("krange/%s/%x/%x", cc.tag(), s, e), len(s) == 0 || len(e) == 0)
				nTransitions.Add(4)
				nEvals.Add(4)
				es, ee := c.EncodeRange(s, e)
				wantE := cc.End
				if len(e) > 0 {
					wantE = cat(cc.Prefix, e)
				}
				if !bytes.Equal(es, cat(cc.Prefix, s)) || !bytes.Equal(ee, wantE) {
					viol("range:EncodeRange", fmt.Sprintf("EncodeRange(%x,%x)=(%x,%x) under %s", s, e, es, ee, cc.tag()), ref)
				}
				ds, de, err := c.DecodeRange(es, ee)
				if err != nil || !bytes.Equal(ds, s) || !bytes.Equal(de, e) {
					viol("range:DecodeRange-roundtrip", fmt.Sprintf("DecodeRange(EncodeRange(%x,%x))=(%x,%x,%v)", s, e, ds, de, err), ref)
				}
				rs, re := c.EncodeRegionRange(s, e)
				if !bytes.Equal(rs, memEnc(cat(cc.Prefix, s))) || !bytes.Equal(re, memEnc(wantE)) {
					viol("range:EncodeRegionRange", fmt.Sprintf("EncodeRegionRange(%x,%x)=(%x,%x)", s, e, rs, re), ref)
				}
				ds, de, err = c.DecodeRegionRange(rs, re)
				if err != nil || !bytes.Equal(ds, s) || !bytes.Equal(de, e) {
					viol("range:DecodeRegionRange-roundtrip", fmt.Sprintf("DecodeRegionRange(EncodeRegionRange(%x,%x))=(%x,%x,%v)", s, e, ds, de, err), ref)
				}
			}
		}
	})
}

func sign(i int) int {
	if i < 0 {
		return -1
	}
	if i > 0 {
		return 1
	}
	return 0
}

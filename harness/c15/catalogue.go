package main

// The command catalogue, discovered by enumeration and reflection only.

import (
	"context"
	"fmt"
	"reflect"
	"runtime"
	"sort"

	"github.com/pingcap/kvproto/pkg/debugpb"
	"github.com/pingcap/kvproto/pkg/errorpb"
	"github.com/pingcap/kvproto/pkg/kvrpcpb"
	"github.com/pingcap/kvproto/pkg/tikvpb"
	"github.com/tikv/client-go/v2/tikvrpc"
)

type cmdInfo struct {
	Cmd      tikvrpc.CmdType
	Name     string
	ReqT     reflect.Type // pointer to message struct
	RespT    reflect.Type // pointer type of Response.Resp, nil if unknown
	RespFrom string       // how RespT was found
	Stream   bool         // the RPC is server-streaming (response is a stream wrapper)
	GenOK    bool         // GenRegionErrorResp knows the command
	RPCResp  reflect.Type // response message type according to the gRPC client interface (nil if none)
}

type protoMsg interface{ ProtoMessage() }

var protoMsgT = reflect.TypeOf((*protoMsg)(nil)).Elem()

const (
	probeReturned = iota
	probeTypeAssert
	probeOtherPanic
)

func probe(f func()) (res int) {
	defer func() {
		if p := recover(); p != nil {
			if _, ok := p.(*runtime.TypeAssertionError); ok {
				res = probeTypeAssert
			} else {
				res = probeOtherPanic
			}
		}
	}()
	f()
	return probeReturned
}

// accessorTypes: result types of the niladic accessor methods declared on
// *tikvrpc.Request itself (methods promoted from the embedded kvrpcpb.Context
// are not accessors of Req).
func accessorTypes() map[reflect.Type][]string {
	rt := reflect.TypeOf(&tikvrpc.Request{})
	ct := reflect.TypeOf(&kvrpcpb.Context{})
	out := map[reflect.Type][]string{}
	for i := 0; i < rt.NumMethod(); i++ {
		m := rt.Method(i)
		if _, promoted := ct.MethodByName(m.Name); promoted {
			continue
		}
		if m.Type.NumIn() != 1 || m.Type.NumOut() != 1 {
			continue
		}
		o := m.Type.Out(0)
		if o.Kind() != reflect.Ptr || o.Elem().Kind() != reflect.Struct || !o.Implements(protoMsgT) {
			continue
		}
		out[o] = append(out[o], m.Name)
	}
	return out
}

// rpcTable maps a request message type to the response types of the gRPC
// client methods taking it (tikvpb.TikvClient, debugpb.DebugClient).
type rpcEntry struct {
	method string
	resp   reflect.Type // message type (for streams: what Recv returns)
	stream bool
}

func rpcTable() map[reflect.Type][]rpcEntry {
	out := map[reflect.Type][]rpcEntry{}
	for _, it := range []reflect.Type{reflect.TypeOf((*tikvpb.TikvClient)(nil)).Elem(), reflect.TypeOf((*debugpb.DebugClient)(nil)).Elem()} {
		for i := 0; i < it.NumMethod(); i++ {
			m := it.Method(i)
			if m.Type.NumIn() < 2 || m.Type.NumOut() != 2 {
				continue
			}
			in := m.Type.In(1)
			if in.Kind() != reflect.Ptr || !in.Implements(protoMsgT) {
				continue
			}
			o := m.Type.Out(0)
			e := rpcEntry{method: m.Name}
			if o.Kind() == reflect.Interface {
				r, ok := o.MethodByName("Recv")
				if !ok {
					continue
				}
				e.stream = true
				e.resp = r.Type.Out(0)
			} else {
				e.resp = o
			}
			out[in] = append(out[in], e)
		}
	}
	return out
}

// discover builds the catalogue. Problems (a command whose request type cannot
// be determined uniquely) are returned as strings.
func discover() (cmds []*cmdInfo, problems []string) {
	acc := accessorTypes()
	var cands []reflect.Type
	for t := range acc {
		cands = append(cands, t)
	}
	sort.Slice(cands, func(i, j int) bool { return cands[i].String() < cands[j].String() })
	rpcs := rpcTable()
	unknown := tikvrpc.CmdType(4095).String()
	seenName := map[string]tikvrpc.CmdType{}
	for c := 0; c < 4096; c++ {
		cmd := tikvrpc.CmdType(c)
		name := cmd.String()
		if name == unknown {
			continue
		}
		if prev, dup := seenName[name]; dup {
			problems = append(problems, fmt.Sprintf("CmdType %d and %d share the name %s", prev, c, name))
		}
		seenName[name] = cmd
		ci := &cmdInfo{Cmd: cmd, Name: name}
		var accepted []reflect.Type
		for _, t := range cands {
			mk := func() *tikvrpc.Request { return tikvrpc.NewRequest(cmd, reflect.New(t.Elem()).Interface()) }
			rejected := false
			for _, f := range []func(){
				func() { tikvrpc.CallRPC(context.Background(), nil, mk()) },
				func() { tikvrpc.CallDebugRPC(context.Background(), nil, mk()) },
				func() { mk().ToBatchCommandsRequest() },
				func() { tikvrpc.AttachContext(mk(), kvrpcpb.Context{}) },
				func() { mk().GetSize() },
				func() { mk().GetStartTS() },
			} {
				if probe(f) == probeTypeAssert {
					rejected = true
					break
				}
			}
			if !rejected {
				accepted = append(accepted, t)
			}
		}
		if len(accepted) != 1 {
			problems = append(problems, fmt.Sprintf("command %s(%d): request type not unique: %v", name, c, accepted))
			continue
		}
		ci.ReqT = accepted[0]
		// response type
		req := tikvrpc.NewRequest(cmd, reflect.New(ci.ReqT.Elem()).Interface())
		var gen *tikvrpc.Response
		var gerr error
		probe(func() { gen, gerr = tikvrpc.GenRegionErrorResp(req, &errorpb.Error{}) })
		for _, e := range rpcs[ci.ReqT] {
			if e.stream {
				continue
			}
			ci.RPCResp = e.resp
		}
		if gerr == nil && gen != nil && gen.Resp != nil {
			ci.GenOK = true
			ci.RespT = reflect.TypeOf(gen.Resp)
			ci.RespFrom = "GenRegionErrorResp"
			if _, isMsg := gen.Resp.(protoMsg); !isMsg || ci.RespT.Elem().PkgPath() == reflect.TypeOf(tikvrpc.Request{}).PkgPath() {
				ci.Stream = true // wrapper defined in tikvrpc (CopStreamResponse)
			}
		} else {
			if gerr == nil && gen != nil {
				ci.GenOK = true // accepted, but no payload (CmdEmpty)
			}
			es := rpcs[ci.ReqT]
			if len(es) == 1 {
				ci.RespT = es[0].resp
				ci.Stream = es[0].stream
				ci.RespFrom = "grpc client interface " + es[0].method
			} else if len(es) == 0 {
				// not an RPC of its own: ask CallRPC (only commands answered locally return)
				var r *tikvrpc.Response
				if probe(func() { r, _ = tikvrpc.CallRPC(context.Background(), nil, req) }) == probeReturned && r != nil && r.Resp != nil {
					ci.RespT = reflect.TypeOf(r.Resp)
					ci.RespFrom = "CallRPC"
				}
			} else {
				problems = append(problems, fmt.Sprintf("command %s: response type ambiguous (%d rpc methods take %v)", name, len(es), ci.ReqT))
			}
		}
		cmds = append(cmds, ci)
	}
	return
}

// C07: a transaction reads its own writes over its snapshot; savepoint
// rollback undoes. Explicit-state breadth-first search (DESIGN.md 3.2 / 5 C07)
// over set/delete/staging/release/cleanup/checkpoint/revert on the real
// KVUnionStore (union_store.go, union_iter.go) on top of the real MemDB (ART
// and RBT variants) and a map-backed snapshot, plus the transaction-level
// batch read path BufferBatchGetter (txnkv/transaction/batch_getter.go). KVTxn's
// Get/Iter/IterReverse/BatchGet/Set/Delete are one-line delegations to exactly
// these objects (txnkv/transaction/txn.go), so no store is needed.
package main

import (
	"bytes"
	"context"
	"encoding/json"
	"fmt"
	"os"
	"runtime/debug"
	"sort"
	"strings"
	"time"

	"github.com/pingcap/log"
	tikverr "github.com/tikv/client-go/v2/error"
	"github.com/tikv/client-go/v2/internal/unionstore"
	"github.com/tikv/client-go/v2/kv"
	"github.com/tikv/client-go/v2/txnkv/transaction"
	"github.com/tikv/client-go/v2/verifrt/ev"
	"github.com/tikv/client-go/v2/verifrt/membuf"
	"github.com/tikv/client-go/v2/verifrt/models/omap"
	"github.com/tikv/client-go/v2/verifrt/seqx"
	"go.uber.org/zap"
)

var run *ev.Run

// ---------- map-backed snapshot ----------

// mapSnapshot implements what KVUnionStore (Get/Iter/IterReverse) and
// BufferBatchGetter (BatchGet) expect of the transaction's snapshot. Bounds
// follow the repository's convention (txnsnapshot/scan.go): an empty bound is
// unbounded. Values are never empty (KVSnapshot reports empty values as not-exist).
type mapSnapshot struct {
	keys []string // ascending
	m    map[string][]byte
	// statistics (not part of the verdict)
	batchKeysAsked int
}

func newMapSnapshot(content map[string][]byte) *mapSnapshot {
	s := &mapSnapshot{m: content}
	for k := range content {
		s.keys = append(s.keys, k)
	}
	sort.Strings(s.keys)
	return s
}

func (s *mapSnapshot) Get(_ context.Context, k []byte, _ ...kv.GetOption) (kv.ValueEntry, error) {
	if v, ok := s.m[string(k)]; ok {
		return kv.NewValueEntry(v, 0), nil
	}
	return kv.ValueEntry{}, tikverr.ErrNotExist
}

func (s *mapSnapshot) BatchGet(_ context.Context, keys [][]byte, _ ...kv.BatchGetOption) (map[string]kv.ValueEntry, error) {
	out := map[string]kv.ValueEntry{}
	s.batchKeysAsked += len(keys)
	for _, k := range keys {
		if v, ok := s.m[string(k)]; ok {
			out[string(k)] = kv.NewValueEntry(v, 0)
		}
	}
	return out, nil
}

type mapIter struct {
	s    *mapSnapshot
	idx  []int // positions in s.keys, in iteration order
	next int
}

func (it *mapIter) Valid() bool   { return it.next < len(it.idx) }
func (it *mapIter) Key() []byte   { return []byte(it.s.keys[it.idx[it.next]]) }
func (it *mapIter) Value() []byte { return it.s.m[it.s.keys[it.idx[it.next]]] }
func (it *mapIter) Next() error   { it.next++; return nil }
func (it *mapIter) Close()        {}

func (s *mapSnapshot) Iter(k, upper []byte) (unionstore.Iterator, error) {
	it := &mapIter{s: s}
	for i, key := range s.keys {
		if key >= string(k) && (len(upper) == 0 || key < string(upper)) {
			it.idx = append(it.idx, i)
		}
	}
	return it, nil
}

func (s *mapSnapshot) IterReverse(k, lower []byte) (unionstore.Iterator, error) {
	it := &mapIter{s: s}
	for i := len(s.keys) - 1; i >= 0; i-- {
		key := s.keys[i]
		if (len(k) == 0 || key < string(k)) && key >= string(lower) {
			it.idx = append(it.idx, i)
		}
	}
	return it, nil
}

// ---------- configuration ----------

type Config struct {
	Name   string
	Impl   string   // art | rbt
	Keys   [][]byte // keys written and read
	Probes [][]byte // read only
	// ProbeBounds: the probes are iteration bounds as well
	ProbeBounds bool
	Snap        map[string][]byte
	Vals        []string
	Depth       int
	MaxSt       int
	MaxCps      int
}

var pool = [][]byte{[]byte(""), []byte("a"), []byte("a\x00"), []byte("a\xff"), []byte("b")}

func configs(thorough bool) []*Config {
	snapPool := []string{"a", "a\x00", "b"}
	depth := 4
	if thorough {
		snapPool = []string{"", "a", "a\x00", "b"}
		depth = 5 // 6 for the empty and the full snapshot, see below
	}
	var out []*Config
	for _, impl := range []string{"art", "rbt"} {
		for mask := 0; mask < 1<<len(snapPool); mask++ {
			snap := map[string][]byte{}
			var names []string
			for i, k := range snapPool {
				if mask&(1<<i) != 0 {
					snap[k] = []byte("s" + fmt.Sprint(i)) // 2 bytes; buffer values are 1 byte
					names = append(names, membuf.QuoteKey([]byte(k)))
				}
			}
			d := depth
			if thorough && (mask == 0 || mask == 1<<len(snapPool)-1) {
				d = 6
			}
			out = append(out, &Config{
				Name: fmt.Sprintf("%s/snapshot{%s}", impl, strings.Join(names, ",")), Impl: impl,
				Keys: pool, Probes: [][]byte{[]byte("a\x01")}, Snap: snap, Vals: []string{"1", "2"}, Depth: d, MaxSt: 2, MaxCps: 1,
			})
		}
	}
	// long-prefix key sets: keys sharing a run of more than 20 bytes (the radix tree keeps at most 20
	// bytes of a compressed prefix in the node and compares the rest against a leaf), with iteration
	// bounds that are keys of the set and probes between / beyond them
	lp := strings.Repeat("p", 30)
	long := [][]byte{[]byte(lp + "a1"), []byte(lp + "a2"), []byte(lp + "a3"), []byte(lp + "bz")}
	probes := [][]byte{[]byte(lp + "a10"), []byte(lp + "az"), []byte(lp), []byte(lp + "bzz")}
	for _, impl := range []string{"art", "rbt"} {
		for _, withSnap := range []bool{false, true} {
			snap := map[string][]byte{}
			name := impl + "/long-prefix/snapshot{}"
			if withSnap {
				snap[lp+"a2"], snap[lp+"c"] = []byte("s0"), []byte("s1")
				name = impl + "/long-prefix/snapshot{P+a2,P+c}"
			}
			d := 4
			if thorough {
				d = 5
			}
			out = append(out, &Config{Name: name, Impl: impl, Keys: long, Probes: probes, ProbeBounds: true, Snap: snap, Vals: []string{"1"}, Depth: d, MaxSt: 1, MaxCps: 1})
		}
	}
	return out
}

func (c *Config) enabled(m *omap.Model) []seqx.Op {
	var ops []seqx.Op
	add := func(o membuf.Op) {
		if o.IsWrite() {
			o.Key = membuf.QuoteKey(c.Keys[o.K])
		}
		ops = append(ops, o)
	}
	for i := range c.Keys {
		for _, v := range c.Vals {
			add(membuf.Op{Kind: "Set", K: i, V: v})
		}
	}
	for i := range c.Keys {
		add(membuf.Op{Kind: "Delete", K: i})
	}
	if m.Depth() < c.MaxSt {
		add(membuf.Op{Kind: "Staging"})
	}
	if m.Depth() > 0 {
		add(membuf.Op{Kind: "Release"})
		add(membuf.Op{Kind: "Cleanup"})
	}
	if len(m.Cps) < c.MaxCps && (len(m.Cps) == 0 || m.Cps[len(m.Cps)-1] != len(m.Log)) {
		add(membuf.Op{Kind: "Checkpoint"})
	}
	for i := range m.Cps {
		if m.CanRevert(i) {
			add(membuf.Op{Kind: "Revert", Cp: i})
		}
	}
	add(membuf.Op{Kind: "Set", K: 1, V: ""}) // documented rejection: empty values cannot be set
	return ops
}

func toOps(h []seqx.Op) []membuf.Op {
	out := make([]membuf.Op, len(h))
	for i, o := range h {
		out[i] = o.(membuf.Op)
	}
	return out
}

func (c *Config) replayModel(h []seqx.Op) *omap.Model {
	m := omap.New()
	for _, o := range toOps(h) {
		membuf.ApplyModel(m, o, c.Keys)
	}
	return m
}

// unionView is the reference: snapshot content overlaid with the buffer's
// sets and deletes (latest write wins, a deletion hides the snapshot key).
func (c *Config) unionView(m *omap.Model) []omap.KV {
	merged := map[string][]byte{}
	for k, v := range c.Snap {
		merged[k] = v
	}
	for _, e := range m.View(false, false) {
		if len(e.Val) == 0 {
			delete(merged, e.Key)
		} else {
			merged[e.Key] = e.Val
		}
	}
	ks := make([]string, 0, len(merged))
	for k := range merged {
		ks = append(ks, k)
	}
	sort.Strings(ks)
	out := make([]omap.KV, len(ks))
	for i, k := range ks {
		out[i] = omap.KV{Key: k, Val: merged[k], HasValue: true}
	}
	return out
}

// observation names in reporting priority; the first three describe what the
// transaction would read by key (a failure there means the state diverged and
// the history is not extended), the others are the merge iterators.
var stateObs = []string{"answer", "panic", "us.Get", "BatchGet", "BatchGet:duplicate-keys"}
var readObs = []string{"us.Iter", "us.IterReverse"}

type rec struct {
	after string
	m     map[string]string
}

func (r *rec) fail(name, format string, a ...any) {
	if r.m == nil {
		r.m = map[string]string{}
	}
	if _, ok := r.m[name]; !ok {
		r.m[name] = fmt.Sprintf(format, a...)
	}
}

func (r *rec) viols(impl string) ([]seqx.Viol, bool) {
	for _, n := range stateObs {
		if msg, ok := r.m[n]; ok {
			return []seqx.Viol{{Key: fmt.Sprintf("%s:%s:after-%s", n, impl, r.after), What: fmt.Sprintf("%s (%s) after %s: %s", n, impl, r.after, msg)}}, true
		}
	}
	var out []seqx.Viol
	for n, msg := range r.m {
		out = append(out, seqx.Viol{Key: n + ":" + impl, What: fmt.Sprintf("%s (%s): %s", n, impl, msg)})
	}
	sort.Slice(out, func(i, j int) bool { return out[i].Key < out[j].Key })
	return out, false
}

func (c *Config) exec(h []seqx.Op) seqx.Result {
	ops := toOps(h)
	m := omap.New()
	im := membuf.New(c.Impl)
	snap := newMapSnapshot(c.Snap)
	us := unionstore.NewUnionStore(im.DB, snap)
	r := &rec{after: "init"}
	var res seqx.Result
	for _, o := range ops {
		r.after = o.Kind
		if o.IsWrite() {
			r.after = "write"
		}
		depth := m.Depth()
		want := membuf.ApplyModel(m, o, c.Keys)
		got := membuf.ApplyReal(im, o, c.Keys, depth, len(m.Cps))
		res.RealOps++
		if got != want {
			name := "answer"
			if strings.HasPrefix(got, "panic") {
				name = "panic"
			}
			r.after = o.Kind
			r.fail(name, "%s answered %q, expected %q", o, got, want)
			break
		}
	}
	var out strings.Builder
	if len(r.m) == 0 {
		if msg, pan := membuf.Guard(func() { c.observe(m, im, us, snap, r, &out) }); pan {
			r.fail("panic", "observation panicked: %s", msg)
		}
	}
	res.State = seqx.Digest(m.Canon())
	res.Outcome = seqx.Digest(out.String())
	res.NonTrivial = nonTrivial(c, m)
	res.Viols, res.Prune = r.viols(c.Impl)
	return res
}

// nonTrivial: the buffer overlays the snapshot (a buffered key also in the
// snapshot), or hides something by a tombstone, or something was overwritten / undone.
func nonTrivial(c *Config, m *omap.Model) bool {
	for k, e := range m.M {
		if len(e.Hist) != 1 {
			return true
		}
		if _, ok := c.Snap[k]; ok {
			return true
		}
		if len(e.Hist[0].Val) == 0 {
			return true
		}
	}
	return len(m.Stages) > 0 && m.Stages[0] < len(m.Log)
}

func showBound(b []byte) string {
	if b == nil {
		return "nil"
	}
	return membuf.QuoteKey(b)
}

func (c *Config) observe(m *omap.Model, im *membuf.Impl, us *unionstore.KVUnionStore, snap *mapSnapshot, r *rec, out *strings.Builder) {
	ctx := context.Background()
	view := c.unionView(m)
	want := map[string][]byte{}
	for _, e := range view {
		want[e.Key] = e.Val
	}
	fmt.Fprintf(out, "%s", membuf.ShowModel(view))
	keys := append(append([][]byte{}, c.Keys...), c.Probes...)

	// get (KVTxn.Get = KVUnionStore.Get)
	for _, k := range keys {
		v, err := us.Get(ctx, k)
		wv, wok := want[string(k)]
		if wok && (err != nil || !bytes.Equal(v.Value, wv)) || !wok && !tikverr.IsErrNotFound(err) {
			r.fail("us.Get", "Get(%s) = (%q, %v), expected %s", membuf.QuoteKey(k), v.Value, err, membuf.ShowVal(wv, wok))
		}
	}

	// batch get over every subset of the key pool (KVTxn.BatchGet = NewBufferBatchGetter(memBuffer, snapshot).BatchGet)
	bg := transaction.NewBufferBatchGetter(im.DB, snap)
	for mask := 0; mask < 1<<len(c.Keys); mask++ {
		var ks [][]byte
		for i, k := range c.Keys {
			if mask&(1<<i) != 0 {
				ks = append(ks, k)
			}
		}
		got, err := bg.BatchGet(ctx, ks)
		bad := err != nil
		n := 0
		for _, k := range ks {
			if wv, ok := want[string(k)]; ok {
				n++
				e, present := got[string(k)]
				bad = bad || !present || !bytes.Equal(e.Value, wv)
			}
		}
		if bad || len(got) != n {
			r.fail("BatchGet", "BatchGet(%s) = %s (err %v), expected exactly the %d visible keys of %s", showKeys(ks), showMap(got), err, n, membuf.ShowModel(view))
		}
	}

	// batch get with a key named more than once ([k,k] and [k,j,k]): the answer is the same map
	for _, k := range c.Keys {
		for j := -1; j < len(c.Keys); j++ {
			ks := [][]byte{k, k}
			if j >= 0 {
				if bytes.Equal(c.Keys[j], k) {
					continue
				}
				ks = [][]byte{k, c.Keys[j], k}
			}
			got, err := bg.BatchGet(ctx, ks)
			bad := err != nil
			n := 0
			seen := map[string]bool{}
			for _, q := range ks {
				if seen[string(q)] {
					continue
				}
				seen[string(q)] = true
				if wv, ok := want[string(q)]; ok {
					n++
					e, present := got[string(q)]
					bad = bad || !present || !bytes.Equal(e.Value, wv)
				}
			}
			if bad || len(got) != n {
				r.fail("BatchGet:duplicate-keys", "BatchGet(%s) = %s (err %v), expected exactly the %d visible keys of %s", showKeys(ks), showMap(got), err, n, membuf.ShowModel(view))
			}
		}
	}

	// iterators over all bound pairs (pool keys and nil)
	bounds := append([][]byte{nil}, c.Keys...)
	if c.ProbeBounds {
		bounds = append(bounds, c.Probes...)
	}
	limit := len(view) + 2
	for _, l := range bounds {
		for _, u := range bounds {
			lb, ub := l, u
			if c.Impl == "rbt" && len(ub) == 0 {
				ub = nil // see assumptions: RBT iterators define only a nil upper bound as unbounded
			}
			for _, rev := range []bool{false, true} {
				name := "us.Iter"
				var it unionstore.Iterator
				var err error
				if rev {
					name = "us.IterReverse"
					it, err = us.IterReverse(ub, lb)
				} else {
					it, err = us.Iter(lb, ub)
				}
				if err != nil {
					r.fail(name, "%s[%s,%s) failed: %v", name, showBound(l), showBound(u), err)
					continue
				}
				got, derr := membuf.Drain(it, limit)
				it.Close()
				exp := omap.Range(view, l, u, rev)
				// the three laws of the statement first (more specific messages), then equality with the model
				for i, e := range got {
					switch {
					case len(e.Val) == 0:
						r.fail(name, "%s[%s,%s) yields %s with an empty value (tombstone leaked): %s", name, showBound(l), showBound(u), membuf.QuoteKey(e.Key), membuf.ShowKVs(got))
					case len(l) > 0 && bytes.Compare(e.Key, l) < 0 || len(u) > 0 && bytes.Compare(e.Key, u) >= 0:
						r.fail(name, "%s[%s,%s) yields %s outside the bounds: %s", name, showBound(l), showBound(u), membuf.QuoteKey(e.Key), membuf.ShowKVs(got))
					case i > 0 && (!rev && bytes.Compare(got[i-1].Key, e.Key) >= 0 || rev && bytes.Compare(got[i-1].Key, e.Key) <= 0):
						r.fail(name, "%s[%s,%s) is not strictly monotone: %s", name, showBound(l), showBound(u), membuf.ShowKVs(got))
					}
				}
				if derr != nil || !membuf.SameKVs(got, exp) {
					r.fail(name, "%s[%s,%s) = %s (err %v), expected %s", name, showBound(l), showBound(u), membuf.ShowKVs(got), derr, membuf.ShowModel(exp))
				}
			}
		}
	}
}

func showKeys(ks [][]byte) string {
	s := make([]string, len(ks))
	for i, k := range ks {
		s[i] = membuf.QuoteKey(k)
	}
	return "[" + strings.Join(s, " ") + "]"
}

func showMap(m map[string]kv.ValueEntry) string {
	ks := make([]string, 0, len(m))
	for k := range m {
		ks = append(ks, k)
	}
	sort.Strings(ks)
	var b strings.Builder
	b.WriteString("{")
	for i, k := range ks {
		if i > 0 {
			b.WriteString(" ")
		}
		fmt.Fprintf(&b, "%s=%q", membuf.QuoteKey([]byte(k)), m[k].Value)
	}
	return b.String() + "}"
}

func artefact(c *Config, h []seqx.Op) map[string]any {
	keys := make([]string, len(c.Keys))
	for i, k := range c.Keys {
		keys[i] = membuf.QuoteKey(k)
	}
	trace := make([]string, len(h))
	for i, o := range h {
		trace[i] = o.(membuf.Op).String()
	}
	return map[string]any{"config": c.Name, "keys": keys, "ops": h, "trace": trace}
}

func replay(path string) {
	b, err := os.ReadFile(path)
	if err != nil {
		fmt.Fprintln(os.Stderr, "replay:", err)
		os.Exit(2)
	}
	var f struct {
		Replay struct {
			Config string      `json:"config"`
			Ops    []membuf.Op `json:"ops"`
		} `json:"replay"`
	}
	if err := json.Unmarshal(b, &f); err != nil {
		fmt.Fprintln(os.Stderr, "replay:", err)
		os.Exit(2)
	}
	for _, c := range append(configs(true), configs(false)...) {
		if c.Name != f.Replay.Config {
			continue
		}
		h := make([]seqx.Op, len(f.Replay.Ops))
		for i, o := range f.Replay.Ops {
			h[i] = o
		}
		for n := 0; n <= len(h); n++ {
			res := c.exec(h[:n])
			for _, v := range res.Viols {
				run.Violation(v.Key, v.What, artefact(c, h[:n]))
				fmt.Printf("step %d: %s\n", n, v.What)
			}
			if len(res.Viols) > 0 {
				break
			}
		}
		fmt.Printf("replay of %d ops in config %s done\n", len(h), c.Name)
		run.Finish(ev.Coverage{"states": len(h) + 1, "transitions": len(h), "replayed": path}, nil)
	}
	fmt.Fprintln(os.Stderr, "replay: unknown config", f.Replay.Config)
	os.Exit(2)
}

var ballast []byte

var started = time.Now()

// expired: VERIF_BUDGET_S if given, otherwise a default wall budget per tier
// (a cut search ends with exhaustive:false, never with a verdict).
func expired() bool {
	if os.Getenv("VERIF_BUDGET_S") != "" {
		return run.Expired()
	}
	budget := 110 * time.Second
	if run.Thorough() {
		budget = 28 * time.Minute
	}
	return time.Since(started) > budget
}

func main() {
	log.ReplaceGlobals(zap.NewNop(), &log.ZapProperties{}) // the union iterator warns about deletions of absent keys
	run = ev.Start("C07", "model_checking")
	for i, a := range os.Args {
		if a == "--replay" && i+1 < len(os.Args) {
			replay(os.Args[i+1])
		}
	}
	// fresh buffers per history: tiny live heap, high allocation rate (see harness/c08)
	ballast = make([]byte, 2<<30)
	debug.SetGCPercent(200)

	samples := ev.NewSamples(10, run.Seed)
	var tot seqx.Stats
	per := map[string]any{}
	only := os.Getenv("VERIF_C07_ONLY") // debugging aid: substring of the config name
	depth := 0
	for _, c := range configs(run.Thorough()) {
		if only != "" && !strings.Contains(c.Name, only) {
			continue
		}
		depth = max(depth, c.Depth)
		st := seqx.Run(seqx.Spec{
			Name: c.Name, Depth: c.Depth,
			Enabled: func(h []seqx.Op) []seqx.Op { return c.enabled(c.replayModel(h)) },
			Exec:    c.exec,
			Report: func(v seqx.Viol, h []seqx.Op) {
				run.Violation(v.Key, v.What+" | "+c.Name+" "+fmt.Sprint(artefact(c, h)["trace"]), artefact(c, h))
			},
			Sample: func(h []seqx.Op, r seqx.Result) {
				if len(h) >= 3 && r.NonTrivial {
					samples.Add(func() any { return map[string]any{"config": c.Name, "trace": artefact(c, h)["trace"]} })
				}
			},
			Stop: expired,
		})
		tot.Add(st)
		per[c.Name] = map[string]any{"depth_completed": st.MaxDepth, "states": st.States, "transitions": st.Transitions, "distinct_outcomes": st.Outcomes, "new_states_per_depth": st.PerDepth}
		if st.Stopped {
			run.Incomplete(fmt.Sprintf("config %s stopped at depth %d of %d (budget)", c.Name, st.MaxDepth, c.Depth))
		}
		fmt.Fprintf(os.Stderr, "c07: %-34s depth=%d states=%d transitions=%d outcomes=%d violations=%d exec=%.1fs\n", c.Name, st.MaxDepth, st.States, st.Transitions, st.Outcomes, st.Violations, st.ExecSeconds)
	}
	run.Finish(ev.Coverage{
		"states":                        tot.States,
		"transitions":                   tot.RealOps,
		"traces_validated_against_impl": tot.Transitions,
		"evaluations":                   tot.Transitions,
		"distinct_nontrivial":           tot.NonTrivial,
		"distinct_outcomes":             tot.Outcomes,
		"histories_executed":            tot.Transitions,
		"per_config":                    per,
		"rule": "for each buffer implementation (ART MemDB, RBT MemDB) and each subset of the snapshot key pool: breadth-first over all sequences of " +
			"Set(k,1|2)/Delete(k) over the 5-key pool {\"\",a,a\\x00,a\\xff,b}, Staging/Release/Cleanup, Checkpoint/RevertToCheckpoint and a rejected Set(k,\"\"); state = canonical reference-model state of the buffer; " +
			"every history runs on a fresh KVUnionStore (replay + 1 op) and afterwards Get of every key, BufferBatchGetter.BatchGet of all 32 key subsets and Iter/IterReverse over all 36 bound pairs (keys and nil) are compared with the model " +
			"(strictly monotone, inside bounds, no empty value, equal to snapshot overlaid with buffer); states = distinct canonical states summed over configs, transitions = operations on the real code (replay included); " +
			"non-trivial state = a buffered key shadows or deletes a snapshot key, holds a tombstone, was overwritten or undone, or lies above an open staging level",
		"samples": samples.List(),
		"bounds":  map[string]any{"max_depth": depth, "depth_per_config": "see per_config.depth_completed", "keys": len(pool), "max_stages": 2, "max_checkpoints": 1, "configs": len(per)},
	}, []string{
		"the snapshot is a map-backed implementation of the interfaces the union store expects; its values are never empty and an empty bound means unbounded (the convention of txnsnapshot/scan.go)",
		"KVTxn is not constructed: its Get/Iter/IterReverse/BatchGet/Set/Delete delegate one-to-one to KVUnionStore and NewBufferBatchGetter(memBuffer, snapshot), which are driven directly",
		"for the RBT variant an empty non-nil upper bound is passed as nil (RBT iterators define only nil as unbounded; ART, the MemDB used by transactions, gets the bound as is)",
		"a RevertToCheckpoint is issued only for a live checkpoint that no open staging level starts after; Release/Cleanup only for the top handle",
		"Set with an empty value is a documented rejection (ErrCannotSetNilValue) and is checked as such; empty keys are legal in the buffer and are part of the pool",
		"128-bit digests of canonical states are used for deduplication (collisions ignored)",
	})
}

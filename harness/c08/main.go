// C08: both in-memory write buffers (ART and RBT backed MemDB) behave as one
// ordered map with nested undo. Explicit-state breadth-first search over
// operation sequences on the real buffers (DESIGN.md 3.2 / 5 C08): successor =
// fresh instances + replay + one more op; after every op the observation set
// is compared with the omap reference model and between the two buffers.
package main

import (
	"encoding/json"
	"fmt"
	"os"
	"runtime/debug"
	"runtime/pprof"
	"strings"
	"time"

	"github.com/pingcap/log"
	"github.com/tikv/client-go/v2/verifrt/ev"
	"github.com/tikv/client-go/v2/verifrt/membuf"
	"github.com/tikv/client-go/v2/verifrt/seqx"
	"go.uber.org/zap"
)

var run *ev.Run

func rep(b byte, n int) string { return strings.Repeat(string([]byte{b}), n) }

func bs(ss ...string) [][]byte {
	out := make([][]byte, len(ss))
	for i, s := range ss {
		out[i] = []byte(s)
	}
	return out
}

// long: 'a' + 22 x 'p' (23 bytes). Together with long+"\xff" it forces an
// inner node whose prefix (21 bytes after the 'a','p' index bytes) exceeds the
// 20 bytes stored in the node.
var long = "a" + rep('p', 22)

func configs(thorough bool) []*Config {
	pick := func(q, t int) int {
		if thorough {
			return t
		}
		return q
	}
	persist, nonPersist, assertion := []string{"SetKeyLocked"}, []string{"SetPresumeKeyNotExists"}, []string{"SetAssertExist"}
	delPersist, tempPersist := []string{"DelKeyLocked"}, []string{"SetNeedConstraintCheckInPrewrite"}
	return []*Config{
		{ // values, tombstones, stages, checkpoints over the 5-key adversarial pool
			Name: "values5", Keys: bs("", "a", "a\x00", long, long+"\xff"),
			Probes:  bs("a"+rep('p', 9), "a"+rep('p', 21)+"q", "b"),
			SetVals: []string{"A", "B"}, MaxStages: 3, MaxCps: 2, Depth: pick(4, 5), EmptySet: true, NoopOps: true,
		},
		{ // the same pool one level deeper with the undo alphabet only (no checkpoints, no no-op handles)
			Name: "values5b", Keys: bs("", "a", "a\x00", long, long+"\xff"), Probes: bs("b"),
			SetVals: []string{"A", "B"}, MaxStages: 3, MaxCps: 0, Depth: pick(0, 6),
		},
		{ // flags: persistent / non-persistent / assertion / removal / write-cleared, with and without value
			Name: "flags3", Keys: bs("a", "a\x00", long+"\xff"), Probes: bs("", long),
			SetVals: []string{"A"}, MaxStages: 2, MaxCps: 1, Depth: pick(4, 5),
			UpdFlags: [][]string{persist, delPersist, nonPersist, assertion, tempPersist},
			SetFlags: [][]string{persist, nonPersist, tempPersist},
			DelFlags: [][]string{persist, assertion},
		},
		{ // values of different length (append path, size accounting) and three versions per key
			Name: "lengths2", Keys: bs("", "k"), Probes: bs("j"),
			SetVals: []string{"A", "B", "CC", "DDD"}, MaxStages: 3, MaxCps: 2, Depth: pick(5, 6),
			UpdFlags: [][]string{persist},
		},
		{ // common prefixes longer than the in-node prefix, split points before / at / after byte 20, key == prefix
			Name: "prefix6", Keys: bs(rep('x', 30)+"1", rep('x', 30)+"2", rep('x', 30), rep('x', 20)+"y", rep('x', 21)+"y", rep('x', 5)),
			Probes:  bs(rep('x', 19)+"y", rep('x', 31), "y"),
			SetVals: []string{"A"}, MaxStages: 1, MaxCps: 0, Depth: pick(4, 6),
		},
		{ // values whose log records end just before / at / after the 4096-byte vlog block boundary
			// record = value + 20-byte header; 2028+20 = 2048 = half a block
			Name: "blocks2", Keys: bs("a", "b"), Probes: bs(""),
			SetVals: []string{"#2028:x", "#2028:y", "#2027", "#2029", "#4076", "z"}, MaxStages: 2, MaxCps: 1, Depth: pick(4, 5),
		},
		{ // entry size limit 8, buffer limit 20: key+value sizes 7, 8, 9; the buffer limit is crossed by the third entry
			Name: "limits", Keys: bs("k", "kkkk", "kkkkkkkk", "kkkkkkkkk"), EntryLim: 8, BufferLim: 20,
			SetVals: []string{"#3", "#4", "#5", "#7", "#8"}, MaxStages: 1, MaxCps: 0, Depth: pick(3, 4),
			UpdFlags: [][]string{persist},
		},
		{ // key length limit: MaxKeyLen and MaxKeyLen+1
			Name: "maxkey", Keys: bs(rep('m', 65535), rep('m', 65536), rep('m', 65534)+"n", "m"), Light: true,
			SetVals: []string{"A"}, MaxStages: 1, MaxCps: 0, Depth: pick(2, 3),
			UpdFlags: [][]string{persist}, SetFlags: [][]string{persist},
		},
	}
}

type totals struct {
	seqx.Stats
	perConfig map[string]any
}

func artefact(c *Config, h []seqx.Op) map[string]any {
	keys := make([]string, len(c.Keys))
	for i, k := range c.Keys {
		keys[i] = membuf.QuoteKey(k)
	}
	trace := make([]string, len(h))
	for i, o := range h {
		trace[i] = o.(membuf.Op).String()
	}
	return map[string]any{"config": c.Name, "keys": keys, "ops": h, "trace": trace}
}

func search(c *Config, samples *ev.Samples) seqx.Stats {
	return seqx.Run(seqx.Spec{
		Name:    c.Name,
		Depth:   c.Depth,
		Enabled: func(h []seqx.Op) []seqx.Op { return c.enabled(c.replayModel(h)) },
		Exec:    c.exec,
		Report: func(v seqx.Viol, h []seqx.Op) {
			run.Violation(v.Key, v.What+" | "+fmt.Sprint(artefact(c, h)["trace"]), artefact(c, h))
		},
		Sample: func(h []seqx.Op, r seqx.Result) {
			if len(h) >= 3 && r.NonTrivial {
				samples.Add(func() any { return map[string]any{"config": c.Name, "trace": artefact(c, h)["trace"]} })
			}
		},
		Stop: expired,
	})
}

var started = time.Now()

// expired: VERIF_BUDGET_S if given, otherwise a default wall budget per tier
// (a cut search ends with exhaustive:false, never with a verdict).
func expired() bool {
	if os.Getenv("VERIF_BUDGET_S") != "" {
		return run.Expired()
	}
	budget := 110 * time.Second
	if run.Thorough() {
		budget = 28 * time.Minute
	}
	return time.Since(started) > budget
}

func replay(path string) {
	b, err := os.ReadFile(path)
	if err != nil {
		fmt.Fprintln(os.Stderr, "replay:", err)
		os.Exit(2)
	}
	var f struct {
		Key    string `json:"key"`
		Replay struct {
			Config string      `json:"config"`
			Grid   *gridCase   `json:"grid"`
			Batch  *batchCase  `json:"batch"`
			Ops    []membuf.Op `json:"ops"`
		} `json:"replay"`
	}
	if err := json.Unmarshal(b, &f); err != nil {
		fmt.Fprintln(os.Stderr, "replay:", err)
		os.Exit(2)
	}
	if f.Replay.Grid != nil {
		vs := f.Replay.Grid.run(nil)
		for _, v := range vs {
			run.Violation(v.Key, v.What, map[string]any{"grid": f.Replay.Grid})
		}
		fmt.Printf("replay of grid case %+v: %d oracle failures\n", *f.Replay.Grid, len(vs))
		run.Finish(ev.Coverage{"states": 1, "transitions": 1, "replayed": path}, nil)
	}
	if f.Replay.Batch != nil {
		var ops int64
		vs := f.Replay.Batch.run(nil, &ops)
		for _, v := range vs {
			run.Violation(v.Key, v.What, map[string]any{"batch": f.Replay.Batch})
		}
		fmt.Printf("replay of batchscan case %+v: %d oracle failures\n", *f.Replay.Batch, len(vs))
		run.Finish(ev.Coverage{"states": 1, "transitions": ops, "replayed": path}, nil)
	}
	for _, c := range append(configs(true), ufConfigs()...) {
		if c.Name != f.Replay.Config {
			continue
		}
		h := make([]seqx.Op, len(f.Replay.Ops))
		for i, o := range f.Replay.Ops {
			h[i] = o
		}
		// every prefix, so that the first failing step is shown
		for n := 0; n <= len(h); n++ {
			r := c.exec(h[:n])
			for _, v := range r.Viols {
				run.Violation(v.Key, v.What, artefact(c, h[:n]))
				fmt.Printf("step %d: %s\n", n, v.What)
			}
			if len(r.Viols) > 0 {
				break
			}
		}
		fmt.Printf("replay of %d ops in config %s done\n", len(h), c.Name)
		run.Finish(ev.Coverage{"states": len(h) + 1, "transitions": len(h), "replayed": path}, nil)
	}
	fmt.Fprintln(os.Stderr, "replay: unknown config", f.Replay.Config)
	os.Exit(2)
}

func main() {
	log.ReplaceGlobals(zap.NewNop(), &log.ZapProperties{}) // the buffers log before they panic; keep stderr quiet
	run = ev.Start("C08", "model_checking")
	for i, a := range os.Args {
		if a == "--replay" && i+1 < len(os.Args) {
			replay(os.Args[i+1])
		}
	}
	if pf := os.Getenv("VERIF_PPROF"); pf != "" { // debugging aid
		f, _ := os.Create(pf)
		pprof.StartCPUProfile(f)
		defer pprof.StopCPUProfile()
	}
	tuneGC()
	samples := ev.NewSamples(10, run.Seed)
	var tot seqx.Stats
	per := map[string]any{}
	bounds := map[string]any{}
	only := os.Getenv("VERIF_C08_ONLY") // debugging aid: run a single config
	// part batchscan runs first: it is short, and the wall budget of a loaded machine must not cut it
	var bsc batchStats
	if only == "" || only == "batchscan" {
		t0 := time.Now()
		bsc = runBatchScan(run.Thorough())
		if bsc.Stopped {
			run.Incomplete("part batchscan cut by the time budget")
		}
		per["batchscan"] = map[string]any{"cases": bsc.Cases, "distinct_contents": bsc.States, "scans_compared_per_buffer": bsc.Scans, "scans_by_batches_needed": bsc.byBatches,
			"scans_of_3+_batches_with_a_later_batch_ending_on_a_shorter_key": bsc.NonTrivial, "distinct_resume_profiles": bsc.Profiles, "real_ops": bsc.RealOps,
			"batched_scans_with_staging_written_mid_scan": bsc.MidScans, "of_these_ended_with_a_loud_error": bsc.MidLoud}
		bounds["batchscan"] = bsc.bounds
		fmt.Fprintf(os.Stderr, "c08: batchscan cases=%d contents=%d scans=%d by-batches=%v nontrivial(3+ batches, shrinking batch end)=%d resume-profiles=%d mid-scan-writes=%d(loud %d) real-ops=%d violations=%d wall=%.1fs\n",
			bsc.Cases, bsc.States, bsc.Scans, bsc.byBatches, bsc.NonTrivial, bsc.Profiles, bsc.MidScans, bsc.MidLoud, bsc.RealOps, bsc.Violations, time.Since(t0).Seconds())
	}
	for _, c := range configs(run.Thorough()) {
		if only != "" && only != c.Name || c.Depth == 0 {
			continue
		}
		st := search(c, samples)
		tot.Add(st)
		per[c.Name] = map[string]any{"depth_completed": st.MaxDepth, "states": st.States, "transitions": st.Transitions,
			"real_ops": st.RealOps, "new_states_per_depth": st.PerDepth, "distinct_outcomes": st.Outcomes, "max_alphabet": st.MaxEnabled, "keys": len(c.Keys)}
		bounds[c.Name] = map[string]any{"depth": c.Depth, "keys": len(c.Keys), "probe_keys": len(c.Probes), "max_stages": c.MaxStages, "max_checkpoints": c.MaxCps}
		if st.Stopped {
			run.Incomplete(fmt.Sprintf("config %s stopped at depth %d of %d (budget)", c.Name, st.MaxDepth, c.Depth))
		}
		fmt.Fprintf(os.Stderr, "c08: %-9s depth=%d states=%d transitions=%d outcomes=%d violations=%d frontiers=%v exec=%.1fs merge=%.1fs\n", c.Name, st.MaxDepth, st.States, st.Transitions, st.Outcomes, st.Violations, st.FrontierSizes, st.ExecSeconds, st.MergeSeconds)
	}
	var g gridStats
	if only == "" || only == "grid" {
		g = runGrid(run.Thorough(), samples)
		fmt.Fprintf(os.Stderr, "c08: grid cases=%d steps=%d\n", g.Cases, g.Steps)
	}
	var uf ufStats
	if only == "" || only == "undoflags" {
		t0 := time.Now()
		uf = runUndoFlags(run.Thorough())
		if uf.Stopped {
			run.Incomplete("part undoflags cut by the time budget")
		}
		per["undoflags"] = map[string]any{"histories": uf.Histories, "cases": uf.Cases, "states": uf.States, "real_ops": uf.RealOps, "distinct_outcomes": uf.Outcomes,
			"undo_steps_that_removed_a_key_or_flags": uf.Undos, "rewrites_of_an_undone_key": uf.Rewrites, "nontrivial_states": uf.NonTrivial, "histories_per_shape": uf.perShape}
		bounds["undoflags"] = uf.bounds
		fmt.Fprintf(os.Stderr, "c08: undoflags stems=%d items=%d flag-lists=%d(%d single,%d pairs) cases=%d histories=%d states=%d outcomes=%d undos=%d rewrites-after-undo=%d violations=%d wall=%.1fs\n",
			uf.Stems, uf.Writes, uf.FlagLists, uf.flagListsSingle, uf.flagsPairs, uf.Cases, uf.Histories, uf.States, uf.Outcomes, uf.Undos, uf.Rewrites, uf.Violations, time.Since(t0).Seconds())
	}
	noteEmptyUpperBound()
	pprof.StopCPUProfile()

	run.Finish(ev.Coverage{
		"states":                        tot.States + g.Steps + uf.States + int64(bsc.States),
		"transitions":                   tot.RealOps + g.RealOps + uf.RealOps + bsc.RealOps,
		"traces_validated_against_impl": tot.Transitions + g.Cases + uf.Histories + bsc.Cases,
		"evaluations":                   tot.Transitions + g.Steps + uf.Histories + bsc.Scans,
		"distinct_nontrivial":           tot.NonTrivial + g.Cases + uf.NonTrivial + int64(bsc.NonTrivial),
		"batchscan_cases":               bsc.Cases,
		"batchscan_scans":               bsc.Scans,
		"batchscan_nontrivial_scans":    bsc.NonTrivial,
		"distinct_outcomes":             tot.Outcomes + uf.Outcomes,
		"histories_executed":            tot.Transitions + uf.Histories,
		"undoflags_cases":               uf.Cases,
		"undoflags_histories":           uf.Histories,
		"undoflags_rewrites_after_undo": uf.Rewrites,
		"grid_cases":                    g.Cases,
		"grid_steps":                    g.Steps,
		"per_config":                    per,
		"rule": "breadth-first over all operation sequences up to the depth of each config (alphabet = Set/SetWithFlags/Delete/DeleteWithFlags/UpdateFlags per key, value and flag class, " +
			"Staging/Release/Cleanup incl. no-op handles, Checkpoint/RevertToCheckpoint); a state = canonical reference-model state (per-key flags and version list with the staging/checkpoint segment of each version, " +
			"stage and checkpoint marks, dirty, limits); every history is executed on fresh ART and RBT buffers (replay + 1 op) and the full observation set is compared after its last op; " +
			"states = distinct canonical states + grid steps, transitions = operations executed on the real buffers (replay included), evaluations = full observation-set comparisons; " +
			"non-trivial state = some key with != 1 version (overwritten, undone or flags-only) or something written above an open stage / live checkpoint; " +
			"part undoflags (key flags across undo): [outer level] base(target key absent / value / tombstone / flags-only persistent / flags-only non-persistent) x " +
			"open(none, S, SS, C, SC, CS; S=Staging C=Checkpoint) x write(UpdateFlags | SetWithFlags | DeleteWithFlags with a flag-op list: empty, each of the 22 kv.FlagsOp, pairs " +
			"[quick: persistent-flag op + non-persistent-flag op, and pairs touching a common flag bit in both orders; thorough: all ordered pairs, two writes in the scope]) x every ending (Cleanup/Release per level, RevertToCheckpoint) x " +
			"re-write of the key (Set, Delete, UpdateFlags(), UpdateFlags(set persistent), UpdateFlags(del non-persistent), SetWithFlags; directly and inside a fresh level); every prefix from the write on is one " +
			"history executed on fresh buffers with the full observation set incl. the committer's view; its states = distinct (model state + ghosts) digests, non-trivial = holds an undone key that nobody has re-written yet, or reached by re-writing one; " +
			"fan-out grid: n siblings under one prefix for n in {3,4,5,15,16,17,47,48,49,255,256} x 3 orders x prefixes x in-place leaf x 3 ways down, observed after each step; " +
			"part batchscan (snapshot scans spanning several batches of the batched snapshot iterator, batch sizes 32, 64, 128, ...): key sets of 130 and 260 (thorough also 520) variable-length keys = runs of 7-9 byte filler keys + " +
			"clusters {s, s+00, s+0000, s+01, s+'0', s+'A', s+'a', s+FF} around the short keys \"b\", \"dddd\" (and \"\"), the number of fillers before the first cluster sliding over EVERY value (so each cluster key is the last key of the 1st/2nd/3rd batch of some scan), " +
			"base level with deleted holes x open staging level {empty, overlay in two nested levels: overwrites, deletes, staged-only keys between the cluster keys, overlay written while batched iterators over every bound pair stand after 31 / 100 (thorough: 31 / 40 / 100) keys (they must finish equal to the reference or end with an error)}; every ordered bound pair of a 7-element pool x forward/reverse x " +
			"{BatchedSnapshotIter, ForEachInSnapshotRange, SnapshotIter/SnapshotIterReverse} on ART and RBT compared with the snapshot view of the reference model; nothing is merged in this part (the iterator's resume buffer is implementation state the model lacks), " +
			"its states = distinct contents, evaluations = scans compared, non-trivial = a scan that needs >= 3 batches in which a later batch ends on a shorter key than an earlier one",
		"samples": append(append(samples.List(), uf.samples...), bsc.samples...),
		"bounds":  bounds,
	}, []string{
		"a RevertToCheckpoint is issued only for a live checkpoint that no open staging level starts after; Release/Cleanup only for the top handle, handle 0 or a stale handle (documented panics are not provoked)",
		"the loud failure of an iterator used after a write is demanded of the ART buffer (the repository's MemDB) only; RBT iterators carry no sequence check and never move nodes",
		"an empty non-nil upper bound is passed as nil (see notes); lower bound \"\" is passed as is",
		"the order of InspectStage callbacks is not compared (set comparison)",
		"value history is not compared with the model for keys where the model kept a version only because of a live checkpoint (the values after the revert decide)",
		"raw snapshot iterators are drained without interleaved writes; GetSnapshot() is used only while a staging level is open (documented)",
		"128-bit digests of canonical states are used for deduplication (collisions ignored)",
	})
}

var ballast []byte

// tuneGC: the live heap of the search is tiny compared with its allocation
// rate (fresh buffers per history), which makes the collector run constantly
// and serialises the workers. A never-touched ballast raises the heap target.
func tuneGC() {
	ballast = make([]byte, 2<<30)
	debug.SetGCPercent(200)
}

// noteEmptyUpperBound records (not as a verdict) how the two buffers treat an
// empty but non-nil upper bound: the interface comment only defines nil.
func noteEmptyUpperBound() {
	n := map[string]int{}
	for _, name := range []string{"art", "rbt"} {
		im := membuf.New(name)
		_ = im.DB.Set([]byte("a"), []byte("A"))
		membuf.Guard(func() {
			it, _ := im.DB.Iter(nil, []byte{})
			kvs, _ := membuf.Drain(it, 4)
			n[name] = len(kvs)
		})
	}
	if n["art"] != n["rbt"] {
		run.Note("not demanded: Iter(nil, []byte{}) (empty non-nil upper bound) yields %d keys on ART (treated as unbounded) and %d on RBT (RBTIterator.Valid tests end == nil, init tests len(end) == 0)", n["art"], n["rbt"])
	}
}

package main

import (
	"fmt"
	"runtime"
	"sort"
	"sync"
	"sync/atomic"

	"github.com/tikv/client-go/v2/verifrt/membuf"
	"github.com/tikv/client-go/v2/verifrt/models/omap"
	"github.com/tikv/client-go/v2/verifrt/seqx"
)

// Part "undoflags": key flags across an undo, and the re-write of the undone key.
//
// The breadth-first configs reach "write inside a level, discard the level,
// write the key again" only with the few flag classes of their alphabets and
// only up to their depth. This part enumerates that shape exhaustively over
// the whole flag vocabulary of kv/keyflags.go instead of over all sequences:
//
//	[outer level]  base  open  write [write2]  end  [new level]  rewrite  [final]
//
//	base    what the target key is below the scope: nothing, a value, a tombstone, a flags-only key with a
//	        persistent flag, a flags-only key with a non-persistent flag (thorough: a value with a flag)
//	open    none | Staging | Staging Staging | Checkpoint | Staging Checkpoint | Checkpoint Staging
//	write   UpdateFlags / SetWithFlags / DeleteWithFlags of the target key with a flag-op list F:
//	        empty, every single kv.FlagsOp (all 22), and pairs (quick: persistent-flag op + non-persistent-flag
//	        op, and every pair of ops that touch a common flag bit in both orders; thorough: all ordered pairs)
//	end     every way of closing what was opened: Cleanup / Release per level, RevertToCheckpoint
//	rewrite Set / Delete / UpdateFlags() / UpdateFlags(set a persistent flag) / UpdateFlags(del a
//	        non-persistent flag) / SetWithFlags, directly or inside a fresh staging level (InspectStage)
//	final   (thorough) Cleanup of that fresh level
//
// Every prefix of every case (from the write on) is executed on fresh ART and RBT
// buffers through the same exec as the searches: the whole observation set
// (GetFlags, IterWithFlags, InspectStage, the committer's view, raw ART-vs-RBT
// flags, Len/Size, ...) is compared with the reference model after the last op of
// each prefix. The expected flags come from omap only: flags are not rolled back,
// except that a key whose last value is undone keeps just its persistent flags and
// disappears when none is left; a later write starts from what the model holds.
// A prefix that diverges is reported once and its extensions are skipped.

type ufShape struct {
	name      string
	keys      [][]byte
	probes    [][]byte
	target    int
	neighbour int // -1: none
}

type ufScope struct {
	name string
	open []membuf.Op
	ends [][]membuf.Op
}

type ufStem struct {
	shape *ufShape
	cfg   *Config
	label string
	ops   []membuf.Op // base + open
	ends  [][]membuf.Op
}

type ufStats struct {
	Histories, RealOps, Cases   int64
	States, Outcomes            int64
	NonTrivial                  int64 // distinct states that hold an undone, not yet re-written key or were reached by re-writing one
	Undos                       int64 // histories whose last op is an undo that removed a key or stripped flags
	Rewrites                    int64 // histories whose last op re-writes an undone key
	Violations                  int64
	FlagLists, Writes, Rewrite  int
	Stems, Ends, Shapes, Bases  int
	Stopped                     bool
	perShape                    map[string]int64
	bounds                      map[string]any
	flagListsSingle, flagsPairs int
	samples                     []any
}

func ufOp(kind string, k int, v string, f ...string) membuf.Op {
	return membuf.Op{Kind: kind, K: k, V: v, F: f}
}

// persistentOps: the flag operations that touch a bit of kv's persistentFlags (model: omap.Persistent).
func ufIsPersistentOp(o omap.FlagOp) bool {
	return omap.Apply(0, o)&omap.Persistent != 0 || omap.Apply(omap.Persistent, o)&omap.Persistent != omap.Persistent
}

// ufTouches returns the model bits an op can change.
func ufTouches(o omap.FlagOp) omap.Flags {
	all := omap.Flags(1<<14 - 1)
	return omap.Apply(0, o) | (all &^ omap.Apply(all, o))
}

// ufFlagLists enumerates the flag-op lists: empty, all singles, pairs.
func ufFlagLists(allPairs bool) (lists [][]string, singles, pairs int) {
	lists = append(lists, nil)
	for a := omap.FlagOp(0); a < omap.NumFlagOps; a++ {
		lists = append(lists, []string{a.String()})
		singles++
	}
	// quick: a persistent-flag op followed by a non-persistent-flag op (they touch different bits: the
	// other order is left to the thorough tier) and every pair that touches a common bit, in both orders.
	// Order of the list: those mixed pairs, the common-bit pairs, the rest.
	for pass := 0; pass < 3; pass++ {
		for a := omap.FlagOp(0); a < omap.NumFlagOps; a++ {
			for b := omap.FlagOp(0); b < omap.NumFlagOps; b++ {
				if a == b {
					continue
				}
				sameFlag := ufTouches(a)&ufTouches(b) != 0
				mixed := ufIsPersistentOp(a) && !ufIsPersistentOp(b) && !sameFlag
				class := 2
				switch {
				case mixed:
					class = 0
				case sameFlag:
					class = 1
				}
				if class == pass && (allPairs || class < 2) {
					lists = append(lists, []string{a.String(), b.String()})
					pairs++
				}
			}
		}
	}
	return
}

func ufShapes(thorough bool) []*ufShape {
	s := []*ufShape{
		// the target is a sibling leaf under the node whose in-place leaf is the neighbour
		{name: "sibling", keys: bs("a", "a\x00"), probes: bs(""), target: 1, neighbour: 0},
		// the target is the only key the tree has ever seen
		{name: "alone", keys: bs("a\x00"), probes: bs("a", "b"), target: 0, neighbour: -1},
	}
	if thorough {
		s = append(s,
			// the target is the in-place leaf (a prefix of the neighbour), and the empty key
			&ufShape{name: "inplace", keys: bs("a\x00", "a"), probes: bs(""), target: 1, neighbour: 0},
			&ufShape{name: "empty-key", keys: bs("a", ""), probes: bs("b"), target: 1, neighbour: 0},
			// common prefix longer than the in-node prefix
			&ufShape{name: "long-prefix", keys: bs(long, long+"\xff"), probes: bs("a"), target: 1, neighbour: 0})
	}
	return s
}

func ufScopes(thorough bool) []ufScope {
	st, rel, cln, cp, rev := ufOp("Staging", 0, ""), ufOp("Release", 0, ""), ufOp("Cleanup", 0, ""), ufOp("Checkpoint", 0, ""), membuf.Op{Kind: "Revert", Cp: 0}
	seq := func(o ...membuf.Op) []membuf.Op { return o }
	sc := []ufScope{
		{"none", nil, [][]membuf.Op{nil}},
		{"S", seq(st), [][]membuf.Op{seq(cln), seq(rel)}},
		{"SS", seq(st, st), [][]membuf.Op{seq(cln, cln), seq(cln, rel), seq(rel, cln)}},
		{"C", seq(cp), [][]membuf.Op{seq(rev)}},
		{"SC", seq(st, cp), [][]membuf.Op{seq(rev), seq(rev, cln), seq(rev, rel)}},
		{"CS", seq(cp, st), [][]membuf.Op{seq(cln), seq(cln, rev), seq(rel, rev)}},
	}
	if thorough {
		sc[2].ends = append(sc[2].ends, seq(rel, rel))
		sc = append(sc, ufScope{"SCS", seq(st, cp, st), [][]membuf.Op{seq(cln, rev), seq(rel, rev), seq(rel, rev, cln), seq(cln, cln)}})
	}
	return sc
}

// ufBases: what the target key is below the scope.
func ufBases(t int, thorough bool) map[string][]membuf.Op {
	b := map[string][]membuf.Op{
		"0-none":                nil,
		"1-value":               {ufOp("Set", t, "A")},
		"2-tombstone":           {ufOp("Delete", t, "")},
		"3-flags-persistent":    {ufOp("UpdateFlags", t, "", "SetKeyLocked")},
		"4-flags-nonpersistent": {ufOp("UpdateFlags", t, "", "SetPresumeKeyNotExists")},
	}
	if thorough {
		b["5-value-with-flag"] = []membuf.Op{ufOp("SetWithFlags", t, "A", "SetAssertNotExist")}
		b["6-undone-before"] = []membuf.Op{ufOp("Staging", 0, ""), ufOp("SetWithFlags", t, "A", "SetNewlyInserted"), ufOp("Cleanup", 0, "")}
	}
	return b
}

func ufRewrites(t int, thorough bool) []membuf.Op {
	r := []membuf.Op{
		ufOp("Set", t, "C"),
		ufOp("Delete", t, ""),
		ufOp("UpdateFlags", t, ""),
		ufOp("UpdateFlags", t, "", "SetKeyLocked"),
		ufOp("UpdateFlags", t, "", "DelPresumeKeyNotExists"),
		ufOp("SetWithFlags", t, "C", "SetNewlyInserted"),
	}
	if thorough {
		r = append(r,
			ufOp("DeleteWithFlags", t, "", "SetAssertExist"),
			ufOp("UpdateFlags", t, "", "SetAssertNone"),
			ufOp("UpdateFlags", t, "", "DelKeyLocked"),
			ufOp("SetWithFlags", t, "CC", "SetPresumeKeyNotExists"))
	}
	return r
}

// ufQuote fills the human-readable key of write ops.
func ufQuote(c *Config, ops []membuf.Op) []membuf.Op {
	out := make([]membuf.Op, len(ops))
	for i, o := range ops {
		if o.IsWrite() {
			o.Key = membuf.QuoteKey(c.Keys[o.K])
		}
		out[i] = o
	}
	return out
}

func ufConfig(s *ufShape) *Config {
	return &Config{Name: "undoflags/" + s.name, Keys: s.keys, Probes: s.probes, SetVals: []string{"A"}, MaxStages: 4, MaxCps: 1, Depth: 0}
}

// ufConfigs: the configs of this part by name (for --replay).
func ufConfigs() []*Config {
	var out []*Config
	for _, s := range ufShapes(true) {
		out = append(out, ufConfig(s))
	}
	return out
}

type ufHit struct {
	v     seqx.Viol
	h     []seqx.Op
	count int
}

// ufItem is one unit of work: one stem and one write list; it executes the whole subtree below it.
type ufItem struct {
	stem   *ufStem
	writes []membuf.Op
	// results
	hits   []*ufHit
	states map[seqx.Key]bool // state -> non-trivial: holds an undone key that nobody has re-written yet, or was reached by re-writing one
	outs   map[seqx.Key]struct{}
	n      ufStats
}

func (it *ufItem) exec(c *Config, h []membuf.Op) (prune bool) {
	sh := make([]seqx.Op, len(h))
	for i, o := range h {
		sh[i] = o
	}
	r, info := c.execX(sh)
	it.n.Histories++
	it.n.RealOps += int64(r.RealOps)
	if info.Undone {
		it.n.Undos++
	}
	if info.RewriteAfterUndo {
		it.n.Rewrites++
	}
	it.states[r.State] = it.states[r.State] || info.RewriteAfterUndo || info.Ghosts > 0
	it.outs[r.Outcome] = struct{}{}
	if len(r.Viols) > 0 {
		it.n.Violations++
	}
	for _, v := range r.Viols {
		found := false
		for _, x := range it.hits {
			if x.v.Key == v.Key {
				x.count++
				found = true
			}
		}
		if !found {
			it.hits = append(it.hits, &ufHit{v: v, h: sh, count: 1})
		}
	}
	return len(r.Viols) > 0 && r.Prune
}

// walk executes h and, unless it diverged, every continuation in tails (a list of alternatives per level).
func (it *ufItem) run(thorough bool) {
	c := it.stem.cfg
	t := it.stem.shape.target
	st := ufOp("Staging", 0, "")
	h := append(append([]membuf.Op{}, it.stem.ops...), it.writes...)
	// the writes themselves (each prefix observed)
	for i := range it.writes {
		if it.exec(c, h[:len(it.stem.ops)+i+1]) {
			return
		}
	}
	rewrites := ufQuote(c, ufRewrites(t, thorough))
	for _, end := range it.stem.ends {
		hh := append(h[:len(h):len(h)], end...)
		bad := false
		for i := range end {
			if it.exec(c, hh[:len(h)+i+1]) {
				bad = true
				break
			}
		}
		if bad {
			continue
		}
		for _, rw := range rewrites {
			it.n.Cases++
			it.exec(c, append(hh[:len(hh):len(hh)], rw))
			// the same re-write inside a fresh staging level: InspectStage must show it with the model's flags
			it.n.Cases++
			in := append(hh[:len(hh):len(hh)], st, rw)
			if it.exec(c, in) || !thorough {
				continue
			}
			it.exec(c, append(in[:len(in):len(in)], ufOp("Cleanup", 0, ""))) // a second undo, of the re-write
		}
	}
}

func runUndoFlags(thorough bool) ufStats {
	var tot ufStats
	tot.perShape = map[string]int64{}
	lists, singles, pairs := ufFlagLists(thorough)
	curated, _, _ := ufFlagLists(false) // the quick tier's list, persistent + non-persistent pairs first
	mixedPairs := 0
	for _, l := range curated {
		if len(l) == 2 {
			a, _ := membuf.FlagOpByName(l[0])
			b, _ := membuf.FlagOpByName(l[1])
			if ufIsPersistentOp(a) && !ufIsPersistentOp(b) && ufTouches(a)&ufTouches(b) == 0 {
				mixedPairs++
			}
		}
	}
	tot.FlagLists, tot.flagListsSingle, tot.flagsPairs = len(lists), singles, pairs
	scopes := ufScopes(thorough)
	var items []*ufItem
	pre := map[string]bool{} // stems' own prefixes: executed once, sequentially
	preItem := &ufItem{states: map[seqx.Key]bool{}, outs: map[seqx.Key]struct{}{}}
	for si, s := range ufShapes(thorough) {
		c := ufConfig(s)
		tot.Shapes++
		bases := ufBases(s.target, thorough)
		names := make([]string, 0, len(bases))
		for n := range bases {
			names = append(names, n)
		}
		sort.Strings(names)
		tot.Bases = len(names)
		// the full flag vocabulary on the first shape; the other shapes (tree position of the leaf) with the
		// singles (thorough: plus the persistent + non-persistent pairs)
		shapeLists := lists
		if si > 0 {
			shapeLists = lists[:1+singles]
			if thorough {
				shapeLists = curated[:1+singles+mixedPairs]
			}
		}
		var wraps [][]membuf.Op
		wraps = append(wraps, nil)
		if thorough && si == 0 {
			wraps = append(wraps, []membuf.Op{ufOp("Staging", 0, "")}) // everything inside one outer staging level
		}
		for wi, wrap := range wraps {
			if wi > 0 {
				shapeLists = lists[:1+singles]
			}
			for _, bn := range names {
				for _, sc := range scopes {
					var ops []membuf.Op
					if s.neighbour >= 0 {
						ops = append(ops, ufOp("Set", s.neighbour, "A"))
					}
					ops = append(ops, wrap...)
					ops = append(ops, bases[bn]...)
					ops = append(ops, sc.open...)
					stem := &ufStem{shape: s, cfg: c, label: fmt.Sprintf("%s/wrap%d/%s/%s", s.name, wi, bn, sc.name), ops: ufQuote(c, ops), ends: sc.ends}
					tot.Stems++
					tot.Ends += len(sc.ends)
					for n := 1; n <= len(stem.ops); n++ {
						k := s.name + fmt.Sprint(stem.ops[:n])
						if !pre[k] {
							pre[k] = true
							preItem.exec(c, stem.ops[:n])
						}
					}
					for _, kind := range []string{"UpdateFlags", "SetWithFlags", "DeleteWithFlags"} {
						for _, f := range shapeLists {
							w := membuf.Op{Kind: kind, K: s.target, F: f}
							if kind == "SetWithFlags" {
								w.V = "BB"
							}
							if len(f) == 0 && kind != "UpdateFlags" {
								w.Kind = kind[:len(kind)-len("WithFlags")]
							}
							items = append(items, &ufItem{stem: stem, writes: ufQuote(c, []membuf.Op{w})})
							// two writes inside the scope (thorough, singles only): a value write followed by a flags-only
							// update and the other way round
							if thorough && len(f) == 1 && wi == 0 && si == 0 && kind != "DeleteWithFlags" {
								for _, f2 := range shapeLists[1 : 1+singles] {
									k2 := "UpdateFlags"
									if kind == "UpdateFlags" {
										k2 = "SetWithFlags"
									}
									w2 := membuf.Op{Kind: k2, K: s.target, F: f2}
									if k2 == "SetWithFlags" {
										w2.V = "BB"
									}
									items = append(items, &ufItem{stem: stem, writes: ufQuote(c, []membuf.Op{w, w2})})
								}
							}
						}
					}
				}
			}
		}
	}
	tot.Writes = len(items)
	tot.Rewrite = len(ufRewrites(0, thorough)) * 2

	var cursor atomic.Int64
	var stopped atomic.Bool
	var wg sync.WaitGroup
	for w := 0; w < runtime.GOMAXPROCS(0); w++ {
		wg.Add(1)
		go func() {
			defer wg.Done()
			for {
				i := int(cursor.Add(1)) - 1
				if i >= len(items) {
					return
				}
				if i%64 == 0 && expired() {
					stopped.Store(true)
				}
				if stopped.Load() {
					return
				}
				it := items[i]
				it.states, it.outs = map[seqx.Key]bool{}, map[seqx.Key]struct{}{}
				it.run(thorough)
			}
		}()
	}
	wg.Wait()
	tot.Stopped = stopped.Load()

	// deterministic merge in item order
	states := map[seqx.Key]bool{}
	outs := map[seqx.Key]struct{}{}
	merge := func(it *ufItem, shape string) {
		tot.Histories += it.n.Histories
		tot.RealOps += it.n.RealOps
		tot.Cases += it.n.Cases
		tot.Undos += it.n.Undos
		tot.Rewrites += it.n.Rewrites
		tot.Violations += it.n.Violations
		tot.perShape[shape] += it.n.Histories
		for k, rw := range it.states {
			states[k] = states[k] || rw
		}
		for k := range it.outs {
			outs[k] = struct{}{}
		}
		it.states, it.outs = nil, nil
	}
	merge(preItem, "stems")
	report := func(c *Config, x *ufHit, label string) {
		a := artefact(c, x.h)
		a["shape"] = label
		for n := 0; n < x.count; n++ {
			run.Violation(x.v.Key, x.v.What+" | "+fmt.Sprint(a["trace"]), a)
		}
	}
	for _, x := range preItem.hits {
		report(ufConfigs()[0], x, "stem")
	}
	for i, it := range items {
		merge(it, it.stem.shape.name)
		for _, x := range it.hits {
			report(it.stem.cfg, x, it.stem.label)
		}
		if i == len(items)/7 || i == len(items)/3 || i == 2*len(items)/3 {
			// one concrete case of this item, written out: the last ending and the in-level form of a re-write
			end := it.stem.ends[len(it.stem.ends)-1]
			rws := ufQuote(it.stem.cfg, ufRewrites(it.stem.shape.target, thorough))
			h := append(append(append(append([]membuf.Op{}, it.stem.ops...), it.writes...), end...), ufOp("Staging", 0, ""), rws[i%len(rws)])
			tr := make([]string, len(h))
			for j, o := range h {
				tr[j] = o.String()
			}
			tot.samples = append(tot.samples, map[string]any{"config": it.stem.cfg.Name, "undoflags_case": it.stem.label, "trace": tr})
		}
	}
	tot.States = int64(len(states))
	tot.Outcomes = int64(len(outs))
	for _, rw := range states {
		if rw {
			tot.NonTrivial++
		}
	}
	tot.bounds = map[string]any{
		"shapes": tot.Shapes, "bases": tot.Bases, "scopes": len(scopes), "stems": tot.Stems, "scope_endings": tot.Ends,
		"flag_ops": int(omap.NumFlagOps), "flag_lists": tot.FlagLists, "flag_lists_single": singles, "flag_lists_pairs": pairs, "all_ordered_pairs": thorough,
		"write_kinds": 3, "write_items": tot.Writes, "rewrites_per_ending": tot.Rewrite, "two_writes_in_scope": thorough, "outer_level_wrap": thorough,
	}
	return tot
}

package main

import (
	"bytes"
	"context"
	"fmt"
	"sort"
	"strconv"
	"strings"

	tikverr "github.com/tikv/client-go/v2/error"
	"github.com/tikv/client-go/v2/internal/unionstore"
	"github.com/tikv/client-go/v2/kv"
	"github.com/tikv/client-go/v2/verifrt/membuf"
	"github.com/tikv/client-go/v2/verifrt/models/omap"
	"github.com/tikv/client-go/v2/verifrt/seqx"
)

// Config is one search space: key pool, alphabet, bounds.
type Config struct {
	Name      string
	Keys      [][]byte // keys that are written
	Probes    [][]byte // extra keys that are only read / used as bounds
	SetVals   []string // value descriptors for Set
	SetFlags  [][]string
	DelFlags  [][]string
	UpdFlags  [][]string
	EmptySet  bool // Set(key0, "") must be rejected
	NoopOps   bool // Release(0), Cleanup(0), Cleanup(stale handle)
	MaxStages int
	MaxCps    int
	Depth     int
	EntryLim  uint64 // 0 = unlimited
	BufferLim uint64
	Light     bool // reduced observation set (huge keys)
	Impls     []string
}

func (c *Config) isProbe(k []byte) bool {
	for _, p := range c.Probes {
		if k != nil && bytes.Equal(p, k) {
			return true
		}
	}
	return false
}

func (c *Config) allKeys() [][]byte { return append(append([][]byte{}, c.Keys...), c.Probes...) }

// bounds returns nil plus every key of the pool (written and probe keys), sorted.
func (c *Config) bounds() [][]byte {
	ks := c.allKeys()
	sort.Slice(ks, func(i, j int) bool { return bytes.Compare(ks[i], ks[j]) < 0 })
	return append([][]byte{nil}, ks...)
}

func (c *Config) newModel() *omap.Model {
	m := omap.New()
	if c.EntryLim != 0 || c.BufferLim != 0 {
		m.SetLimits(lim(c.EntryLim), lim(c.BufferLim))
	}
	return m
}

func lim(x uint64) uint64 {
	if x == 0 {
		return omap.Unlimited
	}
	return x
}

func (c *Config) newImpls() []*membuf.Impl {
	names := c.Impls
	if len(names) == 0 {
		names = []string{"art", "rbt"}
	}
	var out []*membuf.Impl
	for _, n := range names {
		im := membuf.New(n)
		if c.EntryLim != 0 || c.BufferLim != 0 {
			im.DB.SetEntrySizeLimit(lim(c.EntryLim), lim(c.BufferLim))
		}
		out = append(out, im)
	}
	return out
}

// enabled lists the alphabet at model state m, simplest first.
func (c *Config) enabled(m *omap.Model) []seqx.Op {
	var ops []seqx.Op
	add := func(o membuf.Op) {
		if o.IsWrite() {
			o.Key = membuf.QuoteKey(c.Keys[o.K])
		}
		ops = append(ops, o)
	}
	for i := range c.Keys {
		for _, v := range c.SetVals {
			add(membuf.Op{Kind: "Set", K: i, V: v})
		}
	}
	for i := range c.Keys {
		add(membuf.Op{Kind: "Delete", K: i})
	}
	if m.Depth() < c.MaxStages {
		add(membuf.Op{Kind: "Staging"})
	}
	if m.Depth() > 0 {
		add(membuf.Op{Kind: "Release"})
		add(membuf.Op{Kind: "Cleanup"})
	}
	if len(m.Cps) < c.MaxCps && (len(m.Cps) == 0 || m.Cps[len(m.Cps)-1] != len(m.Log)) {
		add(membuf.Op{Kind: "Checkpoint"})
	}
	for i := range m.Cps {
		if m.CanRevert(i) {
			add(membuf.Op{Kind: "Revert", Cp: i})
		}
	}
	for i := range c.Keys {
		for _, f := range c.UpdFlags {
			add(membuf.Op{Kind: "UpdateFlags", K: i, F: f})
		}
	}
	for i := range c.Keys {
		for _, f := range c.SetFlags {
			add(membuf.Op{Kind: "SetWithFlags", K: i, V: c.SetVals[0], F: f})
		}
	}
	for i := range c.Keys {
		for _, f := range c.DelFlags {
			add(membuf.Op{Kind: "DeleteWithFlags", K: i, F: f})
		}
	}
	if c.EmptySet {
		add(membuf.Op{Kind: "Set", K: 0, V: ""})
		add(membuf.Op{Kind: "SetWithFlags", K: 0, V: "", F: []string{"SetKeyLocked"}})
	}
	if c.NoopOps {
		add(membuf.Op{Kind: "Release0"})
		add(membuf.Op{Kind: "Cleanup0"})
		add(membuf.Op{Kind: "CleanupStale"})
	}
	return ops
}

// rec collects oracle failures of one execution: observation name -> implementations that disagree.
type rec struct {
	after string
	write bool   // the last op is a member of the Set family
	class string // suffix of the violation key that names the class of the history (":rewrite-after-undo" or empty)
	m     map[string]*mismatch
}

type mismatch struct {
	who map[string]bool
	msg string
}

func (r *rec) fail(name, impl, format string, a ...any) {
	if r.m == nil {
		r.m = map[string]*mismatch{}
	}
	mm := r.m[name]
	if mm == nil {
		mm = &mismatch{who: map[string]bool{}, msg: fmt.Sprintf(format, a...)}
		r.m[name] = mm
	}
	mm.who[impl] = true
}

// Observation names in reporting priority. The first group describes the state
// itself: if one of them fails the implementation has diverged from the model,
// only the first failure is reported (the others are consequences) and the
// state is not expanded. The other groups are read paths; each group reports
// its first failure, without the "after-<op>" suffix (the failure does not
// depend on the last op), and the state is still expanded.
var stateObs = []string{"answer", "panic", "Len", "Size", "Len/Size", "Dirty", "Get", "GetLocal", "GetFlags", "GetFlags.raw", "SnapshotGetter.Get", "GetSnapshot.Get",
	"SelectValueHistory", "BatchGet", "InspectStage", "CommitterView", "stale-iterator.Valid", "stale-iterator.Key", "stale-iterator.Next", "SnapshotGetter.stable"}
var readGroups = [][]string{
	{"Iter", "IterReverse", "IterWithFlags", "IterReverseWithFlags", "GetKeyByHandle", "GetValueByHandle"},
	{"SnapshotIter", "SnapshotIterReverse"},
	{"ForEachInSnapshotRange", "BatchedSnapshotIter", "BatchedSnapshotIter.reverse"},
}

func (r *rec) viols() (out []seqx.Viol, diverged bool) {
	if len(r.m) == 0 {
		return nil, false
	}
	who := func(mm *mismatch) string {
		ws := make([]string, 0, len(mm.who))
		for w := range mm.who {
			ws = append(ws, w)
		}
		sort.Strings(ws)
		return strings.Join(ws, "+")
	}
	for _, n := range stateObs {
		if mm := r.m[n]; mm != nil {
			w := who(mm)
			after := r.after
			if r.write && n != "answer" && n != "panic" && !strings.HasPrefix(n, "stale-iterator") {
				after = "write" // which member of the Set family came last does not characterise the failure
			}
			class := r.class
			if strings.HasPrefix(n, "stale-iterator") {
				class = "" // iterator invalidation does not depend on what the written key went through
			}
			return []seqx.Viol{{Key: fmt.Sprintf("%s:%s:after-%s%s", n, w, after, class),
				What: fmt.Sprintf("%s disagrees with the reference model on %s after %s: %s", w, n, r.after, mm.msg)}}, true
		}
	}
	seen := 0
	for _, g := range readGroups {
		for _, n := range g {
			if mm := r.m[n]; mm != nil {
				w := who(mm)
				out = append(out, seqx.Viol{Key: n + ":" + w, What: fmt.Sprintf("%s disagrees with the reference model on %s: %s", w, n, mm.msg)})
				break
			}
		}
		for _, n := range g {
			if r.m[n] != nil {
				seen++
			}
		}
	}
	if seen != len(r.m) { // an observation name missing from the tables: never drop a failure silently
		for n, mm := range r.m {
			out = append(out, seqx.Viol{Key: n + ":" + who(mm) + ":unclassified", What: mm.msg})
		}
		sort.Slice(out, func(i, j int) bool { return out[i].Key < out[j].Key })
		return out, true
	}
	return out, false
}

func toOps(h []seqx.Op) []membuf.Op {
	out := make([]membuf.Op, len(h))
	for i, o := range h {
		out[i] = o.(membuf.Op)
	}
	return out
}

// replayModel applies a history to a fresh model.
func (c *Config) replayModel(h []seqx.Op) *omap.Model {
	m := c.newModel()
	for _, o := range toOps(h) {
		membuf.ApplyModel(m, o, c.Keys)
	}
	return m
}

// exec replays h on fresh ART and RBT buffers and the model, compares the
// answers of every op, and after the last op the whole observation set.
func (c *Config) exec(h []seqx.Op) seqx.Result {
	res, _ := c.execX(h)
	return res
}

// execInfo is what execX knows about a history beyond the search result.
type execInfo struct {
	// RewriteAfterUndo: the last op wrote a key that an earlier Cleanup / RevertToCheckpoint had removed
	// (or stripped of flags) and that had not been written since.
	RewriteAfterUndo bool
	Undone           bool // the last op is an undo that removed a key or stripped flags
	Ghosts           int  // keys that an undo removed / stripped and nobody has written since (after the last op)
}

func (c *Config) execX(h []seqx.Op) (seqx.Result, execInfo) {
	ops := toOps(h)
	m := c.newModel()
	impls := c.newImpls()
	r := &rec{after: "init"}
	res := seqx.Result{}
	info := execInfo{}
	gh := ghosts{}
	ctx := context.Background()
	for i, o := range ops {
		last := i == len(ops)-1
		r.after, r.write, r.class = o.Kind, o.IsWrite(), ""
		depth := m.Depth()
		logBefore := len(m.Log)
		// captured before the last op: iterators (must fail loudly after a write) and snapshot getters (must stay stable)
		type pre struct {
			fwd, rev unionstore.Iterator
			fwdValid bool
			sg       kv.Getter
		}
		pres := make([]pre, len(impls))
		if last {
			for j, im := range impls {
				membuf.Guard(func() {
					if im.LoudIterators {
						pres[j].fwd, _ = im.DB.Iter(nil, nil)
						pres[j].rev, _ = im.DB.IterReverse(nil, nil)
						pres[j].fwdValid = pres[j].fwd.Valid()
					}
					if depth > 0 {
						pres[j].sg = im.DB.SnapshotGetter()
					}
				})
			}
		}
		before := gh.before(m, o)
		want := membuf.ApplyModel(m, o, c.Keys)
		rewrite, ghosted := gh.after(m, o, before, want, c.Keys)
		if rewrite {
			r.class = ":rewrite-after-undo"
		}
		if last {
			info.RewriteAfterUndo, info.Undone = rewrite, ghosted
		}
		for _, im := range impls {
			got := membuf.ApplyReal(im, o, c.Keys, depth, len(m.Cps))
			res.RealOps++
			if got != want {
				name := "answer"
				if strings.HasPrefix(got, "panic") {
					name = "panic"
				}
				r.fail(name, im.Name, "%s answered %q, expected %q", o, got, want)
			}
		}
		if len(r.m) > 0 {
			break
		}
		if !last {
			continue
		}
		applied := o.IsWrite() && (want == "ok" || want == omap.ErrTxnTooLarge.String()) && len(c.Keys[o.K]) <= omap.MaxKeyLen
		undone := (o.Kind == "Cleanup" || o.Kind == "Revert") && len(m.Log) != logBefore
		for j, im := range impls {
			p := pres[j]
			if p.fwd != nil && (applied || undone) {
				// "Any write operation to the memdb invalidates this iterator ... Attempting to use such an
				// invalidated iterator will result in a panic." Next may alternatively return an error.
				if _, pan := membuf.Guard(func() { p.fwd.Valid() }); !pan {
					r.fail("stale-iterator.Valid", im.Name, "Iter(nil,nil) created before %s still answers Valid() afterwards", o)
				}
				if p.fwdValid {
					if _, pan := membuf.Guard(func() { p.rev.Key(); p.rev.Value() }); !pan {
						r.fail("stale-iterator.Key", im.Name, "IterReverse(nil,nil) created before %s still answers Key()/Value() afterwards", o)
					}
					var err error
					if _, pan := membuf.Guard(func() { err = p.fwd.Next() }); !pan && err == nil {
						r.fail("stale-iterator.Next", im.Name, "Iter(nil,nil) created before %s still advances afterwards", o)
					}
				}
			}
			if p.sg != nil && m.Depth() > 0 && !(depth == 1 && (o.Kind == "Release" || o.Kind == "Cleanup")) {
				// staging level 1 is still the same one: a snapshot getter taken before the op keeps its view
				for _, k := range c.allKeys() {
					var v kv.ValueEntry
					var err error
					if msg, pan := membuf.Guard(func() { v, err = p.sg.Get(ctx, k) }); pan {
						r.fail("panic", im.Name, "SnapshotGetter (taken before %s).Get(%s) panicked: %s", o, membuf.QuoteKey(k), msg)
						continue
					}
					wv, wok := m.SnapshotGet(k)
					if !sameGet(v.Value, err, wv, wok) {
						r.fail("SnapshotGetter.stable", im.Name, "getter taken before %s: Get(%s)=%s, expected %s", o, membuf.QuoteKey(k), showGet(v.Value, err), membuf.ShowVal(wv, wok))
					}
				}
			}
		}
	}
	var out strings.Builder
	if len(r.m) == 0 {
		for _, im := range impls {
			if msg, pan := membuf.Guard(func() { c.observe(m, im, r, &out) }); pan {
				r.fail("panic", im.Name, "observation panicked: %s", msg)
			}
		}
		if len(impls) == 2 {
			c.crossCheck(impls[0], impls[1], r)
		}
	}
	// Deduplication key = canonical reference-model state (omap.Canon explains why equal keys have equal
	// futures for this observation set) + the ghosts (see type ghosts: what an undo removed and nobody has
	// rewritten yet; the model forgets it, an implementation may not). Histories that reach a known state
	// are still executed and fully observed on the real buffers; only their extensions are not explored again.
	res.State = seqx.Digest(m.Canon() + gh.canon())
	res.Outcome = seqx.Digest(out.String())
	res.NonTrivial = nonTrivial(m)
	res.Viols, res.Prune = r.viols()
	info.Ghosts = len(gh)
	return res, info
}

// ghosts: per key, what the last undo (Cleanup of a staging level / RevertToCheckpoint) took away from it
// while no write has touched the key since: the key vanished from the model, or lost flags. The reference
// model has no memory of it (a later write starts from "no flags"), but both trees keep the node of an
// undone key (marked deleted) and re-use it for the next write. Two histories that end in the same model
// state but differ in their ghosts are therefore NOT merged: the re-write of an undone key is explored for
// every distinct set of flags that the undo discarded.
type ghosts map[string]ghost

type ghost struct {
	dropped omap.Flags // flags the key had before the undo and does not have after it
	gone    bool       // the key left the model (otherwise it stays as a flags-only key / older version)
}

type ghostSnap map[string]omap.Flags

func isUndo(o membuf.Op) bool {
	switch o.Kind {
	case "Cleanup", "Revert", "Cleanup0", "CleanupStale":
		return true
	}
	return false
}

func (g ghosts) before(m *omap.Model, o membuf.Op) ghostSnap {
	if !isUndo(o) {
		return nil
	}
	s := make(ghostSnap, len(m.M))
	for k, e := range m.M {
		s[k] = e.Flags
	}
	return s
}

// after updates the ghosts for op o (already applied to m); rewrite = o wrote a key that had a ghost,
// undone = o left a new ghost.
func (g ghosts) after(m *omap.Model, o membuf.Op, before ghostSnap, answer string, keys [][]byte) (rewrite, undone bool) {
	if o.IsWrite() {
		k := string(keys[o.K])
		if _, known := m.M[k]; known && (answer == "ok" || answer == omap.ErrTxnTooLarge.String()) {
			if _, ok := g[k]; ok {
				delete(g, k)
				return true, false
			}
		}
		return false, false
	}
	for k, fb := range before {
		e := m.M[k]
		switch {
		case e == nil:
			g[k] = ghost{dropped: fb, gone: true}
			undone = true
		case e.Flags != fb:
			g[k] = ghost{dropped: fb &^ e.Flags}
			undone = true
		}
	}
	return false, undone
}

func (g ghosts) canon() string {
	if len(g) == 0 {
		return ""
	}
	ks := make([]string, 0, len(g))
	for k := range g {
		ks = append(ks, k)
	}
	sort.Strings(ks)
	var b strings.Builder
	b.WriteString("|G")
	for _, k := range ks {
		fmt.Fprintf(&b, " %q:%x:%v", k, uint32(g[k].dropped), g[k].gone)
	}
	return b.String()
}

// nonTrivial: some key has at least two versions, or a flags-only key exists,
// or something is written above an open staging level / a live checkpoint.
func nonTrivial(m *omap.Model) bool {
	for _, e := range m.M {
		if len(e.Hist) != 1 {
			return true
		}
	}
	if len(m.Stages) > 0 && m.Stages[0] < len(m.Log) {
		return true
	}
	return len(m.Cps) > 0 && m.Cps[0] < len(m.Log)
}

func sameGet(v []byte, err error, wv []byte, wok bool) bool {
	if !wok {
		return tikverr.IsErrNotFound(err)
	}
	return err == nil && bytes.Equal(v, wv)
}

func showGet(v []byte, err error) string {
	if err != nil {
		return "error(" + err.Error() + ")"
	}
	return membuf.ShowVal(v, true)
}

func flagsStr(f uint32) string { return "0x" + strconv.FormatUint(uint64(f), 16) }

// observe compares the whole observation set of one implementation with the
// model. The model's expectation is also written to out (only by the first
// implementation) to count distinct outcomes.
func (c *Config) observe(m *omap.Model, im *membuf.Impl, r *rec, out *strings.Builder) {
	ctx := context.Background()
	db := im.DB
	record := out.Len() == 0
	depth := m.Depth()
	keys := c.allKeys()
	limit := len(m.M) + 2

	if got, want := db.Len(), m.Len(); got != want {
		r.fail("Len", im.Name, "Len()=%d, expected %d", got, want)
	}
	if got, want := db.Size(), m.Size(); got != want {
		r.fail("Size", im.Name, "Size()=%d, expected %d", got, want)
	}
	if got, want := db.Dirty(), m.Dirty; got != want {
		r.fail("Dirty", im.Name, "Dirty()=%v, expected %v", got, want)
	}
	if record {
		fmt.Fprintf(out, "len=%d size=%d dirty=%v depth=%d;", m.Len(), m.Size(), m.Dirty, depth)
	}

	var snap unionstore.MemBufferSnapshot
	if depth > 0 {
		snap = db.GetSnapshot() // documented for use with a staging level only
	}
	sg := db.SnapshotGetter()
	for _, k := range keys {
		qk := membuf.QuoteKey(k)
		wv, wok := m.Get(k)
		v, err := db.Get(ctx, k)
		if !sameGet(v.Value, err, wv, wok) {
			r.fail("Get", im.Name, "Get(%s)=%s, expected %s", qk, showGet(v.Value, err), membuf.ShowVal(wv, wok))
		}
		lv, err := db.GetLocal(ctx, k)
		if !sameGet(lv, err, wv, wok) {
			r.fail("GetLocal", im.Name, "GetLocal(%s)=%s, expected %s", qk, showGet(lv, err), membuf.ShowVal(wv, wok))
		}
		wf, wfok := m.GetFlags(k)
		f, err := db.GetFlags(k)
		if wfok {
			if err != nil || membuf.ProjectReal(f) != membuf.ProjectModel(wf) {
				r.fail("GetFlags", im.Name, "GetFlags(%s)=(%s,%v), expected %s", qk, flagsStr(membuf.ProjectReal(f)), err, flagsStr(membuf.ProjectModel(wf)))
			}
		} else if !tikverr.IsErrNotFound(err) {
			r.fail("GetFlags", im.Name, "GetFlags(%s)=(%s,%v), expected not-exist", qk, flagsStr(membuf.ProjectReal(f)), err)
		}
		sv, sok := m.SnapshotGet(k)
		v, err = sg.Get(ctx, k)
		if !sameGet(v.Value, err, sv, sok) {
			r.fail("SnapshotGetter.Get", im.Name, "SnapshotGetter().Get(%s)=%s, expected %s (staging depth %d)", qk, showGet(v.Value, err), membuf.ShowVal(sv, sok), depth)
		}
		if snap != nil {
			v, err = snap.Get(ctx, k)
			if !sameGet(v.Value, err, sv, sok) {
				r.fail("GetSnapshot.Get", im.Name, "GetSnapshot().Get(%s)=%s, expected %s (staging depth %d)", qk, showGet(v.Value, err), membuf.ShowVal(sv, sok), depth)
			}
		}
		// value history: walk all versions with a recording predicate
		var chain [][]byte
		hv, err := db.SelectValueHistory(k, func(v []byte) bool { chain = append(chain, append([]byte{}, v...)); return false })
		whist := m.History(k)
		switch {
		case !wok:
			if !tikverr.IsErrNotFound(err) {
				r.fail("SelectValueHistory", im.Name, "SelectValueHistory(%s) on a key without value = (%q,%v), expected not-exist", qk, hv, err)
			}
		case err != nil || hv != nil:
			r.fail("SelectValueHistory", im.Name, "SelectValueHistory(%s, never) = (%q,%v), expected (nil,nil)", qk, hv, err)
		case len(chain) == 0 || !bytes.Equal(chain[0], whist[0]):
			r.fail("SelectValueHistory", im.Name, "newest version of %s is %q, expected %q", qk, first(chain), whist[0])
		case !m.HasCpOnly(k) && !sameChain(chain, whist):
			// (skipped when the model kept a version only because of a checkpoint barrier, see omap.Version.CpOnly)
			r.fail("SelectValueHistory", im.Name, "history of %s is %q, expected %q", qk, chain, whist)
		}
		if wok && !m.HasCpOnly(k) {
			// the documented use: the latest non-tombstone version
			var wantNT []byte
			for _, x := range whist {
				if len(x) > 0 {
					wantNT = x
					break
				}
			}
			hv, err = db.SelectValueHistory(k, func(v []byte) bool { return len(v) > 0 })
			if err != nil || !bytes.Equal(hv, wantNT) || (hv == nil) != (wantNT == nil) {
				r.fail("SelectValueHistory", im.Name, "latest non-tombstone version of %s = (%q,%v), expected %q", qk, hv, err, wantNT)
			}
		}
		if record {
			fmt.Fprintf(out, "%s:%s/%x/%s/%q;", qk, membuf.ShowVal(wv, wok), membuf.ProjectModel(wf), membuf.ShowVal(sv, sok), digestChain(whist))
		}
	}

	// BatchGet: every key with a value (tombstones as empty values)
	if !c.Light {
		bg, err := db.BatchGet(ctx, keys)
		wantN := 0
		bad := err != nil
		for _, k := range keys {
			if wv, wok := m.Get(k); wok {
				wantN++
				e, ok := bg[string(k)]
				bad = bad || !ok || !bytes.Equal(e.Value, wv)
			}
		}
		if bad || len(bg) != wantN {
			r.fail("BatchGet", im.Name, "BatchGet(all keys) returned %d entries (err %v), expected %d with the model's values", len(bg), err, wantN)
		}
	}

	for h := 1; h <= depth; h++ {
		var got []omap.KV
		db.InspectStage(h, func(k []byte, f kv.KeyFlags, v []byte) {
			got = append(got, omap.KV{Key: string(k), Val: append([]byte{}, v...), Flags: omap.Flags(membuf.ProjectReal(f))})
		})
		sort.SliceStable(got, func(i, j int) bool { return got[i].Key < got[j].Key })
		want := m.InspectStage(h)
		ok := len(got) == len(want)
		for i := 0; ok && i < len(got); i++ {
			ok = got[i].Key == want[i].Key && bytes.Equal(got[i].Val, want[i].Val) && uint32(got[i].Flags) == membuf.ProjectModel(want[i].Flags)
		}
		if !ok {
			r.fail("InspectStage", im.Name, "InspectStage(%d) = %s, expected %s", h, membuf.ShowModel(got), membuf.ShowModel(want))
		}
		if record {
			fmt.Fprintf(out, "stage%d=%s;", h, membuf.ShowModel(want))
		}
	}

	// what a committer would build from the buffer (txnkv/transaction/2pc.go initKeysAndMutations reads
	// IterWithFlags(nil, nil)): mutation kind, pessimistic mark, assertion, constraint check per key
	if !c.Light {
		var got []string
		for it := im.IterWithFlags(nil, nil); it.Valid() && len(got) <= limit; {
			var v []byte
			if it.HasValue() {
				v = it.Value()
			}
			got = append(got, committerView(it.Key(), it.HasValue(), len(v), membuf.ProjectReal(it.Flags())))
			if it.Next() != nil {
				break
			}
		}
		var want []string
		for _, e := range m.View(true, false) {
			want = append(want, committerView([]byte(e.Key), e.HasValue, len(e.Val), membuf.ProjectModel(e.Flags)))
		}
		if g, w := strings.Join(got, " "), strings.Join(want, " "); g != w {
			r.fail("CommitterView", im.Name, "a committer would see [%s], expected [%s]", g, w)
		}
	}

	// iterators over all bound pairs
	vals := m.View(false, false)
	withFlags := m.View(true, false)
	snapView := m.View(false, true)
	if record {
		fmt.Fprintf(out, "view=%s snap=%s", membuf.ShowModel(vals), membuf.ShowModel(snapView))
	}
	bs := c.bounds()
	if c.Light {
		bs = bs[:min(len(bs), 3)]
	}
	checkIt := func(name string, it unionstore.Iterator, err error, want []omap.KV, l, u []byte) {
		if err != nil {
			r.fail(name, im.Name, "%s(%s,%s) failed: %v", name, showBound(l), showBound(u), err)
			return
		}
		got, derr := membuf.Drain(it, limit)
		it.Close()
		if derr != nil || !membuf.SameKVs(got, want) {
			r.fail(name, im.Name, "%s[%s,%s) = %s (err %v), expected %s", name, showBound(l), showBound(u), membuf.ShowKVs(got), derr, membuf.ShowModel(want))
		}
	}
	for _, l := range bs {
		for _, u := range bs {
			ub := u
			if len(ub) == 0 {
				ub = nil // an empty non-nil upper bound is not used, see the note in main.go
			}
			it, err := db.Iter(l, ub)
			checkIt("Iter", it, err, omap.Range(vals, l, u, false), l, u)
			it, err = db.IterReverse(ub, l)
			checkIt("IterReverse", it, err, omap.Range(vals, l, u, true), l, u)
			trivial := len(l) > 0 && len(u) > 0 && bytes.Compare(l, u) >= 0
			if trivial || c.isProbe(l) || c.isProbe(u) {
				continue // the remaining variants: non-empty ranges between written keys (and nil) only
			}
			checkIt("SnapshotIter", db.SnapshotIter(l, ub), nil, omap.Range(snapView, l, u, false), l, u)
			checkIt("SnapshotIterReverse", db.SnapshotIterReverse(ub, l), nil, omap.Range(snapView, l, u, true), l, u)
			if snap != nil && !c.Light && (len(l) == 0 || len(u) == 0 || (bytes.Equal(l, c.Keys[0]) && bytes.Equal(u, c.Keys[len(c.Keys)-1]))) {
				checkIt("BatchedSnapshotIter", snap.BatchedSnapshotIter(l, ub, false), nil, omap.Range(snapView, l, u, false), l, u)
				checkIt("BatchedSnapshotIter.reverse", snap.BatchedSnapshotIter(l, ub, true), nil, omap.Range(snapView, l, u, true), l, u)
				for _, rev := range []bool{false, true} {
					var got []membuf.KV
					err := snap.ForEachInSnapshotRange(l, ub, func(k, v []byte) (bool, error) {
						got = append(got, membuf.KV{Key: append([]byte{}, k...), Val: append([]byte{}, v...)})
						return len(got) > limit, nil
					}, rev)
					if want := omap.Range(snapView, l, u, rev); err != nil || !membuf.SameKVs(got, want) {
						r.fail("ForEachInSnapshotRange", im.Name, "ForEachInSnapshotRange[%s,%s) reverse=%v = %s (err %v), expected %s", showBound(l), showBound(u), rev, membuf.ShowKVs(got), err, membuf.ShowModel(want))
					}
				}
			}
			c.checkFlagIter(m, im, r, "IterWithFlags", im.IterWithFlags(l, ub), omap.Range(withFlags, l, u, false), l, u, limit)
		}
		if len(l) == 0 && l != nil {
			continue
		}
		// IterReverseWithFlags(upper) (no lower bound in the API); l plays the upper bound here
		c.checkFlagIter(m, im, r, "IterReverseWithFlags", im.IterReverseWithFlags(l), omap.Range(withFlags, nil, l, true), nil, l, limit)
	}
}

// committerView renders the mutation that initKeysAndMutations derives from one buffer entry, for an
// optimistic and a pessimistic transaction ("-" = the key is skipped), plus the assertion and the
// constraint-check mark that are pushed with it. Input: the accessor projection of the flags only.
func committerView(key []byte, hasValue bool, vlen int, f uint32) string {
	has := func(bit uint32) bool { return f&bit != 0 }
	lock := "Lock"
	if has(membuf.ObsLockedShare) {
		lock = "SharedLock"
	}
	op := func(pessimistic bool) string {
		switch {
		case !hasValue:
			if !has(membuf.ObsLocked) {
				return "-"
			}
			return lock
		case vlen > 0:
			if has(membuf.ObsPresume) {
				return "Insert"
			}
			return "Put"
		case !pessimistic && has(membuf.ObsPresume):
			return "CheckNotExists"
		case has(membuf.ObsNewlyInserted):
			if !has(membuf.ObsLocked) {
				return "-"
			}
			return lock
		}
		return "Del"
	}
	assert := "none"
	switch {
	case has(membuf.ObsAssertExist) && has(membuf.ObsAssertNotExist):
		assert = "unknown"
	case has(membuf.ObsAssertExist):
		assert = "exist"
	case has(membuf.ObsAssertNotExist):
		assert = "not-exist"
	}
	return fmt.Sprintf("%s:%s/%s,pess=%v,assert=%s,cc=%v,prewrite-only=%v", membuf.QuoteKey(key), op(false), op(true), has(membuf.ObsLocked), assert,
		has(membuf.ObsNeedConstraintCheck), has(membuf.ObsPrewriteOnly))
}

// checkFlagIter walks an iterator with flags, compares keys, flags, value
// presence and values, and resolves every handle back to key and value.
func (c *Config) checkFlagIter(m *omap.Model, im *membuf.Impl, r *rec, name string, it membuf.FlagIter, want []omap.KV, l, u []byte, limit int) {
	i := 0
	for ; it.Valid(); i++ {
		if i >= limit || i >= len(want) {
			r.fail(name, im.Name, "%s[%s,%s) yields more than the expected %d elements (extra key %s)", name, showBound(l), showBound(u), len(want), membuf.QuoteKey(it.Key()))
			return
		}
		w := want[i]
		k := it.Key()
		if string(k) != w.Key || it.HasValue() != w.HasValue || membuf.ProjectReal(it.Flags()) != membuf.ProjectModel(w.Flags) ||
			(w.HasValue && !bytes.Equal(it.Value(), w.Val)) {
			r.fail(name, im.Name, "%s[%s,%s) element %d = (%s, hasValue=%v, flags %s), expected (%s, hasValue=%v, flags %s)", name, showBound(l), showBound(u), i,
				membuf.QuoteKey(k), it.HasValue(), flagsStr(membuf.ProjectReal(it.Flags())), membuf.QuoteKey([]byte(w.Key)), w.HasValue, flagsStr(membuf.ProjectModel(w.Flags)))
			return
		}
		hd := it.Handle()
		if hk := im.DB.GetKeyByHandle(hd); string(hk) != w.Key {
			r.fail("GetKeyByHandle", im.Name, "handle of %s resolves to key %s", membuf.QuoteKey(k), membuf.QuoteKey(hk))
		}
		if hv, ok := im.DB.GetValueByHandle(hd); ok != w.HasValue || (ok && !bytes.Equal(hv, w.Val)) {
			r.fail("GetValueByHandle", im.Name, "handle of %s resolves to value %s, expected %s", membuf.QuoteKey(k), membuf.ShowVal(hv, ok), membuf.ShowVal(w.Val, w.HasValue))
		}
		if err := it.Next(); err != nil {
			r.fail(name, im.Name, "%s[%s,%s) Next failed: %v", name, showBound(l), showBound(u), err)
			return
		}
	}
	if i != len(want) {
		r.fail(name, im.Name, "%s[%s,%s) yields %d elements, expected %d (%s)", name, showBound(l), showBound(u), i, len(want), membuf.ShowModel(want))
	}
}

// crossCheck compares the two implementations directly on what the model sees only through a projection.
func (c *Config) crossCheck(a, b *membuf.Impl, r *rec) {
	for _, k := range c.allKeys() {
		fa, ea := a.DB.GetFlags(k)
		fb, eb := b.DB.GetFlags(k)
		if (ea == nil) != (eb == nil) || fa != fb {
			r.fail("GetFlags.raw", a.Name+"-vs-"+b.Name, "GetFlags(%s): %s gives (%#x,%v), %s gives (%#x,%v)", membuf.QuoteKey(k), a.Name, uint16(fa), ea, b.Name, uint16(fb), eb)
		}
	}
}

func first(c [][]byte) []byte {
	if len(c) == 0 {
		return nil
	}
	return c[0]
}

func sameChain(a, b [][]byte) bool {
	if len(a) != len(b) {
		return false
	}
	for i := range a {
		if !bytes.Equal(a[i], b[i]) {
			return false
		}
	}
	return true
}

func digestChain(c [][]byte) string {
	var s strings.Builder
	for _, v := range c {
		if len(v) > 8 {
			fmt.Fprintf(&s, "%d#%x,", len(v), v[:4])
		} else {
			fmt.Fprintf(&s, "%s,", v)
		}
	}
	return s.String()
}

func showBound(b []byte) string {
	if b == nil {
		return "nil"
	}
	return membuf.QuoteKey(b)
}

package main

import (
	"bytes"
	"fmt"
	"runtime"
	"sort"
	"strings"
	"sync"
	"sync/atomic"

	"github.com/tikv/client-go/v2/internal/unionstore"
	"github.com/tikv/client-go/v2/verifrt/ev"
	"github.com/tikv/client-go/v2/verifrt/membuf"
	"github.com/tikv/client-go/v2/verifrt/models/omap"
	"github.com/tikv/client-go/v2/verifrt/seqx"
)

// Part "batchscan": snapshot scans that span several batches of the batched
// snapshot iterator (BatchedSnapshotIter fetches 32, 64, 128, ... keys per batch
// and resumes from a key derived from the last key of the batch). The BFS
// configs and the grid hold at most a few keys in the snapshot range of a
// batched scan, so a batch boundary is never crossed there.
//
// A case is a key set of > 96 or > 224 (thorough: > 480) keys of variable
// length: runs of "filler" keys (7 to 9 bytes, tails "", "zz", "\x00",
// "\x01y") and clusters around a short key s = "b" / "dddd" / "" (s, s+0x00,
// s+0x00 0x00, s+0x01, s+"0", s+"A", s+"a", s+0xFF: keys that are prefixes of
// other keys, extensions by 0x00 / 0x01 / small bytes). The number P of fillers
// in front of the first cluster SLIDES over every value, so that every key of a
// cluster is the last key of the 1st, 2nd, 3rd batch of some scan (forward and,
// counted from the other end, reverse), after batches that ended on longer keys.
// Content: base level with holes (keys set and deleted again), then an open
// staging level that is empty, or two nested levels that overlay the base
// (overwrites, deletes, keys that exist only staged and sort between the
// cluster keys), written before the scans or in the middle of them. Observation:
// every bound pair of a small pool x forward / reverse x {BatchedSnapshotIter,
// ForEachInSnapshotRange, SnapshotIter} on ART and RBT against the snapshot
// view of the omap reference model (the ordered map of the property text).
//
// No cases are merged in this part (every key set x content x bound pair x
// direction is executed), so the resume state of the iterator - which the model
// lacks - cannot be hidden by deduplication; the distinct sequences of
// batch-end key lengths ("resume profiles") are counted and reported.
type batchCase struct {
	N     int    `json:"n"`     // number of base keys (fillers pad up to it)
	P     int    `json:"p"`     // fillers before the first cluster
	Q     int    `json:"q"`     // fillers between the first and the second cluster
	Empty bool   `json:"empty"` // the cluster around the empty key is part of the set
	Mode  string `json:"mode"`  // clean | overlay | overlay-mid-scan (content of the open staging level; when it is written)
}

type batchStats struct {
	Cases, Scans, RealOps, Violations int64
	MidScans, MidLoud                 int64
	States                            int
	NonTrivial                        int
	Profiles                          int
	byBatches                         map[string]int64
	samples                           []any
	bounds                            map[string]any
	Stopped                           bool
}

var fillerTails = []string{"", "zz", "\x00", "\x01y"}
var clusterExt = []string{"", "\x00", "\x00\x00", "\x01", "0", "A", "a", "\xff"}

func filler(lead byte, i int) []byte {
	return []byte(fmt.Sprintf("%caaa%03d%s", lead, i, fillerTails[i%len(fillerTails)]))
}

func cluster(s string) (out [][]byte) {
	for _, e := range clusterExt {
		out = append(out, []byte(s+e))
	}
	return out
}

// keys returns the base keys in ascending order.
func (c batchCase) keys() [][]byte {
	var ks [][]byte
	if c.Empty {
		ks = append(ks, cluster("")...)
	}
	for i := 0; i < c.P; i++ {
		ks = append(ks, filler('a', i))
	}
	ks = append(ks, cluster("b")...)
	for i := 0; i < c.Q; i++ {
		ks = append(ks, filler('c', i))
	}
	ks = append(ks, cluster("dddd")...)
	for i := 0; len(ks) < c.N; i++ {
		ks = append(ks, filler('e', i))
	}
	sort.Slice(ks, func(i, j int) bool { return bytes.Compare(ks[i], ks[j]) < 0 })
	return ks
}

type batchWrite struct {
	key, val []byte // val == nil: Delete
}

// content returns the writes of the base level and of the staging level.
func (c batchCase) content() (base, staged []batchWrite) {
	ks := c.keys()
	for i, k := range ks {
		base = append(base, batchWrite{k, []byte(fmt.Sprintf("v%03d", i))})
	}
	for i, k := range ks {
		if i%11 == 5 { // holes: keys deleted again in the base level (whatever the model's snapshot view says about them is demanded)
			base = append(base, batchWrite{k, nil})
		}
	}
	if c.Mode == "clean" {
		return base, nil
	}
	for i, k := range ks {
		switch {
		case i%5 == 0:
			staged = append(staged, batchWrite{k, []byte(fmt.Sprintf("S%03d", i))})
		case i%7 == 3:
			staged = append(staged, batchWrite{k, nil})
		case i%11 == 5:
			staged = append(staged, batchWrite{k, []byte("R")}) // a hole filled by the staging level only
		}
	}
	for _, s := range []string{"b", "dddd"} { // staged-only keys between the cluster keys
		staged = append(staged, batchWrite{[]byte(s + "\x02"), []byte("T")}, batchWrite{[]byte(s + "\x00\x01"), []byte("T")})
	}
	for _, s := range []string{"aaaa", "caaa", "eaaa", "aaaa000\x00"} { // staged-only prefixes / extensions of fillers
		staged = append(staged, batchWrite{[]byte(s), []byte("T")})
	}
	return base, staged
}

// boundPool: nil, keys that shift the start of the scan, the short keys, their
// 0x00 successor, a bound that is not a key.
func (c batchCase) boundPool(ks [][]byte) [][]byte {
	pool := [][]byte{nil, ks[min(5, len(ks)-1)], []byte("b"), []byte("b\x00"), []byte("b\x01\x01"), []byte("dddd"), ks[len(ks)-4]}
	return pool
}

// batchClass classifies a scan by the reference result only (batch sizes 32, 64, 128, ...
// as documented in membuffer_snapshot.go): how many batches it needs, and whether some
// batch ends on a key shorter than the last key of an earlier batch.
func batchClass(want []omap.KV) (class string, profile string, nontrivial bool) {
	var ends []int
	nb := 1
	for size, cum := 32, 32; cum <= len(want); size, cum = min(size*2, 4096), cum+min(size*2, 4096) {
		ends = append(ends, len(want[cum-1].Key))
		if cum < len(want) {
			nb++
		}
	}
	shrink := false
	for i := range ends {
		for j := i + 1; j < len(ends); j++ {
			if ends[j] < ends[i] {
				shrink = true
			}
		}
	}
	switch {
	case nb == 1:
		class = "1-batch"
	case nb == 2:
		class = "2-batches"
	default:
		class = "3+-batches"
	}
	if shrink {
		class += ":later-batch-ends-on-shorter-key"
	} else {
		class += ":batch-ends-not-shrinking"
	}
	return class, fmt.Sprint(ends), nb >= 3 && shrink
}

type batchScanInfo struct {
	scans      int64
	nontrivial int
	profiles   map[string]struct{}
	byBatches  map[string]int64
	canon      string
	midScans   int64 // scans with the staging level written in the middle
	midLoud    int64 // of these: ended with an error (loud failure)
}

// midAdvances: how many keys a batched scan has returned when the staging level is written (end of
// the first batch, inside the second (thorough only), inside the third).
func midAdvances() []int {
	if run.Thorough() {
		return []int{31, 40, 100}
	}
	return []int{31, 100}
}

func sameView(a, b []omap.KV) bool {
	if len(a) != len(b) {
		return false
	}
	for i := range a {
		if a[i].Key != b[i].Key || !bytes.Equal(a[i].Val, b[i].Val) {
			return false
		}
	}
	return true
}

// run executes the case on fresh buffers.
func (c batchCase) run(info *batchScanInfo, realOps *int64) []seqx.Viol {
	base, staged := c.content()
	ks := c.keys()
	m := omap.New()
	impls := []*membuf.Impl{membuf.NewART(), membuf.NewRBT()}
	type failure struct {
		who map[string]bool
		msg string
	}
	fails := map[string]*failure{}
	var order []string
	fail := func(key, impl, format string, a ...any) {
		f := fails[key]
		if f == nil {
			f = &failure{who: map[string]bool{}, msg: fmt.Sprintf(format, a...)}
			fails[key] = f
			order = append(order, key)
		}
		f.who[impl] = true
	}
	apply := func(ws []batchWrite) {
		for _, w := range ws {
			if w.val == nil {
				m.Delete(w.key)
			} else {
				m.Set(w.key, w.val)
			}
			for _, im := range impls {
				if msg, pan := membuf.Guard(func() {
					var err error
					if w.val == nil {
						err = im.DB.Delete(w.key)
					} else {
						err = im.DB.Set(w.key, w.val)
					}
					if err != nil {
						fail("answer", im.Name, "write of %s failed: %v", membuf.QuoteKey(w.key), err)
					}
				}); pan {
					fail("panic", im.Name, "write of %s panicked: %s", membuf.QuoteKey(w.key), msg)
				}
				*realOps++
			}
		}
	}
	apply(base)
	m.Staging()
	for _, im := range impls {
		im.DB.Staging()
	}
	// mode overlay-mid-scan: batched iterators over every bound pair are opened and advanced into their
	// first / second / third batch BEFORE the staging level is written, and drained afterwards: the
	// snapshot does not change, so the scan must equal the reference, or fail loudly (error from Next).
	type midIter struct {
		im     *membuf.Impl
		it     unionstore.Iterator
		l, u   []byte
		rev    bool
		adv    int
		got    []membuf.KV
		err    error
		closer func()
	}
	var mids []*midIter
	snapBefore := m.View(false, true)
	advance := func(mi *midIter, n int) {
		if msg, pan := membuf.Guard(func() {
			for i := 0; (n < 0 || i < n) && mi.err == nil && mi.it.Valid(); i++ {
				if len(mi.got) > len(snapBefore)+2 {
					mi.err = fmt.Errorf("iterator yields more than %d elements", len(snapBefore)+2)
					return
				}
				mi.got = append(mi.got, membuf.KV{Key: append([]byte{}, mi.it.Key()...), Val: append([]byte{}, mi.it.Value()...)})
				mi.err = mi.it.Next()
			}
		}); pan {
			fail("panic", mi.im.Name, "BatchedSnapshotIter[%s,%s) reverse=%v panicked: %s", showBound(mi.l), showBound(mi.u), mi.rev, msg)
			mi.err = fmt.Errorf("panic")
		}
		*realOps++
	}
	if c.Mode == "overlay-mid-scan" {
		pool := c.boundPool(ks)
		for _, im := range impls {
			snap := im.DB.GetSnapshot()
			for _, l := range pool {
				for _, u := range pool {
					for _, rev := range []bool{false, true} {
						for _, adv := range midAdvances() {
							mi := &midIter{im: im, l: l, u: u, rev: rev, adv: adv}
							if msg, pan := membuf.Guard(func() { mi.it = snap.BatchedSnapshotIter(l, u, rev) }); pan {
								fail("panic", im.Name, "BatchedSnapshotIter[%s,%s) reverse=%v panicked: %s", showBound(l), showBound(u), rev, msg)
								continue
							}
							advance(mi, adv)
							mids = append(mids, mi)
						}
					}
				}
			}
			defer snap.Close()
		}
	}
	// the overlay is spread over two nested staging levels (the snapshot is what lies below the FIRST level)
	apply(staged[:len(staged)/2])
	if len(staged) > 0 {
		m.Staging()
		for _, im := range impls {
			im.DB.Staging()
		}
	}
	apply(staged[len(staged)/2:])
	snapView := m.View(false, true)
	if len(mids) > 0 && !sameView(snapBefore, snapView) {
		fail("harness", "model", "the model's snapshot view changed by writes inside the staging level")
	}
	for _, mi := range mids {
		advance(mi, -1)
		membuf.Guard(func() { mi.it.Close() })
		want := omap.Range(snapBefore, mi.l, mi.u, mi.rev)
		class, _, nt := batchClass(want)
		if info != nil && mi.im == impls[0] {
			info.scans++
			info.midScans++
			if nt {
				info.nontrivial++
			}
			if mi.err != nil {
				info.midLoud++
			}
		}
		if mi.err != nil && len(mi.got) >= min(mi.adv, len(want)) && mi.err.Error() != "panic" && !strings.Contains(mi.err.Error(), "yields more than") {
			continue // failed loudly after the write: allowed by the property text
		}
		if mi.err == nil && membuf.SameKVs(mi.got, want) {
			continue
		}
		suffix := ""
		if mi.rev {
			suffix = ".reverse"
		}
		fail("BatchedSnapshotIter"+suffix+".staged-writes-mid-scan:%s:"+class, mi.im.Name, "BatchedSnapshotIter[%s,%s) reverse=%v over a snapshot of %d keys, staging level written after %d keys were read: %s (err %v); got %d keys %s, expected %d keys %s",
			showBound(mi.l), showBound(mi.u), mi.rev, len(snapBefore), mi.adv, diffKVs(mi.got, want), mi.err, len(mi.got), membuf.ShowKVs(mi.got), len(want), membuf.ShowModel(want))
	}
	if info != nil {
		info.canon = m.Canon()
	}
	limit := len(m.M) + 2
	pool := c.boundPool(ks)
	for _, im := range impls {
		msg, pan := membuf.Guard(func() {
			db := im.DB
			snap := db.GetSnapshot()
			defer snap.Close()
			for _, l := range pool {
				for _, u := range pool {
					for _, rev := range []bool{false, true} {
						want := omap.Range(snapView, l, u, rev)
						class, profile, nt := batchClass(want)
						if info != nil && im == impls[0] {
							info.scans++
							info.byBatches[strings.SplitN(class, ":", 2)[0]]++
							if rev {
								profile = "rev" + profile
							}
							info.profiles[profile] = struct{}{}
							if nt {
								info.nontrivial++
							}
						}
						suffix := ""
						if rev {
							suffix = ".reverse"
						}
						check := func(name string, got []membuf.KV, err error) {
							*realOps++
							if err == nil && membuf.SameKVs(got, want) {
								return
							}
							fail(name+suffix+":%s:"+class, im.Name, "%s[%s,%s) reverse=%v over a snapshot of %d keys: %s (err %v); got %d keys %s, expected %d keys %s",
								name, showBound(l), showBound(u), rev, len(snapView), diffKVs(got, want), err, len(got), membuf.ShowKVs(got), len(want), membuf.ShowModel(want))
						}
						bit := snap.BatchedSnapshotIter(l, u, rev)
						got, err := membuf.Drain(bit, limit)
						bit.Close()
						check("BatchedSnapshotIter", got, err)
						got = nil
						err = snap.ForEachInSnapshotRange(l, u, func(k, v []byte) (bool, error) {
							got = append(got, membuf.KV{Key: append([]byte{}, k...), Val: append([]byte{}, v...)})
							return len(got) > limit, nil
						}, rev)
						check("ForEachInSnapshotRange", got, err)
						var it unionstore.Iterator
						if rev {
							it = db.SnapshotIterReverse(u, l)
						} else {
							it = db.SnapshotIter(l, u)
						}
						got, err = membuf.Drain(it, limit)
						it.Close()
						check("SnapshotIter", got, err)
					}
				}
			}
		})
		if pan {
			fail("panic", im.Name, "snapshot scans panicked: %s", msg)
		}
	}
	var out []seqx.Viol
	for _, k := range order {
		f := fails[k]
		ws := make([]string, 0, 2)
		for w := range f.who {
			ws = append(ws, w)
		}
		sort.Strings(ws)
		who := strings.Join(ws, "+")
		key := "batchscan:" + k + ":" + who
		if strings.Contains(k, ":%s:") {
			key = "batchscan:" + strings.Replace(k, ":%s:", ":"+who+":", 1)
		}
		out = append(out, seqx.Viol{Key: key, What: who + " disagrees with the reference model: " + f.msg})
	}
	return out
}

// diffKVs names the first keys of the reference that the scan lost and the first it invented.
func diffKVs(got []membuf.KV, want []omap.KV) string {
	g := map[string]bool{}
	for _, e := range got {
		g[string(e.Key)] = true
	}
	w := map[string]bool{}
	var missing, extra []string
	for _, e := range want {
		w[e.Key] = true
		if !g[e.Key] && len(missing) < 6 {
			missing = append(missing, membuf.QuoteKey([]byte(e.Key)))
		}
	}
	for _, e := range got {
		if !w[string(e.Key)] && len(extra) < 6 {
			extra = append(extra, membuf.QuoteKey(e.Key))
		}
	}
	switch {
	case len(missing) > 0 || len(extra) > 0:
		return fmt.Sprintf("missing %v, not in the snapshot range %v", missing, extra)
	default:
		return "same key set, different order, multiplicity or values"
	}
}

func batchCases(thorough bool) (cases []batchCase, bounds map[string]any) {
	type fam struct {
		n     int
		qs    []int
		empty bool
	}
	fams := []fam{{n: 130, qs: []int{3}, empty: true}, {n: 260, qs: []int{3}, empty: false}}
	if thorough {
		fams = []fam{{n: 130, qs: []int{0, 3, 40}, empty: true}, {n: 130, qs: []int{3}, empty: false}, {n: 260, qs: []int{0, 3, 70}, empty: false},
			{n: 260, qs: []int{3}, empty: true}, {n: 520, qs: []int{3, 200}, empty: false}}
	}
	var sizes []int
	for _, f := range fams {
		sizes = append(sizes, f.n)
		for _, q := range f.qs {
			maxP := f.n - 2*len(clusterExt) - q - 4
			if f.empty {
				maxP -= len(clusterExt)
			}
			for p := 0; p <= maxP; p++ {
				for _, mode := range []string{"clean", "overlay", "overlay-mid-scan"} {
					cases = append(cases, batchCase{N: f.n, P: p, Q: q, Empty: f.empty, Mode: mode})
				}
			}
		}
	}
	bounds = map[string]any{"base_keys": sizes, "fillers_before_first_cluster": "every value 0..N-cluster keys-Q-4", "staging_content": []string{"clean", "overlay", fmt.Sprintf("overlay-mid-scan (staging level written after %v keys of every batched scan were read)", midAdvances())},
		"bound_pool": 7, "bound_pairs": 49, "directions": 2, "scan_apis": []string{"BatchedSnapshotIter", "ForEachInSnapshotRange", "SnapshotIter/SnapshotIterReverse"},
		"key_lengths": "0..9 bytes (clusters around \"\", \"b\", \"dddd\"; fillers 7-9 bytes)"}
	return cases, bounds
}

func runBatchScan(thorough bool) batchStats {
	cases, bounds := batchCases(thorough)
	st := batchStats{bounds: bounds, byBatches: map[string]int64{}}
	res := make([][]seqx.Viol, len(cases))
	infos := make([]*batchScanInfo, len(cases))
	var cursor atomic.Int64
	var realOps atomic.Int64
	var stopped atomic.Bool
	var wg sync.WaitGroup
	for w := 0; w < runtime.GOMAXPROCS(0); w++ {
		wg.Add(1)
		go func() {
			defer wg.Done()
			for {
				i := int(cursor.Add(1)) - 1
				if i >= len(cases) {
					return
				}
				if expired() {
					stopped.Store(true)
					return
				}
				info := &batchScanInfo{profiles: map[string]struct{}{}, byBatches: map[string]int64{}}
				var ops int64
				res[i] = cases[i].run(info, &ops)
				infos[i] = info
				realOps.Add(ops)
			}
		}()
	}
	wg.Wait()
	st.Stopped = stopped.Load()
	st.RealOps = realOps.Load()
	states := map[string]struct{}{}
	profiles := map[string]struct{}{}
	for i, vs := range res {
		if infos[i] == nil {
			continue
		}
		st.Cases++
		st.Scans += infos[i].scans
		st.NonTrivial += infos[i].nontrivial
		st.MidScans += infos[i].midScans
		st.MidLoud += infos[i].midLoud
		states[cases[i].Mode+infos[i].canon] = struct{}{}
		for p := range infos[i].profiles {
			profiles[p] = struct{}{}
		}
		for k, n := range infos[i].byBatches {
			st.byBatches[k] += n
		}
		for _, v := range vs {
			st.Violations++
			run.Violation(v.Key, v.What+fmt.Sprintf(" | batchscan case %+v", cases[i]), map[string]any{"batch": cases[i]})
		}
	}
	st.States = len(states)
	st.Profiles = len(profiles)
	if len(cases) > 0 {
		s := ev.NewSamples(3, run.Seed)
		for _, i := range []int{len(cases) / 3, len(cases) / 2, len(cases) - 1} {
			c := cases[i]
			s.Add(func() any {
				ks := c.keys()
				return map[string]any{"batchscan": c, "keys": len(ks), "first_cluster_at_index": sort.Search(len(ks), func(j int) bool { return string(ks[j]) >= "b" })}
			})
		}
		st.samples = s.List()
	}
	return st
}

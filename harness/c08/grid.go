package main

import (
	"bytes"
	"context"
	"fmt"
	"runtime"
	"sort"
	"sync"
	"sync/atomic"

	"github.com/tikv/client-go/v2/verifrt/ev"
	"github.com/tikv/client-go/v2/verifrt/membuf"
	"github.com/tikv/client-go/v2/verifrt/models/omap"
	"github.com/tikv/client-go/v2/verifrt/seqx"
)

// gridCase is one scenario of the node fan-out grid: N sibling bytes under one
// prefix (crossing the node4/16/48/256 capacities), inserted in a given order,
// then taken down again, with an observation after every step.
type gridCase struct {
	N       int    `json:"n"`
	Order   string `json:"order"`   // asc | desc | inter
	Prefix  int    `json:"prefix"`  // length of the common prefix ('q' bytes)
	Inplace bool   `json:"inplace"` // the prefix itself is a key (in-place leaf of the node)
	Deep    bool   `json:"deep"`    // every sibling is an inner node with two leaves instead of a leaf
	Down    string `json:"down"`    // delete | revert | cleanup
}

type gridStats struct {
	Cases, Steps, RealOps int64
}

func (g gridCase) keys() [][]byte {
	p := bytes.Repeat([]byte{'q'}, g.Prefix)
	idx := make([]int, g.N)
	for i := range idx {
		idx[i] = i
	}
	switch g.Order {
	case "desc":
		for i := range idx {
			idx[i] = g.N - 1 - i
		}
	case "inter":
		for i := range idx {
			if i%2 == 0 {
				idx[i] = i / 2
			} else {
				idx[i] = g.N - 1 - i/2
			}
		}
	}
	var ks [][]byte
	for _, i := range idx {
		b := byte(i)
		if g.N < 256 {
			b = byte(i * 255 / (g.N - 1)) // spread over the byte range, 0x00 and 0xFF included
		}
		k := append(append([]byte{}, p...), b)
		if g.Deep {
			ks = append(ks, append(append([]byte{}, k...), 0x00), append(append([]byte{}, k...), 0xFF))
		} else {
			ks = append(ks, k)
		}
	}
	if g.Inplace {
		// the prefix itself, inserted in the middle of the sequence
		mid := len(ks) / 2
		ks = append(ks[:mid:mid], append([][]byte{p}, ks[mid:]...)...)
	}
	return ks
}

// run executes the case on fresh buffers; steps counts observed steps.
func (g gridCase) run(st *gridStats) []seqx.Viol {
	keys := g.keys()
	m := omap.New()
	impls := []*membuf.Impl{membuf.NewART(), membuf.NewRBT()}
	r := &rec{}
	nsteps := 0
	step := func(label string, touched []byte, model func(), real func(im *membuf.Impl)) bool {
		r.after = "grid-" + label
		nsteps++
		model()
		for _, im := range impls {
			if msg, pan := membuf.Guard(func() { real(im) }); pan {
				r.fail("panic", im.Name, "%s %s panicked: %s", label, membuf.QuoteKey(touched), msg)
			}
			if st != nil {
				atomic.AddInt64(&st.RealOps, 1)
			}
		}
		if len(r.m) == 0 {
			// full observation when the number of live keys is near a node capacity, at stage
			// operations and every 16th step; otherwise only the touched key and its neighbourhood
			full := touched == nil || nsteps%16 == 0
			for _, c := range []int{4, 16, 48, 256} {
				for _, mul := range []int{1, 2} { // deep cases have two keys per sibling
					if d := m.Len() - c*mul; d >= -2*mul && d <= 2*mul {
						full = true
					}
				}
			}
			for _, im := range impls {
				if msg, pan := membuf.Guard(func() { gridObserve(m, im, r, keys, touched, full) }); pan {
					r.fail("panic", im.Name, "observation after %s %s panicked: %s", label, membuf.QuoteKey(touched), msg)
				}
			}
		}
		if st != nil {
			atomic.AddInt64(&st.Steps, 1)
		}
		return len(r.m) == 0
	}
	val := func(i int) []byte { return []byte(fmt.Sprintf("v%03d", i)) }
	if g.Down == "cleanup" {
		if !step("Staging", nil, func() { m.Staging() }, func(im *membuf.Impl) { im.DB.Staging() }) {
			return gridViols(r)
		}
	}
	for i, k := range keys {
		if g.Down == "revert" {
			m.Checkpoint()
			for _, im := range impls {
				im.Cps = append(im.Cps, im.DB.Checkpoint())
			}
		}
		if !step("Set", k, func() { m.Set(k, val(i)) }, func(im *membuf.Impl) { _ = im.DB.Set(k, val(i)) }) {
			return gridViols(r)
		}
	}
	switch g.Down {
	case "delete":
		for _, k := range keys {
			if !step("Delete", k, func() { m.Delete(k) }, func(im *membuf.Impl) { _ = im.DB.Delete(k) }) {
				break
			}
		}
	case "revert":
		for i := len(keys) - 1; i >= 0; i-- {
			if !step("RevertToCheckpoint", keys[i], func() { m.RevertToCheckpoint(i) }, func(im *membuf.Impl) { im.DB.RevertToCheckpoint(im.Cps[i]) }) {
				break
			}
		}
	case "cleanup":
		// a nested level overwrites every second key, deletes every third and locks every fifth; both levels are then discarded
		ok := step("Staging", nil, func() { m.Staging() }, func(im *membuf.Impl) { im.DB.Staging() })
		for i, k := range keys {
			if !ok {
				break
			}
			switch {
			case i%2 == 0:
				ok = step("Set", k, func() { m.Set(k, []byte("w")) }, func(im *membuf.Impl) { _ = im.DB.Set(k, []byte("w")) })
			case i%3 == 0:
				ok = step("Delete", k, func() { m.Delete(k) }, func(im *membuf.Impl) { _ = im.DB.Delete(k) })
			case i%5 == 0:
				ok = step("UpdateFlags", k, func() { m.UpdateFlags(k, omap.SetLocked) },
					func(im *membuf.Impl) { im.DB.UpdateFlags(k, membuf.RealOps([]omap.FlagOp{omap.SetLocked})...) })
			}
		}
		ok = ok && step("Cleanup", nil, func() { m.Cleanup(2) }, func(im *membuf.Impl) { im.DB.Cleanup(2) })
		_ = ok && step("Cleanup", nil, func() { m.Cleanup(1) }, func(im *membuf.Impl) { im.DB.Cleanup(1) })
	}
	return gridViols(r)
}

type unionstoreIter interface {
	Valid() bool
	Key() []byte
	Value() []byte
	Next() error
	Close()
}

func gridViols(r *rec) []seqx.Viol {
	v, _ := r.viols()
	return v
}

// gridObserve is the reduced observation set of the grid (the key set is large):
// accounting, full scans in both directions, Get of every key, and bounded
// scans / seeks around the key that was just touched.
func gridObserve(m *omap.Model, im *membuf.Impl, r *rec, keys [][]byte, touched []byte, full bool) {
	ctx := context.Background()
	db := im.DB
	if db.Len() != m.Len() || db.Size() != m.Size() {
		r.fail("Len/Size", im.Name, "Len/Size = %d/%d, expected %d/%d", db.Len(), db.Size(), m.Len(), m.Size())
	}
	if !full {
		keys = [][]byte{touched}
	}
	for _, k := range keys {
		wv, wok := m.Get(k)
		v, err := db.Get(ctx, k)
		if !sameGet(v.Value, err, wv, wok) {
			r.fail("Get", im.Name, "Get(%s)=%s, expected %s", membuf.QuoteKey(k), showGet(v.Value, err), membuf.ShowVal(wv, wok))
		}
		wf, wfok := m.GetFlags(k)
		f, err := db.GetFlags(k)
		if wfok != (err == nil) || (wfok && membuf.ProjectReal(f) != membuf.ProjectModel(wf)) {
			r.fail("GetFlags", im.Name, "GetFlags(%s)=(%s,%v), expected (%s, known=%v)", membuf.QuoteKey(k), flagsStr(membuf.ProjectReal(f)), err, flagsStr(membuf.ProjectModel(wf)), wfok)
		}
	}
	limit := len(m.M) + 2
	if !full {
		// neighbourhood only: the touched key as a one-element range
		var want []omap.KV
		if v, ok := m.Get(touched); ok {
			want = []omap.KV{{Key: string(touched), Val: v, HasValue: true}}
		}
		succ := append(append([]byte{}, touched...), 0x00)
		for _, rev := range []bool{false, true} {
			var it unionstoreIter
			var err error
			if rev {
				it, err = db.IterReverse(succ, touched)
			} else {
				it, err = db.Iter(touched, succ)
			}
			var got []membuf.KV
			if err == nil {
				got, err = membuf.Drain(it, limit)
			}
			if err != nil || !membuf.SameKVs(got, want) {
				r.fail("Iter", im.Name, "Iter[%s,%s) reverse=%v = %s (err %v), expected %s", showBound(touched), showBound(succ), rev, membuf.ShowKVs(got), err, membuf.ShowModel(want))
			}
		}
		return
	}
	vals := m.View(false, false)
	snap := m.View(false, true)
	check := func(name string, l, u []byte, rev, snapshot bool) {
		view := vals
		if snapshot {
			view = snap
		}
		want := omap.Range(view, l, u, rev)
		var got []membuf.KV
		var err error
		switch {
		case snapshot && rev:
			got, err = membuf.Drain(db.SnapshotIterReverse(u, l), limit)
		case snapshot:
			got, err = membuf.Drain(db.SnapshotIter(l, u), limit)
		case rev:
			it, e := db.IterReverse(u, l)
			if e != nil {
				err = e
			} else {
				got, err = membuf.Drain(it, limit)
			}
		default:
			it, e := db.Iter(l, u)
			if e != nil {
				err = e
			} else {
				got, err = membuf.Drain(it, limit)
			}
		}
		if err != nil || !membuf.SameKVs(got, want) {
			r.fail(name, im.Name, "%s[%s,%s) = %s (err %v), expected %s", name, showBound(l), showBound(u), membuf.ShowKVs(got), err, membuf.ShowModel(want))
		}
	}
	// checkWin: like check for plain iterators, but the expectation is computed from a window of the view
	checkWin := func(name string, win []omap.KV, l, u []byte) {
		rev := name == "IterReverse"
		want := omap.Range(win, l, u, rev)
		var it unionstoreIter
		var err error
		if rev {
			it, err = db.IterReverse(u, l)
		} else {
			it, err = db.Iter(l, u)
		}
		var got []membuf.KV
		if err == nil {
			got, err = membuf.Drain(it, limit)
		}
		if err != nil || !membuf.SameKVs(got, want) {
			r.fail(name, im.Name, "%s[%s,%s) = %s (err %v), expected %s", name, showBound(l), showBound(u), membuf.ShowKVs(got), err, membuf.ShowModel(want))
		}
	}
	for _, rev := range []bool{false, true} {
		name := "Iter"
		if rev {
			name = "IterReverse"
		}
		check(name, nil, nil, rev, false)
		check("Snapshot"+name, nil, nil, rev, true)
		if len(touched) == 0 {
			continue
		}
		// seeks to the touched key, its successor, the next sibling byte (usually not a key) and a
		// longer key below it, each scanning a window of three keys of the model's order
		succ := append(append([]byte{}, touched...), 0x00)
		seeks := [][]byte{touched, succ, append(append([]byte{}, touched...), 0x7F, 0x01)}
		if last := touched[len(touched)-1]; last < 0xFF {
			next := append([]byte{}, touched...)
			next[len(next)-1]++
			seeks = append(seeks, next)
		}
		for _, b := range seeks {
			i := sort.Search(len(vals), func(i int) bool { return vals[i].Key >= string(b) })
			var lo, hi []byte
			if i+3 < len(vals) {
				hi = []byte(vals[i+3].Key)
			}
			if i-3 >= 0 {
				lo = []byte(vals[i-3].Key)
			}
			win := vals[max(0, i-4):min(len(vals), i+5)]
			if rev {
				checkWin(name, win, lo, b)
			} else {
				checkWin(name, win, b, hi)
			}
		}
		if !rev {
			check(name, touched, succ, false, false)
		}
	}
}

func runGrid(thorough bool, samples *ev.Samples) gridStats {
	var cases []gridCase
	prefixes := []int{0, 1, 25}
	if thorough {
		prefixes = []int{0, 1, 19, 20, 21, 25}
	}
	for _, n := range []int{3, 4, 5, 15, 16, 17, 47, 48, 49, 255, 256} {
		for _, order := range []string{"asc", "desc", "inter"} {
			for _, p := range prefixes {
				for _, inplace := range []bool{false, true} {
					for _, deep := range []bool{false, true} {
						for _, down := range []string{"delete", "revert", "cleanup"} {
							cases = append(cases, gridCase{N: n, Order: order, Prefix: p, Inplace: inplace, Deep: deep, Down: down})
						}
					}
				}
			}
		}
	}
	var st gridStats
	res := make([][]seqx.Viol, len(cases))
	var cursor atomic.Int64
	var wg sync.WaitGroup
	for w := 0; w < runtime.GOMAXPROCS(0); w++ {
		wg.Add(1)
		go func() {
			defer wg.Done()
			for {
				i := int(cursor.Add(1)) - 1
				if i >= len(cases) {
					return
				}
				if expired() {
					run.Incomplete("fan-out grid cut by the time budget")
					return
				}
				res[i] = cases[i].run(&st)
				atomic.AddInt64(&st.Cases, 1)
			}
		}()
	}
	wg.Wait()
	for i, vs := range res {
		for _, v := range vs {
			run.Violation(v.Key, v.What+fmt.Sprintf(" | grid case %+v", cases[i]), map[string]any{"grid": cases[i]})
		}
	}
	samples.Add(func() any { return map[string]any{"grid": cases[len(cases)/2]} })
	return st
}

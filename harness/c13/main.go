// C13: issued timestamps strictly increase; the cached timestamp never runs ahead.
//
// Part A (controlled scheduler): the real pdOracle over a scripted PD whose requests are
// *issued* and *delivered* as two separate explorer transitions, 2-3 caller goroutines with 1-2
// calls each, setLastTS interleaved at atomic Load / CompareAndSwap granularity (sync/atomic of
// pd.go is import-rewritten to verifrt/c13atomic), the background updateTS tick as an optional
// transition. Deviation-bounded DFS (preemptions P, ticks F) over every scenario of the table.
// Part B (sequential, exhaustive): KVTxn.GetTimestampForCommit over all PD answer scripts.
// Part C (adaptive update interval): nextUpdateInterval driven through its real callers (the
// updateTS goroutine's ticker and shrink channel, SetLowResolutionTimestampUpdateInterval,
// ValidateReadTS with the stale-read flag) over a grid (configured interval, staleness, elapsed).
package main

import (
	"encoding/json"
	"fmt"
	"os"
	"os/exec"
	"runtime"
	"sort"
	"strings"
	"time"

	"github.com/pingcap/log"
	"github.com/tikv/client-go/v2/verifrt/ev"
	"github.com/tikv/client-go/v2/verifrt/sched"
	"go.uber.org/zap"
)

const horizon = 400

func op(k string) Op                     { return Op{K: k} }
func val(v string, stale bool) Op        { return Op{K: "val", V: v, S: stale} }
func staleOp(n uint64) Op                { return Op{K: "stale", N: n} }
func expOp(ttl uint64) Op                { return Op{K: "exp", N: ttl} }
func durOp(k string, d time.Duration) Op { return Op{K: k, D: d} }

// programs of one caller: every single call of the alphabet and selected pairs.
func programs() [][]Op {
	ts, async, low := op("ts"), op("async"), op("low")
	single := []Op{
		ts, async, low,
		staleOp(0), staleOp(1 << 40),
		expOp(1), expOp(2),
		val("ext", false), val("ext", true), val("other", false), val("other", true),
		val("next", false), val("far", false), val("far", true),
		val("max", false), val("max", true), val("mid", false),
		durOp("setint", 300*time.Millisecond), durOp("setint", 5*time.Second),
	}
	tsL, asyncL, lowL := Op{K: "ts", L: true}, Op{K: "async", L: true}, Op{K: "low", L: true}
	single = append(single, tsL, lowL)
	var out [][]Op
	for _, o := range single {
		out = append(out, []Op{o})
	}
	out = append(out,
		[]Op{ts, ts}, []Op{ts, async}, []Op{async, ts}, []Op{async, async},
		[]Op{ts, low}, []Op{low, ts}, []Op{async, low}, []Op{low, low},
		[]Op{ts, val("own", false)}, []Op{async, val("own", true)},
		[]Op{val("ext", false), val("ext", false)}, []Op{val("ext", false), low}, []Op{val("ext", true), val("far", true)},
		[]Op{ts, expOp(1)}, []Op{expOp(1), expOp(2)}, []Op{low, staleOp(0)},
		[]Op{durOp("setint", 300*time.Millisecond), val("ext", true)},
		[]Op{tsL, lowL}, []Op{asyncL, lowL},
	)
	return out
}

// cancelPrograms is the table of the cancellation family.
func cancelPrograms() [][]Op {
	ts := op("ts")
	return [][]Op{
		{val("ext", false)}, {val("ext", true)}, {val("other", false)}, {val("next", false)}, {val("far", false)}, {ts}, {op("async")},
		{val("ext", false), val("ext", false)}, {ts, val("own", false)}, {val("ext", false), op("low")},
	}
}

// thirdPrograms is the (smaller) table for the third caller of the thorough tier.
func thirdPrograms() [][]Op {
	return [][]Op{{op("ts")}, {op("async")}, {op("low")}, {expOp(1)}, {val("ext", false)}, {val("other", true)}, {val("far", false)}, {op("ts"), op("low")}}
}

func hasLocal(p []Op) bool {
	for _, o := range p {
		if o.L {
			return true
		}
	}
	return false
}

func needInts(progs [][]Op) bool {
	for _, p := range progs {
		for _, o := range p {
			if o.K == "setint" || o.K == "vsa" || (o.K == "val" && o.S) {
				return true
			}
		}
	}
	return false
}

type spec struct {
	name string
	mk   func() *scen
	b    sched.Bounds
}

func concSpecs(thorough bool) []spec {
	var out []spec
	ps := programs()
	add := func(kind string, progs [][]Op, tick bool, withInts bool, b sched.Bounds) {
		var names []string
		for _, p := range progs {
			names = append(names, progName(p))
			for _, o := range p {
				if o.L && tick {
					// with a second scope cached, updateTS walks lastTSMap with sync.Map.Range while a caller may be
					// inserting the scope: whether Range visits the new key depends on the map's per-instance hash seed,
					// which the explorer does not own. The second scope is therefore exercised without the updateTS goroutine.
					return
				}
			}
		}
		name := fmt.Sprintf("%s/P%dF%d/%s", kind, b.P, b.F, strings.Join(names, "|"))
		progs = append([][]Op{}, progs...)
		ints := withInts && needInts(progs) && tick // integer atomics matter only against the updateTS goroutine / setter
		out = append(out, spec{name: name, b: b, mk: func() *scen {
			return &scen{name: name, progs: progs, tick: tick, ints: ints, validation: true}
		}})
	}
	addCancel := func(kind string, progs [][]Op, b sched.Bounds) {
		var names []string
		for _, p := range progs {
			names = append(names, progName(p))
		}
		name := fmt.Sprintf("%s/P%dF%d/%s", kind, b.P, b.F, strings.Join(names, "|"))
		progs = append([][]Op{}, progs...)
		out = append(out, spec{name: name, b: b, mk: func() *scen {
			return &scen{name: name, progs: progs, validation: true, cancels: true}
		}})
	}
	for i := range ps {
		for j := i; j < len(ps); j++ {
			// interleavings of the callers, no background goroutine
			add("conc2", [][]Op{ps[i], ps[j]}, false, false, sched.Bounds{P: 2, F: 0, Horizon: horizon})
			// the same with the updateTS goroutine: one tick anywhere
			// (thorough: the integer atomics of the adaptive-interval code are points as well)
			add("tick2", [][]Op{ps[i], ps[j]}, true, thorough, sched.Bounds{P: 1, F: 1, Horizon: horizon})
		}
	}
	// cancellation family: callers of ValidateReadTS / GetTimestamp whose per-call contexts can be cancelled
	// by the explorer while they are inside the call (one cancellation per execution)
	cp := cancelPrograms()
	for i := range cp {
		for j := i; j < len(cp); j++ {
			addCancel("cancel2", [][]Op{cp[i], cp[j]}, sched.Bounds{P: 2, F: 1, Horizon: horizon})
			if thorough {
				for _, q := range [][]Op{{op("ts")}, {op("low")}, {val("ext", false)}} {
					addCancel("cancel3", [][]Op{cp[i], cp[j], q}, sched.Bounds{P: 2, F: 2, Horizon: horizon})
				}
			}
		}
	}
	if thorough {
		t3 := thirdPrograms()
		for i := range ps {
			for j := i; j < len(ps); j++ {
				for _, q := range t3 {
					if hasLocal(ps[i]) || hasLocal(ps[j]) {
						continue // the second scope is exercised with two callers only
					}
					add("conc3", [][]Op{ps[i], ps[j], q}, false, false, sched.Bounds{P: 2, F: 0, Horizon: horizon})
				}
				add("tick2x", [][]Op{ps[i], ps[j]}, true, false, sched.Bounds{P: 2, F: 1, Horizon: horizon})
			}
		}
	}
	return out
}

func main() {
	log.ReplaceGlobals(zap.NewNop(), &log.ZapProperties{Level: zap.NewAtomicLevel()})
	run := ev.Start("C13", "model_checking")
	thorough := run.Thorough()
	budget := 240 * time.Second
	if thorough {
		budget = 32 * time.Minute
	}
	if s := os.Getenv("VERIF_BUDGET_S"); s != "" {
		var n int
		fmt.Sscan(s, &n)
		budget = time.Duration(n) * time.Second
	}

	var jobs []sched.Job
	replayers := map[string]func(trace []string, n int) [][]sched.Violation{}

	// Part B first (cheap, simplest cases first), then C, then A.
	maxLen := 4
	for _, to := range cwTimeouts() {
		for _, sh := range cwShapes() {
			for _, first := range []int{ansBelow, ansEqual, ansAbove, ansErr} {
				j := cwJob(to, sh, first, maxLen)
				name := j.Name
				jobs = append(jobs, j)
				replayers[name] = func(trace []string, n int) [][]sched.Violation { return cwReplay(name, trace, n) }
			}
		}
	}
	jobs = append(jobs, expiryJob())
	replayers["expiry/grid"] = func(trace []string, n int) [][]sched.Violation {
		var out [][]sched.Violation
		for i := 0; i < n; i++ {
			var vs []sched.Violation
			for _, v := range expiryRun("expiry/grid").Violations {
				vs = append(vs, sched.Violation{Key: v.Key, What: v.What})
			}
			out = append(out, vs)
		}
		return out
	}
	specs := append(gridSpecs(thorough), concSpecs(thorough)...)
	for _, sp := range specs {
		sp := sp
		jobs = append(jobs, sched.Job{Name: sp.name, Run: func(dl time.Time) sched.Report {
			sc := sp.mk()
			b := sp.b
			b.Deadline = dl
			x := &sched.Explorer{Sc: sc, B: b}
			x.Outcome = sc.outcome
			return x.Explore(false)
		}})
		replayers[sp.name] = func(trace []string, n int) [][]sched.Violation {
			b := sp.b
			b.P, b.F = 99, 99
			x := &sched.Explorer{Sc: sp.mk(), B: b}
			return x.Replay(trace, n)
		}
	}

	if handleReplay(replayers) {
		return
	}
	res := sched.RunSharded(jobs, budget)
	finish(run, jobs, res, thorough)
}

// ---- replay / finish (adapted from /verif/txn/common) ----

type replayFile struct {
	Property string `json:"property"`
	Key      string `json:"key"`
	Replay   struct {
		Scenario string   `json:"scenario"`
		Trace    []string `json:"trace"`
		RawKey   string   `json:"raw_key"`
	} `json:"replay"`
}

func handleReplay(replayers map[string]func([]string, int) [][]sched.Violation) bool {
	file, confirm := "", false
	for i, a := range os.Args {
		if a == "--replay" && i+1 < len(os.Args) {
			file = os.Args[i+1]
		}
		if a == "--confirm" {
			confirm = true
		}
	}
	if file == "" {
		return false
	}
	runtime.GOMAXPROCS(1)
	raw, err := os.ReadFile(file)
	if err != nil {
		fmt.Fprintln(os.Stderr, err)
		os.Exit(2)
	}
	var rf replayFile
	if err := json.Unmarshal(raw, &rf); err != nil {
		fmt.Fprintln(os.Stderr, err)
		os.Exit(2)
	}
	rp, ok := replayers[rf.Replay.Scenario]
	if !ok {
		fmt.Fprintf(os.Stderr, "replay: scenario %q not in the table (thorough-only scenarios need VERIF_TIER=thorough)\n", rf.Replay.Scenario)
		os.Exit(2)
	}
	key := rf.Key
	if rf.Replay.RawKey != "" {
		key = rf.Replay.RawKey
	}
	res := rp(rf.Replay.Trace, 5)
	hits := 0
	for _, vs := range res {
		for _, v := range vs {
			if v.Key == key {
				hits++
				if !confirm && hits == 1 {
					fmt.Printf("replay: %s: %s\n", v.Key, v.What)
				}
				break
			}
		}
	}
	fmt.Printf("REPLAY-RESULT hits=%d runs=%d\n", hits, len(res))
	if confirm {
		os.Exit(0)
	}
	if hits > 0 {
		fmt.Printf("VIOLATION property=%s replay=%s\n", rf.Property, file)
		os.Exit(1)
	}
	os.Exit(0)
	return true
}

// confirmViolation re-runs a violation's schedule in a fresh GOMAXPROCS=1 process; it must
// fail in all 5 runs to be believed.
func confirmViolation(property, key, scenario string, trace []string) (bool, string) {
	dir, err := os.MkdirTemp("", "verif-confirm-")
	if err != nil {
		return true, ""
	}
	defer os.RemoveAll(dir)
	f := dir + "/r.json"
	b, _ := json.Marshal(map[string]any{"property": property, "key": key, "replay": map[string]any{"scenario": scenario, "trace": trace}})
	os.WriteFile(f, b, 0o644)
	exe, _ := os.Executable()
	cmd := exec.Command(exe, "--replay", f, "--confirm")
	cmd.Env = append(os.Environ(), "GOMAXPROCS=1", "VERIF_WORKER=")
	out, _ := cmd.CombinedOutput()
	var hits, runs int
	for _, line := range strings.Split(string(out), "\n") {
		if strings.HasPrefix(line, "REPLAY-RESULT") {
			fmt.Sscanf(line, "REPLAY-RESULT hits=%d runs=%d", &hits, &runs)
		}
	}
	return runs > 0 && hits == runs, fmt.Sprintf("hits=%d/%d", hits, runs)
}

func finish(run *ev.Run, jobs []sched.Job, res sched.ShardResult, thorough bool) {
	m := sched.MergeReports(res.Reports)
	if os.Getenv("VERIF_C13_VERBOSE") != "" {
		for _, r := range res.Reports {
			if r.Diverged > 0 || r.Deadlocks > 0 || r.Horizons > 0 || r.NoQuiesce > 0 || r.TimedOut || os.Getenv("VERIF_C13_VERBOSE") == "all" {
				fmt.Fprintf(os.Stderr, "scenario %s: exec=%d nodes=%d diverged=%d deadlocks=%d horizons=%d noquiesce=%d timedout=%v depth=%d\n", r.Scenario, r.Executions, r.Nodes, r.Diverged, r.Deadlocks, r.Horizons, r.NoQuiesce, r.TimedOut, r.MaxDepth)
			}
		}
	}
	if res.Unstarted > 0 {
		run.Incomplete(fmt.Sprintf("%d of %d scenarios not started within the time budget", res.Unstarted, len(jobs)))
	}
	if m.TimedOut > 0 {
		run.Incomplete(fmt.Sprintf("%d scenarios stopped by the time budget before their tree was exhausted", m.TimedOut))
	}
	if m.Capped > 0 {
		run.Incomplete(fmt.Sprintf("%d scenarios hit the per-scenario execution cap", m.Capped))
	}
	if m.Diverged > 0 {
		run.Incomplete(fmt.Sprintf("%d replays diverged (residual nondeterminism); their subtrees are unexplored", m.Diverged))
	}
	if m.NoQuiesce > 0 {
		run.Incomplete(fmt.Sprintf("%d executions did not reach quiescence", m.NoQuiesce))
	}
	if m.Scenarios < len(jobs) && res.Unstarted == 0 && os.Getenv("VERIF_ONLY") == "" {
		run.Incomplete(fmt.Sprintf("only %d of %d scenarios reported", m.Scenarios, len(jobs)))
	}
	for _, c := range res.Crashed {
		run.Incomplete("worker crashed")
		run.Note("%s", c)
		fmt.Fprintln(os.Stderr, c)
	}
	keys := make([]string, 0, len(m.Violations))
	for k := range m.Violations {
		keys = append(keys, k)
	}
	sort.Strings(keys)
	unconfirmed := 0
	for _, k := range keys {
		v := m.Violations[k]
		ok, info := confirmViolation(run.Property, k, m.VScenario[k], v.Trace)
		if !ok {
			unconfirmed++
			run.Note("violation %s in %s did not reproduce deterministically (%s): not reported", k, m.VScenario[k], info)
			continue
		}
		run.Violation(k, fmt.Sprintf("[%s] %s (x%d)", m.VScenario[k], v.What, v.Count), map[string]any{"scenario": m.VScenario[k], "trace": v.Trace, "raw_key": k})
	}
	if unconfirmed > 0 {
		run.Incomplete(fmt.Sprintf("%d violation candidates were not reproducible and are not reported", unconfirmed))
	}
	// per-part counts
	part := map[string]map[string]int64{}
	for _, r := range res.Reports {
		p := r.Scenario
		if i := strings.IndexByte(p, '/'); i > 0 {
			p = p[:i]
		}
		if part[p] == nil {
			part[p] = map[string]int64{}
		}
		part[p]["scenarios"]++
		part[p]["executions"] += r.Executions
		part[p]["states"] += r.Nodes
		part[p]["transitions"] += r.Transitions
	}
	unbounded := int64(0)
	for k, n := range m.Outcomes {
		if strings.HasPrefix(k, "commitwait:unbounded-wait") {
			unbounded += n
		}
	}
	if unbounded > 0 {
		run.Note("commit-wait: %d cases with a timeout in (0,1ms) did not end on their own (retry.NewBackoffer(ctx, int(maxSleep.Milliseconds())) gets budget 0 = unlimited) and were cancelled after %d PD calls; termination is not part of C13", unbounded, seqCallCap)
	}
	if n := m.Outcomes["expiry:extreme-ttl:consistent=false"]; n > 0 {
		run.Note("expiry: for %d probed inputs with TTL >= 2^62 ms IsExpired and UntilExpired disagree because ExtractPhysical(lockTS)+int64(TTL) (and the subtraction in UntilExpired) wrap around; such TTLs are outside the verdict grid", n)
	}
	// adaptive-interval states reached (non-vacuity of part C): number of outcome classes whose trajectory contains the state
	adaptiveSeen := map[string]int64{}
	for k := range m.Outcomes {
		for _, st := range []string{"normal", "adapting", "recovering", "unadjustable"} {
			if strings.Contains(k, st+"/") {
				adaptiveSeen[st]++
			}
		}
		if strings.Contains(k, "recovering/") && strings.Contains(k[strings.Index(k, "recovering/"):], ">normal/") {
			adaptiveSeen["recovering>normal"]++
		}
		if strings.Contains(k, "adapting/") && strings.Contains(k[strings.Index(k, "adapting/"):], ">normal/") {
			adaptiveSeen["adapting>..>normal"]++
		}
		if strings.Contains(k, "adapting/") && strings.Contains(k[strings.Index(k, "adapting/"):], ">recovering/") {
			adaptiveSeen["adapting>recovering"]++
		}
	}
	distinct := len(m.Outcomes)
	cov := ev.Coverage{
		"adaptive_states_in_outcome_classes": adaptiveSeen,
		"evaluations":                        m.Executions,
		"distinct_nontrivial":                distinct,
		"states":                             m.Nodes,
		"transitions":                        m.Transitions,
		"traces_validated_against_impl":      m.Executions,
		"scenarios":                          m.Scenarios,
		"scenarios_in_table":                 len(jobs),
		"executions":                         m.Executions,
		"max_depth":                          m.MaxDepth,
		"inconclusive_deadlock":              m.Deadlocks,
		"inconclusive_horizon":               m.Horizons,
		"diverged":                           m.Diverged,
		"distinct_outcomes":                  distinct,
		"outcomes":                           topOutcomes(m.Outcomes, 40),
		"per_part":                           part,
		"bounds": map[string]any{
			"callers": map[bool]int{false: 2, true: 3}[thorough], "calls_per_caller": "1-2", "preemptions": 2, "ticks": 1,
			"horizon": horizon, "commit_wait_script_len": 4, "commit_wait_timeouts": []string{"0", "500us", "5ms", "10s"},
			"grid": gridBounds(thorough),
		},
		"rule": "A: every unordered pair (thorough: plus a third caller) of caller programs (every single call of {GetTimestamp, GetTimestampAsync+Wait, GetLowResolutionTimestamp (global scope and a second, initially uncached scope), GetStaleTimestamp(0|huge), IsExpired/UntilExpired(ttl 1|2), " +
			"ValidateReadTS(ts in {issued to another PD client just before, own last, latest returned to another caller, max issued+1, far future, MaxInt64, MaxUint64} x stale flag), SetLowResolutionTimestampUpdateInterval} and selected 2-call programs) on the real pdOracle; " +
			"per scenario a deviation-bounded DFS over all interleavings of scheduler points (call start, PD issue, PD deliver, atomic Load/Store/CAS of the cached-ts pointer; thorough: integer atomics too when the updateTS goroutine runs) with <= P preemptions, and <= F firings of the updateTS ticker (conc*: no background goroutine, P=2; tick2: P=1,F=1; tick2x: P=2,F=1); " +
			"B: all PD answer scripts over {c-1,c,c+1,error} of length <= 4 (last answer repeats) x timeout x shape of c on KVTxn.GetTimestampForCommit over a real KVStore; " +
			"C: grid (configured interval x staleness x elapsed) x {interval given at creation, set by SetLowResolutionTimestampUpdateInterval} with <= F ticks anywhere; " +
			"D: IsExpired/UntilExpired over a grid (lock ts around the cached ts x TTL) with the cache frozen, repeated after each of 3 cache updates; " +
			"states = distinct nodes of the schedule trees (B, D: distinct inputs), transitions = scheduler events executed on the real code incl. replayed prefixes (B: PD answers consumed + calls; D: calls), every execution is an implementation run; " +
			"distinct_nontrivial = distinct outcome classes (per-call results as PD issue numbers / accept-reject / expiry answers, final cached ts, adaptive-interval trajectory)",
		"samples": m.Samples,
	}
	if len(m.Samples) == 0 {
		cov["samples"] = []any{"(no execution finished)"}
	}
	run.Finish(cov, []string{
		"interleavings at scheduler-point granularity: call boundaries, PD issue/deliver, atomic operations of pd.go (sync.Map, sync.Mutex and singleflight internals are not points); cooperative runs cannot see data races",
		"PD issues strictly increasing timestamps (physical = T0 + virtual ms + issue count, logical = issue count); responses may be delivered in any order",
		"math.MaxUint64 without the stale-read flag is the 'read latest' sentinel: ValidateReadTS accepting it is not counted as accepting a future timestamp",
		"GetStaleTimestamp is only required not to exceed the largest issued timestamp while the virtual clock has not moved (it is an estimate otherwise)",
		"IsExpired/UntilExpired are compared only when GetLowResolutionTimestamp returned the same value right before and right after the pair",
		"commit-wait: after the script's last element PD repeats it; first GetTimestampWithRetry runs with a 3000 ms back-off budget; jitter fixed to its maximum; termination is not judged",
		"deadlocked / horizon-capped executions are counted as inconclusive (the property does not speak about termination)",
	})
}

func topOutcomes(m map[string]int64, n int) map[string]int64 {
	type kv struct {
		k string
		v int64
	}
	var l []kv
	for k, v := range m {
		l = append(l, kv{k, v})
	}
	sort.Slice(l, func(i, j int) bool { return l[i].v > l[j].v || (l[i].v == l[j].v && l[i].k < l[j].k) })
	out := map[string]int64{}
	for i, e := range l {
		if i >= n {
			break
		}
		k := e.k
		if len(k) > 160 {
			k = k[:160]
		}
		out[k] += e.v
	}
	return out
}

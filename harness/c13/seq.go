package main

import (
	"context"
	"errors"
	"fmt"
	"strings"
	"sync"
	"time"

	"github.com/tikv/client-go/v2/config/retry"
	tikverr "github.com/tikv/client-go/v2/error"
	"github.com/tikv/client-go/v2/oracle"
	"github.com/tikv/client-go/v2/testutils"
	"github.com/tikv/client-go/v2/tikv"
	"github.com/tikv/client-go/v2/verifrt/c13atomic"
	"github.com/tikv/client-go/v2/verifrt/sched"
	pd "github.com/tikv/pd/client"
	"github.com/tikv/pd/client/clients/tso"
	"github.com/tikv/pd/client/pkg/caller"
)

// Sequential part 1: KVTxn.GetTimestampForCommit (commit-wait) on a real KVStore (mock TiKV
// underneath, real pdOracle, real KVStore.GetTimestampWithRetry, real Backoffer under the virtual
// clock) over a PD whose answers follow a script from {c-1, c, c+1, error}; after the script's
// last element PD keeps repeating it.

const (
	ansBelow = -1
	ansEqual = 0
	ansAbove = 1
	ansErr   = 9
)

func ansName(a int) string {
	switch a {
	case ansBelow:
		return "c-1"
	case ansEqual:
		return "c"
	case ansAbove:
		return "c+1"
	}
	return "err"
}

type seqPD struct {
	pd.Client // mocktikv's PD client: region / store / GC queries pass through
	mu        sync.Mutex
	free      int64 // timestamps handed out while not armed
	armed     bool
	script    []int
	pos       int
	c         uint64
	served    int64 // scripted answers served (all cases)
	capHit    bool
	cancel    context.CancelFunc
}

const seqCallCap = 96

func (p *seqPD) WithCallerComponent(caller.Component) pd.Client { return p }

func (p *seqPD) GetTS(ctx context.Context) (int64, int64, error) {
	p.mu.Lock()
	defer p.mu.Unlock()
	if !p.armed {
		p.free++
		return t0ms, p.free, nil
	}
	if p.pos >= seqCallCap {
		// the call under test does not end on its own (see the note on sub-millisecond timeouts):
		// cancel its context so that the back-off loop returns
		p.capHit = true
		if p.cancel != nil {
			p.cancel()
		}
		return 0, 0, errors.New("scripted PD: call cap reached")
	}
	i := p.pos
	if i >= len(p.script) {
		i = len(p.script) - 1
	}
	p.pos++
	p.served++
	a := p.script[i]
	if a == ansErr {
		return 0, 0, errors.New("scripted PD error")
	}
	ts := uint64(int64(p.c) + int64(a))
	return oracle.ExtractPhysical(ts), oracle.ExtractLogical(ts), nil
}

type readyFuture struct {
	ph, lg int64
	err    error
}

func (f readyFuture) Wait() (int64, int64, error) { return f.ph, f.lg, f.err }

func (p *seqPD) GetTSAsync(ctx context.Context) tso.TSFuture {
	ph, lg, err := p.GetTS(ctx)
	return readyFuture{ph, lg, err}
}

type cwShape struct {
	name string
	c    uint64
}

func cwShapes() []cwShape {
	return []cwShape{
		{"mid", oracle.ComposeTS(t0ms+50, 1000)}, // c-1, c, c+1 share the physical part
		{"edge", oracle.ComposeTS(t0ms+50, 0)},   // c-1 lies in the previous millisecond
	}
}

type cwTimeout struct {
	name string
	d    time.Duration
}

func cwTimeouts() []cwTimeout {
	return []cwTimeout{{"0", 0}, {"500us", 500 * time.Microsecond}, {"5ms", 5 * time.Millisecond}, {"10s", 10 * time.Second}}
}

type cwWorld struct {
	store *tikv.KVStore
	pd    *seqPD
}

func newCWWorld() (*cwWorld, error) {
	client, cluster, pdc, err := testutils.NewMockTiKV("", nil)
	if err != nil {
		return nil, err
	}
	testutils.BootstrapWithSingleStore(cluster)
	p := &seqPD{Client: pdc}
	store, err := tikv.NewTestTiKVStore(client, p, nil, nil, 0)
	if err != nil {
		return nil, err
	}
	return &cwWorld{store: store, pd: p}, nil
}

type cwResult struct {
	ts     uint64
	err    error
	capHit bool
	calls  int
	panic  string
}

func (w *cwWorld) run(c uint64, timeout time.Duration, script []int) (res cwResult) {
	start := uint64(oracle.ComposeTS(t0ms, 1))
	txn, err := w.store.Begin(tikv.WithStartTS(start))
	if err != nil {
		res.err = err
		res.panic = "Begin failed: " + err.Error()
		return
	}
	txn.SetCommitWaitUntilTSO(c)
	txn.SetCommitWaitUntilTSOTimeout(timeout)
	ctx, cancel := context.WithCancel(context.Background())
	defer cancel()
	p := w.pd
	p.mu.Lock()
	p.armed, p.script, p.pos, p.c, p.capHit, p.cancel = true, script, 0, c, false, cancel
	p.mu.Unlock()
	defer func() {
		if r := recover(); r != nil {
			res.panic = fmt.Sprint(r)
		}
		p.mu.Lock()
		p.armed = false
		res.capHit = p.capHit
		res.calls = p.pos
		p.cancel = nil
		p.mu.Unlock()
	}()
	bo := retry.NewBackofferWithVars(ctx, 3000, nil)
	res.ts, res.err = txn.GetTimestampForCommit(bo, oracle.GlobalTxnScope)
	return
}

func scriptString(s []int) string {
	var n []string
	for _, a := range s {
		n = append(n, ansName(a))
	}
	return strings.Join(n, ",")
}

func parseScript(s string) []int {
	var out []int
	for _, f := range strings.Split(s, ",") {
		switch f {
		case "c-1":
			out = append(out, ansBelow)
		case "c":
			out = append(out, ansEqual)
		case "c+1":
			out = append(out, ansAbove)
		case "err":
			out = append(out, ansErr)
		}
	}
	return out
}

// cwJudge is the oracle: the call fails or returns a timestamp strictly greater than c.
func cwJudge(sh cwShape, to cwTimeout, script []int, r cwResult) (outcome string, v *sched.Violation) {
	id := fmt.Sprintf("timeout=%s c=%s script=%s", to.name, sh.name, scriptString(script))
	switch {
	case r.panic != "":
		return "panic", &sched.Violation{Key: "commit-wait:panic", What: id + ": " + r.panic}
	case r.capHit:
		// not a statement of the property (termination); counted and reported as a note
		return "unbounded-wait(cancelled-after-cap)", nil
	case r.err != nil:
		switch {
		case tikverr.IsErrorCommitTSLag(r.err):
			return fmt.Sprintf("lag-error/calls=%d", r.calls), nil
		default:
			return fmt.Sprintf("pd-error/calls=%d", r.calls), nil
		}
	case r.ts > sh.c:
		return fmt.Sprintf("ok:c+%d/calls=%d", r.ts-sh.c, r.calls), nil
	}
	rel := "c"
	if r.ts < sh.c {
		rel = fmt.Sprintf("c-%d", sh.c-r.ts)
	}
	first := ansName(script[0])
	return "BAD", &sched.Violation{Key: "commit-wait:ts-not-above-constraint:first-answer=" + first + ":returned=" + rel,
		What: id + fmt.Sprintf(": GetTimestampForCommit returned %d without error, constraint %d", r.ts, sh.c)}
}

// allScripts enumerates scripts with the given first answer, shortest first.
func allScripts(first int, maxLen int) [][]int {
	alpha := []int{ansBelow, ansEqual, ansAbove, ansErr}
	out := [][]int{{first}}
	frontier := [][]int{{first}}
	for l := 2; l <= maxLen; l++ {
		var next [][]int
		for _, s := range frontier {
			for _, a := range alpha {
				n := append(append([]int{}, s...), a)
				next = append(next, n)
			}
		}
		out = append(out, next...)
		frontier = next
	}
	return out
}

func cwJobName(to cwTimeout, sh cwShape, first int) string {
	return fmt.Sprintf("commitwait/timeout=%s/c=%s/first=%s", to.name, sh.name, ansName(first))
}

// seqBegin / seqEnd bracket a sequential job: a controlled execution in its synchronous phase
// (virtual clock, sleeps elapse at once, tickers never fire, scheduler points pass through).
func seqBegin() {
	c13atomic.Reset()
	sched.Reset()
	sched.BeginSetup()
}

func seqEnd() {
	sched.Close()
}

func cwJob(to cwTimeout, sh cwShape, first int, maxLen int) sched.Job {
	name := cwJobName(to, sh, first)
	return sched.Job{Name: name, Run: func(dl time.Time) sched.Report {
		rep := sched.Report{Scenario: name, Outcomes: map[string]int64{}}
		seqBegin()
		defer seqEnd()
		w, err := newCWWorld()
		if err != nil {
			rep.Violations = append(rep.Violations, sched.FoundViolation{Key: "harness:cannot-build-store", What: err.Error(), Count: 1})
			return rep
		}
		defer w.store.Close()
		viol := map[string]*sched.FoundViolation{}
		for _, sc := range allScripts(first, maxLen) {
			if !dl.IsZero() && time.Now().After(dl) {
				rep.TimedOut = true
				break
			}
			r := w.run(sh.c, to.d, sc)
			oc, v := cwJudge(sh, to, sc, r)
			rep.Executions++
			rep.Nodes++
			rep.Transitions += int64(r.calls) + 1
			rep.Outcomes["commitwait:"+oc]++
			if len(sc) > rep.MaxDepth {
				rep.MaxDepth = len(sc)
			}
			if len(rep.SampleTraces) < 2 || (rep.Executions%37 == 0 && len(rep.SampleTraces) < 4) {
				rep.SampleTraces = append(rep.SampleTraces, []string{"script=" + scriptString(sc), "outcome=" + oc})
			}
			if v != nil {
				if fv, ok := viol[v.Key]; ok {
					fv.Count++
				} else {
					viol[v.Key] = &sched.FoundViolation{Key: v.Key, What: v.What, Trace: strings.Split(scriptString(sc), ","), Count: 1} // one element per answer: the shortest script wins the merge
				}
			}
		}
		for _, fv := range viol {
			rep.Violations = append(rep.Violations, *fv)
		}
		return rep
	}}
}

// cwReplay re-runs one stored case n times.
func cwReplay(name string, trace []string, n int) [][]sched.Violation {
	var out [][]sched.Violation
	for _, to := range cwTimeouts() {
		for _, sh := range cwShapes() {
			for _, first := range []int{ansBelow, ansEqual, ansAbove, ansErr} {
				if cwJobName(to, sh, first) != name {
					continue
				}
				if len(trace) == 0 {
					return nil
				}
				sc := parseScript(strings.Join(trace, ","))
				for i := 0; i < n; i++ {
					seqBegin()
					w, err := newCWWorld()
					if err != nil {
						seqEnd()
						out = append(out, []sched.Violation{{Key: "harness:cannot-build-store", What: err.Error()}})
						continue
					}
					r := w.run(sh.c, to.d, sc)
					_, v := cwJudge(sh, to, sc, r)
					w.store.Close()
					seqEnd()
					if v != nil {
						out = append(out, []sched.Violation{*v})
					} else {
						out = append(out, nil)
					}
				}
				return out
			}
		}
	}
	return nil
}

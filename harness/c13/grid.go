package main

import (
	"fmt"
	"time"

	"github.com/tikv/client-go/v2/verifrt/sched"
)

// Part C: the adaptive update interval. nextUpdateInterval is reached only through its real
// callers: the updateTS goroutine on a tick (requiredStaleness = 0) and on the shrink channel
// fed by ValidateReadTS(stale read) -> adjustUpdateLowResolutionTSIntervalWithRequestedStaleness.
// One caller runs
//     [setint(cfg)] ; validate-stale(ts aged by st) ; sleep(el) ; low ; sleep(1s) ; validate-stale(ts aged by st) ; sleep(1ms) ; low
// under the virtual clock (a sleep elapses when nothing else can run, so the background goroutine
// finishes its work first); the ticker of updateTS fires as an explorer transition at any
// decision point (<= F times). The oracle is the same as in part A (cached ts monotone and not
// ahead of PD at every step, validation accepts the issued ts) and the adaptive-interval
// trajectory is part of the outcome class.

func gridDims() (cfgs, stales, elapsed []time.Duration) {
	cfgs = []time.Duration{400 * time.Millisecond, 500 * time.Millisecond, 600 * time.Millisecond, 2 * time.Second, 10 * time.Second}
	stales = []time.Duration{0, 300 * time.Millisecond, 650 * time.Millisecond, 1500 * time.Millisecond, 8 * time.Second}
	elapsed = []time.Duration{0, time.Second, 5 * time.Minute, 6 * time.Minute}
	return
}

func gridBounds(thorough bool) map[string]any {
	c, s, e := gridDims()
	b := gridB(thorough)
	return map[string]any{"configured": fmt.Sprint(c), "staleness": fmt.Sprint(s), "elapsed": fmt.Sprint(e), "ticks": b.F, "preemptions": b.P}
}

func gridB(thorough bool) sched.Bounds {
	b := sched.Bounds{P: 0, F: 2, Horizon: horizon}
	if thorough {
		b.P = 1
	}
	return b
}

func gridSpecs(thorough bool) []spec {
	var out []spec
	cfgs, stales, elapsed := gridDims()
	for _, variant := range []string{"init", "set"} {
		for _, cfg := range cfgs {
			for _, st := range stales {
				for _, el := range elapsed {
					variant, cfg, st, el := variant, cfg, st, el
					name := fmt.Sprintf("grid/%s/cfg=%v/stale=%v/elapsed=%v", variant, cfg, st, el)
					prog := []Op{durOp("vsa", st), durOp("adv", el), op("low"), durOp("adv", time.Second), durOp("vsa", st), durOp("adv", time.Millisecond), op("low")}
					iv := cfg
					if variant == "set" {
						iv = 2 * time.Second
						prog = append([]Op{durOp("setint", cfg)}, prog...)
					}
					out = append(out, spec{name: name, b: gridB(thorough), mk: func() *scen {
						return &scen{name: name, progs: [][]Op{prog}, interval: iv, tick: true, ints: thorough, validation: true}
					}})
				}
			}
		}
	}
	return out
}

package main

import (
	"context"
	"errors"
	"fmt"
	"math"
	"os"
	"runtime"
	"sort"
	"strings"
	"sync"
	"time"

	"github.com/tikv/client-go/v2/oracle"
	"github.com/tikv/client-go/v2/oracle/oracles"
	"github.com/tikv/client-go/v2/verifrt/c13atomic"
	"github.com/tikv/client-go/v2/verifrt/c13x/ctime"
	"github.com/tikv/client-go/v2/verifrt/sched"
	"github.com/tikv/client-go/v2/verifrt/stime"
	pd "github.com/tikv/pd/client"
	"github.com/tikv/pd/client/clients/tso"
	"github.com/tikv/pd/client/pkg/caller"
)

const (
	actorBG      = 8 // the oracle's own updateTS goroutine
	actorUnknown = 9
	actorExtern  = -1 // another client of the same PD (timestamps issued without the oracle under test)
	actorSetup   = 0  // NewPdOracle's initial GetTimestamp
)

var t0ms = sched.T0.UnixMilli()

// ---- scripted PD with issue / deliver as separate explorer transitions ----

type issueRec struct {
	ts    uint64
	stamp int64
	to    int
}

type schedPD struct {
	pd.Client // nil: only the methods the oracle uses are implemented
	w         *world
	mu        sync.Mutex
	count     int64
	issued    []issueRec
	delivered int
}

var errAborted = errors.New("execution torn down")

func (p *schedPD) WithCallerComponent(caller.Component) pd.Client { return p }

// issue makes PD assign the next timestamp: physical = T0 + virtual ms + number of
// timestamps issued so far (so that physical parts differ between responses even when the
// virtual clock stands still), logical = running counter: strictly increasing.
func (p *schedPD) issue(to int) (int64, int64) {
	p.mu.Lock()
	defer p.mu.Unlock()
	p.count++
	ph := t0ms + sched.NowNS()/int64(time.Millisecond) + p.count
	lg := p.count
	p.issued = append(p.issued, issueRec{ts: oracle.ComposeTS(ph, lg), stamp: p.w.tick(), to: to})
	return ph, lg
}

func (p *schedPD) issueExtern() uint64 {
	ph, lg := p.issue(actorExtern)
	return oracle.ComposeTS(ph, lg)
}

func (p *schedPD) max() uint64 {
	p.mu.Lock()
	defer p.mu.Unlock()
	if len(p.issued) == 0 {
		return 0
	}
	return p.issued[len(p.issued)-1].ts
}

func (p *schedPD) nIssued() int {
	p.mu.Lock()
	defer p.mu.Unlock()
	return len(p.issued)
}

// indexOf returns the 1-based issue number of ts (0 if PD never issued it).
func (p *schedPD) indexOf(ts uint64) int {
	p.mu.Lock()
	defer p.mu.Unlock()
	i := sort.Search(len(p.issued), func(i int) bool { return p.issued[i].ts >= ts })
	if i < len(p.issued) && p.issued[i].ts == ts {
		return i + 1
	}
	return 0
}

func actor() int {
	if a, ok := c13atomic.ActorOf(); ok {
		return a
	}
	return actorUnknown
}

func (p *schedPD) GetTS(ctx context.Context) (int64, int64, error) {
	a := actor()
	if d := sched.Point(a, sched.KTSO, "tso-issue", nil); d.Kind == sched.Abort {
		return 0, 0, errAborted
	}
	// the request honours its context: cancelled before PD served it -> nothing is issued; cancelled while
	// the answer is outstanding -> the answer is dropped and the context's error returned
	if err := ctx.Err(); err != nil {
		return 0, 0, err
	}
	ph, lg := p.issue(a)
	if d := sched.Point(a, sched.KTSO, "tso-deliver", nil); d.Kind == sched.Abort {
		return 0, 0, errAborted
	}
	if err := ctx.Err(); err != nil {
		return 0, 0, err
	}
	p.mu.Lock()
	p.delivered++
	p.mu.Unlock()
	return ph, lg, nil
}

type schedFuture struct {
	done   chan struct{}
	ph, lg int64
	err    error
}

func (f *schedFuture) Wait() (int64, int64, error) {
	<-f.done
	return f.ph, f.lg, f.err
}

// GetTSAsync returns at once; the request is in flight: a helper goroutine acting for the
// caller parks at the issue point and then at the deliver point.
func (p *schedPD) GetTSAsync(ctx context.Context) tso.TSFuture {
	a := actor()
	f := &schedFuture{done: make(chan struct{})}
	go func() {
		defer close(f.done)
		if d := sched.Point(a, sched.KTSO, "tso-issue(async)", nil); d.Kind == sched.Abort {
			f.err = errAborted
			return
		}
		if f.err = ctx.Err(); f.err != nil {
			return
		}
		ph, lg := p.issue(a)
		if d := sched.Point(a, sched.KTSO, "tso-deliver(async)", nil); d.Kind == sched.Abort {
			f.err = errAborted
			return
		}
		if f.err = ctx.Err(); f.err != nil {
			return
		}
		f.ph, f.lg = ph, lg
		p.mu.Lock()
		p.delivered++
		p.mu.Unlock()
	}()
	return f
}

// ---- operations of the caller programs ----

// Op is one call of a caller program.
type Op struct {
	K string        // ts async low stale exp val setint adv vsa
	V string        // val: ext own other next far max mid
	S bool          // val: stale-read flag
	N uint64        // stale: prevSecond; exp: TTL
	D time.Duration // setint / adv / vsa
	L bool          // ts / async / low: use the second transaction scope (first use of a scope initialises its cache entry)
}

const localScope = "dc1"

func (o Op) opt() *oracle.Option {
	if o.L {
		return &oracle.Option{TxnScope: localScope}
	}
	return gopt
}

func (o Op) Name() string {
	switch o.K {
	case "stale", "exp":
		return fmt.Sprintf("%s:%d", o.K, o.N)
	case "val":
		if o.S {
			return "val:" + o.V + ":stale"
		}
		return "val:" + o.V
	case "setint", "adv", "vsa":
		return o.K + ":" + o.D.String()
	}
	if o.L {
		return o.K + "@" + localScope
	}
	return o.K
}

func progName(p []Op) string {
	var s []string
	for _, o := range p {
		s = append(s, o.Name())
	}
	return strings.Join(s, ",")
}

// lowRead is one observation of the low-resolution timestamp through the API.
type lowRead struct {
	Start, End int64
	TS         uint64
	MaxAtEnd   uint64
	By         string
	Scope      string
}

type callRec struct {
	Actor      int
	Op         Op
	Start, End int64
	Done       bool
	TS         uint64
	HasTS      bool // a fresh timestamp was returned (ts / async)
	Err        error
	// val
	ReadTS     uint64
	WasIssued  bool // PD had issued ReadTS before the call started
	MaxAtStart uint64
	MaxAtEnd   uint64
	// exp
	L0, L1  uint64
	Expired bool
	Until   int64
	// clock at the end of the call (virtual ns)
	Clock int64
	// the call's own context (scenarios of the cancellation family): cancelled by an explorer transition
	cancel    context.CancelFunc
	Cancelled bool
}

type world struct {
	sc      *scen
	pd      *schedPD
	o       oracle.Oracle
	mu      sync.Mutex
	stamp   int64
	recs    []*callRec
	lows    []lowRead
	setupTS uint64
	// step monitor (explorer goroutine only)
	monPrev   uint64
	monPrevL  uint64 // second scope
	monViol   map[string]string
	adaptive  []string
	bgPending bool
}

func (w *world) tick() int64 {
	w.mu.Lock()
	defer w.mu.Unlock()
	w.stamp++
	return w.stamp
}

var gopt = &oracle.Option{TxnScope: oracle.GlobalTxnScope}

func (w *world) low(by string, opt *oracle.Option) (uint64, error) {
	st := w.tick()
	ts, err := w.o.GetLowResolutionTimestamp(context.Background(), opt)
	if err == nil {
		lr := lowRead{Start: st, TS: ts, MaxAtEnd: w.pd.max(), By: by, Scope: opt.TxnScope}
		lr.End = w.tick()
		w.mu.Lock()
		w.lows = append(w.lows, lr)
		w.mu.Unlock()
	}
	return ts, err
}

// lockTS is the start ts of the lock used by the expiry ops: same physical part as the
// timestamp fetched during set-up, so that with TTL n the lock expires exactly when a
// timestamp issued n or more requests later has been cached.
func lockTS() uint64 { return oracle.ComposeTS(t0ms+1, 0) }

func (w *world) call(a int, op Op) bool {
	if d := sched.Point(a, sched.KAPI, "call:"+op.Name(), nil); d.Kind == sched.Abort {
		return false
	}
	r := &callRec{Actor: a, Op: op}
	ctx := context.Background()
	if w.sc.cancels && (op.K == "val" || op.K == "ts" || op.K == "async") {
		// every call has its own context: cancelling one caller's call is not another's cancellation
		var cancel context.CancelFunc
		ctx, cancel = context.WithCancel(ctx)
		defer cancel()
		r.cancel = cancel
	}
	switch op.K {
	case "val", "vsa":
		// choose the read timestamp before the call starts
		switch {
		case op.K == "vsa" || op.V == "ext":
			r.ReadTS = w.pd.issueExtern()
		case op.V == "own":
			w.mu.Lock()
			for _, q := range w.recs {
				if q.Actor == a && q.Done && q.HasTS {
					r.ReadTS = q.TS
				}
			}
			w.mu.Unlock()
			if r.ReadTS == 0 {
				r.ReadTS = w.pd.issueExtern()
			}
		case op.V == "other":
			r.ReadTS = w.setupTS
			w.mu.Lock()
			for _, q := range w.recs {
				if q.Actor != a && q.Done && q.HasTS && q.TS > r.ReadTS {
					r.ReadTS = q.TS
				}
			}
			w.mu.Unlock()
		case op.V == "next":
			r.ReadTS = w.pd.max() + 1
		case op.V == "far":
			r.ReadTS = w.pd.max() + 1000<<18
		case op.V == "max":
			r.ReadTS = math.MaxUint64
		case op.V == "mid":
			r.ReadTS = math.MaxInt64
		}
		if op.K == "vsa" {
			stime.Sleep(op.D) // the read timestamp ages by D before it is validated
		}
	}
	w.mu.Lock()
	w.recs = append(w.recs, r)
	w.mu.Unlock()
	r.MaxAtStart = w.pd.max()
	r.WasIssued = w.pd.indexOf(r.ReadTS) > 0
	r.Start = w.tick()
	switch op.K {
	case "ts":
		r.TS, r.Err = w.o.GetTimestamp(ctx, op.opt())
		r.HasTS = r.Err == nil
	case "async":
		f := w.o.GetTimestampAsync(ctx, op.opt())
		r.TS, r.Err = f.Wait()
		r.HasTS = r.Err == nil
	case "low":
		r.TS, r.Err = w.low("low", op.opt())
	case "stale":
		r.TS, r.Err = w.o.GetStaleTimestamp(ctx, oracle.GlobalTxnScope, op.N)
	case "exp":
		// both answers are compared only if the cached timestamp was the same before and after
		// (it never decreases, so equal ends mean it did not change in between)
		r.L0, _ = w.low("exp", gopt)
		r.Expired = w.o.IsExpired(lockTS(), op.N, gopt)
		r.Until = w.o.UntilExpired(lockTS(), op.N, gopt)
		r.L1, _ = w.low("exp", gopt)
	case "val":
		r.Err = w.o.ValidateReadTS(ctx, r.ReadTS, op.S, gopt)
	case "vsa":
		r.Err = w.o.ValidateReadTS(ctx, r.ReadTS, true, gopt)
	case "setint":
		r.Err = w.o.SetLowResolutionTimestampUpdateInterval(op.D)
	case "adv":
		stime.Sleep(op.D)
	}
	r.MaxAtEnd = w.pd.max()
	r.Clock = sched.NowNS()
	r.End = w.tick()
	if errors.Is(r.Err, errAborted) || (r.Err != nil && strings.Contains(r.Err.Error(), errAborted.Error())) {
		return false
	}
	r.Done = true
	return true
}

// ---- scenario ----

type scen struct {
	name       string
	progs      [][]Op
	interval   time.Duration // configured update interval at creation
	tick       bool          // run the oracle's updateTS goroutine (its ticker is an explorer transition)
	ints       bool          // integer atomics are points as well
	validation bool
	cancels    bool // "cancel the context of caller k's current call" is an explorer transition (cost: 1 fault)
	w          *world
}

func (s *scen) Name() string { return s.name }

func (s *scen) Setup() {
	c13atomic.Reset()
	w := &world{sc: s, monViol: map[string]string{}}
	w.pd = &schedPD{w: w}
	s.w = w
	oracles.EnableTSValidation.Store(s.validation)
	c13atomic.RegisterSpawner(actorBG)
	iv := s.interval
	if iv == 0 {
		iv = 2 * time.Second
	}
	o, err := oracles.NewPdOracle(w.pd, &oracles.PDOracleOptions{UpdateInterval: iv, NoUpdateTS: !s.tick})
	if err != nil {
		panic(err)
	}
	w.o = o
	// let the updateTS goroutine run to its select now (points are still off), so that where it
	// stands when the first decision is taken does not depend on when the Go scheduler first ran it
	sched.Quiesce()
	w.setupTS = w.pd.max()
	w.pd.issued[0].to = actorSetup
	w.monPrev, _ = oracles.VerifLastTS(o, oracle.GlobalTxnScope)
	for i, prog := range s.progs {
		a, prog := i+1, prog
		sched.Go(fmt.Sprintf("caller%d", a), func() {
			c13atomic.Register(a)
			for _, op := range prog {
				if !w.call(a, op) {
					return
				}
			}
		})
	}
	c13atomic.Enable(s.ints)
}

// Menu offers no deviation; it only notes whether the updateTS goroutine is parked at a point.
func (s *scen) Menu(e *sched.Event) []sched.Dev {
	if e.Actor == actorBG && s.w != nil {
		s.w.bgPending = true
	}
	return nil
}

// bgInSelect inspects the goroutine dump: is the updateTS goroutine blocked in its select?
func bgInSelect() bool {
	buf := make([]byte, 256<<10)
	n := runtime.Stack(buf, true)
	for _, blk := range strings.Split(string(buf[:n]), "\n\n") {
		if !strings.Contains(blk, "(*pdOracle).updateTS(") {
			continue
		}
		hdr := blk
		if i := strings.IndexByte(blk, '\n'); i >= 0 {
			hdr = blk[:i]
		}
		return strings.Contains(hdr, "[select")
	}
	return false
}

// tickChoice offers one firing of the updateTS ticker (cost: 1 fault) while some caller is
// unfinished and the updateTS goroutine is idle in its select with both of its channels empty:
// the tick is then consumed at once, so the ticker channel and the shrink channel are never
// ready together (Go's select would pick between them at random, which the explorer cannot
// own). A tick that arrives while the goroutine is busy is thereby modelled as arriving right
// after it has become idle.
func (s *scen) tickChoice() []sched.Choice {
	w := s.w
	pending := w.bgPending
	w.bgPending = false
	if !s.tick || pending || sched.Running() == 0 || oracles.VerifShrinkPending(w.o) {
		return nil
	}
	var tk *ctime.Ticker
	for _, t := range ctime.Tickers() {
		if strings.Contains(t.Label, "updateTS") {
			tk = t
		}
	}
	if tk == nil || tk.Pending() {
		return nil
	}
	// a caller parked inside SetLowResolutionTimestampUpdateInterval holds the mutex that
	// nextUpdateInterval takes: the goroutine may be blocked on it rather than idle
	w.mu.Lock()
	inSet := false
	for _, r := range w.recs {
		if r.Op.K == "setint" && !r.Done {
			inSet = true
		}
	}
	w.mu.Unlock()
	if inSet && !bgInSelect() {
		return nil
	}
	return []sched.Choice{{Key: "tick", FCost: 1, Fn: tk.Fire}}
}

// Extra is the per-step monitor (and offers the tick transition, see tickChoice): at every decision point (the
// process is quiescent) the cached timestamp is read white-box and compared with the previous
// step and with the largest timestamp PD has issued.
func (s *scen) Extra() []sched.Choice {
	w := s.w
	if w == nil || w.o == nil {
		return nil
	}
	for _, sc := range []struct {
		scope string
		prev  *uint64
	}{{oracle.GlobalTxnScope, &w.monPrev}, {localScope, &w.monPrevL}} {
		ts, ok := oracles.VerifLastTS(w.o, sc.scope)
		if !ok {
			continue
		}
		if ts < *sc.prev {
			w.monViol["cached-ts:decreased"] = fmt.Sprintf("cached (low-resolution) timestamp of scope %s went from #%d (%d) back to #%d (%d)", sc.scope, w.pd.indexOf(*sc.prev), *sc.prev, w.pd.indexOf(ts), ts)
		}
		if mx := w.pd.max(); ts > mx {
			w.monViol["cached-ts:ahead-of-pd"] = fmt.Sprintf("cached timestamp %d of scope %s exceeds the largest timestamp PD has issued (%d)", ts, sc.scope, mx)
		}
		*sc.prev = ts
	}
	if s.tick {
		cfg, ad, st := oracles.VerifAdaptive(w.o)
		cur := fmt.Sprintf("%s/%v/%v", st, time.Duration(cfg), time.Duration(ad))
		if n := len(w.adaptive); n == 0 || w.adaptive[n-1] != cur {
			w.adaptive = append(w.adaptive, cur)
		}
	}
	return append(s.cancelChoices(), s.tickChoice()...)
}

// cancelChoices offers, for every caller that is inside a call with a context of its own, the
// cancellation of that context (once per call).
func (s *scen) cancelChoices() []sched.Choice {
	if !s.cancels {
		return nil
	}
	w := s.w
	var out []sched.Choice
	w.mu.Lock()
	defer w.mu.Unlock()
	for _, r := range w.recs {
		if r.cancel == nil || r.Done || r.Cancelled || r.Start == 0 {
			continue
		}
		r := r
		out = append(out, sched.Choice{Key: fmt.Sprintf("cancel:a%d", r.Actor), FCost: 1, Fn: func() {
			r.Cancelled = true
			r.cancel()
		}})
	}
	return out
}

func (s *scen) StateKey() string { return "" }

func (s *scen) Teardown() {
	c13atomic.Disable()
	if s.w != nil && s.w.o != nil {
		s.w.o.Close()
	}
}

func valVariant(op Op) string {
	if op.K == "vsa" {
		return "ext-aged:stale"
	}
	if op.S {
		return op.V + ":stale"
	}
	return op.V
}

// Check is the oracle: only what the property states.
func (s *scen) Check(x *sched.Exec) []sched.Violation {
	c13atomic.Disable()
	w := s.w
	var out []sched.Violation
	if (x.Deadlock || x.Horizon) && os.Getenv("VERIF_C13_VERBOSE") != "" {
		fmt.Fprintf(os.Stderr, "INCONCLUSIVE deadlock=%v horizon=%v in %s: trace %v\n  outcome %s\n", x.Deadlock, x.Horizon, s.name, x.Trace, s.outcome(x))
		if os.Getenv("VERIF_C13_VERBOSE") == "stacks" {
			buf := make([]byte, 1<<20)
			fmt.Fprintf(os.Stderr, "%s\n", buf[:runtime.Stack(buf, true)])
			for _, st := range x.Steps[len(x.Steps)-1:] {
				fmt.Fprintf(os.Stderr, "last step: %+v\n", st)
			}
		}
	}
	add := func(key, what string) { out = append(out, sched.Violation{Key: key, What: what}) }
	w.mu.Lock()
	recs := append([]*callRec{}, w.recs...)
	lows := append([]lowRead{}, w.lows...)
	w.mu.Unlock()
	idx := func(ts uint64) string {
		if i := w.pd.indexOf(ts); i > 0 {
			return fmt.Sprintf("#%d", i)
		}
		return fmt.Sprintf("%d(not issued)", ts)
	}

	// (1) fresh timestamps strictly increase in real-time order across all callers
	type fresh struct {
		start, end int64
		ts         uint64
		who        string
	}
	fr := []fresh{{0, 0, w.setupTS, "setup:ts"}}
	for _, r := range recs {
		if r.Done && r.HasTS {
			fr = append(fr, fresh{r.Start, r.End, r.TS, fmt.Sprintf("a%d:%s", r.Actor, r.Op.Name())})
		}
	}
	for _, a := range fr {
		for _, b := range fr {
			if a.end < b.start && !(a.ts < b.ts) {
				ka, kb := a.who[strings.IndexByte(a.who, ':')+1:], b.who[strings.IndexByte(b.who, ':')+1:]
				add("fresh-ts:not-increasing:"+ka+"-then-"+kb, fmt.Sprintf("%s returned %s before %s started, which returned %s", a.who, idx(a.ts), b.who, idx(b.ts)))
			}
		}
	}

	// (2) low-resolution timestamp: never decreases (API reads in real-time order, and at every step) and
	// never exceeds the largest timestamp PD has issued at that moment
	for _, a := range lows {
		if a.TS > a.MaxAtEnd {
			add("lowres:ahead-of-pd", fmt.Sprintf("GetLowResolutionTimestamp returned %d > largest issued %d", a.TS, a.MaxAtEnd))
		}
		for _, b := range lows {
			if a.Scope == b.Scope && a.End < b.Start && a.TS > b.TS {
				add("lowres:decreased", fmt.Sprintf("GetLowResolutionTimestamp returned %s and a later call returned %s", idx(a.TS), idx(b.TS)))
			}
		}
	}
	mk := make([]string, 0, len(w.monViol))
	for k := range w.monViol {
		mk = append(mk, k)
	}
	sort.Strings(mk)
	for _, k := range mk {
		add(k, w.monViol[k])
	}

	for _, r := range recs {
		if !r.Done {
			continue
		}
		switch r.Op.K {
		case "exp":
			// (3) IsExpired == (UntilExpired <= 0) on the same cached timestamp
			if r.L0 == r.L1 && r.Expired != (r.Until <= 0) {
				add(fmt.Sprintf("expiry:inconsistent:ttl=%d", r.Op.N), fmt.Sprintf("cached ts %s unchanged, IsExpired=%v but UntilExpired=%d", idx(r.L0), r.Expired, r.Until))
			}
		case "val", "vsa":
			if !s.validation {
				continue
			}
			// (4) accepts every ts PD had issued before the call started; rejects every ts beyond what PD
			// has issued when the call returns (math.MaxUint64 without the stale-read flag is the
			// "read latest" sentinel, not a timestamp: no demand)
			// (a caller whose own context was cancelled may return the context's error)
			if r.WasIssued && r.Err != nil && !r.Cancelled {
				add("validate:rejected-issued-ts:"+valVariant(r.Op), fmt.Sprintf("a%d ValidateReadTS(%s) which PD had issued before the call: %v", r.Actor, idx(r.ReadTS), r.Err))
			}
			if r.ReadTS > r.MaxAtEnd && r.Err == nil && !(r.ReadTS == math.MaxUint64 && !(r.Op.S || r.Op.K == "vsa")) {
				add("validate:accepted-future-ts:"+valVariant(r.Op), fmt.Sprintf("a%d ValidateReadTS(%d) accepted although the largest issued ts at return is %d", r.Actor, r.ReadTS, r.MaxAtEnd))
			}
		case "stale":
			// derived from the cached timestamp: while the virtual clock has not moved it cannot be ahead of PD
			if r.Err == nil && r.Clock == 0 && r.TS > r.MaxAtEnd {
				add("stale-ts:ahead-of-pd", fmt.Sprintf("GetStaleTimestamp(%d) returned %d > largest issued %d with no time elapsed", r.Op.N, r.TS, r.MaxAtEnd))
			}
		}
	}
	return out
}

// outcome is the classification of a finished execution (distinct outcome count).
func (s *scen) outcome(x *sched.Exec) string {
	w := s.w
	var sb strings.Builder
	if x.Deadlock {
		sb.WriteString("DEADLOCK ")
	}
	if x.Horizon {
		sb.WriteString("HORIZON ")
	}
	w.mu.Lock()
	defer w.mu.Unlock()
	for _, r := range w.recs {
		fmt.Fprintf(&sb, "a%d:%s=", r.Actor, r.Op.Name())
		if r.Cancelled {
			sb.WriteString("(cancelled)")
		}
		if !r.Done {
			sb.WriteString("open ")
			continue
		}
		switch r.Op.K {
		case "ts", "async", "low":
			if r.Err != nil {
				sb.WriteString("err")
			} else {
				fmt.Fprintf(&sb, "#%d", w.pd.indexOf(r.TS))
			}
		case "stale":
			if r.Err != nil {
				sb.WriteString("err")
			} else {
				fmt.Fprintf(&sb, "phys+%d", oracle.ExtractPhysical(r.TS)-t0ms)
			}
		case "exp":
			fmt.Fprintf(&sb, "#%d/%v/%d/#%d", w.pd.indexOf(r.L0), r.Expired, r.Until, w.pd.indexOf(r.L1))
		case "val", "vsa":
			if r.Err != nil {
				e := r.Err.Error()
				if len(e) > 24 {
					e = e[:24]
				}
				fmt.Fprintf(&sb, "reject(%s)", e)
			} else {
				sb.WriteString("ok")
			}
			fmt.Fprintf(&sb, "/issued+%d", w.pd.indexOf(r.MaxAtEnd)-w.pd.indexOf(r.MaxAtStart))
		default:
			if r.Err != nil {
				sb.WriteString("err")
			} else {
				sb.WriteString("ok")
			}
		}
		sb.WriteString(" ")
	}
	fmt.Fprintf(&sb, "cached=#%d/%d", w.pd.indexOf(w.monPrev), len(w.pd.issued))
	if w.monPrevL != 0 {
		fmt.Fprintf(&sb, " %s=#%d", localScope, w.pd.indexOf(w.monPrevL))
	}
	if len(w.adaptive) > 1 {
		sb.WriteString(" " + strings.Join(w.adaptive, ">"))
	}
	return sb.String()
}

package main

import (
	"context"
	"fmt"
	"math"
	"time"

	"github.com/tikv/client-go/v2/oracle"
	"github.com/tikv/client-go/v2/oracle/oracles"
	"github.com/tikv/client-go/v2/verifrt/sched"
)

// Sequential part 3: IsExpired / UntilExpired over a grid of (lock start ts, TTL) around the
// cached timestamp, on the real pdOracle with the cache frozen between the two calls
// (no background goroutine, nobody else calls the oracle). The cache is then moved forward by
// a GetTimestamp and the grid repeated.
//
// TTLs of 2^62 ms and more (146 million years) are probed too, but outside the verdict: the
// sum ExtractPhysical(lockTS)+int64(TTL) wraps around there, which is reported as a note.

func expiryJob() sched.Job {
	name := "expiry/grid"
	return sched.Job{Name: name, Run: func(dl time.Time) sched.Report { return expiryRun(name) }}
}

func expiryRun(name string) sched.Report {
	rep := sched.Report{Scenario: name, Outcomes: map[string]int64{}}
	seqBegin()
	defer seqEnd()
	w := &world{monViol: map[string]string{}}
	w.pd = &schedPD{w: w}
	o, err := oracles.NewPdOracle(w.pd, &oracles.PDOracleOptions{UpdateInterval: 2 * time.Second, NoUpdateTS: true})
	if err != nil {
		rep.Violations = append(rep.Violations, sched.FoundViolation{Key: "harness:cannot-build-oracle", What: err.Error(), Count: 1})
		return rep
	}
	defer o.Close()
	ttls := []uint64{0, 1, 2, 3, 4, 5, 1000, 20000, 1 << 40}
	extreme := []uint64{1 << 62, math.MaxInt64 - uint64(t0ms) - 8, math.MaxInt64 - uint64(t0ms), math.MaxInt64, 1 << 63, math.MaxUint64 - 1, math.MaxUint64}
	viol := map[string]*sched.FoundViolation{}
	for round := 0; round < 4; round++ {
		cached, _ := oracles.VerifLastTS(o, oracle.GlobalTxnScope)
		cp := oracle.ExtractPhysical(cached)
		for d := int64(-6); d <= 3; d++ {
			for _, lg := range []int64{0, 1<<18 - 1} {
				lock := oracle.ComposeTS(cp+d, lg)
				for i, ttl := range append(append([]uint64{}, ttls...), extreme...) {
					exp := o.IsExpired(lock, ttl, gopt)
					until := o.UntilExpired(lock, ttl, gopt)
					rep.Transitions += 2
					rep.Nodes++
					rep.Executions++
					ok := exp == (until <= 0)
					if i >= len(ttls) {
						rep.Outcomes[fmt.Sprintf("expiry:extreme-ttl:consistent=%v", ok)]++
						continue
					}
					rep.Outcomes[fmt.Sprintf("expiry:expired=%v/until-sign=%d", exp, sign(until))]++
					if !ok {
						k := "expiry:inconsistent:grid"
						if fv, has := viol[k]; has {
							fv.Count++
						} else {
							viol[k] = &sched.FoundViolation{Key: k, Count: 1, Trace: []string{fmt.Sprintf("round=%d", round)},
								What: fmt.Sprintf("cached phys=T0+%d lock phys=T0+%d ttl=%d: IsExpired=%v UntilExpired=%d", cp-t0ms, cp+d-t0ms, ttl, exp, until)}
						}
					}
				}
			}
		}
		if len(rep.SampleTraces) < 4 {
			rep.SampleTraces = append(rep.SampleTraces, []string{fmt.Sprintf("round=%d cached=#%d", round, w.pd.indexOf(cached))})
		}
		if _, err := o.GetTimestamp(context.Background(), gopt); err != nil {
			break
		}
		rep.Transitions++
	}
	for _, fv := range viol {
		rep.Violations = append(rep.Violations, *fv)
	}
	return rep
}

func sign(x int64) int {
	switch {
	case x < 0:
		return -1
	case x > 0:
		return 1
	}
	return 0
}

// C11: raw KV operations behave as one ordered map regardless of region
// layout, also while regions split, merge or change leader between or during
// calls (DESIGN.md 3.2 + 3.3, section 5 C11).
//
// Engine: explicit-state breadth-first search over operation sequences on the
// REAL rawkv.Client (rawkv/rawkv.go, internal/kvrpc/batch.go, region cache,
// region request sender) over the in-process mock store (mocktikv). A state is
// the history that reaches it: a successor is produced by a fresh
// cluster+client, a replay of the shortest history and one more operation.
// After every call the result is compared with a sorted-map reference model
// and a full observation set (Get of every pool key, unbounded forward Scan,
// plus a direct dump of the store) is compared with the model.
//
// Environment deviations (fault budget F per sequence): the RPC client handed
// to rawkv is wrapped; immediately before delivering a chosen RPC of a call
// (identified by command type, first key and occurrence number, NOT by arrival
// index, because the partial requests of batch calls come from concurrent
// goroutines) one topology change is applied to the mock cluster: split at a
// pool key, merge the target region with its left/right neighbour, or
// transfer the target region's leader. That is exactly "between the region
// lookup and the request" and "between the partial requests of one call".
// Fault scripts are enumerated depth-first from the observed RPC trace.
//
// Deduplication: by (reference-model state, set of region start keys, faults
// used). Argument: the only hidden state of the client is its region cache.
// The observation set after every call runs through the SAME client and
// contains an unbounded forward scan, which sends one successful request to
// every region; so after it the cache holds exactly the current regions with
// their current leaders (stale entries are evicted by the reloads). The
// hidden state therefore is a function of the layout up to the naming of
// region ids / epoch numbers / which of the two identical stores leads, none
// of which the client's results depend on. A stale cache at the START of a call
// is still explored: a topology change before the first RPC of a call happens
// after the (cached) lookup, which is the same situation.
package main

import (
	"bytes"
	"context"
	"encoding/json"
	"fmt"
	"hash/crc64"
	"os"
	"runtime"
	"runtime/pprof"
	"sort"
	"strings"
	"sync"
	"sync/atomic"
	"time"

	"github.com/pingcap/kvproto/pkg/kvrpcpb"
	"github.com/pingcap/kvproto/pkg/metapb"
	"github.com/pingcap/log"
	"github.com/tikv/client-go/v2/internal/client"
	"github.com/tikv/client-go/v2/internal/locate"
	"github.com/tikv/client-go/v2/internal/mockstore/mocktikv"
	"github.com/tikv/client-go/v2/rawkv"
	"github.com/tikv/client-go/v2/tikvrpc"
	"github.com/tikv/client-go/v2/util/async"
	"github.com/tikv/client-go/v2/verifrt/ev"
	"go.uber.org/zap/zapcore"
)

const cf = "CF_DEFAULT" // the mock's checksum handler reads this column family only

var (
	pool      = []string{"a", "b", "c", "d"}
	splitCand = []string{"b", "c"} // initial layouts: all subsets; b and c are pool keys => keys exactly on borders
	bigVal    []byte               // >= rawBatchPutSize: every pair carrying it becomes its own partial BatchPut request
)

func init() {
	bigVal = make([]byte, rawkv.ConfigProbe{}.GetRawBatchPutSize())
	for i := range bigVal {
		bigVal[i] = byte('A' + i%23)
	}
}

func val(code string) []byte {
	switch code {
	case "1":
		return []byte("x1")
	case "2":
		return bigVal
	}
	panic("bad value code " + code)
}

func vcode(b []byte) string {
	switch {
	case b == nil:
		return "nil"
	case len(b) == 0:
		return "empty"
	case bytes.Equal(b, val("1")):
		return "1"
	case bytes.Equal(b, bigVal):
		return "2"
	}
	if len(b) > 6 {
		return fmt.Sprintf("?%x..(%d)", b[:6], len(b))
	}
	return fmt.Sprintf("?%x", b)
}

// ---------- operations ----------

// Op is one call on rawkv.Client. Values are codes ("1" short, "2" 16 KiB).
type Op struct {
	K    string   `json:"k"`
	Keys []string `json:"keys,omitempty"`
	Vals []string `json:"vals,omitempty"`
	S    string   `json:"s,omitempty"`
	E    string   `json:"e,omitempty"`
	Lim  int      `json:"lim,omitempty"`
	KO   bool     `json:"ko,omitempty"`
	TTL  uint64   `json:"ttl,omitempty"`
	Prev string   `json:"prev,omitempty"` // CAS expected value code, "-" = expect not exist
	Rep  int      `json:"rep,omitempty"`  // key list repeated Rep times (more than rawBatchPairCount keys per region)
	// FillN copies of the key Fill after (FillFirst: before) the key list: a region's key group is
	// cut into several sub-batches whose contents differ, so that a sub-batch sharing storage with
	// another one, or a cut at the wrong index, loses or duplicates a key that occurs only once.
	Fill      string `json:"fill,omitempty"`
	FillN     int    `json:"filln,omitempty"`
	FillFirst bool   `json:"fillfirst,omitempty"`
}

func (o Op) keyList() [][]byte {
	ks := bs(o.Keys, o.Rep)
	if o.FillN == 0 {
		return ks
	}
	fill := make([][]byte, o.FillN)
	for i := range fill {
		fill[i] = []byte(o.Fill)
	}
	if o.FillFirst {
		return append(fill, ks...)
	}
	return append(ks, fill...)
}

func (o Op) String() string {
	b, _ := json.Marshal(o)
	return string(b)
}

// Fault: before delivering the N-th RPC with (Cmd, Key) of the call, apply Change.
type Fault struct {
	Cmd    string `json:"cmd"`
	Key    string `json:"key"`
	N      int    `json:"n"`
	Change string `json:"change"` // split | mergeL | mergeR | leader
	Arg    string `json:"arg,omitempty"`
}

func (f Fault) String() string {
	ch := f.Change
	if f.Arg != "" {
		ch += "@" + f.Arg
	}
	return fmt.Sprintf("%s(%s)#%d:%s", f.Cmd, f.Key, f.N, ch)
}

type Step struct {
	Op     Op      `json:"op"`
	Faults []Fault `json:"faults,omitempty"`
}

type Replay struct {
	Layout []string `json:"layout"` // initial split keys
	Steps  []Step   `json:"steps"`
}

func alphabet(thorough bool) []Op {
	var ops []Op
	for _, k := range pool {
		ops = append(ops, Op{K: "Get", Keys: []string{k}})
	}
	for _, k := range pool {
		for _, v := range []string{"1", "2"} {
			ops = append(ops, Op{K: "Put", Keys: []string{k}, Vals: []string{v}})
		}
	}
	for _, k := range []string{"b", "d"} {
		ops = append(ops, Op{K: "PutTTL", Keys: []string{k}, Vals: []string{"1"}, TTL: 100})
	}
	for _, k := range pool {
		ops = append(ops, Op{K: "Delete", Keys: []string{k}})
	}
	for _, ks := range [][]string{{"a", "b", "c", "d"}, {"d", "b", "d", "a"}, {"b", "b"}, {"c", "a", "c"}, {"a"}, {}} {
		ops = append(ops, Op{K: "BatchGet", Keys: ks})
	}
	ops = append(ops, Op{K: "BatchGet", Keys: []string{"a", "b", "c", "d"}, Rep: 300})
	ops = append(ops,
		Op{K: "BatchGet", Keys: []string{"b", "c", "d"}, Fill: "a", FillN: 600},
		Op{K: "BatchGet", Keys: []string{"b", "c", "d"}, Fill: "a", FillN: 600, FillFirst: true},
		Op{K: "BatchGet", Keys: []string{"a", "c", "b"}, Fill: "d", FillN: 1100})
	ops = append(ops,
		Op{K: "BatchPut", Keys: []string{"a", "b", "c", "d"}, Vals: []string{"1", "1", "1", "1"}},
		Op{K: "BatchPut", Keys: []string{"a", "b", "c", "d"}, Vals: []string{"2", "2", "2", "2"}},
		Op{K: "BatchPut", Keys: []string{"c", "d"}, Vals: []string{"1", "2"}},
		Op{K: "BatchPut", Keys: []string{"b", "b"}, Vals: []string{"1", "2"}},
		Op{K: "BatchPut", Keys: []string{"d", "a", "c"}, Vals: []string{"2", "1", "2"}},
		Op{K: "BatchPut", Keys: []string{"a", "b"}, Vals: []string{"1"}}, // length mismatch: documented error
		Op{K: "BatchPutTTL", Keys: []string{"b", "c"}, Vals: []string{"1", "1"}, TTL: 100},
	)
	for _, ks := range [][]string{{"a", "b", "c", "d"}, {"b", "c"}, {"d", "d", "a"}, {"c"}} {
		ops = append(ops, Op{K: "BatchDelete", Keys: ks})
	}
	ops = append(ops, Op{K: "BatchDelete", Keys: []string{"c", "d"}, Rep: 300})
	ops = append(ops,
		Op{K: "BatchDelete", Keys: []string{"b", "c"}, Fill: "a", FillN: 600},
		Op{K: "BatchDelete", Keys: []string{"c", "d"}, Fill: "a", FillN: 600, FillFirst: true})
	lows := []string{"", "a", "b", "c", "d"}
	for _, s := range lows {
		for _, e := range lows {
			ops = append(ops, Op{K: "DeleteRange", S: s, E: e})
		}
	}
	var fw [][2]string
	for _, s := range lows {
		for _, e := range lows {
			if e == "" || s < e {
				fw = append(fw, [2]string{s, e})
			}
		}
	}
	fw = append(fw, [2]string{"b", "b"}, [2]string{"c", "b"})
	for _, p := range fw {
		for lim := 1; lim <= 3; lim++ {
			ops = append(ops, Op{K: "Scan", S: p[0], E: p[1], Lim: lim})
		}
		ops = append(ops, Op{K: "Scan", S: p[0], E: p[1], Lim: 2, KO: true})
	}
	ops = append(ops, Op{K: "Scan", Lim: 0}, Op{K: "Scan", Lim: rawkv.MaxRawKVScanLimit + 1})
	var rv [][2]string
	for _, s := range []string{"a", "b", "c", "d", "e"} { // ReverseScan: S is the exclusive upper bound, E the inclusive lower bound
		for _, e := range lows {
			if e < s {
				rv = append(rv, [2]string{s, e})
			}
		}
	}
	rv = append(rv, [2]string{"b", "b"}, [2]string{"b", "c"})
	for _, p := range rv {
		for lim := 1; lim <= 3; lim++ {
			ops = append(ops, Op{K: "RScan", S: p[0], E: p[1], Lim: lim})
		}
		ops = append(ops, Op{K: "RScan", S: p[0], E: p[1], Lim: 2, KO: true})
	}
	ops = append(ops, Op{K: "RScan", S: "e", Lim: rawkv.MaxRawKVScanLimit + 1})
	for _, p := range fw {
		ops = append(ops, Op{K: "Checksum", S: p[0], E: p[1]})
	}
	for _, k := range []string{"b", "d"} {
		for _, prev := range []string{"-", "1", "2"} {
			for _, nv := range []string{"1", "2"} {
				ops = append(ops, Op{K: "CAS", Keys: []string{k}, Prev: prev, Vals: []string{nv}})
			}
		}
	}
	_ = thorough
	return ops
}

// ---------- reference model ----------

type model map[string][]byte

func (m model) clone() model {
	c := make(model, len(m))
	for k, v := range m {
		c[k] = v
	}
	return c
}

func (m model) keys() []string {
	ks := make([]string, 0, len(m))
	for k := range m {
		ks = append(ks, k)
	}
	sort.Strings(ks)
	return ks
}

func (m model) key() string {
	var sb strings.Builder
	for _, k := range m.keys() {
		sb.WriteString(k + "=" + vcode(m[k]) + ",")
	}
	return sb.String()
}

// rangeKeys returns the model keys in [s,e) ascending ("" e = unbounded).
func (m model) rangeKeys(s, e string) []string {
	var out []string
	for _, k := range m.keys() {
		if k >= s && (e == "" || k < e) {
			out = append(out, k)
		}
	}
	return out
}

var crcTable = crc64.MakeTable(crc64.ECMA)

func (m model) checksum(s, e string) rawkv.RawChecksum {
	var c rawkv.RawChecksum
	for _, k := range m.rangeKeys(s, e) {
		d := crc64.New(crcTable)
		d.Write([]byte(k))
		d.Write(m[k])
		c.Crc64Xor ^= d.Sum64()
		c.TotalKvs++
		c.TotalBytes += uint64(len(k) + len(m[k]))
	}
	return c
}

// ---------- RPC wrapper (the store seam) ----------

type rpcID struct {
	Cmd string
	Key string
	N   int
	// range of the region the request was addressed to, as the cluster had it on
	// arrival (before this RPC's own deviation); used to skip inapplicable changes
	TStart, TEnd string
}

type injector struct {
	inner   *mocktikv.RPCClient
	cluster *mocktikv.Cluster

	mu           sync.Mutex
	armed        bool
	script       []Fault
	done         []bool
	counts       map[[2]string]int
	trace        []rpcID
	inapplicable bool
	panics       []string
	rpcs         int64
	callRPCs     int  // RPCs of the current client call
	overrun      bool // the current call exceeded rpcCap
	closed       bool
}

// rpcCap bounds the store RPCs of one client call (the largest legitimate call
// here needs a few dozen): a call that keeps sending is cut off by failing its
// RPCs, and reported as a livelock.
const rpcCap = 3000

func (j *injector) newCall() {
	j.mu.Lock()
	defer j.mu.Unlock()
	j.callRPCs, j.overrun = 0, false
}

func (j *injector) overran() bool {
	j.mu.Lock()
	defer j.mu.Unlock()
	return j.overrun
}

// shut makes the wrapper refuse any later delivery (the store is reused).
func (j *injector) shut() {
	j.mu.Lock()
	defer j.mu.Unlock()
	j.closed = true
}

func ident(req *tikvrpc.Request) (string, string) {
	cmd := req.Type.String()
	switch req.Type {
	case tikvrpc.CmdRawGet:
		return cmd, string(req.RawGet().Key)
	case tikvrpc.CmdRawBatchGet:
		if ks := req.RawBatchGet().Keys; len(ks) > 0 {
			return cmd, string(ks[0])
		}
	case tikvrpc.CmdRawPut:
		return cmd, string(req.RawPut().Key)
	case tikvrpc.CmdRawBatchPut:
		if ps := req.RawBatchPut().Pairs; len(ps) > 0 {
			return cmd, string(ps[0].Key)
		}
	case tikvrpc.CmdRawDelete:
		return cmd, string(req.RawDelete().Key)
	case tikvrpc.CmdRawBatchDelete:
		if ks := req.RawBatchDelete().Keys; len(ks) > 0 {
			return cmd, string(ks[0])
		}
	case tikvrpc.CmdRawDeleteRange:
		return cmd, string(req.RawDeleteRange().StartKey)
	case tikvrpc.CmdRawScan:
		if req.RawScan().Reverse {
			cmd = "RawRevScan"
		}
		return cmd, string(req.RawScan().StartKey)
	case tikvrpc.CmdRawCompareAndSwap:
		return cmd, string(req.RawCompareAndSwap().Key)
	case tikvrpc.CmdRawChecksum:
		if rs := req.RawChecksum().Ranges; len(rs) > 0 {
			return cmd, string(rs[0].StartKey)
		}
	}
	return cmd, ""
}

func (j *injector) arm(script []Fault) {
	j.mu.Lock()
	defer j.mu.Unlock()
	j.armed = true
	j.script = script
	j.done = make([]bool, len(script))
	j.counts = map[[2]string]int{}
	j.trace = nil
	j.inapplicable = false
}

// disarm returns the RPC trace of the call, whether a change was
// inapplicable and whether some fault of the script never fired.
func (j *injector) disarm() (trace []rpcID, inapplicable, unfired bool) {
	j.mu.Lock()
	defer j.mu.Unlock()
	j.armed = false
	for _, d := range j.done {
		if !d {
			unfired = true
		}
	}
	return j.trace, j.inapplicable, unfired
}

func (j *injector) takePanics() []string {
	j.mu.Lock()
	defer j.mu.Unlock()
	p := j.panics
	j.panics = nil
	return p
}

// SendRequest serialises deliveries (the mock handles a request atomically
// anyway), applies the scripted topology change for this RPC first, and turns
// a panic of the mock store into an error + recorded panic.
func (j *injector) SendRequest(ctx context.Context, addr string, req *tikvrpc.Request, timeout time.Duration) (resp *tikvrpc.Response, err error) {
	j.mu.Lock()
	defer j.mu.Unlock()
	if j.closed {
		return nil, context.Canceled
	}
	j.rpcs++
	if j.callRPCs++; j.callRPCs > rpcCap {
		j.overrun = true
		return nil, context.Canceled
	}
	if j.armed {
		cmd, key := ident(req)
		ck := [2]string{cmd, key}
		j.counts[ck]++
		id := rpcID{Cmd: cmd, Key: key, N: j.counts[ck]}
		if t := j.target(req, key); t != nil {
			id.TStart, id.TEnd = string(t.StartKey), string(t.EndKey)
		}
		j.trace = append(j.trace, id)
		for i, f := range j.script {
			if !j.done[i] && f.Cmd == id.Cmd && f.Key == id.Key && f.N == id.N {
				j.done[i] = true
				if !j.apply(f, req, key) {
					j.inapplicable = true
				}
			}
		}
	}
	// mocktikv's CmdRawBatchDelete case sets the region error but then falls
	// through and executes the delete anyway (missing early return), so a
	// RawBatchDelete with a stale epoch / wrong leader "succeeds" and the client's
	// re-grouping path would be unreachable. Give it the same store-side check
	// every other raw command gets.
	if req.Type == tikvrpc.CmdRawBatchDelete {
		if rerr := mocktikv.VerifCheckRequestContext(j.cluster, addr, &req.Context); rerr != nil {
			return &tikvrpc.Response{Resp: &kvrpcpb.RawBatchDeleteResponse{RegionError: rerr}}, nil
		}
	}
	defer func() {
		if p := recover(); p != nil {
			j.panics = append(j.panics, fmt.Sprintf("%v (handling %s)", p, req.Type))
			// context.Canceled makes the request sender give up at once instead of
			// treating the store as unreachable and retrying until the deadline
			resp, err = nil, context.Canceled
		}
	}()
	return j.inner.SendRequest(ctx, addr, req, timeout)
}

func (j *injector) SendRequestAsync(ctx context.Context, addr string, req *tikvrpc.Request, cb async.Callback[*tikvrpc.Response]) {
	go func() { cb.Schedule(j.SendRequest(ctx, addr, req, 0)) }()
}
func (j *injector) Close() error                                  { return nil } // the env closes the store itself
func (j *injector) CloseAddr(addr string) error                   { return nil }
func (j *injector) SetEventListener(l client.ClientEventListener) {}

// target is the region the request is addressed to or, if that one is gone,
// the one holding the request's first key.
func (j *injector) target(req *tikvrpc.Request, firstKey string) *metapb.Region {
	t, _ := j.cluster.GetRegion(req.Context.GetRegionId())
	if t == nil {
		t, _, _, _ = j.cluster.GetRegionByKey([]byte(firstKey))
	}
	return t
}

// applicable tells whether a change makes sense for a target region [start,end).
func applicable(change, arg, start, end string) bool {
	switch change {
	case "split": // strictly inside the target region
		return start < arg && (end == "" || arg < end)
	case "mergeR":
		return end != ""
	case "mergeL":
		return start != ""
	}
	return true
}

// Splits and merges use TiKV's epoch rules (child inherits the parent's new
// version; merged version = max+1) through the white-box helpers: mocktikv's
// own Split/Merge hand out versions that can be LOWER than those of regions
// that covered the range before, which the client's region cache (correctly,
// for a real cluster) refuses as stale information and then retries forever.
//
// apply performs one topology change on the target region; false if it is not
// applicable in the current layout (the script is then discarded, not counted).
func (j *injector) apply(f Fault, req *tikvrpc.Request, firstKey string) bool {
	c := j.cluster
	t := j.target(req, firstKey)
	if t == nil || !applicable(f.Change, f.Arg, string(t.StartKey), string(t.EndKey)) {
		return false
	}
	_, leader := c.GetRegion(t.Id)
	switch f.Change {
	case "split":
		newPeers := c.AllocIDs(len(t.Peers))
		newLeader := newPeers[0]
		for i, p := range t.Peers { // the new region is led from the same store as its parent
			if p.Id == leader {
				newLeader = newPeers[i]
			}
		}
		c.VerifSplitRaw(t.Id, c.AllocID(), []byte(f.Arg), newPeers, newLeader)
		return true
	case "mergeR":
		n, _, _, _ := c.GetRegionByKey(t.EndKey)
		if n == nil {
			return false
		}
		c.VerifMerge(t.Id, n.Id)
		return true
	case "mergeL":
		l, _, _, _ := c.GetPrevRegionByKey(t.StartKey)
		if l == nil {
			return false
		}
		c.VerifMerge(l.Id, t.Id)
		return true
	case "leader":
		for _, p := range t.Peers {
			if p.Id != leader {
				c.ChangeLeader(t.Id, p.Id)
				return true
			}
		}
	}
	return false
}

// ---------- environment: cluster + real client ----------

type env struct {
	store   *pooledStore
	cluster *mocktikv.Cluster
	cli     *rawkv.Client
	inj     *injector
	dead    bool // a call hung: do not touch the client or reuse the store
}

// Stores are pooled: opening a leveldb instance (two per store) clears a 4 MiB
// write buffer, which dominated the run time. A store goes back to the pool
// only after it has been emptied and verified empty, and only after the
// injector of its previous owner has been shut (no late delivery can reach it).
// A store is reused only a few times: deleted entries stay in leveldb's
// memtable as tombstones and slow every scan down.
const storeReuse = 8

type pooledStore struct {
	*mocktikv.MVCCLevelDB
	uses int
}

var storePool = make(chan *pooledStore, 512)

func getStore() *pooledStore {
	select {
	case st := <-storePool:
		return st
	default:
	}
	st := &pooledStore{MVCCLevelDB: mocktikv.MustNewMVCCStore().(*mocktikv.MVCCLevelDB)}
	// Create the column family's DB up front: the mock's RawBatchGet handler
	// indexes out of range when the column family does not exist yet (a mock
	// quirk outside the property).
	st.RawPut(cf, []byte("~"), []byte("~"))
	st.RawDelete(cf, []byte("~"))
	return st
}

func putStore(st *pooledStore) {
	st.uses++
	st.RawDeleteRange(cf, nil, nil)
	if st.uses < storeReuse && len(st.RawScan(cf, nil, nil, 1)) == 0 {
		select {
		case storePool <- st:
			return
		default:
		}
	}
	st.VerifCloseRawDBs()
	st.Close()
}

func newEnv(layout []string) *env {
	st := getStore()
	cluster := mocktikv.NewCluster(st.MVCCLevelDB)
	mocktikv.BootstrapWithMultiStores(cluster, 2)
	for _, k := range layout {
		r, _, _, _ := cluster.GetRegionByKey([]byte(k))
		peers := cluster.AllocIDs(len(r.Peers))
		cluster.VerifSplitRaw(r.Id, cluster.AllocID(), []byte(k), peers, peers[0])
	}
	pd := mocktikv.NewPDClient(cluster)
	inj := &injector{inner: mocktikv.NewRPCClient(cluster, st.MVCCLevelDB, nil), cluster: cluster}
	cli := &rawkv.Client{}
	p := rawkv.ClientProbe{Client: cli}
	p.SetRegionCache(locate.NewRegionCache(pd))
	p.SetPDClient(pd)
	p.SetRPCClient(inj)
	cli.SetAtomicForCAS(true).SetColumnFamily(cf)
	return &env{store: st, cluster: cluster, cli: cli, inj: inj}
}

func (e *env) close() {
	if e.dead {
		return
	}
	e.cli.Close()
	e.inj.shut()
	putStore(e.store)
}

func (e *env) layoutKey() string {
	var starts []string
	for _, r := range e.cluster.GetAllRegions() {
		starts = append(starts, string(r.Meta.StartKey))
	}
	sort.Strings(starts)
	return strings.Join(starts, "|")
}

type result struct {
	err      error
	keys     [][]byte
	vals     [][]byte
	flag     bool
	sum      rawkv.RawChecksum
	panicked string
	livelock string
}

func bs(ss []string, rep int) [][]byte {
	if rep < 1 {
		rep = 1
	}
	out := make([][]byte, 0, len(ss)*rep)
	for i := 0; i < rep; i++ {
		for _, s := range ss {
			out = append(out, []byte(s))
		}
	}
	return out
}

func vs(codes []string) [][]byte {
	out := make([][]byte, 0, len(codes))
	for _, c := range codes {
		out = append(out, val(c))
	}
	return out
}

func bound(s string) []byte {
	if s == "" {
		return nil
	}
	return []byte(s)
}

// exec runs one client call under a watchdog: a call that does not return is
// reported, the environment is abandoned (its store is not reused).
func (e *env) exec(op Op) result {
	if e.dead {
		return result{livelock: "environment abandoned after a hung call"}
	}
	e.inj.newCall()
	done := make(chan result, 1)
	go func() { done <- e.call(op) }()
	t := time.NewTimer(hangTimeout)
	defer t.Stop()
	select {
	case r := <-done:
		return r
	case <-t.C:
		e.dead = true
		e.inj.shut() // every further RPC fails: a loop that sends requests ends
		return result{livelock: fmt.Sprintf("the call did not return within %v", hangTimeout)}
	}
}

const hangTimeout = 90 * time.Second // liveness guard, never part of a pass verdict

func (e *env) call(op Op) (r result) {
	// Liveness guard only; longer than the client's own 20 s back-off budget so
	// that a retry loop ends with the client's error rather than this deadline.
	ctx, cancel := context.WithTimeout(context.Background(), 40*time.Second)
	defer cancel()
	defer func() {
		if p := recover(); p != nil {
			r.panicked = fmt.Sprintf("client panicked: %v", p)
		}
		if ps := e.inj.takePanics(); len(ps) > 0 && r.panicked == "" {
			r.panicked = "mock store panicked: " + strings.Join(ps, "; ")
		}
		if e.inj.overran() && r.panicked == "" {
			r.livelock = fmt.Sprintf("the call sent more than %d store RPCs (cut off)", rpcCap)
		}
	}()
	c := e.cli
	var opts []rawkv.RawOption
	if op.KO {
		opts = append(opts, rawkv.ScanKeyOnly())
	}
	switch op.K {
	case "Get":
		v, err := c.Get(ctx, []byte(op.Keys[0]))
		r.vals, r.err = [][]byte{v}, err
	case "Put":
		r.err = c.Put(ctx, []byte(op.Keys[0]), val(op.Vals[0]))
	case "PutTTL":
		r.err = c.PutWithTTL(ctx, []byte(op.Keys[0]), val(op.Vals[0]), op.TTL)
	case "Delete":
		r.err = c.Delete(ctx, []byte(op.Keys[0]))
	case "BatchGet":
		r.vals, r.err = c.BatchGet(ctx, op.keyList())
	case "BatchPut":
		r.err = c.BatchPut(ctx, bs(op.Keys, op.Rep), vs(op.Vals))
	case "BatchPutTTL":
		ttls := make([]uint64, len(op.Keys))
		for i := range ttls {
			ttls[i] = op.TTL
		}
		r.err = c.BatchPutWithTTL(ctx, bs(op.Keys, op.Rep), vs(op.Vals), ttls)
	case "BatchDelete":
		r.err = c.BatchDelete(ctx, op.keyList())
	case "DeleteRange":
		r.err = c.DeleteRange(ctx, bound(op.S), bound(op.E))
	case "Scan":
		r.keys, r.vals, r.err = c.Scan(ctx, bound(op.S), bound(op.E), op.Lim, opts...)
	case "RScan":
		r.keys, r.vals, r.err = c.ReverseScan(ctx, bound(op.S), bound(op.E), op.Lim, opts...)
	case "Checksum":
		r.sum, r.err = c.Checksum(ctx, bound(op.S), bound(op.E))
	case "CAS":
		var prev []byte
		if op.Prev != "-" {
			prev = val(op.Prev)
		}
		var v []byte
		v, r.flag, r.err = c.CompareAndSwap(ctx, []byte(op.Keys[0]), prev, val(op.Vals[0]))
		r.vals = [][]byte{v}
	default:
		panic("unknown op " + op.K)
	}
	return r
}

// ---------- oracle ----------

type mismatch struct{ aspect, detail string }

func renderPairs(keys, vals [][]byte) string {
	var sb strings.Builder
	for i, k := range keys {
		v := "<missing value slot>"
		if i < len(vals) {
			v = vcode(vals[i])
		}
		fmt.Fprintf(&sb, "%s=%s ", k, v)
	}
	if len(vals) > len(keys) {
		fmt.Fprintf(&sb, "(+%d extra values)", len(vals)-len(keys))
	}
	return "[" + strings.TrimSpace(sb.String()) + "]"
}

func renderVals(vals [][]byte) string {
	if len(vals) > 12 {
		h := crc64.New(crcTable)
		for _, v := range vals {
			h.Write([]byte(vcode(v) + ","))
		}
		return fmt.Sprintf("[%d values, digest %x]", len(vals), h.Sum64())
	}
	s := make([]string, len(vals))
	for i, v := range vals {
		s[i] = vcode(v)
	}
	return "[" + strings.Join(s, " ") + "]"
}

// outcome renders what the implementation returned (for the distinct-outcome count).
func (r result) outcome(op Op) string {
	if r.err != nil {
		return op.K + " error"
	}
	switch op.K {
	case "Get", "BatchGet":
		return op.K + " " + renderVals(r.vals)
	case "Scan", "RScan":
		return op.K + " " + renderPairs(r.keys, r.vals)
	case "Checksum":
		return fmt.Sprintf("Checksum %x/%d/%d", r.sum.Crc64Xor, r.sum.TotalKvs, r.sum.TotalBytes)
	case "CAS":
		return fmt.Sprintf("CAS %s %v", renderVals(r.vals), r.flag)
	}
	return op.K + " ok"
}

// scanExpect: first lim pairs of [lo,hi) ascending, or descending if reverse.
func scanExpect(m model, lo, hi string, lim int, reverse bool) []string {
	ks := m.rangeKeys(lo, hi)
	if reverse {
		for i, j := 0, len(ks)-1; i < j; i, j = i+1, j-1 {
			ks[i], ks[j] = ks[j], ks[i]
		}
	}
	if len(ks) > lim {
		ks = ks[:lim]
	}
	return ks
}

func checkPairs(m model, want []string, r result, keyOnly bool) []mismatch {
	wantS := make([]string, len(want))
	for i, k := range want {
		wantS[i] = k + "=" + vcode(m[k])
	}
	bad := len(r.keys) != len(want) || len(r.vals) != len(r.keys)
	if !bad {
		for i, k := range want {
			if string(r.keys[i]) != k {
				bad = true
				break
			}
			// The mock ignores KeyOnly and returns the values; with key-only demand
			// only "omitted or correct".
			if keyOnly && len(r.vals[i]) == 0 {
				continue
			}
			if !bytes.Equal(r.vals[i], m[k]) {
				bad = true
				break
			}
		}
	}
	if bad {
		return []mismatch{{"result", fmt.Sprintf("returned %s, map has [%s]", renderPairs(r.keys, r.vals), strings.Join(wantS, " "))}}
	}
	return nil
}

// check compares the result of op with the model m (state BEFORE the call)
// and returns the mismatches and the model state after the call.
func check(m model, op Op, r result) ([]mismatch, model) {
	n := m.clone()
	if r.panicked != "" {
		return []mismatch{{"panic", r.panicked}}, n
	}
	if r.livelock != "" {
		return []mismatch{{"livelock", r.livelock}}, n
	}
	unexpectedErr := func() []mismatch {
		return []mismatch{{"error", fmt.Sprintf("unexpected error: %v", firstLine(r.err))}}
	}
	switch op.K {
	case "Get":
		if r.err != nil {
			return unexpectedErr(), n
		}
		want, ok := m[op.Keys[0]]
		got := r.vals[0]
		if (ok && (got == nil || !bytes.Equal(got, want))) || (!ok && got != nil) {
			return []mismatch{{"result", fmt.Sprintf("returned %s, map has %s", vcode(got), vcode(want))}}, n
		}
	case "Put", "PutTTL": // the mock ignores TTLs (no expiry): TTL puts are plain puts
		if r.err != nil {
			return unexpectedErr(), n
		}
		n[op.Keys[0]] = val(op.Vals[0])
	case "Delete":
		if r.err != nil {
			return unexpectedErr(), n
		}
		delete(n, op.Keys[0])
	case "BatchGet":
		if r.err != nil {
			return unexpectedErr(), n
		}
		keys := op.keyList()
		if len(r.vals) != len(keys) {
			return []mismatch{{"result", fmt.Sprintf("%d values for %d keys", len(r.vals), len(keys))}}, n
		}
		for i, k := range keys {
			want, ok := m[string(k)]
			got := r.vals[i]
			// missing: the mock answers a pair with a nil value for a missing key, which the
			// client turns into an empty slice; accept nil or empty (no empty values in the alphabet).
			if (ok && !bytes.Equal(got, want)) || (!ok && len(got) != 0) {
				return []mismatch{{"result", fmt.Sprintf("position %d (key %s) holds %s, map has %s; all: %s", i, k, vcode(got), vcode(want), renderVals(r.vals))}}, n
			}
		}
	case "BatchPut", "BatchPutTTL":
		if len(op.Keys) != len(op.Vals) {
			if r.err == nil {
				return []mismatch{{"error", "length mismatch accepted"}}, n
			}
			return nil, n
		}
		if r.err != nil {
			return unexpectedErr(), n
		}
		for i, k := range op.Keys {
			n[k] = val(op.Vals[i])
		}
	case "BatchDelete":
		if r.err != nil {
			return unexpectedErr(), n
		}
		for _, kb := range op.keyList() {
			k := string(kb)
			delete(n, k)
		}
	case "DeleteRange":
		if r.err != nil {
			return unexpectedErr(), n
		}
		if op.E == "" || op.S < op.E {
			for _, k := range m.rangeKeys(op.S, op.E) {
				delete(n, k)
			}
		}
	case "Scan", "RScan":
		if op.Lim > rawkv.MaxRawKVScanLimit {
			if r.err == nil || !strings.Contains(r.err.Error(), rawkv.ErrMaxScanLimitExceeded.Error()) {
				return []mismatch{{"error", fmt.Sprintf("limit above the maximum not rejected (err=%v)", r.err)}}, n
			}
			return nil, n
		}
		if r.err != nil {
			return unexpectedErr(), n
		}
		var want []string
		if op.K == "Scan" {
			if op.E == "" || op.S < op.E {
				want = scanExpect(m, op.S, op.E, op.Lim, false)
			}
		} else if op.E < op.S { // [E, S) downwards from S
			want = scanExpect(m, op.E, op.S, op.Lim, true)
		}
		return checkPairs(m, want, r, op.KO), n
	case "Checksum":
		if r.err != nil {
			return unexpectedErr(), n
		}
		var want rawkv.RawChecksum
		if op.E == "" || op.S < op.E {
			want = m.checksum(op.S, op.E)
		}
		if r.sum != want {
			return []mismatch{{"result", fmt.Sprintf("returned %x/%d/%d, map gives %x/%d/%d", r.sum.Crc64Xor, r.sum.TotalKvs, r.sum.TotalBytes, want.Crc64Xor, want.TotalKvs, want.TotalBytes)}}, n
		}
	case "CAS":
		k := op.Keys[0]
		cur, exists := m[k]
		var prev []byte
		if op.Prev != "-" {
			prev = val(op.Prev)
		}
		if !exists {
			// The mock cannot compare-and-swap a missing key (leveldb's not-found becomes
			// the response error). Accept that error (state must stay unchanged); if
			// there is no error demand the documented semantics.
			if r.err != nil {
				return nil, n
			}
			if op.Prev == "-" {
				if !r.flag || r.vals[0] != nil {
					return []mismatch{{"result", fmt.Sprintf("missing key, expected-not-exist: returned (%s,%v)", vcode(r.vals[0]), r.flag)}}, n
				}
				n[k] = val(op.Vals[0])
			} else if r.flag || r.vals[0] != nil {
				return []mismatch{{"result", fmt.Sprintf("missing key, expected %s: returned (%s,%v)", op.Prev, vcode(r.vals[0]), r.flag)}}, n
			}
			return nil, n
		}
		if r.err != nil {
			return unexpectedErr(), n
		}
		wantSwap := prev != nil && bytes.Equal(prev, cur)
		if wantSwap {
			n[k] = val(op.Vals[0])
		}
		if r.flag != wantSwap || !bytes.Equal(r.vals[0], cur) {
			return []mismatch{{"result", fmt.Sprintf("stored %s expected %s: returned (%s,%v), want (%s,%v)", vcode(cur), op.Prev, vcode(r.vals[0]), r.flag, vcode(cur), wantSwap)}}, n
		}
	}
	return nil, n
}

func firstLine(err error) string {
	if err == nil {
		return "<nil>"
	}
	s := err.Error()
	if i := strings.IndexByte(s, '\n'); i >= 0 {
		s = s[:i]
	}
	return s
}

// observe compares the observation set with the model: Get of every pool key
// and an unbounded forward scan through the client, plus a direct store dump.
func (e *env) observe(m model) []mismatch {
	var out []mismatch
	for _, k := range pool {
		r := e.exec(Op{K: "Get", Keys: []string{k}})
		if mm, _ := check(m, Op{K: "Get", Keys: []string{k}}, r); len(mm) > 0 {
			out = append(out, mismatch{"state-get", "Get(" + k + ") after the call: " + mm[0].detail})
		}
	}
	full := Op{K: "Scan", Lim: 2 * len(pool)}
	if mm, _ := check(m, full, e.exec(full)); len(mm) > 0 {
		out = append(out, mismatch{"state-scan", "full Scan after the call: " + mm[0].detail})
	}
	var r result
	for _, p := range e.store.RawScan(cf, nil, nil, 100) {
		r.keys = append(r.keys, p.Key)
		r.vals = append(r.vals, p.Value)
	}
	if mm := checkPairs(m, m.keys(), r, false); len(mm) > 0 {
		out = append(out, mismatch{"state-store", "store content after the call: " + mm[0].detail})
	}
	evals.Add(int64(len(pool) + 2))
	return out
}

// ---------- running one sequence ----------

var (
	run         *ev.Run
	samples     *ev.Samples
	evals       atomic.Int64
	opsExecuted atomic.Int64
	seqsRun     atomic.Int64
	rpcsTotal   atomic.Int64
	transitions atomic.Int64
	nontrivial  atomic.Int64
	faulted     atomic.Int64
	inapplicN   atomic.Int64
	unfiredN    atomic.Int64
	divergedN   atomic.Int64
	outMu       sync.Mutex
	outcomes    = map[string]struct{}{}
	kindCount   = map[string]int64{}
	changeCount = map[string]int64{}
)

var readOnly = map[string]bool{"Get": true, "BatchGet": true, "Scan": true, "RScan": true, "Checksum": true}

type runOut struct {
	trace     []rpcID
	skipped   bool // script inapplicable / not fired: not a case
	violated  bool
	model     model
	layoutKey string
}

func faultSuffix(fs []Fault) string {
	if len(fs) == 0 {
		return ""
	}
	set := map[string]bool{}
	for _, f := range fs {
		set[f.Change] = true
	}
	var ks []string
	for k := range set {
		ks = append(ks, k)
	}
	sort.Strings(ks)
	return "+" + strings.Join(ks, "+")
}

// runSeq executes the steps on a fresh cluster and client, checking every
// step. Only the last step is the new transition; the ones before are the
// replay of the history that defines the state.
func runSeq(layout []string, steps []Step) (out runOut) {
	e := newEnv(layout)
	defer func() {
		rpcsTotal.Add(e.inj.rpcs)
		e.close()
	}()
	seqsRun.Add(1)
	m := model{}
	for i, st := range steps {
		last := i == len(steps)-1
		e.inj.arm(st.Faults)
		r := e.exec(st.Op)
		trace, inapplicable, unfired := e.inj.disarm()
		opsExecuted.Add(1)
		if inapplicable || unfired {
			if last {
				if inapplicable {
					inapplicN.Add(1)
				} else {
					unfiredN.Add(1)
				}
			} else {
				divergedN.Add(1) // a replayed history behaved differently (arrival order of concurrent partial requests)
			}
			out.skipped = true
			return out
		}
		mm, next := check(m, st.Op, r)
		evals.Add(1)
		// Observation set: after every new call that writes or carried a deviation.
		// After a read-only call without deviation neither the store nor the
		// topology changed (the cache can only have become more complete), and in
		// a replayed history step the comparison was already made when that step
		// was new; there it is run only after a deviation, to bring the region
		// cache back to the canonical fresh state the dedup argument relies on.
		if len(mm) == 0 && (len(st.Faults) > 0 || (last && !readOnly[st.Op.K])) {
			mm = e.observe(next)
		}
		if last {
			out.trace = trace
			transitions.Add(1)
			if len(trace) >= 2 || len(st.Faults) > 0 {
				nontrivial.Add(1)
			}
			if len(st.Faults) > 0 {
				faulted.Add(1)
			}
			oc := r.outcome(st.Op)
			outMu.Lock()
			outcomes[oc] = struct{}{}
			kindCount[st.Op.K]++
			for _, f := range st.Faults {
				changeCount[f.Change+" before "+f.Cmd]++
			}
			outMu.Unlock()
			samples.Add(func() any {
				return map[string]any{"layout": layout, "steps": steps, "rpcs_of_last_call": len(trace), "outcome": oc, "layout_after": e.layoutKey()}
			})
		}
		if len(mm) > 0 {
			key := st.Op.K + ":" + mm[0].aspect + faultSuffix(st.Faults)
			what := fmt.Sprintf("%s %s: %s [initial splits %v, %d earlier calls, faults %v]", st.Op.K, st.Op, mm[0].detail, layout, i, st.Faults)
			run.Violation(key, what, Replay{Layout: layout, Steps: append([]Step{}, steps[:i+1]...)})
			out.violated = true
			return out
		}
		m = next
	}
	out.model = m
	out.layoutKey = e.layoutKey()
	return out
}

// ---------- search ----------

type node struct {
	layout []string
	steps  []Step
	used   int
}

type succ struct {
	key  string
	step Step
	used int
}

var changes = func() []Fault {
	var cs []Fault
	for _, k := range pool {
		cs = append(cs, Fault{Change: "split", Arg: k})
	}
	return append(cs, Fault{Change: "mergeR"}, Fault{Change: "mergeL"}, Fault{Change: "leader"})
}()

func stateKey(modelKey, layoutKey string, used int) string {
	return fmt.Sprintf("%s/%s/%d", modelKey, layoutKey, used)
}

// expand runs op from state n without faults and with every fault script of
// at most `budget` deviations (DFS over the observed RPC traces).
func expand(n *node, op Op, budget int, visited map[string]bool) []succ {
	var res []succ
	local := map[string]bool{}
	record := func(st Step, o runOut) {
		if o.skipped || o.violated {
			return
		}
		used := n.used + len(st.Faults)
		k := stateKey(o.model.key(), o.layoutKey, used)
		if visited[k] || local[k] {
			return
		}
		local[k] = true
		res = append(res, succ{key: k, step: st, used: used})
	}
	seq := func(st Step) runOut {
		steps := make([]Step, 0, len(n.steps)+1)
		steps = append(append(steps, n.steps...), st)
		return runSeq(n.layout, steps)
	}
	base := Step{Op: op}
	o := seq(base)
	record(base, o)
	if o.skipped || o.violated {
		return res
	}
	seen := map[string]bool{}
	var rec func(script []Fault, trace []rpcID)
	rec = func(script []Fault, trace []rpcID) {
		if len(script) >= budget {
			return
		}
		ids := append([]rpcID{}, trace...)
		sort.Slice(ids, func(i, j int) bool {
			if ids[i].Cmd != ids[j].Cmd {
				return ids[i].Cmd < ids[j].Cmd
			}
			if ids[i].Key != ids[j].Key {
				return ids[i].Key < ids[j].Key
			}
			return ids[i].N < ids[j].N
		})
	nextID:
		for _, id := range ids {
			for _, f := range script {
				if f.Cmd == id.Cmd && f.Key == id.Key && f.N == id.N {
					continue nextID
				}
			}
			for _, ch := range changes {
				if !applicable(ch.Change, ch.Arg, id.TStart, id.TEnd) {
					continue
				}
				s2 := append(append([]Fault{}, script...), Fault{Cmd: id.Cmd, Key: id.Key, N: id.N, Change: ch.Change, Arg: ch.Arg})
				canon := make([]string, len(s2))
				for i, f := range s2 {
					canon[i] = f.String()
				}
				sort.Strings(canon)
				ck := strings.Join(canon, ";")
				if seen[ck] {
					continue
				}
				seen[ck] = true
				st := Step{Op: op, Faults: s2}
				o := seq(st)
				record(st, o)
				if !o.skipped && !o.violated {
					rec(s2, o.trace)
				}
			}
		}
	}
	rec(nil, o.trace)
	return res
}

func subsets(keys []string) [][]string {
	out := [][]string{}
	for mask := 0; mask < 1<<len(keys); mask++ {
		s := []string{}
		for i, k := range keys {
			if mask&(1<<i) != 0 {
				s = append(s, k)
			}
		}
		out = append(out, s)
	}
	sort.SliceStable(out, func(i, j int) bool { return len(out[i]) < len(out[j]) })
	return out
}

func replayFile(path string) {
	b, err := os.ReadFile(path)
	if err != nil {
		fmt.Fprintln(os.Stderr, "cannot read replay file:", err)
		os.Exit(2)
	}
	var f struct {
		Replay Replay `json:"replay"`
	}
	if err := json.Unmarshal(b, &f); err != nil || len(f.Replay.Steps) == 0 {
		fmt.Fprintln(os.Stderr, "bad replay file:", err)
		os.Exit(2)
	}
	o := runSeq(f.Replay.Layout, f.Replay.Steps)
	fmt.Printf("replay of %d steps on initial splits %v: violated=%v skipped=%v\n", len(f.Replay.Steps), f.Replay.Layout, o.violated, o.skipped)
	fmt.Printf("  RPC trace of the last call: %v; model after: {%s}; region starts after: %q\n", o.trace, o.model.key(), o.layoutKey)
	run.Finish(ev.Coverage{"states": 1, "transitions": transitions.Load(), "traces_validated_against_impl": seqsRun.Load(),
		"evaluations": evals.Load(), "distinct_nontrivial": nontrivial.Load(), "rule": "replay of one stored sequence", "samples": samples.List(), "exhaustive": false}, nil)
}

var stopProf = func() {}

func main() {
	if os.Getenv("C11_LOG") == "" {
		log.SetLevel(zapcore.FatalLevel)
	}
	if pf := os.Getenv("C11_PROF"); pf != "" {
		f, _ := os.Create(pf)
		pprof.StartCPUProfile(f)
		stopProf = pprof.StopCPUProfile
	}
	run = ev.Start("C11", "model_checking")
	samples = ev.NewSamples(10, run.Seed)
	for i, a := range os.Args {
		if (a == "--replay" || a == "-replay") && i+1 < len(os.Args) {
			replayFile(os.Args[i+1])
			return
		}
	}
	depth, budget := 3, 1
	if run.Thorough() {
		depth, budget = 4, 2
	}
	if s := os.Getenv("C11_DEPTH"); s != "" {
		fmt.Sscan(s, &depth)
	}
	if s := os.Getenv("C11_FAULTS"); s != "" {
		fmt.Sscan(s, &budget)
	}
	ops := alphabet(run.Thorough())
	workers := 4 * runtime.GOMAXPROCS(0) // fault runs mostly sleep in the region-miss back-off
	if s := os.Getenv("C11_WORKERS"); s != "" {
		fmt.Sscan(s, &workers)
	}

	visited := map[string]bool{}
	var frontier []*node
	layouts := subsets(splitCand)
	for _, l := range layouts {
		e := newEnv(l)
		k := stateKey(model{}.key(), e.layoutKey(), 0)
		e.close()
		visited[k] = true
		frontier = append(frontier, &node{layout: l})
	}
	levelStates := []int{len(frontier)}
	maxDepth := 0
	for d := 0; d < depth && len(frontier) > 0; d++ {
		type item struct {
			n  *node
			op Op
		}
		items := make([]item, 0, len(frontier)*len(ops))
		for _, n := range frontier {
			for _, op := range ops {
				items = append(items, item{n, op})
			}
		}
		results := make([][]succ, len(items))
		var next atomic.Int64
		var wg sync.WaitGroup
		for w := 0; w < workers; w++ {
			wg.Add(1)
			go func() {
				defer wg.Done()
				for {
					i := int(next.Add(1)) - 1
					if i >= len(items) {
						return
					}
					if run.Expired() {
						run.Incomplete("wall-clock budget VERIF_BUDGET_S exhausted during the search")
						return
					}
					results[i] = expand(items[i].n, items[i].op, budget-items[i].n.used, visited)
				}
			}()
		}
		wg.Wait()
		var nf []*node
		for i, rs := range results { // merge in work-item order: deterministic representatives
			for _, s := range rs {
				if visited[s.key] {
					continue
				}
				visited[s.key] = true
				n := items[i].n
				steps := make([]Step, 0, len(n.steps)+1)
				steps = append(append(steps, n.steps...), s.step)
				nf = append(nf, &node{layout: n.layout, steps: steps, used: s.used})
			}
		}
		maxDepth = d + 1
		levelStates = append(levelStates, len(nf))
		fmt.Fprintf(os.Stderr, "c11: depth %d done: %d new states, %d transitions so far, %d violations\n", d+1, len(nf), transitions.Load(), run.Violations())
		frontier = nf
	}

	stopProf()
	outMu.Lock()
	nOut := len(outcomes)
	kc := map[string]int64{}
	for k, v := range kindCount {
		kc[k] = v
	}
	cc := map[string]int64{}
	for k, v := range changeCount {
		cc[k] = v
	}
	outMu.Unlock()
	run.Finish(ev.Coverage{
		"states":                        len(visited),
		"transitions":                   transitions.Load(),
		"traces_validated_against_impl": seqsRun.Load(),
		"evaluations":                   evals.Load(),
		"distinct_nontrivial":           nontrivial.Load(),
		"distinct_outcomes":             nOut,
		"transitions_with_fault":        faulted.Load(),
		"ops_executed_incl_replay":      opsExecuted.Load(),
		"store_rpcs":                    rpcsTotal.Load(),
		"fault_scripts_inapplicable":    inapplicN.Load(),
		"fault_scripts_not_fired":       unfiredN.Load(),
		"history_replays_diverged":      divergedN.Load(),
		"new_states_per_depth":          levelStates,
		"transitions_per_op_kind":       kc,
		"deviations_per_change_and_rpc": cc,
		"max_depth":                     maxDepth,
		"alphabet_size":                 len(ops),
		"rule": "BFS over call sequences of rawkv.Client from the empty store on every initial layout (all subsets of split keys {b,c}; 2 stores); every state is expanded by the whole alphabet, each call without deviation and with every script of <= F topology changes " +
			"(split of the RPC's target region at a pool key / merge of the target with its left or right neighbour / leader transfer of the target, with TiKV's epoch rules) placed before any RPC of the call's observed trace, scripts enumerated depth-first from the traces; states = distinct (model, region start keys, faults used); transitions = distinct (state, call, script) executed on the real client; " +
			"every transition's result is compared with the sorted-map model, and after every call that writes or carried a deviation the observation set (4 Gets, unbounded Scan, store dump) is compared too; non-trivial = the call needed >= 2 store RPCs (several regions / partial requests / retries) or carried a deviation",
		"samples": samples.List(),
		"bounds":  map[string]any{"depth": depth, "faults": budget, "keys": pool, "initial_layouts": layouts, "values": []string{"x1", fmt.Sprintf("%d-byte blob", len(bigVal))}, "workers": workers},
	}, []string{
		"mocktikv is the store: it ignores TTLs (no expiry; GetKeyTTL unsupported and not in the alphabet) and the key-only flag (values are returned; the oracle accepts omitted-or-correct values for key-only scans)",
		"mocktikv answers a nil-valued pair for a missing key in RawBatchGet, which the client returns as an empty slice: BatchGet accepts nil or empty for a missing key (empty values are not in the alphabet)",
		"mocktikv cannot compare-and-swap a missing key (leveldb not-found becomes the response error); for missing keys the oracle accepts that error with unchanged state, for existing keys it demands the documented previous-value/swapped result",
		"raw requests other than DeleteRange are not checked against the region's key range by the mock (one shared store); mis-routed keys are only visible through wrong results",
		"empty keys, ReverseScan from the empty start key (documented as unsupported) and column families other than CF_DEFAULT are outside the alphabet",
		"arrival order of the concurrent partial requests of one batch call is left to the Go scheduler; the oracle does not depend on it; RPCs are identified by (command, first key, occurrence)",
		"dedup by (model, region start keys, faults used): sound because the observation set refreshes the client's region cache after every call (see file comment); leader placement is symmetric between the two identical stores",
	})
}

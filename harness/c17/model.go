package main

// Part (a): the real latch.Latches driven one transition at a time, with the ghost state and
// the oracle of property C17. A machine is always built by replaying a history of ops on a
// fresh Latches (real objects are not cloned).

import (
	"bytes"
	"encoding/json"
	"fmt"
	"slices"
	"sort"

	"github.com/tikv/client-go/v2/internal/latch"
)

// ---------- layouts (key pools with a prescribed slot pattern) ----------

// Layout is a pool of 4 keys k0<k1<k2<k3 (byte order = acquisition order inside a lock) whose
// slot ids in a Latches of `Size` slots follow Pattern.
type Layout struct {
	Name    string   `json:"name"`
	Size    uint     `json:"size"`
	Pattern []int    `json:"pattern"`
	Keys    []string `json:"keys"`
	keys    [][]byte
}

const poolSize = 4

// mkLayout searches printable two-byte keys in ascending order for the first 4 whose real
// slotID (murmur3 & (size-1)) matches the pattern. Returns nil if none exists.
func mkLayout(size uint, pattern []int) *Layout {
	l := latch.NewLatches(size)
	lay := &Layout{Size: size, Pattern: pattern}
	want := 0
	for a := byte('a'); a <= 'z' && want < poolSize; a++ {
		for b := byte('0'); b <= '9' && want < poolSize; b++ {
			k := []byte{a, b}
			if latch.VerifSlotID(l, k) == pattern[want] {
				lay.keys = append(lay.keys, k)
				lay.Keys = append(lay.Keys, string(k))
				want++
				break // next key starts with a greater first byte: keeps keys visibly distinct
			}
		}
	}
	if want < poolSize {
		return nil
	}
	lay.Name = fmt.Sprintf("slots%d:%v", latch.VerifNumSlots(l), pattern)
	return lay
}

func (lay *Layout) keyIdx(k []byte) int {
	for i, kk := range lay.keys {
		if bytes.Equal(kk, k) {
			return i
		}
	}
	return -1
}

// ---------- ops ----------

// Op kinds.
const (
	OpStart  = 'S' // a new transaction (next index) calls genLock + acquire        (caller goroutine)
	OpCont   = 'C' // slot granularity only: next acquireSlot of a first acquire     (caller goroutine)
	OpUnlock = 'U' // the scheduler takes txn T's lock from unlockCh and releases it (scheduler goroutine)
	OpSched  = 'W' // the scheduler goroutine's next step: re-acquire of the head of its
	//                wake-up list (method granularity: whole acquire; slot granularity: one
	//                releaseSlot / acquireSlot)
)

// Op is one transition. Timestamps are given either symbolically (Pos >= 0: position among the
// sorted distinct relevant timestamps of the current state, see machine.concretize) or
// concretely (Pos < 0: Abs).
type Op struct {
	K    byte   `json:"k"`
	T    int    `json:"t"`              // txn index (C, U)
	Mask int    `json:"mask,omitempty"` // key set of the new txn (S), bit i = pool key i
	Pos  int    `json:"pos"`            // S: start ts position; U: commit ts position (0 with Zero = no commit)
	Zero bool   `json:"zero,omitempty"` // U: commitTS = 0 (rollback / failed commit / stale)
	Abs  uint64 `json:"abs,omitempty"`
}

// MarshalJSON writes the kind as a letter.
func (o Op) MarshalJSON() ([]byte, error) {
	type plain struct {
		K    string `json:"k"`
		T    int    `json:"t"`
		Mask int    `json:"mask,omitempty"`
		Pos  int    `json:"pos"`
		Zero bool   `json:"zero,omitempty"`
		Abs  uint64 `json:"abs,omitempty"`
	}
	return json.Marshal(plain{string(rune(o.K)), o.T, o.Mask, o.Pos, o.Zero, o.Abs})
}

// UnmarshalJSON accepts the letter form.
func (o *Op) UnmarshalJSON(b []byte) error {
	var p struct {
		K    string `json:"k"`
		T    int    `json:"t"`
		Mask int    `json:"mask"`
		Pos  int    `json:"pos"`
		Zero bool   `json:"zero"`
		Abs  uint64 `json:"abs"`
	}
	if err := json.Unmarshal(b, &p); err != nil {
		return err
	}
	if len(p.K) != 1 {
		return fmt.Errorf("bad op kind %q", p.K)
	}
	*o = Op{K: p.K[0], T: p.T, Mask: p.Mask, Pos: p.Pos, Zero: p.Zero, Abs: p.Abs}
	return nil
}

func (o Op) String() string {
	switch o.K {
	case OpStart:
		return fmt.Sprintf("S(mask=%04b,pos=%d,abs=%d)", o.Mask, o.Pos, o.Abs)
	case OpCont:
		return fmt.Sprintf("C(%d)", o.T)
	case OpUnlock:
		if o.Zero {
			return fmt.Sprintf("U(%d,commit=0)", o.T)
		}
		return fmt.Sprintf("U(%d,pos=%d,abs=%d)", o.T, o.Pos, o.Abs)
	}
	return "W"
}

// ---------- machine ----------

type status uint8

const (
	stAcquiring status = iota // slot granularity: first acquire in progress (holds a prefix of its keys)
	stWaiting                 // acquire returned acquireLocked: sits in a slot's waiting list
	stWoken                   // returned by release: in the scheduler's wake-up list
	stGranted                 // Lock returned, not stale
	stStale                   // Lock returned, stale
	stReleasing               // slot granularity: scheduler is in the middle of release(lock)
	stReleased
)

var statusName = [...]string{"acquiring", "waiting", "woken", "granted", "stale", "releasing", "released"}

type txn struct {
	mask   int
	keys   []int // pool indices, ascending (= sorted key order)
	start  uint64
	commit uint64
	lock   *latch.Lock
	st     status
}

type violation struct {
	Key  string
	What string
}

// stepStats are per-transition outcome flags (for coverage counters).
type stepStats struct {
	grant, staleFirst, staleWake, wait, requeue, collisionSkip, wakeups, realOps int
}

type machine struct {
	lay   *Layout
	fine  bool // slot granularity
	maxN  int
	l     *latch.Latches
	tx    []*txn
	byPtr map[*latch.Lock]int
	wake  []int // scheduler's wake-up list, head first
	rel   int   // slot granularity: txn whose release is in progress, -1 if none
	// ghost
	ghostMax [poolSize]uint64 // per key: max commit ts of all releases of that key by a holder
	viol     *violation
	st       stepStats
	trace    []string // only if tracing
	tracing  bool
	dump     []latch.VerifSlot
	quiet    bool   // replaying an already checked prefix: no oracle, no coverage counters
	lastAbs  uint64 // concrete timestamp used by the last Start/Unlock
}

func newMachine(lay *Layout, fine bool, maxN int) *machine {
	return &machine{lay: lay, fine: fine, maxN: maxN, l: latch.NewLatches(lay.Size), byPtr: map[*latch.Lock]int{}, rel: -1}
}

// getDump returns the white-box copy of the slots; it is cached until the next real operation.
func (m *machine) getDump() []latch.VerifSlot {
	if m.dump == nil {
		m.dump = latch.VerifDump(m.l)
	}
	return m.dump
}

func (m *machine) fail(key, format string, a ...any) {
	if m.viol == nil {
		m.viol = &violation{Key: key, What: fmt.Sprintf(format, a...)}
	}
}

func (m *machine) logf(format string, a ...any) {
	if m.tracing {
		m.trace = append(m.trace, fmt.Sprintf(format, a...))
	}
}

// relevant returns the sorted distinct non-zero timestamps that can still take part in a
// comparison: start ts of transactions that have not returned stale / been unlocked, the commit
// ts of a release in progress, every node's maxCommitTS and the ghost's per-key maximum.
func (m *machine) relevant(dump []latch.VerifSlot) []uint64 {
	vs := make([]uint64, 0, 16)
	for _, t := range m.tx {
		switch t.st {
		case stAcquiring, stWaiting, stWoken, stGranted:
			vs = append(vs, t.start)
		case stReleasing:
			vs = append(vs, t.commit)
		}
	}
	for _, s := range dump {
		for _, n := range s.Nodes {
			vs = append(vs, n.MaxCommitTS)
		}
	}
	for _, g := range m.ghostMax {
		vs = append(vs, g)
	}
	slices.Sort(vs)
	out := vs[:0]
	for _, v := range vs {
		if v != 0 && (len(out) == 0 || out[len(out)-1] != v) {
			out = append(out, v)
		}
	}
	return out
}

const (
	tsBase = 1 << 17
	tsStep = 1 << 12
)

// concretize maps a position among the relevant values vs (0 = below all, 2j-1 = equal to
// vs[j-1], 2j = strictly between vs[j-1] and vs[j], 2m = above all) to a concrete timestamp.
// The domain is dense enough for the <= 2*maxN insertions of a history (checked: ok=false
// otherwise, which the caller reports as a harness limit, never as a violation).
func concretize(vs []uint64, pos int) (uint64, bool) {
	mm := len(vs)
	if pos < 0 || pos > 2*mm {
		return 0, false
	}
	if pos%2 == 1 {
		return vs[(pos-1)/2], true
	}
	j := pos / 2
	switch {
	case mm == 0:
		return tsBase, true
	case j == 0:
		return vs[0] / 2, vs[0] >= 2
	case j == mm:
		return vs[mm-1] + tsStep, true
	default:
		v := (vs[j-1] + vs[j]) / 2
		return v, v > vs[j-1] && v < vs[j]
	}
}

// apply executes one op on the real code, updates the ghost and checks the oracle. A panic of
// the code under test becomes a violation.
func (m *machine) apply(op Op) (ok bool) {
	m.st = stepStats{}
	m.lastAbs = 0
	defer func() {
		if p := recover(); p != nil {
			m.fail("panic", "panic in latch code: %v", p)
			ok = true
		}
	}()
	switch op.K {
	case OpStart:
		if len(m.tx) >= m.maxN {
			return false
		}
		ts := op.Abs
		if op.Pos >= 0 {
			var good bool
			ts, good = concretize(m.relevant(m.getDump()), op.Pos)
			if !good {
				return false
			}
		}
		m.lastAbs = ts
		t := &txn{mask: op.Mask, start: ts}
		var keys [][]byte
		for i := poolSize - 1; i >= 0; i-- { // hand the keys over unsorted (descending): genLock must sort
			if op.Mask&(1<<i) != 0 {
				keys = append(keys, append([]byte(nil), m.lay.keys[i]...))
			}
		}
		for i := 0; i < poolSize; i++ {
			if op.Mask&(1<<i) != 0 {
				t.keys = append(t.keys, i)
			}
		}
		if len(keys) == 0 {
			return false
		}
		m.dump = nil
		t.lock = latch.VerifGenLock(m.l, ts, keys)
		id := len(m.tx)
		m.tx = append(m.tx, t)
		m.byPtr[t.lock] = id
		t.st = stAcquiring
		if m.tracing {
			m.logf("txn%d: Lock(start=%d, keys=%s)", id, ts, m.keyNames(t.keys))
		}
		m.acquireStep(id, true)
	case OpCont:
		if !m.fine || op.T < 0 || op.T >= len(m.tx) || m.tx[op.T].st != stAcquiring {
			return false
		}
		m.acquireStep(op.T, true)
	case OpUnlock:
		if len(m.wake) > 0 || m.rel >= 0 || op.T < 0 || op.T >= len(m.tx) {
			return false
		}
		t := m.tx[op.T]
		if t.st != stGranted && t.st != stStale {
			return false
		}
		var c uint64
		if !op.Zero {
			if t.st == stStale {
				return false // txn.go never sets a commit ts on a stale lock
			}
			c = op.Abs
			if op.Pos >= 0 {
				var good bool
				c, good = concretize(m.relevant(m.getDump()), op.Pos)
				if !good {
					return false
				}
			}
			if c <= t.start {
				return false
			}
			t.lock.SetCommitTS(c)
		}
		t.commit = c
		m.lastAbs = c
		if m.tracing {
			m.logf("txn%d: UnLock(commitTS=%d) [was %s]", op.T, c, statusName[t.st])
		}
		wasGranted := t.st == stGranted
		if m.fine {
			t.st = stReleasing
			m.rel = op.T
			m.releaseStep()
		} else {
			// ghost: every key of a granted holder is released with commit ts c. A stale lock
			// releases the prefix it holds with commit ts 0, which changes no maximum.
			var pre []latch.VerifSlot
			if !m.quiet {
				pre = m.getDump()
			}
			if wasGranted {
				for _, k := range t.keys {
					m.ghostRelease(pre, k, c)
				}
			}
			m.dump = nil
			woken := latch.VerifRelease(m.l, t.lock, nil)
			m.st.realOps++
			t.st = stReleased
			m.noteWoken(woken)
		}
	case OpSched:
		if m.rel >= 0 {
			m.releaseStep()
			break
		}
		if len(m.wake) == 0 {
			return false
		}
		id := m.wake[0]
		if m.fine {
			if latch.VerifInfo(m.tx[id].lock).IsStale {
				// acquire() returns acquireStale at once without touching a slot
				m.wake = m.wake[1:]
				m.finishAcquire(id, latch.VerifStale, false)
				break
			}
			m.acquireStep(id, false)
		} else {
			m.wake = m.wake[1:]
			m.dump = nil
			r := latch.VerifAcquire(m.l, m.tx[id].lock)
			m.st.realOps++
			m.finishAcquire(id, r, false)
		}
	default:
		return false
	}
	if !m.quiet {
		m.checkState()
	}
	return true
}

func (m *machine) keyNames(idx []int) string {
	s := "{"
	for i, k := range idx {
		if i > 0 {
			s += ","
		}
		s += fmt.Sprintf("%s@slot%d", m.lay.Keys[k], m.lay.Pattern[k])
	}
	return s + "}"
}

// ghostRelease: key k is released with commit ts c (pre = slot dump before the release, used
// only for the collision-skip coverage counter).
func (m *machine) ghostRelease(pre []latch.VerifSlot, k int, c uint64) {
	if c > m.ghostMax[k] {
		m.ghostMax[k] = c
	}
	if m.quiet {
		return
	}
	// coverage: the first waiter for k is not the first waiter of the slot
	slot := pre[m.lay.Pattern[k]%len(pre)]
	for i, w := range slot.Waiting {
		wi := latch.VerifInfo(w)
		if wi.AcquiredCount < len(wi.Keys) && m.lay.keyIdx(wi.Keys[wi.AcquiredCount]) == k {
			if i > 0 {
				m.st.collisionSkip++
			}
			break
		}
	}
}

func (m *machine) noteWoken(woken []*latch.Lock) {
	for _, w := range woken {
		id, known := m.byPtr[w]
		if !known {
			m.fail("wake-unknown", "release returned a lock that was never requested")
			continue
		}
		if m.tx[id].st != stWaiting {
			m.fail("wake-nonwaiting", "release woke txn%d which is %s, not waiting", id, statusName[m.tx[id].st])
			continue
		}
		m.tx[id].st = stWoken
		m.wake = append(m.wake, id)
		m.st.wakeups++
		if m.tracing {
			m.logf("  -> wakes txn%d (stale=%v)", id, latch.VerifInfo(w).IsStale)
		}
	}
}

// acquireStep runs acquire (method granularity) or one acquireSlot (slot granularity) for txn id.
func (m *machine) acquireStep(id int, first bool) {
	t := m.tx[id]
	if !m.fine {
		m.dump = nil
		r := latch.VerifAcquire(m.l, t.lock)
		m.st.realOps++
		m.finishAcquire(id, r, first)
		return
	}
	m.dump = nil
	r := latch.VerifAcquireSlot(m.l, t.lock)
	m.st.realOps++
	inf := latch.VerifInfo(t.lock)
	if r == latch.VerifSuccess && inf.AcquiredCount < len(inf.Keys) {
		if m.tracing {
			m.logf("txn%d: acquireSlot ok (%d/%d)", id, inf.AcquiredCount, len(inf.Keys))
		}
		return // acquire's loop continues with the next slot at the next step
	}
	if !first {
		m.wake = m.wake[1:]
	}
	m.finishAcquire(id, r, first)
}

// finishAcquire: acquire(lock) returned r (first: in Lock on the caller goroutine; otherwise in
// wakeup on the scheduler goroutine).
func (m *machine) finishAcquire(id, r int, first bool) {
	t := m.tx[id]
	switch r {
	case latch.VerifLocked:
		t.st = stWaiting
		m.st.wait++
		if !first {
			m.st.requeue++
		}
		if m.tracing {
			m.logf("txn%d: acquire -> locked (waits)", id)
		}
	case latch.VerifSuccess:
		t.st = stGranted
		m.st.grant++
		if m.tracing {
			m.logf("txn%d: acquire -> success: Lock returns, not stale", id)
		}
		// exclusivity (black box): no other transaction between its grant and its unlock shares a key
		for j, o := range m.tx {
			if j != id && o.st == stGranted && o.mask&t.mask != 0 {
				m.fail("exclusivity", "txn%d granted keys %s while txn%d still holds %s", id, m.keyNames(t.keys), j, m.keyNames(o.keys))
			}
		}
		// staleness, direction 'missed': granted although a requested key was released with a greater commit ts
		for _, k := range t.keys {
			if m.ghostMax[k] > t.start {
				m.fail("stale-missed", "txn%d (start=%d) granted although key %s was released with commit ts %d > start", id, t.start, m.lay.Keys[k], m.ghostMax[k])
			}
		}
		if !latchComplete(t.lock) {
			m.fail("grant-incomplete", "txn%d: acquire returned success with acquiredCount < number of keys", id)
		}
	case latch.VerifStale:
		t.st = stStale
		if first {
			m.st.staleFirst++
		} else {
			m.st.staleWake++
		}
		if m.tracing {
			m.logf("txn%d: acquire -> stale: Lock returns, IsStale", id)
		}
		if !t.lock.IsStale() {
			m.fail("stale-flag", "txn%d: acquire returned acquireStale but Lock.IsStale() is false", id)
		}
		found := false
		for _, k := range t.keys {
			if m.ghostMax[k] > t.start {
				found = true
			}
		}
		if !found {
			m.fail("stale-false-positive", "txn%d (start=%d, keys %s) flagged stale although no requested key was released with a commit ts > start (ghost max per key %v)", id, t.start, m.keyNames(t.keys), m.ghostMax)
		}
	default:
		m.fail("acquire-result", "unknown acquire result %d", r)
	}
}

func latchComplete(l *latch.Lock) bool {
	inf := latch.VerifInfo(l)
	return inf.AcquiredCount == len(inf.RequiredSlots)
}

// releaseStep (slot granularity): one releaseSlot of the release in progress.
func (m *machine) releaseStep() {
	t := m.tx[m.rel]
	inf := latch.VerifInfo(t.lock)
	if inf.AcquiredCount > 0 {
		var pre []latch.VerifSlot
		if !m.quiet {
			pre = m.getDump()
		}
		k := m.lay.keyIdx(inf.Keys[inf.AcquiredCount-1])
		m.ghostRelease(pre, k, t.commit)
		m.dump = nil
		w := latch.VerifReleaseSlot(m.l, t.lock)
		m.st.realOps++
		if w != nil {
			m.noteWoken([]*latch.Lock{w})
		}
		inf = latch.VerifInfo(t.lock)
	}
	if inf.AcquiredCount == 0 {
		t.st = stReleased
		m.rel = -1
	}
}

// checkState: invariants of every reachable state.
func (m *machine) checkState() {
	dump := m.getDump()
	// recycling must stay out of reach (stated bound): acquireSlot recycles only from
	// latchListCount nodes per slot on, the pool has 4 keys.
	for i, s := range dump {
		if s.Count >= latch.VerifLatchListCount {
			m.fail("harness:recycle-reachable", "slot %d has %d nodes: recycle() would run", i, s.Count)
		}
	}
	// exclusivity (white box): every key of a granted transaction has that lock as node value
	for id, t := range m.tx {
		if t.st != stGranted {
			continue
		}
		for _, k := range t.keys {
			var holder *latch.Lock
			for _, s := range dump {
				for _, n := range s.Nodes {
					if m.lay.keyIdx(n.Key) == k {
						holder = n.Holder
					}
				}
			}
			if holder != t.lock {
				m.fail("exclusivity-whitebox", "txn%d is granted but the node of key %s names another holder", id, m.lay.Keys[k])
			}
		}
	}
	// progress: nothing is enabled for the started transactions (scheduler idle, nobody
	// acquiring, no returned lock left to unlock) but a request is still blocked.
	if len(m.wake) == 0 && m.rel < 0 {
		blocked := -1
		for id, t := range m.tx {
			switch t.st {
			case stAcquiring, stGranted, stStale, stWoken, stReleasing:
				return
			case stWaiting:
				blocked = id
			}
		}
		if blocked >= 0 {
			t := m.tx[blocked]
			m.fail("stuck", "all holders have unlocked and the scheduler is idle, but txn%d (keys %s) is still blocked: lost wake-up / deadlock", blocked, m.keyNames(t.keys))
		}
	}
}

// enabled lists the ops enabled in the current state (deterministic order, simplest first).
func (m *machine) enabled(masks []int) []Op {
	var ops []Op
	dump := m.getDump()
	vs := m.relevant(dump)
	// scheduler goroutine
	if m.rel >= 0 || len(m.wake) > 0 {
		ops = append(ops, Op{K: OpSched})
	} else {
		for id, t := range m.tx {
			if t.st == stStale {
				ops = append(ops, Op{K: OpUnlock, T: id, Zero: true})
			}
			if t.st == stGranted {
				ops = append(ops, Op{K: OpUnlock, T: id, Zero: true})
				// commit ts: every position strictly above the start ts
				j := sort.Search(len(vs), func(i int) bool { return vs[i] >= t.start }) // vs[j] == start
				for p := 2*j + 2; p <= 2*len(vs); p++ {
					ops = append(ops, Op{K: OpUnlock, T: id, Pos: p})
				}
			}
		}
	}
	// callers in the middle of their first acquire
	for id, t := range m.tx {
		if t.st == stAcquiring {
			ops = append(ops, Op{K: OpCont, T: id})
		}
	}
	// a new caller
	if len(m.tx) < m.maxN {
		for _, mk := range masks {
			for p := 0; p <= 2*len(vs); p++ {
				ops = append(ops, Op{K: OpStart, Mask: mk, Pos: p})
			}
		}
	}
	return ops
}

// nontrivial: some lock is blocked, pending wake-up or flagged stale.
func (m *machine) nontrivial() bool {
	for _, t := range m.tx {
		if t.st == stWaiting || t.st == stWoken || t.st == stStale {
			return true
		}
	}
	return false
}

func (m *machine) terminal() bool {
	if len(m.tx) < m.maxN {
		return false
	}
	for _, t := range m.tx {
		if t.st != stReleased {
			return false
		}
	}
	return true
}

// canon returns the canonical form of the state: the real slot contents (white-box dump) with
// lock pointers replaced by labels assigned in a structure-determined traversal order, all
// relevant timestamps replaced by their rank, plus the harness bookkeeping (status, wake-up
// list, release in progress, number of transactions still to come) and the ghost maxima.
//
// Why merged states have equal futures: the code under test reads only slot contents and the
// Lock objects reachable from them or handed to it later (keys, requiredSlots, acquiredCount,
// startTS, commitTS, isStale); it only compares timestamps (>, max), so order-isomorphic
// timestamp assignments behave alike and the dense symbolic choice of later timestamps
// (concretize) offers the same positions; node order inside a slot's list is irrelevant
// (findNode matches by key and keys are unique in a list) and is sorted away; `count` only
// matters from latchListCount on (asserted unreachable). The oracle reads statuses, key sets,
// start ts and ghostMax, all of which are part of the form. Unlocked transactions that are not
// referenced by any slot and the start ts of stale-returned ones are never read again.
func (m *machine) canon() []byte {
	dump := m.getDump()
	vs := m.relevant(dump)
	rank := func(v uint64) byte {
		if v == 0 {
			return 0
		}
		i := sort.Search(len(vs), func(i int) bool { return vs[i] >= v })
		if i < len(vs) && vs[i] == v {
			return byte(i + 1)
		}
		return 0xFE // not relevant (never compared again)
	}
	label := map[int]byte{}
	var order []int
	see := func(l *latch.Lock) byte {
		if l == nil {
			return 0xFF
		}
		id, ok := m.byPtr[l]
		if !ok {
			return 0xFD
		}
		if lb, ok := label[id]; ok {
			return lb
		}
		label[id] = byte(len(order))
		order = append(order, id)
		return label[id]
	}
	b := make([]byte, 0, 160)
	b = append(b, byte(m.maxN-len(m.tx)))
	for _, s := range dump {
		nodes := append([]latch.VerifNode(nil), s.Nodes...)
		slices.SortFunc(nodes, func(x, y latch.VerifNode) int { return bytes.Compare(x.Key, y.Key) })
		b = append(b, 'N', byte(len(nodes)))
		for _, n := range nodes {
			b = append(b, byte(m.lay.keyIdx(n.Key)), rank(n.MaxCommitTS), see(n.Holder))
		}
		b = append(b, 'Q', byte(len(s.Waiting)))
		for _, w := range s.Waiting {
			b = append(b, see(w))
		}
	}
	b = append(b, 'K', byte(len(m.wake)))
	for _, id := range m.wake {
		b = append(b, see(m.tx[id].lock))
	}
	b = append(b, 'R')
	if m.rel >= 0 {
		b = append(b, see(m.tx[m.rel].lock))
	} else {
		b = append(b, 0xFF)
	}
	desc := func(t *txn) []byte {
		inf := latch.VerifInfo(t.lock)
		d := []byte{byte(t.st), byte(t.mask), byte(inf.AcquiredCount), 0, 0xFE, 0xFE}
		if inf.IsStale {
			d[3] = 1
		}
		switch t.st {
		case stAcquiring, stWaiting, stWoken, stGranted:
			d[4] = rank(t.start)
		case stReleasing:
			d[5] = rank(t.commit)
		}
		return d
	}
	// live transactions not referenced by the structure (e.g. returned stale holding nothing)
	var rest [][]byte
	for id, t := range m.tx {
		if _, ok := label[id]; !ok && t.st != stReleased {
			rest = append(rest, desc(t))
		}
	}
	slices.SortFunc(rest, bytes.Compare)
	b = append(b, 'T', byte(len(order)))
	for _, id := range order {
		b = append(b, desc(m.tx[id])...)
	}
	b = append(b, 'U', byte(len(rest)))
	for _, d := range rest {
		b = append(b, d...)
	}
	b = append(b, 'G')
	for _, g := range m.ghostMax {
		b = append(b, rank(g))
	}
	return b
}

// describe renders the state for traces.
func (m *machine) describe() string {
	dump := m.getDump()
	s := ""
	for i, sl := range dump {
		s += fmt.Sprintf("slot%d[", i)
		for _, n := range sl.Nodes {
			h := "-"
			if n.Holder != nil {
				h = fmt.Sprintf("txn%d", m.byPtr[n.Holder])
			}
			s += fmt.Sprintf(" %s:max=%d,holder=%s", n.Key, n.MaxCommitTS, h)
		}
		s += " | waiting:"
		for _, w := range sl.Waiting {
			s += fmt.Sprintf(" txn%d", m.byPtr[w])
		}
		s += "] "
	}
	for id, t := range m.tx {
		s += fmt.Sprintf("txn%d=%s ", id, statusName[t.st])
	}
	s += fmt.Sprintf("wake=%v ghostMax=%v", m.wake, m.ghostMax)
	return s
}

// replay builds the machine of a history. ok=false if an op is not enabled (harness error).
func replay(lay *Layout, fine bool, maxN int, hist []Op, tracing bool) (*machine, bool) {
	m := newMachine(lay, fine, maxN)
	m.tracing = tracing
	for _, op := range hist {
		if !m.apply(op) {
			return m, false
		}
		if tracing {
			m.trace = append(m.trace, "   "+m.describe())
		}
	}
	return m, true
}

// replayQuiet rebuilds the machine of an already explored history (every prefix state has been
// checked when it was first generated): no oracle checks, concrete timestamps only.
func replayQuiet(lay *Layout, fine bool, maxN int, hist []Op) (*machine, bool) {
	m := newMachine(lay, fine, maxN)
	m.quiet = true
	for _, op := range hist {
		if !m.apply(op) {
			return m, false
		}
	}
	m.quiet = false
	m.viol = nil
	return m, true
}

package main

// Part (b): the real LatchesScheduler (scheduler goroutine, unlock channel, wait groups) driven
// by 3 caller goroutines. The explorer releases one API call (Lock or UnLock of one caller) at a
// time and waits until the process is quiescent: GOMAXPROCS=1 and the runtime's scheduler
// metrics say that no other goroutine is runnable or in a system call (twice in a row), and the
// unlock channel is empty. Then every caller is either blocked inside Lock, or has reported the
// end of its call. If quiescence cannot be established the execution is counted inconclusive -
// never a violation. A "stuck" verdict is additionally confirmed by sleeping, re-checking and a
// full stack snapshot; an unconfirmed one is inconclusive as well.
// Every execution is also run through part (a)'s method-granularity machine (same events,
// concrete timestamps); a disagreement about who is blocked/granted/stale means part (a)'s
// sequencing model is not faithful and is reported as exhaustive:false (not as a violation).

import (
	"encoding/json"
	"fmt"
	"os"
	"os/exec"
	"runtime"
	"runtime/metrics"
	"sort"
	"strings"
	"sync"
	"sync/atomic"
	"time"

	"github.com/tikv/client-go/v2/internal/latch"
)

const bCallers = 3

type bEvent struct {
	Caller int    `json:"caller"`
	Kind   string `json:"kind"` // "Lock" | "UnLock"
	Commit uint64 `json:"commit_ts,omitempty"`
}

type bCase struct {
	Masks  [bCallers]int    `json:"key_masks"`
	Starts [bCallers]uint64 `json:"start_ts"`
	Events []bEvent         `json:"events"`
}

type bViol struct {
	Key    string         `json:"key"`
	What   string         `json:"what"`
	Replay replayArtefact `json:"replay"`
}

type bResult struct {
	Cov        map[string]int64 `json:"cov"`
	Executions int64            `json:"executions"`
	Viol       []bViol          `json:"viol"`
	Incomplete []string         `json:"incomplete"`
	Bounds     string           `json:"bounds"`
}

// ---------- quiescence ----------

var qs = []metrics.Sample{
	{Name: "/sched/goroutines/runnable:goroutines"},
	{Name: "/sched/goroutines/not-in-go:goroutines"},
}

func metricsUsable() bool {
	metrics.Read(qs)
	return qs[0].Value.Kind() == metrics.KindUint64 && qs[1].Value.Kind() == metrics.KindUint64
}

var quiesceSpins int64

func quiesce(s *latch.LatchesScheduler) bool {
	stable := 0
	for i := 0; i < 400000; i++ {
		runtime.Gosched()
		quiesceSpins++
		metrics.Read(qs)
		if qs[0].Value.Uint64() == 0 && qs[1].Value.Uint64() == 0 && latch.VerifUnlockChLen(s) == 0 {
			stable++
			if stable >= 2 {
				return true
			}
		} else {
			stable = 0
			if i > 10000 && i%500 == 0 {
				time.Sleep(20 * time.Microsecond)
			}
		}
	}
	return false
}

// stackQuiet: full stack snapshot; no goroutine other than the caller is runnable/running/in a syscall.
func stackQuiet() bool {
	buf := make([]byte, 1<<20)
	n := runtime.Stack(buf, true)
	first := true
	for _, blk := range strings.Split(string(buf[:n]), "\n\n") {
		if !strings.HasPrefix(blk, "goroutine ") {
			continue
		}
		hdr := blk
		if i := strings.IndexByte(blk, '\n'); i >= 0 {
			hdr = blk[:i]
		}
		if first {
			first = false
			continue
		}
		if strings.Contains(hdr, "[runnable") || strings.Contains(hdr, "[running") || strings.Contains(hdr, "[syscall") {
			return false
		}
	}
	return true
}

// ---------- one execution ----------

type bCaller struct {
	cmd      chan uint64 // Lock: any value; UnLock: commit ts
	lock     *latch.Lock
	returned atomic.Int32 // 0 in Lock / not called, 1 granted, 2 stale
	unlocked atomic.Bool
	panicked atomic.Value
}

const (
	cNotCalled = iota
	cBlocked
	cGranted
	cStale
	cUnlocked
)

var cName = [...]string{"not-called", "blocked", "granted", "stale", "unlocked"}

type bExplorer struct {
	lay    *Layout
	res    *bResult
	viol   map[string]bool
	starts [bCallers]uint64
	masks  [bCallers]int
}

func (e *bExplorer) count(k string, n int64) { e.res.Cov[k] += n }

func (e *bExplorer) violation(key, what string, c bCase) {
	e.count("violations", 1)
	if e.viol[key] {
		return
	}
	e.viol[key] = true
	cc := c
	cc.Events = append([]bEvent(nil), c.Events...)
	e.res.Viol = append(e.res.Viol, bViol{Key: key, What: what, Replay: replayArtefact{Part: "b", Size: e.lay.Size, Pat: e.lay.Pattern, N: bCallers, B: &cc}})
}

var commitGrid = []uint64{3, 4, 5, 6, 7}

// exec runs one execution: follows `choices`, then always the first enabled event. Returns the
// branching factor of every decision taken (len >= len(choices) unless cut short) and the
// choices actually taken. fixed != nil replays an explicit event list instead.
func (e *bExplorer) exec(choices []int, fixed []bEvent) (counts []int, taken []int) {
	s := latch.NewScheduler(e.lay.Size)
	l := latch.VerifLatches(s)
	_ = l
	callers := make([]*bCaller, bCallers)
	keysOf := func(mask int) (ks [][]byte, idx []int) {
		for i := poolSize - 1; i >= 0; i-- {
			if mask&(1<<i) != 0 {
				ks = append(ks, append([]byte(nil), e.lay.keys[i]...))
			}
		}
		for i := 0; i < poolSize; i++ {
			if mask&(1<<i) != 0 {
				idx = append(idx, i)
			}
		}
		return
	}
	for i := range callers {
		c := &bCaller{cmd: make(chan uint64)}
		callers[i] = c
		ks, _ := keysOf(e.masks[i])
		st := e.starts[i]
		go func() {
			defer func() {
				if p := recover(); p != nil {
					c.panicked.Store(fmt.Sprint(p))
				}
			}()
			if _, ok := <-c.cmd; !ok {
				return
			}
			lk := s.Lock(st, ks)
			c.lock = lk
			if lk.IsStale() {
				c.returned.Store(2)
			} else {
				c.returned.Store(1)
			}
			commit, ok := <-c.cmd
			if !ok {
				return
			}
			if commit != 0 {
				lk.SetCommitTS(commit)
			}
			s.UnLock(lk)
			c.unlocked.Store(true)
		}()
	}
	defer func() {
		for _, c := range callers {
			close(c.cmd)
		}
		s.Close()
	}()

	cs := bCase{Masks: e.masks, Starts: e.starts}
	status := [bCallers]int{}
	var ghostMax [poolSize]uint64
	twin := newMachine(e.lay, false, bCallers)
	twinIdx := [bCallers]int{-1, -1, -1}
	twinOK := true

	observe := func() (newly []int) {
		for i, c := range callers {
			if status[i] == cBlocked {
				switch c.returned.Load() {
				case 1:
					status[i] = cGranted
					newly = append(newly, i)
				case 2:
					status[i] = cStale
					newly = append(newly, i)
				}
			}
		}
		return
	}

	for d := 0; ; d++ {
		// enabled events
		var evs []bEvent
		if fixed != nil {
			if d >= len(fixed) {
				break
			}
			evs = []bEvent{fixed[d]}
		} else {
			for i := range callers {
				if status[i] == cNotCalled {
					evs = append(evs, bEvent{Caller: i, Kind: "Lock"})
				}
			}
			for i := range callers {
				if status[i] == cStale {
					evs = append(evs, bEvent{Caller: i, Kind: "UnLock"})
				}
				if status[i] == cGranted {
					evs = append(evs, bEvent{Caller: i, Kind: "UnLock"})
					for _, c := range commitGrid {
						if c > e.starts[i] {
							evs = append(evs, bEvent{Caller: i, Kind: "UnLock", Commit: c})
						}
					}
				}
			}
		}
		if len(evs) == 0 {
			break
		}
		pick := 0
		if d < len(choices) {
			pick = choices[d]
		}
		counts = append(counts, len(evs))
		taken = append(taken, pick)
		ev := evs[pick]
		cs.Events = append(cs.Events, ev)
		i := ev.Caller
		_, kidx := keysOf(e.masks[i])
		var twinOps []Op
		switch ev.Kind {
		case "Lock":
			if status[i] != cNotCalled {
				e.count("replay_event_not_enabled", 1)
				return
			}
			status[i] = cBlocked
			callers[i].cmd <- 0
			twinIdx[i] = len(twin.tx)
			twinOps = []Op{{K: OpStart, Mask: e.masks[i], Pos: -1, Abs: e.starts[i]}}
		case "UnLock":
			if status[i] != cGranted && status[i] != cStale {
				e.count("replay_event_not_enabled", 1)
				return
			}
			if status[i] == cGranted {
				for _, k := range kidx {
					if ev.Commit > ghostMax[k] {
						ghostMax[k] = ev.Commit
					}
				}
			}
			status[i] = cUnlocked
			callers[i].cmd <- ev.Commit
			twinOps = []Op{{K: OpUnlock, T: twinIdx[i], Pos: -1, Abs: ev.Commit, Zero: ev.Commit == 0}}
		}
		e.count("api_calls", 1)
		if !quiesce(s) {
			e.count("inconclusive_no_quiescence", 1)
			return
		}
		if ev.Kind == "UnLock" && !callers[i].unlocked.Load() {
			// UnLock only sends on a buffered channel; after quiescence it must have returned
			e.count("inconclusive_unlock_not_returned", 1)
			return
		}
		for ci, c := range callers {
			if p := c.panicked.Load(); p != nil {
				e.violation("b:panic", fmt.Sprintf("caller %d panicked: %v", ci, p), cs)
				return
			}
		}
		newly := observe()
		for _, n := range newly {
			_, nk := keysOf(e.masks[n])
			if status[n] == cGranted {
				e.count("grants", 1)
				for j := range callers {
					if j != n && status[j] == cGranted && e.masks[j]&e.masks[n] != 0 {
						e.violation("b:exclusivity", fmt.Sprintf("caller %d returned from Lock (not stale) while caller %d still holds an overlapping key set", n, j), cs)
					}
				}
				for _, k := range nk {
					if ghostMax[k] > e.starts[n] {
						e.violation("b:stale-missed", fmt.Sprintf("caller %d (start=%d) granted although key %s was released with commit ts %d", n, e.starts[n], e.lay.Keys[k], ghostMax[k]), cs)
					}
				}
			} else {
				e.count("stale", 1)
				found := false
				for _, k := range nk {
					if ghostMax[k] > e.starts[n] {
						found = true
					}
				}
				if !found {
					e.violation("b:stale-false-positive", fmt.Sprintf("caller %d (start=%d) flagged stale although no requested key was released with a greater commit ts", n, e.starts[n]), cs)
				}
			}
			if n != i {
				e.count("returns_by_wakeup", 1)
			}
		}
		if status[i] == cBlocked && ev.Kind == "Lock" {
			e.count("blocked_in_lock", 1)
		}
		// progress
		holder, blocked := false, -1
		for j := range callers {
			if status[j] == cGranted || status[j] == cStale {
				holder = true
			}
			if status[j] == cBlocked {
				blocked = j
			}
		}
		if !holder && blocked >= 0 {
			confirmed := true
			for r := 0; r < 3 && confirmed; r++ {
				time.Sleep(2 * time.Millisecond)
				if !quiesce(s) || !stackQuiet() || callers[blocked].returned.Load() != 0 {
					confirmed = false
				}
			}
			if confirmed {
				e.violation("b:stuck", fmt.Sprintf("every returned lock is unlocked and the scheduler goroutine is idle, but caller %d is still blocked in Lock: lost wake-up / deadlock", blocked), cs)
			} else {
				e.count("inconclusive_stuck_not_confirmed", 1)
			}
			return
		}
		// twin (part (a) machine at method granularity)
		if twinOK {
			for _, op := range twinOps {
				if !twin.apply(op) {
					twinOK = false
				}
			}
			for twinOK && len(twin.wake) > 0 {
				twinOK = twin.apply(Op{K: OpSched})
			}
			if twinOK {
				for j := range callers {
					want := cNotCalled
					if twinIdx[j] >= 0 {
						switch twin.tx[twinIdx[j]].st {
						case stWaiting:
							want = cBlocked
						case stGranted:
							want = cGranted
						case stStale:
							want = cStale
						case stReleased:
							want = cUnlocked
						default:
							want = -1
						}
					}
					if want != status[j] {
						twinOK = false
						e.count("twin_mismatch", 1)
						if len(e.res.Incomplete) < 3 {
							b, _ := json.Marshal(cs)
							e.res.Incomplete = append(e.res.Incomplete, fmt.Sprintf("part (a)'s sequencing model disagrees with the real scheduler: caller %d is %s, model says %d, case %s", j, cName[status[j]], want, b))
						}
						break
					}
				}
				if twinOK {
					e.count("steps_agreeing_with_part_a_model", 1)
				}
			} else {
				e.count("twin_not_applicable", 1)
			}
		}
	}
	e.res.Executions++
	done := true
	for j := range callers {
		if status[j] != cUnlocked {
			done = false
		}
	}
	if done {
		e.count("complete_executions", 1)
	}
	return
}

// explore enumerates every event order / commit choice of one population (stateless DFS).
func (e *bExplorer) explore() {
	var choices []int
	for {
		before := e.res.Cov["violations"]
		counts, taken := e.exec(choices, nil)
		if e.res.Cov["violations"] > before {
			return // first (shortest-prefix) counterexample of this population is enough
		}
		i := len(counts) - 1
		for i >= 0 && taken[i]+1 >= counts[i] {
			i--
		}
		if i < 0 {
			return
		}
		choices = append(append([]int(nil), taken[:i]...), taken[i]+1)
	}
}

// ---------- populations ----------

func bPopulations(thorough bool) (lays []*Layout, maskSets [][bCallers]int, startSets [][bCallers]uint64, desc string) {
	lays = []*Layout{mkLayout(2, []int{0, 1, 0, 0})}
	k := 2
	if thorough {
		lays = append(lays, mkLayout(2, []int{0, 1, 0, 1}), mkLayout(1, []int{0, 0, 0, 0}))
		k = 3
	}
	ms := masksUpTo(k)
	for a := 0; a < len(ms); a++ {
		for b := a; b < len(ms); b++ {
			for c := b; c < len(ms); c++ {
				// only populations with contention: every caller shares a key with another one
				m := [bCallers]int{ms[a], ms[b], ms[c]}
				if m[0]&(m[1]|m[2]) == 0 || m[1]&(m[0]|m[2]) == 0 || m[2]&(m[0]|m[1]) == 0 {
					continue
				}
				maskSets = append(maskSets, m)
			}
		}
	}
	// start ts: all weak orders of 3 callers (dense ranks on the grid 2,4,6)
	for a := 1; a <= 3; a++ {
		for b := 1; b <= 3; b++ {
			for c := 1; c <= 3; c++ {
				used := map[int]bool{a: true, b: true, c: true}
				dense := true
				for v := 1; v <= len(used); v++ {
					if !used[v] {
						dense = false
					}
				}
				if dense {
					startSets = append(startSets, [bCallers]uint64{uint64(2 * a), uint64(2 * b), uint64(2 * c)})
				}
			}
		}
	}
	desc = fmt.Sprintf("3 callers; key sets: all multisets of 3 subsets (size<=%d) of the 4-key pool in which every caller overlaps another; start ts: all %d weak orders on {2,4,6}; commit ts in {0} u {3..7 > start}; every order of the enabled Lock/UnLock calls; layouts %d", k, len(startSets), len(lays))
	return
}

func partBChild(shard, nshard int, thorough bool) {
	runtime.GOMAXPROCS(1)
	res := &bResult{Cov: map[string]int64{}}
	if !metricsUsable() {
		res.Incomplete = append(res.Incomplete, "part (b): runtime scheduler metrics unavailable, quiescence cannot be established")
	} else {
		lays, maskSets, startSets, desc := bPopulations(thorough)
		res.Bounds = desc
		n := 0
		viol := map[string]bool{}
		for _, lay := range lays {
			if lay == nil {
				res.Incomplete = append(res.Incomplete, "part (b): layout not constructible")
				continue
			}
			for _, ms := range maskSets {
				for _, ss := range startSets {
					n++
					if n%nshard != shard {
						continue
					}
					if os.Getenv("VERIF_C17_TRACE_CASES") != "" {
						fmt.Fprintf(os.Stderr, "CASE %s masks=%v starts=%v\n", lay.Name, ms, ss)
					}
					e := &bExplorer{lay: lay, res: res, viol: viol, masks: ms, starts: ss}
					e.explore()
					res.Cov["populations"]++
					if res.Cov["violations"] >= 20 {
						res.Cov["stopped_after_20_violations"] = 1
						goto out
					}
				}
			}
		}
	out:
		res.Cov["quiesce_spins"] = quiesceSpins
	}
	b, _ := json.Marshal(res)
	os.Stdout.Write(append(b, '\n'))
}

// runPartB starts the child processes and merges their results.
func runPartB(thorough bool) *bResult {
	nshard := 4
	if thorough {
		nshard = 6
	}
	outs := make([]*bResult, nshard)
	crashes := make([]string, nshard)
	var wg sync.WaitGroup
	for i := 0; i < nshard; i++ {
		wg.Add(1)
		go func(i int) {
			defer wg.Done()
			outs[i], crashes[i] = runChild(i, nshard, false)
			if crashes[i] != "" {
				// find the population deterministically
				_, tr := runChild(i, nshard, true)
				last := ""
				for _, ln := range strings.Split(tr, "\n") {
					if strings.HasPrefix(ln, "CASE ") {
						last = ln
					}
				}
				crashes[i] = last + " :: " + firstLines(crashes[i], 12)
			}
		}(i)
	}
	wg.Wait()
	m := &bResult{Cov: map[string]int64{}}
	for i, o := range outs {
		if crashes[i] != "" {
			m.Viol = append(m.Viol, bViol{Key: "b:crash", What: "the process running the real scheduler goroutine crashed (panic outside a caller goroutine): " + crashes[i],
				Replay: replayArtefact{Part: "b", Trace: []string{crashes[i]}}})
			continue
		}
		if o == nil {
			m.Incomplete = append(m.Incomplete, "part (b): child produced no result")
			continue
		}
		for k, v := range o.Cov {
			m.Cov[k] += v
		}
		m.Executions += o.Executions
		m.Incomplete = append(m.Incomplete, o.Incomplete...)
		m.Bounds = o.Bounds
		for _, v := range o.Viol {
			dup := false
			for _, w := range m.Viol {
				if w.Key == v.Key {
					dup = true
				}
			}
			if !dup {
				m.Viol = append(m.Viol, v)
			}
		}
	}
	for _, k := range []string{"inconclusive_no_quiescence", "inconclusive_unlock_not_returned", "inconclusive_stuck_not_confirmed", "replay_event_not_enabled"} {
		if m.Cov[k] > 0 {
			m.Incomplete = append(m.Incomplete, fmt.Sprintf("part (b): %s=%d", k, m.Cov[k]))
		}
	}
	sort.Strings(m.Incomplete)
	fmt.Fprintf(os.Stderr, "c17(b): executions=%d api_calls=%d populations=%d violations=%d\n", m.Executions, m.Cov["api_calls"], m.Cov["populations"], len(m.Viol))
	return m
}

func firstLines(s string, n int) string {
	ls := strings.Split(s, "\n")
	if len(ls) > n {
		ls = ls[:n]
	}
	return strings.Join(ls, " | ")
}

// runChild returns the parsed result, or the stderr text if the child crashed.
func runChild(shard, nshard int, traceCases bool) (*bResult, string) {
	cmd := exec.Command(os.Args[0], "-partb-child", "-shard", fmt.Sprint(shard), "-nshard", fmt.Sprint(nshard))
	cmd.Env = append(os.Environ(), "GOMAXPROCS=1")
	if traceCases {
		cmd.Env = append(cmd.Env, "VERIF_C17_TRACE_CASES=1")
	}
	var stderr strings.Builder
	cmd.Stderr = &stderr
	out, err := cmd.Output()
	if traceCases {
		return nil, stderr.String()
	}
	if err != nil {
		return nil, "exit: " + err.Error() + "\n" + stderr.String()
	}
	var r bResult
	if json.Unmarshal(out, &r) != nil {
		return nil, "unparsable child output\n" + stderr.String()
	}
	return &r, ""
}

// Cov for the evidence file.
func (r *bResult) covMap() map[string]any {
	m := map[string]any{"bounds": r.Bounds, "executions": r.Executions}
	for k, v := range r.Cov {
		m[k] = v
	}
	return m
}

func replayB(key string, a replayArtefact) {
	runtime.GOMAXPROCS(1)
	lay := mkLayout(a.Size, a.Pat)
	if lay == nil || a.B == nil || !metricsUsable() {
		fmt.Fprintln(os.Stderr, "cannot replay this part (b) case")
		os.Exit(2)
	}
	res := &bResult{Cov: map[string]int64{}}
	e := &bExplorer{lay: lay, res: res, viol: map[string]bool{}, masks: a.B.Masks, starts: a.B.Starts}
	e.exec(nil, a.B.Events)
	for _, v := range res.Viol {
		run.Violation(v.Key, v.What, v.Replay)
	}
	fmt.Printf("replay (b): counters %v\n", res.Cov)
	run.Finish(map[string]any{"states": 1, "transitions": len(a.B.Events), "traces_validated_against_impl": 1, "evaluations": 1, "distinct_nontrivial": 1, "rule": "replay of one stored part (b) execution", "samples": []any{a.B}}, nil)
}

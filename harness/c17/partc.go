package main

// Part (c): recycling of expired latch nodes.
//
// Parts (a) and (b) keep every slot below latchListCount nodes and use counter timestamps, so
// neither the per-slot recycle step of acquireSlot nor the global Latches.recycle ever removes
// anything there. Part (c) explores exactly that area, again exhaustively and on the real code:
//
//   - cache-state generator ("setup"): P distinct keys of ONE slot are locked and unlocked one
//     after the other (each with its own commit ts, 1 ms apart, optionally one of them without a
//     commit ts), so that the slot's list reaches / exceeds latchListCount = 5 nodes;
//   - timestamps are oracle-scale (physical ms << 18 | logical) and come from a finite grid that
//     jumps by less than / exactly / more than expireDuration relative to the commit ts of the
//     different setup keys and relative to the other grid points;
//   - then N transactions with <= K keys each from a sub-pool of that slot (keys whose node is
//     just expiring, a key that is 1 ms short of expiring, a key that has no node yet, a key of
//     the other slot) contend in every interleaving, sequenced as LatchesScheduler sequences
//     them (see part (a)); the global recycle(currentTS) is an extra transition that may happen
//     between any two steps (the scheduler starts it in a goroutine of its own).
//
// Oracle = the one of part (a) with the documented expiry read into 'exactly stale':
//   gAll[k]  = greatest commit ts any holder of k was released with            (upper bound)
//   gMust[k] = the same, but forgotten (0) as soon as a timestamp X has been presented to the
//              latches (start ts of an acquire attempt, argument of recycle) whose physical part
//              is >= expireDuration later - that information MAY have been dropped (lower bound)
//   flagged stale  => some requested key has gAll[k]  > start ts
//   granted        => every requested key has gMust[k] <= start ts
// plus exclusivity (black box: grant..unlock intervals of transactions sharing a key never
// overlap; white box: the node of every key of a granted transaction is linked in its slot and
// names that lock), progress (no blocked request once everything else has unlocked) and no panic.
// The lower bound is deliberately generous (it ignores the count >= 5 trigger, the slot and
// whether the node is held): the property text does not say when exactly old information is
// dropped, only the code's constant says how old it must be.

import (
	"bytes"
	"encoding/json"
	"fmt"
	"os"
	"runtime"
	"slices"
	"sort"
	"sync"
	"sync/atomic"
	"time"

	"github.com/tikv/client-go/v2/internal/latch"
	"github.com/tikv/client-go/v2/oracle"
	"github.com/tikv/client-go/v2/verifrt/ev"
)

const (
	cHot  = 6                 // keys c0<..<c5 of the hot slot
	cPool = cHot + 1          // + one key of the other slot (index cHot)
	cT0ms = 1_700_000_000_000 // physical base (ms): a realistic TSO value
)

// cOffs: physical offsets (ms) from cT0ms a timestamp may use. 0..5: setup key i is committed
// at offset i. The rest is the grid of the contention phase (E = expireDuration in ms).
var cOffs []int64

const (
	gEarly = cHot + iota // 2 ms: older than the commits of setup keys c3.. (stale requester)
	gSoon                // 50 ms: after the whole setup, nothing is expired
	gJump                // E+2: c0,c1 expired by more than, c2 by exactly, c3 is 1 ms short of E
	gJump2               // E+50: all setup keys expired; exactly E after gSoon
	gFar                 // 2E+60: everything before it is expired (E+10 after gJump2)
)

func init() {
	e := latch.VerifExpireMS
	cOffs = []int64{0, 1, 2, 3, 4, 5, 2, 50, e + 2, e + 50, 2*e + 60}
}

var cOffName = []string{"T0", "T0+1ms", "T0+2ms", "T0+3ms", "T0+4ms", "T0+5ms", "T0+2ms", "T0+50ms", "T0+E+2ms", "T0+E+50ms", "T0+2E+60ms"}

func cTS(off, logical int) uint64 { return oracle.ComposeTS(cT0ms+cOffs[off], int64(logical)) }

func cExpired(x, c uint64) bool {
	return oracle.ExtractPhysical(x)-oracle.ExtractPhysical(c) >= latch.VerifExpireMS
}

func cTSName(ts uint64) string {
	if ts == 0 {
		return "0"
	}
	d := oracle.ExtractPhysical(ts) - cT0ms
	l := ts & (1<<18 - 1)
	e := latch.VerifExpireMS
	switch {
	case d >= 2*e:
		return fmt.Sprintf("T0+2E+%dms.%d", d-2*e, l)
	case d >= e:
		return fmt.Sprintf("T0+E+%dms.%d", d-e, l)
	}
	return fmt.Sprintf("T0+%dms.%d", d, l)
}

// ---------- layout ----------

type cLayout struct {
	Size uint
	Keys []string
	keys [][]byte
	Slot []int
}

// mkCLayout: the first six two-byte keys (one per first letter, ascending) of slot 0 and the
// first one of slot 1 in a Latches of 2 slots (real murmur3 slotID).
func mkCLayout() *cLayout {
	l := latch.NewLatches(2)
	lay := &cLayout{Size: 2}
	var other []byte
	for a := byte('a'); a <= 'z'; a++ {
		for b := byte('0'); b <= '9'; b++ {
			k := []byte{a, b}
			s := latch.VerifSlotID(l, k)
			if s == 0 && len(lay.keys) < cHot {
				lay.keys = append(lay.keys, k)
				break
			}
			if s == 1 && other == nil && len(lay.keys) >= 3 { // somewhere in the middle of the sorted order
				other = k
				break
			}
		}
	}
	if len(lay.keys) < cHot || other == nil {
		return nil
	}
	lay.keys = append(lay.keys, other)
	for i, k := range lay.keys {
		lay.Keys = append(lay.Keys, string(k))
		s := 0
		if i == cHot {
			s = 1
		}
		lay.Slot = append(lay.Slot, s)
	}
	return lay
}

func (lay *cLayout) keyIdx(k []byte) int {
	for i, kk := range lay.keys {
		if bytes.Equal(kk, k) {
			return i
		}
	}
	return -1
}

// ---------- ops ----------

const OpRecycle = 'R' // the global Latches.recycle(currentTS)

// cOp is one transition of part (c). Timestamps are concrete: cTS(Off, L).
type cOp struct {
	K    byte
	T    int  // C, U
	Mask int  // S: key set, bit i = pool key i
	Off  int  // S: start ts, U: commit ts, R: currentTS (index into cOffs)
	L    int  // logical part
	Zero bool // U: commitTS = 0
}

type cOpJSON struct {
	K    string `json:"k"`
	T    int    `json:"t,omitempty"`
	Mask int    `json:"mask,omitempty"`
	Off  int    `json:"off"`
	L    int    `json:"logical"`
	Zero bool   `json:"zero,omitempty"`
	TS   string `json:"ts,omitempty"` // informative only
}

func (o cOp) MarshalJSON() ([]byte, error) {
	j := cOpJSON{K: string(rune(o.K)), T: o.T, Mask: o.Mask, Off: o.Off, L: o.L, Zero: o.Zero}
	if !o.Zero && (o.K == OpStart || o.K == OpUnlock || o.K == OpRecycle) {
		j.TS = cTSName(cTS(o.Off, o.L))
	}
	return json.Marshal(j)
}

func (o *cOp) UnmarshalJSON(b []byte) error {
	var j cOpJSON
	if err := json.Unmarshal(b, &j); err != nil {
		return err
	}
	if len(j.K) != 1 || j.Off < 0 || j.Off >= len(cOffs) {
		return fmt.Errorf("bad op %s", b)
	}
	*o = cOp{K: j.K[0], T: j.T, Mask: j.Mask, Off: j.Off, L: j.L, Zero: j.Zero}
	return nil
}

// packC: K(3) T(4) Mask(7) Off(5) L(9) Zero(1).
func packC(o cOp) uint32 {
	var k uint32
	switch o.K {
	case OpStart:
		k = 0
	case OpCont:
		k = 1
	case OpUnlock:
		k = 2
	case OpSched:
		k = 3
	case OpRecycle:
		k = 4
	}
	z := uint32(0)
	if o.Zero {
		z = 1
	}
	return k | uint32(o.T)<<3 | uint32(o.Mask)<<7 | uint32(o.Off)<<14 | uint32(o.L)<<19 | z<<28
}

func unpackC(p uint32) cOp {
	return cOp{K: [...]byte{OpStart, OpCont, OpUnlock, OpSched, OpRecycle, 0, 0, 0}[p&7], T: int(p >> 3 & 15), Mask: int(p >> 7 & 127),
		Off: int(p >> 14 & 31), L: int(p >> 19 & 511), Zero: p>>28&1 == 1}
}

func unpackAllC(h []uint32) []cOp {
	ops := make([]cOp, len(h))
	for i, p := range h {
		ops[i] = unpackC(p)
	}
	return ops
}

// ---------- configuration ----------

type cConfig struct {
	Name     string
	Lay      *cLayout
	Fine     bool
	N, K     int
	Setup    []cOp // prefix replayed before the search starts (cache-state generator)
	SetupTx  int   // transactions of the prefix
	Pool     []int // pool keys the contending transactions may ask for
	Grid     []int // start ts grid (indices into cOffs, ascending offsets)
	RGrid    []int // currentTS grid of recycle
	MaxR     int   // recycle calls per history
	Ahead    int   // a commit ts uses the start's grid point or one of the next `Ahead` ones
	NoWhite  bool  // follow-up search after a white-box violation: black-box oracle only
	MaxDepth int   // 0 = unbounded
	masks    []int
}

func (c *cConfig) gran() string {
	if c.Fine {
		return "slot"
	}
	return "method"
}

func (c *cConfig) String() string {
	return fmt.Sprintf("recycle:%s/%s/N=%d/K=%d/R<=%d", c.Name, c.gran(), c.N, c.K, c.MaxR)
}

func (c *cConfig) mkMasks() {
	c.masks = nil
	for sz := 1; sz <= c.K; sz++ {
		for m := 1; m < 1<<cPool; m++ {
			n, ok := 0, true
			for i := 0; i < cPool; i++ {
				if m>>i&1 == 1 {
					n++
					if !slices.Contains(c.Pool, i) {
						ok = false
					}
				}
			}
			if ok && n == sz {
				c.masks = append(c.masks, m)
			}
		}
	}
}

// cSetup: keys 0..p-1 of the hot slot are locked and unlocked one after the other; key i starts
// at (T0+i ms, logical 0) and commits at (T0+i ms, logical 1); key `zero` (if >= 0) is unlocked
// without a commit ts, so its node keeps maxCommitTS 0.
func cSetup(p, zero int) ([]cOp, string) {
	var ops []cOp
	for i := 0; i < p; i++ {
		ops = append(ops, cOp{K: OpStart, Mask: 1 << i, Off: i, L: 0})
		ops = append(ops, cOp{K: OpUnlock, T: i, Off: i, L: 1, Zero: i == zero})
	}
	name := fmt.Sprintf("P%d", p)
	if zero >= 0 {
		name += fmt.Sprintf("z%d", zero)
	}
	return ops, name
}

// ---------- machine ----------

type ctxn struct {
	mask     int
	keys     []int
	start    uint64
	startOff int
	logical  int
	commit   uint64
	lock     *latch.Lock
	st       status
}

type cStats struct {
	grant, staleFirst, staleWake, wait, requeue, wakeups, realOps                                  int64
	recycleTriggered, recycledByAcquire, recycledByGlobal, ownKeyExpired, heldExpiredKept          int64
	freeZero, freeNegative, freeLess, freeOneShort, freeExact, freeMore, excused, ghostForget, rec int64
}

func (a *cStats) add(b *cStats) {
	a.grant += b.grant
	a.staleFirst += b.staleFirst
	a.staleWake += b.staleWake
	a.wait += b.wait
	a.requeue += b.requeue
	a.wakeups += b.wakeups
	a.realOps += b.realOps
	a.recycleTriggered += b.recycleTriggered
	a.recycledByAcquire += b.recycledByAcquire
	a.recycledByGlobal += b.recycledByGlobal
	a.ownKeyExpired += b.ownKeyExpired
	a.heldExpiredKept += b.heldExpiredKept
	a.freeZero += b.freeZero
	a.freeNegative += b.freeNegative
	a.freeLess += b.freeLess
	a.freeOneShort += b.freeOneShort
	a.freeExact += b.freeExact
	a.freeMore += b.freeMore
	a.excused += b.excused
	a.ghostForget += b.ghostForget
	a.rec += b.rec
}

type cmachine struct {
	cfg     *cConfig
	l       *latch.Latches
	tx      []*ctxn
	byPtr   map[*latch.Lock]int
	wake    []int
	rel     int
	rUsed   int
	gAll    [cPool]uint64
	gMust   [cPool]uint64
	viol    *violation
	st      cStats
	trace   []string
	tracing bool
	dump    []latch.VerifSlot
	quiet   bool
}

func newCMachine(cfg *cConfig) *cmachine {
	return &cmachine{cfg: cfg, l: latch.NewLatches(cfg.Lay.Size), byPtr: map[*latch.Lock]int{}, rel: -1}
}

func (m *cmachine) getDump() []latch.VerifSlot {
	if m.dump == nil {
		m.dump = latch.VerifDump(m.l)
	}
	return m.dump
}

func (m *cmachine) fail(key, format string, a ...any) {
	if m.viol == nil {
		m.viol = &violation{Key: key, What: fmt.Sprintf(format, a...)}
	}
}

func (m *cmachine) logf(format string, a ...any) {
	if m.tracing {
		m.trace = append(m.trace, fmt.Sprintf(format, a...))
	}
}

func (m *cmachine) keyNames(idx []int) string {
	s := "{"
	for i, k := range idx {
		if i > 0 {
			s += ","
		}
		s += fmt.Sprintf("%s@slot%d", m.cfg.Lay.Keys[k], m.cfg.Lay.Slot[k])
	}
	return s + "}"
}

// present: timestamp x is shown to the latches (ghost only). Staleness information that is at
// least expireDuration older than x may be dropped from now on.
func (m *cmachine) present(x uint64) {
	for k := range m.gMust {
		if m.gMust[k] != 0 && cExpired(x, m.gMust[k]) {
			m.gMust[k] = 0
			m.st.ghostForget++
		}
	}
}

// classify (coverage only): how old are the nodes of a slot that is about to be recycled with x.
func (m *cmachine) classify(x uint64, s latch.VerifSlot) {
	e := latch.VerifExpireMS
	for _, n := range s.Nodes {
		d := oracle.ExtractPhysical(x) - oracle.ExtractPhysical(n.MaxCommitTS)
		if n.Holder != nil {
			if d >= e {
				m.st.heldExpiredKept++
			}
			continue
		}
		switch {
		case n.MaxCommitTS == 0:
			m.st.freeZero++
		case d < 0:
			m.st.freeNegative++
		case d == e-1:
			m.st.freeOneShort++
		case d < e:
			m.st.freeLess++
		case d == e:
			m.st.freeExact++
		default:
			m.st.freeMore++
		}
	}
}

func missingKeys(pre, post []latch.VerifSlot) int64 {
	var n int64
	for i := range pre {
		for _, a := range pre[i].Nodes {
			found := false
			for _, b := range post[i].Nodes {
				if bytes.Equal(a.Key, b.Key) {
					found = true
					break
				}
			}
			if !found {
				n++
			}
		}
	}
	return n
}

func (m *cmachine) apply(op cOp) (ok bool) {
	m.st = cStats{}
	defer func() {
		if p := recover(); p != nil {
			m.fail("panic", "panic in latch code: %v", p)
			m.dump = nil
			ok = true
		}
	}()
	var pre []latch.VerifSlot
	if !m.quiet {
		pre = m.getDump()
	}
	byGlobal := false
	switch op.K {
	case OpStart:
		if len(m.tx)-m.cfg.SetupTx >= m.cfg.N || op.Mask == 0 {
			return false
		}
		ts := cTS(op.Off, op.L)
		t := &ctxn{mask: op.Mask, start: ts, startOff: op.Off, logical: op.L}
		var keys [][]byte
		for i := cPool - 1; i >= 0; i-- { // unsorted (descending): genLock must sort
			if op.Mask&(1<<i) != 0 {
				keys = append(keys, append([]byte(nil), m.cfg.Lay.keys[i]...))
			}
		}
		for i := 0; i < cPool; i++ {
			if op.Mask&(1<<i) != 0 {
				t.keys = append(t.keys, i)
			}
		}
		m.dump = nil
		t.lock = latch.VerifGenLock(m.l, ts, keys)
		id := len(m.tx)
		m.tx = append(m.tx, t)
		m.byPtr[t.lock] = id
		t.st = stAcquiring
		if m.tracing {
			m.logf("txn%d: Lock(start=%s, keys=%s)", id, cTSName(ts), m.keyNames(t.keys))
		}
		m.acquireStep(id, true, pre)
	case OpCont:
		if !m.cfg.Fine || op.T < 0 || op.T >= len(m.tx) || m.tx[op.T].st != stAcquiring {
			return false
		}
		m.acquireStep(op.T, true, pre)
	case OpUnlock:
		if len(m.wake) > 0 || m.rel >= 0 || op.T < 0 || op.T >= len(m.tx) {
			return false
		}
		t := m.tx[op.T]
		if t.st != stGranted && t.st != stStale {
			return false
		}
		var c uint64
		if !op.Zero {
			if t.st == stStale {
				return false
			}
			c = cTS(op.Off, op.L)
			if c <= t.start {
				return false
			}
			t.lock.SetCommitTS(c)
		}
		t.commit = c
		if m.tracing {
			m.logf("txn%d: UnLock(commitTS=%s) [was %s]", op.T, cTSName(c), statusName[t.st])
		}
		wasGranted := t.st == stGranted
		if m.cfg.Fine {
			t.st = stReleasing
			m.rel = op.T
			m.releaseStep()
		} else {
			if wasGranted {
				for _, k := range t.keys {
					m.ghostRelease(k, c)
				}
			}
			m.dump = nil
			woken := latch.VerifRelease(m.l, t.lock, nil)
			m.st.realOps++
			t.st = stReleased
			m.noteWoken(woken)
		}
	case OpSched:
		if m.rel >= 0 {
			m.releaseStep()
			break
		}
		if len(m.wake) == 0 {
			return false
		}
		id := m.wake[0]
		if m.cfg.Fine {
			if latch.VerifInfo(m.tx[id].lock).IsStale {
				m.wake = m.wake[1:]
				m.finishAcquire(id, latch.VerifStale, false)
				break
			}
			m.acquireStep(id, false, pre)
		} else {
			m.wake = m.wake[1:]
			m.acquireStep(id, false, pre)
		}
	case OpRecycle:
		if m.rUsed >= m.cfg.MaxR {
			return false
		}
		m.rUsed++
		x := cTS(op.Off, op.L)
		m.present(x)
		if !m.quiet {
			for _, s := range pre {
				m.classify(x, s)
			}
		}
		if m.tracing {
			m.logf("recycle(currentTS=%s)", cTSName(x))
		}
		m.dump = nil
		latch.VerifRecycle(m.l, x)
		m.st.realOps++
		m.st.rec++
		byGlobal = true
	default:
		return false
	}
	if !m.quiet {
		gone := missingKeys(pre, m.getDump())
		if byGlobal {
			m.st.recycledByGlobal += gone
		} else {
			m.st.recycledByAcquire += gone
		}
		m.checkState()
	}
	return true
}

func (m *cmachine) ghostRelease(k int, c uint64) {
	if c > m.gAll[k] {
		m.gAll[k] = c
	}
	if c > m.gMust[k] {
		m.gMust[k] = c
	}
}

func (m *cmachine) noteWoken(woken []*latch.Lock) {
	for _, w := range woken {
		id, known := m.byPtr[w]
		if !known {
			m.fail("wake-unknown", "release returned a lock that was never requested")
			continue
		}
		if m.tx[id].st != stWaiting {
			m.fail("wake-nonwaiting", "release woke txn%d which is %s, not waiting", id, statusName[m.tx[id].st])
			continue
		}
		m.tx[id].st = stWoken
		m.wake = append(m.wake, id)
		m.st.wakeups++
		if m.tracing {
			m.logf("  -> wakes txn%d (stale=%v)", id, latch.VerifInfo(w).IsStale)
		}
	}
}

// acquireStep runs acquire (method granularity) or one acquireSlot (slot granularity) of txn id.
// Every attempt presents the lock's start ts to the latches (acquireSlot recycles with it).
func (m *cmachine) acquireStep(id int, first bool, pre []latch.VerifSlot) {
	t := m.tx[id]
	m.present(t.start)
	if !m.quiet && pre != nil {
		inf := latch.VerifInfo(t.lock)
		if inf.AcquiredCount < len(inf.Keys) {
			s := pre[inf.RequiredSlots[inf.AcquiredCount]]
			if s.Count >= latch.VerifLatchListCount {
				m.st.recycleTriggered++
				m.classify(t.start, s)
				for _, n := range s.Nodes {
					if bytes.Equal(n.Key, inf.Keys[inf.AcquiredCount]) && n.Holder == nil && cExpired(t.start, n.MaxCommitTS) {
						m.st.ownKeyExpired++
					}
				}
			}
		}
	}
	m.dump = nil
	if !m.cfg.Fine {
		r := latch.VerifAcquire(m.l, t.lock)
		m.st.realOps++
		m.finishAcquire(id, r, first)
		return
	}
	r := latch.VerifAcquireSlot(m.l, t.lock)
	m.st.realOps++
	inf := latch.VerifInfo(t.lock)
	if r == latch.VerifSuccess && inf.AcquiredCount < len(inf.Keys) {
		if m.tracing {
			m.logf("txn%d: acquireSlot ok (%d/%d)", id, inf.AcquiredCount, len(inf.Keys))
		}
		return
	}
	if !first {
		m.wake = m.wake[1:]
	}
	m.finishAcquire(id, r, first)
}

func (m *cmachine) finishAcquire(id, r int, first bool) {
	t := m.tx[id]
	switch r {
	case latch.VerifLocked:
		t.st = stWaiting
		m.st.wait++
		if !first {
			m.st.requeue++
		}
		if m.tracing {
			m.logf("txn%d: acquire -> locked (waits)", id)
		}
	case latch.VerifSuccess:
		t.st = stGranted
		m.st.grant++
		if m.tracing {
			m.logf("txn%d: acquire -> success: Lock returns, not stale", id)
		}
		for j, o := range m.tx {
			if j != id && o.st == stGranted && o.mask&t.mask != 0 {
				m.fail("exclusivity", "txn%d granted keys %s while txn%d still holds %s", id, m.keyNames(t.keys), j, m.keyNames(o.keys))
			}
		}
		for _, k := range t.keys {
			if m.gMust[k] > t.start {
				m.fail("stale-missed", "txn%d (start=%s) granted although key %s was released with commit ts %s > start, and no timestamp >= expireDuration later than that commit has been presented to the latches yet",
					id, cTSName(t.start), m.cfg.Lay.Keys[k], cTSName(m.gMust[k]))
			} else if m.gAll[k] > t.start {
				m.st.excused++ // older than the expiry window: the documented forgetting
			}
		}
		if !latchComplete(t.lock) {
			m.fail("grant-incomplete", "txn%d: acquire returned success with acquiredCount < number of keys", id)
		}
	case latch.VerifStale:
		t.st = stStale
		if first {
			m.st.staleFirst++
		} else {
			m.st.staleWake++
		}
		if m.tracing {
			m.logf("txn%d: acquire -> stale: Lock returns, IsStale", id)
		}
		if !t.lock.IsStale() {
			m.fail("stale-flag", "txn%d: acquire returned acquireStale but Lock.IsStale() is false", id)
		}
		found := false
		for _, k := range t.keys {
			if m.gAll[k] > t.start {
				found = true
			}
		}
		if !found {
			m.fail("stale-false-positive", "txn%d (start=%s, keys %s) flagged stale although no requested key was ever released with a commit ts > start", id, cTSName(t.start), m.keyNames(t.keys))
		}
	default:
		m.fail("acquire-result", "unknown acquire result %d", r)
	}
}

func (m *cmachine) releaseStep() {
	t := m.tx[m.rel]
	inf := latch.VerifInfo(t.lock)
	if inf.AcquiredCount > 0 {
		k := m.cfg.Lay.keyIdx(inf.Keys[inf.AcquiredCount-1])
		if !inf.IsStale {
			m.ghostRelease(k, t.commit)
		}
		m.dump = nil
		w := latch.VerifReleaseSlot(m.l, t.lock)
		m.st.realOps++
		if w != nil {
			m.noteWoken([]*latch.Lock{w})
		}
		inf = latch.VerifInfo(t.lock)
	}
	if inf.AcquiredCount == 0 {
		t.st = stReleased
		m.rel = -1
	}
}

func (m *cmachine) checkState() {
	dump := m.getDump()
	if !m.cfg.NoWhite {
		for id, t := range m.tx {
			if t.st != stGranted {
				continue
			}
			for _, k := range t.keys {
				var node *latch.VerifNode
				s := dump[m.cfg.Lay.Slot[k]]
				for i := range s.Nodes {
					if m.cfg.Lay.keyIdx(s.Nodes[i].Key) == k {
						node = &s.Nodes[i]
					}
				}
				if node == nil {
					m.fail("granted-on-unlinked-node", "txn%d is granted but slot %d has no node for its key %s: the node it was granted on is not (any longer) in the slot's list, the next requester of that key will be granted too",
						id, m.cfg.Lay.Slot[k], m.cfg.Lay.Keys[k])
				} else if node.Holder != t.lock {
					m.fail("exclusivity-whitebox", "txn%d is granted but the node of key %s names another holder", id, m.cfg.Lay.Keys[k])
				}
			}
		}
	}
	if len(m.wake) == 0 && m.rel < 0 {
		blocked := -1
		for id, t := range m.tx {
			switch t.st {
			case stAcquiring, stGranted, stStale, stWoken, stReleasing:
				return
			case stWaiting:
				blocked = id
			}
		}
		if blocked >= 0 {
			t := m.tx[blocked]
			m.fail("stuck", "all holders have unlocked and the scheduler is idle, but txn%d (keys %s) is still blocked: lost wake-up / deadlock", blocked, m.keyNames(t.keys))
		}
	}
}

func (m *cmachine) enabled() []cOp {
	cfg := m.cfg
	var ops []cOp
	if m.rel >= 0 || len(m.wake) > 0 {
		ops = append(ops, cOp{K: OpSched})
	} else {
		for id, t := range m.tx {
			if t.st == stStale {
				ops = append(ops, cOp{K: OpUnlock, T: id, Zero: true})
			}
			if t.st == stGranted {
				ops = append(ops, cOp{K: OpUnlock, T: id, Zero: true})
				n := 0
				for _, g := range cfg.Grid {
					if cOffs[g] >= cOffs[t.startOff] && n <= cfg.Ahead {
						ops = append(ops, cOp{K: OpUnlock, T: id, Off: g, L: t.logical + 8})
						n++
					}
				}
			}
		}
	}
	for id, t := range m.tx {
		if t.st == stAcquiring {
			ops = append(ops, cOp{K: OpCont, T: id})
		}
	}
	if j := len(m.tx) - cfg.SetupTx; j < cfg.N {
		for _, mk := range cfg.masks {
			for _, g := range cfg.Grid {
				ops = append(ops, cOp{K: OpStart, Mask: mk, Off: g, L: 16 * (j + 1)})
			}
		}
	}
	if m.rUsed < cfg.MaxR {
		for _, g := range cfg.RGrid {
			ops = append(ops, cOp{K: OpRecycle, Off: g})
		}
	}
	return ops
}

func (m *cmachine) nontrivial() bool {
	for _, t := range m.tx[min(m.cfg.SetupTx, len(m.tx)):] {
		if t.st == stWaiting || t.st == stWoken || t.st == stStale {
			return true
		}
	}
	return false
}

func (m *cmachine) terminal() bool {
	if len(m.tx)-m.cfg.SetupTx < m.cfg.N {
		return false
	}
	for _, t := range m.tx {
		if t.st != stReleased {
			return false
		}
	}
	return true
}

func (m *cmachine) outcome() string {
	var o []string
	for _, t := range m.tx[m.cfg.SetupTx:] {
		r := "granted"
		if t.lock.IsStale() {
			r = "stale"
		}
		o = append(o, fmt.Sprintf("%07b:%s", t.mask, r))
	}
	sort.Strings(o)
	return fmt.Sprint(o)
}

// canon: the concrete state. Unlike part (a) timestamps are NOT rank-compressed (expiry depends
// on distances, not only on order): two histories are merged only if the slot contents (nodes
// sorted by key - findNode matches by key, recycle visits every node, so list order is
// irrelevant -, count, holders, waiting lists), the scheduler's wake-up list / release in
// progress, every live transaction (status, key set, progress, start ts; commit ts while its
// release is in progress), both ghost maps, the number of recycle calls used and the number of
// transactions still to come are identical. Unlocked transactions not referenced by a slot and
// the start ts of stale-returned ones are never read again.
func (m *cmachine) canon() []byte {
	dump := m.getDump()
	label := map[int]byte{}
	var order []int
	see := func(l *latch.Lock) byte {
		if l == nil {
			return 0xFF
		}
		id, ok := m.byPtr[l]
		if !ok {
			return 0xFD
		}
		if lb, ok := label[id]; ok {
			return lb
		}
		label[id] = byte(len(order))
		order = append(order, id)
		return label[id]
	}
	b := make([]byte, 0, 256)
	ts := func(v uint64) {
		b = append(b, byte(v>>56), byte(v>>48), byte(v>>40), byte(v>>32), byte(v>>24), byte(v>>16), byte(v>>8), byte(v))
	}
	b = append(b, byte(m.cfg.N-(len(m.tx)-m.cfg.SetupTx)), byte(m.rUsed))
	for _, s := range dump {
		nodes := append([]latch.VerifNode(nil), s.Nodes...)
		slices.SortFunc(nodes, func(x, y latch.VerifNode) int { return bytes.Compare(x.Key, y.Key) })
		b = append(b, 'N', byte(len(nodes)), byte(s.Count))
		for _, n := range nodes {
			b = append(b, byte(m.cfg.Lay.keyIdx(n.Key)), see(n.Holder))
			ts(n.MaxCommitTS)
		}
		b = append(b, 'Q', byte(len(s.Waiting)))
		for _, w := range s.Waiting {
			b = append(b, see(w))
		}
	}
	b = append(b, 'K', byte(len(m.wake)))
	for _, id := range m.wake {
		b = append(b, see(m.tx[id].lock))
	}
	b = append(b, 'R')
	if m.rel >= 0 {
		b = append(b, see(m.tx[m.rel].lock))
	} else {
		b = append(b, 0xFF)
	}
	desc := func(t *ctxn) []byte {
		inf := latch.VerifInfo(t.lock)
		d := []byte{byte(t.st), byte(t.mask), byte(inf.AcquiredCount), 0}
		if inf.IsStale {
			d[3] = 1
		}
		var v uint64
		switch t.st {
		case stAcquiring, stWaiting, stWoken:
			v = t.start
		case stGranted:
			v = t.start
			d = append(d, byte(t.startOff), byte(t.logical)) // the commit ts choices derive from them
		case stReleasing:
			v = t.commit
		}
		return append(d, byte(v>>56), byte(v>>48), byte(v>>40), byte(v>>32), byte(v>>24), byte(v>>16), byte(v>>8), byte(v))
	}
	var rest [][]byte
	for id, t := range m.tx {
		if _, ok := label[id]; !ok && t.st != stReleased {
			rest = append(rest, desc(t))
		}
	}
	slices.SortFunc(rest, bytes.Compare)
	b = append(b, 'T', byte(len(order)))
	for _, id := range order {
		b = append(b, desc(m.tx[id])...)
	}
	b = append(b, 'U', byte(len(rest)))
	for _, d := range rest {
		b = append(b, d...)
	}
	b = append(b, 'G')
	for k := range m.gAll {
		ts(m.gAll[k])
		ts(m.gMust[k])
	}
	return b
}

func (m *cmachine) describe() string {
	dump := m.getDump()
	s := ""
	for i, sl := range dump {
		s += fmt.Sprintf("slot%d(count=%d)[", i, sl.Count)
		for _, n := range sl.Nodes {
			h := "-"
			if n.Holder != nil {
				h = fmt.Sprintf("txn%d", m.byPtr[n.Holder])
			}
			s += fmt.Sprintf(" %s:max=%s,holder=%s", n.Key, cTSName(n.MaxCommitTS), h)
		}
		s += " | waiting:"
		for _, w := range sl.Waiting {
			s += fmt.Sprintf(" txn%d", m.byPtr[w])
		}
		s += "] "
	}
	for id, t := range m.tx {
		if id >= m.cfg.SetupTx {
			s += fmt.Sprintf("txn%d=%s ", id, statusName[t.st])
		}
	}
	return s + fmt.Sprintf("wake=%v", m.wake)
}

// replayC builds the machine of setup prefix + history. quiet: no oracle (every prefix state was
// checked when it was generated).
func replayC(cfg *cConfig, hist []cOp, tracing, quiet bool) (*cmachine, bool) {
	m := newCMachine(cfg)
	m.tracing = tracing
	m.quiet = quiet
	for i, ops := range [][]cOp{cfg.Setup, hist} {
		for _, op := range ops {
			if !m.apply(op) {
				return m, false
			}
			if tracing && (i == 1 || op.K == OpUnlock) {
				m.trace = append(m.trace, "   "+m.describe())
			}
		}
	}
	if quiet {
		m.quiet = false
		m.viol = nil
	}
	return m, true
}

// ---------- BFS ----------

type cTotals struct {
	states, transitions, nontrivial, terminal, replayOps int64
	st                                                   cStats
	maxDepth                                             int
	perConfig                                            []map[string]any
	outcomes                                             map[string]bool
}

type cSucc struct {
	hash [16]byte
	op   uint32
	viol *violation
	flag uint8 // 1 nontrivial, 2 terminal, 4 sample-worthy: the requested key's own node had expired, a grant relied on forgotten information, or a recycling acquire met an expired node that is still held
	out  string
}

type cFound struct {
	cfg  *cConfig
	hist []uint32
	v    *violation
}

// cbfs explores one configuration exhaustively (breadth first, deterministic merge) and returns
// the violations of the first level that has any.
func cbfs(cfg *cConfig, tot *cTotals, samples *ev.Samples, stateCap int64) []cFound {
	cfg.mkMasks()
	visited := map[[16]byte]struct{}{}
	root, ok := replayC(cfg, nil, false, cfg.NoWhite)
	if !ok {
		run.Incomplete("harness: setup prefix of " + cfg.String() + " is not applicable")
		return nil
	}
	if root.viol != nil { // the cache-state generator itself already violates the property
		return []cFound{{cfg, nil, root.viol}}
	}
	visited[hashOf(root.canon())] = struct{}{}
	frontier := [][]uint32{nil}
	var states, transitions, nontriv, terminal int64 = 1, 0, 0, 0
	var cst cStats
	depth := 0
	workers := runtime.GOMAXPROCS(0)
	var viols []cFound
	start := time.Now()
	for len(frontier) > 0 && len(viols) == 0 && (cfg.MaxDepth == 0 || depth < cfg.MaxDepth) {
		var next [][]uint32
		for lo := 0; lo < len(frontier) && len(viols) == 0; lo += chunkSize {
			hi := min(lo+chunkSize, len(frontier))
			chunk := frontier[lo:hi]
			results := make([][]cSucc, len(chunk))
			var idx atomic.Int64
			var wg sync.WaitGroup
			var st cStats
			var replayOps int64
			var mu sync.Mutex
			for w := 0; w < workers; w++ {
				wg.Add(1)
				go func() {
					defer wg.Done()
					var loc cStats
					var locReplay int64
					for {
						i := int(idx.Add(1)) - 1
						if i >= len(chunk) {
							break
						}
						hist := unpackAllC(chunk[i])
						base, ok := replayC(cfg, hist, false, true)
						locReplay += int64(len(hist) + len(cfg.Setup))
						if !ok {
							run.Incomplete("harness: stored history did not replay in " + cfg.String())
							continue
						}
						ops := base.enabled()
						out := make([]cSucc, 0, len(ops))
						for oi, op := range ops {
							m := base
							if oi > 0 {
								m, _ = replayC(cfg, hist, false, true)
								locReplay += int64(len(hist) + len(cfg.Setup))
							}
							if !m.apply(op) {
								run.Incomplete("harness: enabled op not applicable in " + cfg.String())
								continue
							}
							s := cSucc{op: packC(op), viol: m.viol}
							loc.add(&m.st)
							if m.viol == nil {
								s.hash = hashOf(m.canon())
								if m.nontrivial() {
									s.flag |= 1
								}
								if m.st.excused+m.st.ownKeyExpired > 0 || (m.st.heldExpiredKept > 0 && m.st.recycleTriggered > 0) {
									s.flag |= 4
								}
								if m.terminal() {
									s.flag |= 2
									s.out = m.outcome()
								}
							}
							out = append(out, s)
						}
						results[i] = out
					}
					mu.Lock()
					st.add(&loc)
					replayOps += locReplay
					mu.Unlock()
				}()
			}
			wg.Wait()
			cst.add(&st)
			tot.replayOps += replayOps
			for i, out := range results {
				for _, s := range out {
					transitions++
					if s.viol != nil {
						h := append(append([]uint32(nil), chunk[i]...), s.op)
						viols = append(viols, cFound{cfg, h, s.viol})
						continue
					}
					if _, ok := visited[s.hash]; ok {
						continue
					}
					visited[s.hash] = struct{}{}
					states++
					if s.flag&1 != 0 {
						nontriv++
					}
					h := append(append(make([]uint32, 0, len(chunk[i])+1), chunk[i]...), s.op)
					if s.flag&2 != 0 {
						terminal++
						tot.outcomes[s.out] = true
					}
					if s.flag&4 != 0 && samples != nil {
						samples.Add(func() any { return map[string]any{"config": cfg.String(), "history": renderHistC(cfg, h)} })
					}
					next = append(next, h)
				}
			}
			if stateCap > 0 && states > stateCap {
				run.Incomplete(fmt.Sprintf("state cap %d hit in %s at depth %d", stateCap, cfg.String(), depth))
				next, frontier = nil, nil
				break
			}
			if run.Expired() || time.Now().After(deadline) {
				run.Incomplete("wall-clock budget expired in " + cfg.String())
				next, frontier = nil, nil
				break
			}
		}
		if len(next) > 0 {
			depth++
		}
		frontier = next
	}
	tot.states += states
	tot.transitions += transitions
	tot.nontrivial += nontriv
	tot.terminal += terminal
	tot.st.add(&cst)
	tot.maxDepth = max(tot.maxDepth, depth)
	var pool []string
	for _, k := range cfg.Pool {
		pool = append(pool, cfg.Lay.Keys[k])
	}
	var grid, rgrid []string
	for _, g := range cfg.Grid {
		grid = append(grid, cOffName[g])
	}
	for _, g := range cfg.RGrid {
		rgrid = append(rgrid, cOffName[g])
	}
	tot.perConfig = append(tot.perConfig, map[string]any{"config": cfg.String(), "setup_ops": len(cfg.Setup), "contended_keys": pool, "start_ts_grid": grid, "recycle_ts_grid": rgrid,
		"commit_grid_points_ahead": cfg.Ahead, "states": states, "transitions": transitions, "terminal_states": terminal, "depth": depth,
		"nodes_recycled": cst.recycledByAcquire + cst.recycledByGlobal + cst.ownKeyExpired, "wall_s": float64(int(time.Since(start).Seconds()*100)) / 100})
	fmt.Fprintf(os.Stderr, "c17(c): %-40s states=%d transitions=%d depth=%d terminal=%d recycled=%d own-key-expired=%d %.1fs\n", cfg.String(), states, transitions, depth, terminal,
		cst.recycledByAcquire+cst.recycledByGlobal, cst.ownKeyExpired, time.Since(start).Seconds())
	sort.SliceStable(viols, func(i, j int) bool {
		a, b := viols[i].hist, viols[j].hist
		if len(a) != len(b) {
			return len(a) < len(b)
		}
		for k := range a {
			if a[k] != b[k] {
				return a[k] < b[k]
			}
		}
		return false
	})
	return viols
}

// renderHistC: the state after the setup and the op lines of the history that follows it.
func renderHistC(cfg *cConfig, h []uint32) []string {
	m0, _ := replayC(cfg, nil, true, true)
	m, _ := replayC(cfg, unpackAllC(h), true, true)
	out := []string{"after the setup: " + m0.describe()}
	for _, l := range m.trace[min(len(m0.trace), len(m.trace)):] {
		if len(l) > 0 && l[0] != ' ' {
			out = append(out, l)
		}
	}
	return append(out, "=> "+m.describe())
}

// cArtefact is the replay artefact of a part (c) violation.
type cArtefact struct {
	Keys  []string `json:"keys"`
	Fine  bool     `json:"slot_granularity"`
	Setup []cOp    `json:"setup"`
	Ops   []cOp    `json:"ops"`
	// SetupTx: transactions of the cache-state generator (a follow-up artefact's setup also holds
	// the history up to the white-box violation it continues from).
	SetupTx int `json:"setup_txns"`
	// BlackBoxOnly: follow-up of a white-box violation, judged by the black-box oracle alone.
	BlackBoxOnly bool `json:"black_box_only,omitempty"`
}

func artefactC(cfg *cConfig, h []uint32) replayArtefact {
	m, _ := replayC(cfg, unpackAllC(h), true, false)
	return replayArtefact{Part: "c", Size: cfg.Lay.Size, Fine: cfg.Fine, N: cfg.N, Trace: m.trace, Config: cfg.String(),
		C: &cArtefact{Keys: cfg.Lay.Keys, Fine: cfg.Fine, Setup: cfg.Setup, Ops: unpackAllC(h), SetupTx: cfg.SetupTx, BlackBoxOnly: cfg.NoWhite}}
}

// ---------- configurations of the two tiers ----------

func cConfigs(lay *cLayout, thorough bool) []*cConfig {
	var out []*cConfig
	add := func(p, zero int, fine bool, n, k int, pool, grid, rgrid []int, maxR, ahead int) {
		setup, name := cSetup(p, zero)
		out = append(out, &cConfig{Name: name, Lay: lay, Fine: fine, N: n, K: k, Setup: setup, SetupTx: p, Pool: pool, Grid: grid, RGrid: rgrid, MaxR: maxR, Ahead: ahead})
	}
	// contended keys: c1 (expired by more than E at the jump), c2 (exactly E), c3 (1 ms short),
	// c5 (no node yet when P=5: a sixth node is created), o (the other slot)
	poolQ := []int{1, 2, 3, 5}
	gridQ := []int{gSoon, gJump, gJump2}
	if !thorough {
		add(5, -1, false, 2, 2, []int{0, 1, 2, 3, 5, cHot}, []int{gEarly, gSoon, gJump, gJump2, gFar}, []int{gSoon, gJump, gJump2, gFar}, 2, 1)
		add(5, -1, false, 3, 2, poolQ, gridQ, []int{gJump, gJump2}, 1, 1)
		add(6, 1, false, 3, 1, []int{0, 1, 2, 3, 4, 5}, gridQ, []int{gJump, gJump2}, 1, 1)
		add(5, -1, true, 2, 2, poolQ, gridQ, []int{gJump, gJump2}, 1, 1)
		return out
	}
	poolT := []int{0, 1, 2, 3, 5, cHot}
	gridT := []int{gEarly, gSoon, gJump, gJump2, gFar}
	gridM := []int{gSoon, gJump, gJump2, gFar}
	rT := []int{gSoon, gJump, gJump2, gFar}
	rM := []int{gJump, gJump2, gFar}
	add(4, -1, false, 3, 2, poolQ, gridQ, []int{gJump, gJump2}, 1, 1) // control: below latchListCount, only the global recycle removes nodes
	for _, pz := range [][2]int{{5, -1}, {6, 1}, {6, -1}, {5, 1}} {
		p, z := pz[0], pz[1]
		add(p, z, false, 2, 3, poolT, gridT, rT, 2, 4)
		add(p, z, false, 3, 2, poolQ, gridM, rM, 1, 1)
		add(p, z, true, 2, 2, poolT, gridT, rT, 2, 1)
	}
	add(5, -1, true, 3, 2, poolQ, gridQ, []int{gJump, gJump2}, 1, 0)
	add(6, 1, false, 3, 1, []int{0, 1, 2, 3, 4, 5}, gridM, rM, 2, 1)
	return out
}

// runPartC runs part (c); returns the number of violations reported.
func runPartC(thorough bool, tot *cTotals, samples *ev.Samples, stateCap int64) int {
	lay := mkCLayout()
	if lay == nil {
		run.Incomplete("part (c): no 6+1 colliding keys found")
		return 0
	}
	nviol := 0
	for _, cfg := range cConfigs(lay, thorough) {
		if time.Now().After(deadline) || run.Expired() {
			run.Incomplete("wall-clock budget: configuration " + cfg.String() + " not run")
			continue
		}
		vs := cbfs(cfg, tot, samples, stateCap)
		seen := map[string]bool{}
		var firstWhite *cFound
		for i, f := range vs {
			key := "c." + cfg.gran() + ":" + f.v.Key
			nviol++
			if seen[key] {
				run.Violation(key, f.v.What, nil)
				continue
			}
			seen[key] = true
			run.Violation(key, fmt.Sprintf("[%s, %d ops after the setup] %s", cfg.String(), len(f.hist), f.v.What), artefactC(cfg, f.hist))
			if firstWhite == nil && (f.v.Key == "granted-on-unlinked-node" || f.v.Key == "exclusivity-whitebox") {
				firstWhite = &vs[i]
			}
		}
		if firstWhite != nil {
			// the shortest counterexample broke a white-box invariant: continue from it with the
			// black-box oracle only, to show what a caller observes (<= 3 further steps)
			c2 := *cfg
			c2.Setup = append(append([]cOp(nil), cfg.Setup...), unpackAllC(firstWhite.hist)...)
			c2.Name = cfg.Name + "+follow-up"
			c2.NoWhite = true
			c2.MaxDepth = 3
			seen2 := map[string]bool{}
			for _, f := range cbfs(&c2, tot, nil, stateCap) {
				key := "c." + cfg.gran() + ":" + f.v.Key
				nviol++
				if seen2[key] {
					run.Violation(key, f.v.What, nil)
					continue
				}
				seen2[key] = true
				run.Violation(key, fmt.Sprintf("[%s, %d ops after the setup] %s", cfg.String(), len(firstWhite.hist)+len(f.hist), f.v.What), artefactC(&c2, f.hist))
			}
		}
		if nviol > 0 {
			run.Note("part (c) stopped after the first configuration with violations (%s)", cfg.String())
			break
		}
	}
	return nviol
}

func (t *cTotals) covMap() map[string]any {
	s := &t.st
	return map[string]any{
		"states": t.states, "transitions": t.transitions, "distinct_nontrivial": t.nontrivial, "terminal_states": t.terminal,
		"distinct_terminal_outcomes": len(t.outcomes), "max_depth_after_setup": t.maxDepth, "real_ops_replayed": t.replayOps, "configs": t.perConfig,
		"outcome_counts": map[string]int64{"grants": s.grant, "stale_at_first_acquire": s.staleFirst, "stale_at_wakeup": s.staleWake, "blocked": s.wait,
			"requeued_after_wakeup": s.requeue, "wakeups": s.wakeups, "global_recycle_calls": s.rec},
		"recycling": map[string]int64{
			"acquire_steps_on_a_slot_with_5_or_more_nodes":    s.recycleTriggered,
			"nodes_removed_by_acquire":                        s.recycledByAcquire,
			"nodes_removed_by_global_recycle":                 s.recycledByGlobal,
			"requested_key_own_node_expired_at_acquire":       s.ownKeyExpired,
			"expired_but_held_nodes_met_by_a_recycle":         s.heldExpiredKept,
			"free_nodes_met_without_commit_ts":                s.freeZero,
			"free_nodes_met_newer_than_current_ts":            s.freeNegative,
			"free_nodes_met_younger_than_expire":              s.freeLess,
			"free_nodes_met_1ms_short_of_expire":              s.freeOneShort,
			"free_nodes_met_exactly_expire_old":               s.freeExact,
			"free_nodes_met_older_than_expire":                s.freeMore,
			"ghost_forget_events":                             s.ghostForget,
			"grants_excused_by_expiry_(stale_info_forgotten)": s.excused,
		},
	}
}

// replayCArtefact re-runs a stored part (c) history.
func replayCArtefact(a replayArtefact) {
	lay := mkCLayout()
	if lay == nil || a.C == nil || !slices.Equal(lay.Keys, a.C.Keys) {
		fmt.Fprintln(os.Stderr, "cannot rebuild the part (c) layout")
		os.Exit(2)
	}
	cfg := &cConfig{Name: "replay", Lay: lay, Fine: a.C.Fine, N: 7, K: 3, Setup: a.C.Setup, SetupTx: a.C.SetupTx, MaxR: 1 << 20, NoWhite: a.C.BlackBoxOnly}
	m := newCMachine(cfg)
	m.tracing = true
	ok := true
	for _, op := range append(append([]cOp(nil), a.C.Setup...), a.C.Ops...) {
		if !m.apply(op) {
			ok = false
			break
		}
		m.trace = append(m.trace, "   "+m.describe())
		if m.viol != nil {
			break
		}
	}
	for _, l := range m.trace {
		fmt.Println(l)
	}
	if !ok {
		fmt.Println("replay: an op of the stored history is not enabled any more (behaviour changed)")
	}
	if m.viol != nil {
		g := "method"
		if a.C.Fine {
			g = "slot"
		}
		run.Violation("c."+g+":"+m.viol.Key, m.viol.What, a)
	}
	run.Finish(ev.Coverage{"states": 1, "transitions": len(a.C.Setup) + len(a.C.Ops), "traces_validated_against_impl": 1, "evaluations": 1, "distinct_nontrivial": 1,
		"rule": "replay of one stored part (c) history", "samples": []any{a.C.Ops}}, nil)
}

package main

// Part (d): the USER of the latches. The real KVTxn.Commit (txnkv/transaction/txn.go, path
// "latches enabled") on a real KVStore (tikv.NewTestTiKVStore over the in-repo mock cluster,
// EnableTxnLocalLatches(2) => two slots, pool keys chosen by their real slot id so that they
// collide), driven as a bounded exhaustive enumeration:
//
//   - 2-3 optimistic transactions over a pool of 2-3 keys; per transaction every non-empty key
//     set (and the empty one), mutation kind put / insert (insert on the preloaded pool key
//     fails in prewrite with "key exists"), finish = Commit(ctx) or Rollback, ctx from a list of
//     the context values Commit looks at (util.SessionID absent / 0 / > 0, CommitDetailCtxKey,
//     an opentracing span, a bound RPC interceptor);
//   - every order of the calls {begin, set, commit} of the transactions that respects program
//     order (transactions are symmetric: begin order is canonical T0 < T1 < T2), so a
//     transaction starts before or after another one's commit;
//   - family "x": additionally one commit of a FOREIGN client (second KVStore on the same
//     cluster, no latches) on one pool key at every position => store-side write conflicts of
//     transactions the latch rightly lets through;
//   - family "blk": one Commit is parked inside the store client (at its Prewrite or at its
//     Commit request, i.e. while it HOLDS its latches); the other calls run meanwhile; a Commit
//     that the reference model expects to wait is started in a goroutine and the harness waits
//     until the white-box slot dump shows its Lock in a waiting list (positive condition, no
//     timing), then releases the parked one.
//
// Reference model: rel[key] = max commit ts of the successful latched commits that finished
// before. Oracle (only what the property text states):
//  1. Commit fails with *ErrWriteConflictInLatch EXACTLY when some key it writes has
//     rel[key] > its start ts; a refused transaction sends no Prewrite (counted per start ts at a
//     client wrapper); a transaction that holds its latches is alone: no Prewrite of another
//     transaction on an overlapping key reaches the store while it is parked;
//  2. every Commit returns, and after it returned (success, store-side failure, stale) none of
//     its keys is held by its Lock any more (barrier through the scheduler's FIFO unlock channel
//     + white-box slot dump), and a probe Lock on the same keys returns;
//  3. after a successful commit the max commit ts recorded for each written key is >= commit ts.
//
// Timestamps come from the mock PD (wall clock based) but are never interpreted: the oracle only
// compares the start / commit ts values the implementation itself reports. Real time is used
// only as a watchdog for "Commit did not return"; that verdict needs a positive diagnosis from a
// stack snapshot (goroutine parked in LatchesScheduler.Lock, scheduler goroutine idle), otherwise
// the case is counted inconclusive (exhaustive:false), never a violation.

import (
	"context"
	"encoding/json"
	stderrors "errors"
	"fmt"
	"math"
	"os"
	"runtime"
	"runtime/debug"
	"sort"
	"strings"
	"sync"
	"sync/atomic"
	"time"

	"github.com/opentracing/opentracing-go"
	"github.com/pingcap/log"
	tikverr "github.com/tikv/client-go/v2/error"
	"github.com/tikv/client-go/v2/internal/latch"
	"github.com/tikv/client-go/v2/internal/mockstore/mocktikv"
	"github.com/tikv/client-go/v2/kv"
	"github.com/tikv/client-go/v2/tikv"
	"github.com/tikv/client-go/v2/tikvrpc"
	"github.com/tikv/client-go/v2/tikvrpc/interceptor"
	"github.com/tikv/client-go/v2/txnkv/transaction"
	"github.com/tikv/client-go/v2/util"
	"github.com/tikv/client-go/v2/verifrt/ev"
	"go.uber.org/zap"
)

// ---------- case description (also the replay artefact) ----------

type dTxn struct {
	Mask int    `json:"key_mask"` // bit i = pool key i; 0 = no write at all
	Kind string `json:"kind"`     // put | insert
	Fin  string `json:"finish"`   // commit | rollback
	Ctx  string `json:"ctx"`      // see dContext
}

type dEvent struct {
	K   string `json:"k"` // B begin, S set, C commit/rollback, Ca commit call up to the park point, Cb release the parked commit, X foreign commit
	T   int    `json:"t"`
	Key int    `json:"key,omitempty"` // X: pool key
}

func (e dEvent) String() string {
	if e.K == "X" {
		return fmt.Sprintf("X(k%d)", e.Key)
	}
	return fmt.Sprintf("%s%d", e.K, e.T)
}

type dCase struct {
	Family string   `json:"family"`
	Pool   string   `json:"pool"`           // p3 = slots (0,1,0), last key preloaded; p2 = slots (0,0), last key preloaded
	Park   string   `json:"park,omitempty"` // blk: prewrite | commit
	Txns   []dTxn   `json:"txns"`
	Events []dEvent `json:"events"`
}

func (c *dCase) String() string {
	var ev []string
	for _, e := range c.Events {
		ev = append(ev, e.String())
	}
	var tx []string
	for i, t := range c.Txns {
		tx = append(tx, fmt.Sprintf("T%d{%s %03b %s %s}", i, t.Fin, t.Mask, t.Kind, t.Ctx))
	}
	p := ""
	if c.Park != "" {
		p = " park@" + c.Park
	}
	return fmt.Sprintf("%s/%s%s %s | %s", c.Family, c.Pool, p, strings.Join(tx, " "), strings.Join(ev, " "))
}

var dPools = map[string][]int{"p3": {0, 1, 0}, "p2": {0, 0}}

const dLatchSize = 2

// dContext builds the commit context of a class. Classes are '+'-joined parts.
func dContext(class string) context.Context {
	ctx := context.Background()
	for _, p := range strings.Split(class, "+") {
		switch p {
		case "background", "interceptor":
		case "session-id-0":
			ctx = context.WithValue(ctx, util.SessionID, uint64(0))
		case "session-id-7":
			ctx = context.WithValue(ctx, util.SessionID, uint64(7))
		case "session-id-max":
			ctx = context.WithValue(ctx, util.SessionID, uint64(math.MaxUint64))
		case "commit-detail":
			var d *util.CommitDetails
			ctx = context.WithValue(ctx, util.CommitDetailCtxKey, &d)
		case "span":
			ctx = opentracing.ContextWithSpan(ctx, opentracing.NoopTracer{}.StartSpan("verif-c17"))
		default:
			panic("unknown ctx class part " + p)
		}
	}
	return ctx
}

// ---------- store client wrapper: counts prewrites, parks one request ----------

type dClient struct {
	tikv.Client
	mu        sync.Mutex
	prewrites map[uint64]int
	parkTS    uint64
	parkCmd   tikvrpc.CmdType
	parkKeys  [][]byte
	parkedCh  chan struct{}
	releaseCh chan struct{}
	isParked  bool
	breaches  []string
	requests  int64
}

func (c *dClient) reset() {
	c.mu.Lock()
	c.prewrites = map[uint64]int{}
	c.parkTS, c.parkKeys, c.parkedCh, c.releaseCh, c.isParked, c.breaches = 0, nil, nil, nil, false, nil
	c.mu.Unlock()
}

func (c *dClient) SendRequest(ctx context.Context, addr string, req *tikvrpc.Request, timeout time.Duration) (*tikvrpc.Response, error) {
	var ts uint64
	switch req.Type {
	case tikvrpc.CmdPrewrite:
		ts = req.Prewrite().GetStartVersion()
	case tikvrpc.CmdCommit:
		ts = req.Commit().GetStartVersion()
	}
	if ts != 0 {
		c.mu.Lock()
		c.requests++
		if req.Type == tikvrpc.CmdPrewrite {
			c.prewrites[ts]++
			if c.isParked && ts != c.parkTS {
				for _, m := range req.Prewrite().GetMutations() {
					for _, k := range c.parkKeys {
						if string(k) == string(m.GetKey()) {
							c.breaches = append(c.breaches, fmt.Sprintf("prewrite of start ts %d on key %q reached the store while the commit of start ts %d holds the latch of that key", ts, m.GetKey(), c.parkTS))
						}
					}
				}
			}
		}
		var rel chan struct{}
		if c.parkTS == ts && c.parkCmd == req.Type && c.parkedCh != nil && !c.isParked && c.releaseCh != nil {
			c.isParked = true
			close(c.parkedCh)
			rel = c.releaseCh
		}
		c.mu.Unlock()
		if rel != nil {
			<-rel
			c.mu.Lock()
			c.isParked = false
			c.releaseCh = nil // park once
			c.mu.Unlock()
		}
	}
	return c.Client.SendRequest(ctx, addr, req, timeout)
}

// ---------- world: one per worker, reused (fresh keys + fresh latches per case) ----------

type dWorld struct {
	id     int
	store  *tikv.KVStore
	ext    *tikv.KVStore
	cl     *dClient
	caseNo int
}

var dSilence sync.Once

func newDWorld(id int) (*dWorld, error) {
	dSilence.Do(func() { log.ReplaceGlobals(zap.NewNop(), &log.ZapProperties{}) })
	client, cluster, pdClient, err := mocktikv.NewTiKVAndPDClient("", nil)
	if err != nil {
		return nil, err
	}
	mocktikv.BootstrapWithSingleStore(cluster)
	w := &dWorld{id: id, cl: &dClient{prewrites: map[uint64]int{}}}
	w.store, err = tikv.NewTestTiKVStore(client, pdClient, func(c tikv.Client) tikv.Client { w.cl.Client = c; return w.cl }, nil, dLatchSize)
	if err != nil {
		return nil, err
	}
	w.ext, err = tikv.NewTestTiKVStore(client, pdClient, nil, nil, 0)
	if err != nil {
		return nil, err
	}
	return w, nil
}

func (w *dWorld) close() {
	if s := w.store.TxnLatches(); s != nil {
		s.Close()
	}
	w.ext.Close()
	w.store.Close()
}

// freshKeys returns per-case keys whose REAL slot ids follow the pattern, in ascending key
// order (= the order in which Lock acquires them), plus a sentinel key for the barrier.
func (w *dWorld) freshKeys(l *latch.Latches, pattern []int) (keys [][]byte, sentinel []byte) {
	for i, want := range pattern {
		for j := 0; ; j++ {
			k := []byte(fmt.Sprintf("w%02dc%07d-%c%d", w.id, w.caseNo, 'a'+i, j))
			if latch.VerifSlotID(l, k) == want {
				keys = append(keys, k)
				break
			}
		}
	}
	return keys, []byte(fmt.Sprintf("w%02dc%07d-zz", w.id, w.caseNo))
}

// ---------- one execution ----------

type dViol struct {
	Key, What string
}

type dStats struct {
	commits, rollbacks, emptyCommits, foreign                            int64
	success, latchConflict, storeConflict, keyExists, otherErr           int64
	staleAfterWait, grantedAfterWait, blockedObserved, parked, notParked int64
	expectBlockButReturned, skippedSecondPending                         int64
	probes, dumps, maxCommitChecks, prewriteCountChecks                  int64
	realCalls                                                            int64
	inconclusive                                                         int64
}

type dExec struct {
	w     *dWorld
	c     *dCase
	sched *latch.LatchesScheduler
	lat   *latch.Latches
	keys  [][]byte
	sent  []byte
	txns  []*transaction.KVTxn
	start []uint64
	// reference model
	rel   []uint64 // per pool key: max commit ts of successful latched commits that finished
	relBy []int    // which txn published rel[k]
	// commits currently inside KVTxn.Commit (start ts)
	outstanding map[uint64]int
	done        []chan error // per txn: result of the Commit goroutine
	gids        []atomic.Int64
	pending     int // txn index of a commit started and (expected) waiting for a latch, -1
	pendingHeld int // key mask the waiting commit holds meanwhile
	parkedTxn   int
	releaseCh   chan struct{}
	viols       []dViol
	st          *dStats
	outcome     []string
	abort       bool
	incomplete  string
	hasS        bool // the schedule has separate set calls (otherwise begin also sets)
	waited      bool
}

func (x *dExec) violate(key, what string) {
	x.viols = append(x.viols, dViol{key, what})
}

func (x *dExec) keysOf(mask int) (ks [][]byte, idx []int) {
	for i := range x.keys {
		if mask&(1<<i) != 0 {
			ks = append(ks, x.keys[i])
			idx = append(idx, i)
		}
	}
	return
}

const dWatchdog = 30 * time.Second

func classify(err error) string {
	if err == nil {
		return "success"
	}
	var il *tikverr.ErrWriteConflictInLatch
	if stderrors.As(err, &il) {
		return "latch-conflict"
	}
	var wc *tikverr.ErrWriteConflict
	if stderrors.As(err, &wc) {
		return "store-conflict"
	}
	var ke *tikverr.ErrKeyExist
	if stderrors.As(err, &ke) {
		return "key-exists"
	}
	return "other"
}

// barrier: two Lock/UnLock rounds on a sentinel key. The scheduler goroutine handles unlockCh
// in FIFO order, and the second Lock cannot be granted before the first sentinel release was
// handled; so when it returns every UnLock issued before the barrier has been processed.
func (x *dExec) barrier() {
	for r := 0; r < 2; r++ {
		l := x.sched.Lock(math.MaxUint64, [][]byte{x.sent})
		x.sched.UnLock(l)
	}
}

func (x *dExec) nodeOf(dump []latch.VerifSlot, key []byte) *latch.VerifNode {
	for si := range dump {
		for ni := range dump[si].Nodes {
			if string(dump[si].Nodes[ni].Key) == string(key) {
				return &dump[si].Nodes[ni]
			}
		}
	}
	return nil
}

func (x *dExec) isWaiting(startTS uint64) bool {
	for _, s := range latch.VerifDump(x.lat) {
		for _, l := range s.Waiting {
			if latch.VerifInfo(l).StartTS == startTS {
				return true
			}
		}
	}
	return false
}

// expectStale: the property's rule on the reference model.
func (x *dExec) expectStale(i int) (bool, int) {
	_, idx := x.keysOf(x.c.Txns[i].Mask)
	for _, k := range idx {
		if x.rel[k] > x.start[i] {
			return true, k
		}
	}
	return false, -1
}

// startCommit runs KVTxn.Commit of txn i in a goroutine (panics are caught).
func (x *dExec) startCommit(i int) {
	t := x.c.Txns[i]
	ctx := dContext(t.Ctx)
	ch := make(chan error, 1)
	x.done[i] = ch
	x.outstanding[x.start[i]] = i
	txn := x.txns[i]
	x.st.realCalls++
	gid := &x.gids[i]
	go func() {
		defer func() {
			if p := recover(); p != nil {
				ch <- fmt.Errorf("PANIC: %v\n%s", p, debug.Stack())
			}
		}()
		gid.Store(curGID())
		ch <- txn.Commit(ctx)
	}()
}

// curGID parses the current goroutine's id from its stack header (diagnostics only).
func curGID() int64 {
	var buf [64]byte
	n := runtime.Stack(buf[:], false)
	var id int64
	fmt.Sscanf(string(buf[:n]), "goroutine %d ", &id)
	return id
}

// stuckDiagnosis: positive evidence for a dead-locked Commit: three snapshots 200 ms apart show
// the goroutine of THIS commit inside LatchesScheduler.Lock (waiting for its wake-up signal) while
// the unlock channel of its scheduler is empty, and the call still has not returned.
func (x *dExec) stuckDiagnosis(i int) (bool, string) {
	gid := x.gids[i].Load()
	diag := ""
	for r := 0; r < 3; r++ {
		if r > 0 {
			time.Sleep(200 * time.Millisecond)
		}
		buf := make([]byte, 8<<20)
		n := runtime.Stack(buf, true)
		inLock := false
		hdr := fmt.Sprintf("goroutine %d [", gid)
		for _, blk := range strings.Split(string(buf[:n]), "\n\n") {
			if strings.HasPrefix(blk, hdr) && strings.Contains(blk, "latch.(*LatchesScheduler).Lock") {
				inLock = true
			}
		}
		chEmpty := latch.VerifUnlockChLen(x.sched) == 0
		diag = fmt.Sprintf("commit goroutine %d inside LatchesScheduler.Lock: %v, unlock channel empty: %v, request in a waiting list: %v", gid, inLock, chEmpty, x.isWaiting(x.start[i]))
		if !inLock || !chEmpty || len(x.done[i]) > 0 {
			return false, diag
		}
	}
	return true, diag
}

// wait for the commit of txn i to return (or, with alsoParked, to park). Returns (err, returned).
func (x *dExec) await(i int, parkedCh chan struct{}) (error, bool) {
	tm := time.NewTimer(dWatchdog)
	defer tm.Stop()
	select {
	case err := <-x.done[i]:
		delete(x.outstanding, x.start[i])
		return err, true
	case <-parkedCh:
		return nil, false
	case <-tm.C:
		ok, diag := x.stuckDiagnosis(i)
		if ok {
			x.violate("d:stuck", fmt.Sprintf("Commit of T%d (start ts %d) does not return (watchdog %v): %s", i, x.start[i], dWatchdog, diag))
		} else {
			x.incomplete = "part (d): a Commit call did not return within the watchdog and the dead-lock could not be diagnosed positively: " + diag
		}
		x.abort = true
		return nil, false
	}
}

// judge checks the result of a Commit that returned. expStale / releaser were evaluated on the
// reference model at the moment the model says the latch decision is taken.
func (x *dExec) judge(i int, err error, expStale bool, relKey int, how string) {
	t := x.c.Txns[i]
	cls := classify(err)
	if err != nil && strings.HasPrefix(err.Error(), "PANIC:") {
		x.violate("d:panic", fmt.Sprintf("Commit of T%d panicked: %.300s", i, err.Error()))
		x.abort = true
		return
	}
	x.outcome[i] = cls
	ks, idx := x.keysOf(t.Mask)
	x.w.cl.mu.Lock()
	pw := x.w.cl.prewrites[x.start[i]]
	x.w.cl.mu.Unlock()
	x.st.prewriteCountChecks++
	switch cls {
	case "latch-conflict":
		x.st.latchConflict++
		if !expStale {
			x.violate("d:stale-false-positive/"+how, fmt.Sprintf("T%d (start ts %d, ctx %s) was refused by the latch (%v) although none of its keys was released by a successful commit with a greater commit ts (model: %v)", i, x.start[i], t.Ctx, err, x.relOf(idx)))
		}
		if pw != 0 {
			x.violate("d:stale-reached-store", fmt.Sprintf("T%d (start ts %d) was refused by the latch but %d prewrite request(s) of it reached the store", i, x.start[i], pw))
		}
	default:
		if expStale {
			by := x.relBy[relKey]
			x.violate("d:stale-missed/after-commit-with-"+x.c.Txns[by].Ctx, fmt.Sprintf("T%d (start ts %d) was NOT refused by the latch (result: %s, %d prewrite(s) sent) although key %q was released by T%d (commit ctx %s) with commit ts %d > %d", i, x.start[i], cls, pw, x.keys[relKey], by, x.c.Txns[by].Ctx, x.rel[relKey], x.start[i]))
		}
		switch cls {
		case "success":
			x.st.success++
		case "store-conflict":
			x.st.storeConflict++
		case "key-exists":
			x.st.keyExists++
		default:
			x.st.otherErr++
			x.incomplete = fmt.Sprintf("part (d): Commit returned an error outside the expected classes: %.200v", err)
		}
	}
	// a failed commit rolls its prewrites back in the background: wait, so that no lock is left
	if err != nil && cls != "latch-conflict" {
		transaction.TxnProbe{KVTxn: x.txns[i]}.GetCommitter().WaitCleanup()
	}
	// (2) latches free again
	x.barrier()
	dump := latch.VerifDump(x.lat)
	x.st.dumps++
	leaked := false
	for _, k := range ks {
		n := x.nodeOf(dump, k)
		if n == nil || n.Holder == nil {
			continue
		}
		hs := latch.VerifInfo(n.Holder).StartTS
		if _, ok := x.outstanding[hs]; !ok || hs == x.start[i] {
			leaked = true
			x.violate("d:latch-leaked/after-"+cls, fmt.Sprintf("after Commit of T%d (start ts %d, ctx %s) returned (%s) key %q is still held by the lock of start ts %d", i, x.start[i], t.Ctx, cls, k, hs))
			x.abort = true // a later commit on this key would hang
		}
	}
	var commitTS uint64
	if cls == "success" {
		commitTS = x.txns[i].CommitTS()
		if commitTS <= x.start[i] {
			x.incomplete = fmt.Sprintf("part (d): successful commit reports commit ts %d <= start ts %d", commitTS, x.start[i])
		}
		// (3) white-box
		x.st.maxCommitChecks++
		for _, k := range ks {
			n := x.nodeOf(dump, k)
			var got uint64
			if n != nil {
				got = n.MaxCommitTS
			}
			if got < commitTS {
				x.violate("d:maxcommit-below-commit-ts/"+t.Ctx, fmt.Sprintf("T%d (ctx %s) committed with commit ts %d, but the latch records max commit ts %d for key %q after the release", i, t.Ctx, commitTS, got, k))
			}
		}
		// model
		for _, k := range idx {
			if commitTS > x.rel[k] {
				x.rel[k] = commitTS
				x.relBy[k] = i
			}
		}
	}
	// probe: a later request for the same keys returns (skipped if a key is rightly held by a
	// commit in progress, or a leak was found: the probe would wait)
	if !leaked {
		free := true
		for _, k := range ks {
			if n := x.nodeOf(dump, k); n != nil && n.Holder != nil {
				free = false
			}
		}
		if free && x.pending < 0 {
			p := x.sched.Lock(math.MaxUint64, ks)
			if p.IsStale() {
				x.violate("d:probe-stale", "a probe lock with the greatest start ts was reported stale")
			}
			x.sched.UnLock(p)
			x.st.probes++
		}
	}
}

func (x *dExec) relOf(idx []int) map[string]uint64 {
	m := map[string]uint64{}
	for _, k := range idx {
		m[string(x.keys[k])] = x.rel[k]
	}
	return m
}

func (x *dExec) run() {
	c := x.c
	w := x.w
	w.caseNo++
	// fresh latches
	old := w.store.TxnLatches()
	w.store.EnableTxnLocalLatches(dLatchSize)
	if old != nil {
		old.Close()
	}
	x.sched = w.store.TxnLatches()
	x.lat = latch.VerifLatches(x.sched)
	x.keys, x.sent = w.freshKeys(x.lat, dPools[c.Pool])
	w.cl.reset()
	n := len(c.Txns)
	x.txns = make([]*transaction.KVTxn, n)
	x.start = make([]uint64, n)
	x.done = make([]chan error, n)
	x.gids = make([]atomic.Int64, n)
	x.outcome = make([]string, n)
	x.rel = make([]uint64, len(x.keys))
	x.relBy = make([]int, len(x.keys))
	x.outstanding = map[uint64]int{}
	x.pending, x.parkedTxn = -1, -1
	for _, e := range c.Events {
		if e.K == "S" {
			x.hasS = true
		}
	}
	// preload the last pool key through the foreign client
	if !x.foreignPut(len(x.keys) - 1) {
		return
	}
	for _, e := range c.Events {
		if x.abort {
			break
		}
		switch e.K {
		case "B":
			txn, err := w.store.Begin()
			if err != nil {
				x.incomplete = "part (d): Begin failed: " + err.Error()
				x.abort = true
				break
			}
			x.txns[e.T] = txn
			x.start[e.T] = txn.StartTS()
			if strings.Contains(c.Txns[e.T].Ctx, "interceptor") {
				txn.SetRPCInterceptor(interceptor.NewRPCInterceptor("verif-c17", func(next interceptor.RPCInterceptorFunc) interceptor.RPCInterceptorFunc {
					return func(target string, req *tikvrpc.Request) (*tikvrpc.Response, error) { return next(target, req) }
				}))
			}
			x.st.realCalls++
			if !x.hasS {
				x.doSet(e.T)
			}
		case "S":
			x.doSet(e.T)
		case "X":
			x.st.foreign++
			x.foreignPut(e.Key)
		case "C":
			x.doFinish(e.T)
		case "Ca":
			x.doCommitPark(e.T)
		case "Cb":
			x.doRelease(e.T)
		}
	}
	// never leave goroutines behind: release a parked commit, collect pending ones
	if x.releaseCh != nil {
		close(x.releaseCh)
		x.releaseCh = nil
	}
	if x.abort {
		// a hung commit goroutine may stay behind; closing the scheduler does not wake it. Accept the leak.
		return
	}
}

func (x *dExec) doSet(i int) {
	t := x.c.Txns[i]
	ks, _ := x.keysOf(t.Mask)
	for _, k := range ks {
		var err error
		if t.Kind == "insert" {
			err = x.txns[i].GetMemBuffer().SetWithFlags(k, []byte(fmt.Sprintf("v%d", i)), kv.SetPresumeKeyNotExists)
		} else {
			err = x.txns[i].Set(k, []byte(fmt.Sprintf("v%d", i)))
		}
		x.st.realCalls++
		if err != nil {
			x.incomplete = "part (d): Set failed: " + err.Error()
			x.abort = true
		}
	}
}

func (x *dExec) foreignPut(k int) bool {
	txn, err := x.w.ext.Begin()
	if err == nil {
		err = txn.Set(x.keys[k], []byte("ext"))
	}
	if err == nil {
		err = txn.Commit(context.Background())
	}
	if err != nil {
		x.incomplete = "part (d): foreign client's write failed: " + err.Error()
		x.abort = true
		return false
	}
	return true
}

// modelBlocks: would Lock of txn i wait? The parked commit holds all of its keys, a commit that
// waits holds the keys that precede (ascending order) the one it waits for. Keys are acquired in
// ascending order; a key with rel > start ends the request as stale before any later key is
// looked at. Returns also the keys the request would hold while waiting.
func (x *dExec) modelBlocks(i int) (bool, int) {
	if x.parkedTxn < 0 {
		return false, 0
	}
	held := x.c.Txns[x.parkedTxn].Mask | x.pendingHeld
	_, idx := x.keysOf(x.c.Txns[i].Mask)
	before := 0
	for _, k := range idx {
		if x.rel[k] > x.start[i] {
			return false, 0
		}
		if held&(1<<k) != 0 {
			return true, before
		}
		before |= 1 << k
	}
	return false, 0
}

func (x *dExec) doFinish(i int) {
	t := x.c.Txns[i]
	if t.Fin == "rollback" {
		x.st.rollbacks++
		x.st.realCalls++
		if err := x.txns[i].Rollback(); err != nil {
			x.incomplete = "part (d): Rollback failed: " + err.Error()
		}
		x.outcome[i] = "rolled-back"
		return
	}
	if t.Mask == 0 {
		x.st.emptyCommits++
		x.startCommit(i)
		err, ret := x.await(i, nil)
		if ret {
			if err != nil {
				x.violate("d:empty-commit-error", fmt.Sprintf("Commit of T%d without mutations failed: %v", i, err))
			}
			x.outcome[i] = "empty"
		}
		return
	}
	x.st.commits++
	blocks, heldBefore := x.modelBlocks(i)
	if blocks && x.pending >= 0 {
		// bound of the blocking family: one waiting commit at a time (the order in which two
		// waiters pass depends on the wake-up internals that part (a) models, not this part)
		x.st.skippedSecondPending++
		x.outcome[i] = "not-run"
		return
	}
	if blocks {
		x.startCommit(i)
		// wait until the request is positively in a waiting list, or (wrongly) returns
		spins := 0
		t0 := time.Now()
		for !x.isWaiting(x.start[i]) {
			select {
			case err := <-x.done[i]:
				delete(x.outstanding, x.start[i])
				x.st.expectBlockButReturned++
				cls := classify(err)
				if cls == "latch-conflict" {
					x.judge(i, err, false, -1, "while-holder-in-progress")
				} else {
					p := x.parkedTxn
					x.violate("d:exclusivity", fmt.Sprintf("Commit of T%d (keys %03b) went through the latch and returned (%s) while the commit of T%d (keys %03b) was still in progress holding an overlapping key", i, t.Mask, cls, p, x.c.Txns[p].Mask))
					x.judge(i, err, false, -1, "while-holder-in-progress")
				}
				return
			default:
			}
			spins++
			runtime.Gosched()
			if spins%1000 == 0 {
				if br := x.breaches(); len(br) > 0 {
					// it passed the latch and is now fighting the holder's lock in the store
					x.violate("d:exclusivity", br[0])
					x.abort = true
					return
				}
				if time.Since(t0) > dWatchdog {
					x.incomplete = "part (d): a commit expected to wait for a latch neither waits nor returns"
					x.abort = true
					return
				}
				time.Sleep(50 * time.Microsecond)
			}
		}
		x.st.blockedObserved++
		x.waited = true
		x.pending = i
		x.pendingHeld = heldBefore
		return
	}
	exp, rk := x.expectStale(i)
	x.startCommit(i)
	err, ret := x.await(i, nil)
	if !ret {
		return
	}
	how := "sequential"
	if x.parkedTxn >= 0 {
		how = "while-other-commit-in-progress"
	}
	x.judge(i, err, exp, rk, how)
	x.noteBreaches()
}

func (x *dExec) breaches() []string {
	x.w.cl.mu.Lock()
	defer x.w.cl.mu.Unlock()
	return append([]string(nil), x.w.cl.breaches...)
}

func (x *dExec) noteBreaches() {
	if br := x.breaches(); len(br) > 0 {
		x.violate("d:exclusivity", br[0])
		x.w.cl.mu.Lock()
		x.w.cl.breaches = nil
		x.w.cl.mu.Unlock()
	}
}

// doCommitPark: Commit of txn i, parked at its Prewrite / Commit request.
func (x *dExec) doCommitPark(i int) {
	t := x.c.Txns[i]
	x.st.commits++
	exp, rk := x.expectStale(i)
	cl := x.w.cl
	parked := make(chan struct{})
	x.releaseCh = make(chan struct{})
	ks, _ := x.keysOf(t.Mask)
	cl.mu.Lock()
	cl.parkTS = x.start[i]
	cl.parkCmd = tikvrpc.CmdPrewrite
	if x.c.Park == "commit" {
		cl.parkCmd = tikvrpc.CmdCommit
	}
	cl.parkKeys = ks
	cl.parkedCh = parked
	cl.releaseCh = x.releaseCh
	cl.mu.Unlock()
	x.startCommit(i)
	err, ret := x.await(i, parked)
	if x.abort {
		return
	}
	if ret {
		// did not reach the park point (stale, or failed before it): an ordinary sequential commit
		x.st.notParked++
		cl.mu.Lock()
		cl.parkTS, cl.releaseCh = 0, nil
		cl.mu.Unlock()
		x.releaseCh = nil
		x.judge(i, err, exp, rk, "sequential")
		return
	}
	x.st.parked++
	x.parkedTxn = i
	if exp {
		by := x.relBy[rk]
		x.violate("d:stale-missed/after-commit-with-"+x.c.Txns[by].Ctx, fmt.Sprintf("T%d (start ts %d) reached the store although key %q was released by T%d (commit ctx %s) with commit ts %d", i, x.start[i], x.keys[rk], by, x.c.Txns[by].Ctx, x.rel[rk]))
	}
}

// doRelease: let the parked commit continue; then collect the commit that waited for it.
func (x *dExec) doRelease(i int) {
	if x.parkedTxn != i {
		return // it never parked
	}
	close(x.releaseCh)
	x.releaseCh = nil
	err, ret := x.await(i, nil)
	if !ret {
		return
	}
	x.parkedTxn = -1
	x.noteBreaches()
	p := x.pending
	// the parked one passed the latch already (judged at Ca); its verdict cannot be stale any more
	x.judge(i, err, false, -1, "holder")
	if x.abort {
		return
	}
	if p >= 0 {
		// the waiter takes its latch decision after the holder's release: evaluate on the updated model
		exp, rk := x.expectStale(p)
		err, ret := x.await(p, nil)
		if !ret {
			return
		}
		x.pending, x.pendingHeld = -1, 0
		if classify(err) == "latch-conflict" {
			x.st.staleAfterWait++
		} else {
			x.st.grantedAfterWait++
		}
		x.judge(p, err, exp, rk, "after-waiting")
	}
}

// ---------- enumeration ----------

// schedules: all interleavings of the per-transaction chains with canonical begin order
// (the first event of chain i precedes the first event of chain i+1).
func dSchedules(chains [][]dEvent) [][]dEvent {
	var out [][]dEvent
	pos := make([]int, len(chains))
	var cur []dEvent
	var rec func()
	rec = func() {
		doneAll := true
		for i, ch := range chains {
			if pos[i] >= len(ch) {
				continue
			}
			doneAll = false
			if pos[i] == 0 && i > 0 && pos[i-1] == 0 {
				continue // canonical begin order
			}
			cur = append(cur, ch[pos[i]])
			pos[i]++
			rec()
			pos[i]--
			cur = cur[:len(cur)-1]
		}
		if doneAll {
			out = append(out, append([]dEvent(nil), cur...))
		}
	}
	rec()
	return out
}

func dTxnOptions(nKeys int, kinds, ctxs []string, withEmpty, withRollback bool) []dTxn {
	var out []dTxn
	for m := 1; m < 1<<nKeys; m++ {
		for _, k := range kinds {
			for _, c := range ctxs {
				out = append(out, dTxn{Mask: m, Kind: k, Fin: "commit", Ctx: c})
			}
		}
	}
	if withEmpty {
		out = append(out, dTxn{Mask: 0, Kind: "put", Fin: "commit", Ctx: "session-id-0"})
	}
	if withRollback {
		out = append(out, dTxn{Mask: 1, Kind: "put", Fin: "rollback", Ctx: "background"})
	}
	return out
}

type dFamily struct {
	Name   string
	Pool   string
	N      int
	Opts   [][]dTxn // per txn
	Scheds [][]dEvent
	Park   []string
	Desc   string
}

func (f *dFamily) size() int64 {
	n := int64(len(f.Scheds))
	for _, o := range f.Opts {
		n *= int64(len(o))
	}
	if len(f.Park) > 0 {
		n *= int64(len(f.Park))
	}
	return n
}

// each: deterministic order - schedules outermost would put long runs of equal shape together;
// simplest first: option tuples vary fastest.
func (f *dFamily) each(fn func(c *dCase) bool) {
	parks := f.Park
	if len(parks) == 0 {
		parks = []string{""}
	}
	idx := make([]int, f.N)
	for _, park := range parks {
		for _, s := range f.Scheds {
			for i := range idx {
				idx[i] = 0
			}
			for {
				c := &dCase{Family: f.Name, Pool: f.Pool, Park: park, Events: s}
				for i := 0; i < f.N; i++ {
					c.Txns = append(c.Txns, f.Opts[i][idx[i]])
				}
				if !fn(c) {
					return
				}
				j := f.N - 1
				for j >= 0 {
					idx[j]++
					if idx[j] < len(f.Opts[j]) {
						break
					}
					idx[j] = 0
					j--
				}
				if j < 0 {
					break
				}
			}
		}
	}
}

func chainBSC(i int) []dEvent { return []dEvent{{K: "B", T: i}, {K: "S", T: i}, {K: "C", T: i}} }
func chainBC(i int) []dEvent  { return []dEvent{{K: "B", T: i}, {K: "C", T: i}} }
func chainPark(i int) []dEvent {
	return []dEvent{{K: "B", T: i}, {K: "Ca", T: i}, {K: "Cb", T: i}}
}

// withForeign inserts one X(key) at every position of every schedule.
func withForeign(scheds [][]dEvent, keys []int) [][]dEvent {
	var out [][]dEvent
	for _, s := range scheds {
		for p := 0; p <= len(s); p++ {
			for _, k := range keys {
				n := append(append(append([]dEvent(nil), s[:p]...), dEvent{K: "X", Key: k}), s[p:]...)
				out = append(out, n)
			}
		}
	}
	return out
}

var (
	dCtxAll   = []string{"background", "session-id-0", "session-id-7", "commit-detail", "session-id-0+commit-detail", "span"}
	dCtxMore  = []string{"background", "session-id-0", "session-id-7", "commit-detail", "session-id-0+commit-detail", "span", "session-id-7+commit-detail", "session-id-0+span", "session-id-max", "interceptor", "session-id-0+interceptor"}
	dCtxThree = []string{"background", "session-id-0", "session-id-7"}
	dKinds    = []string{"put", "insert"}
)

func dCtxList(thorough bool) []string {
	if thorough {
		return dCtxMore
	}
	return dCtxAll
}

func dFamilies(thorough bool) []*dFamily {
	var fs []*dFamily
	rep := func(o []dTxn, n int) [][]dTxn {
		var r [][]dTxn
		for i := 0; i < n; i++ {
			r = append(r, o)
		}
		return r
	}
	ctxFull := dCtxAll
	if thorough {
		ctxFull = dCtxMore
	}
	// seq2: two transactions, begin / set / commit as separate calls, full option product
	fs = append(fs, &dFamily{Name: "seq2", Pool: "p3", N: 2, Opts: rep(dTxnOptions(3, dKinds, ctxFull, true, true), 2),
		Scheds: dSchedules([][]dEvent{chainBSC(0), chainBSC(1)}),
		Desc:   "2 txns x {every non-empty subset of 3 pool keys (slots 0,1,0; last key preloaded) x {put,insert} x ctx list, empty commit, rollback}; all interleavings of B,S,C of both"})
	// seq2x: plus one foreign commit at every position
	xk := []int{0, 1, 2}
	xopts := dTxnOptions(3, dKinds, dCtxThree, false, true)
	if thorough {
		xopts = dTxnOptions(3, dKinds, dCtxAll, false, true)
	}
	fs = append(fs, &dFamily{Name: "seq2x", Pool: "p3", N: 2, Opts: rep(xopts, 2),
		Scheds: withForeign(dSchedules([][]dEvent{chainBC(0), chainBC(1)}), xk),
		Desc:   "2 txns (set directly after begin) + one commit of a foreign client without latches on one pool key at every position: store-side write conflicts"})
	// seq3: three transactions
	if thorough {
		fs = append(fs, &dFamily{Name: "seq3", Pool: "p3", N: 3, Opts: rep(dTxnOptions(3, dKinds, dCtxThree, false, true), 3),
			Scheds: dSchedules([][]dEvent{chainBC(0), chainBC(1), chainBC(2)}),
			Desc:   "3 txns over 3 pool keys x {put,insert} x 3 ctx, rollback; all interleavings of B(+S),C"})
		fs = append(fs, &dFamily{Name: "seq3s", Pool: "p2", N: 3, Opts: rep(dTxnOptions(2, dKinds, dCtxThree, false, true), 3),
			Scheds: dSchedules([][]dEvent{chainBSC(0), chainBSC(1), chainBSC(2)}),
			Desc:   "3 txns over 2 colliding pool keys, begin / set / commit as separate calls"})
	} else {
		fs = append(fs, &dFamily{Name: "seq3", Pool: "p2", N: 3, Opts: rep(dTxnOptions(2, dKinds, dCtxThree, false, true), 3),
			Scheds: dSchedules([][]dEvent{chainBC(0), chainBC(1), chainBC(2)}),
			Desc:   "3 txns over 2 colliding pool keys (slots 0,0; last preloaded) x {put,insert} x 3 ctx, rollback; all interleavings of B(+S),C"})
	}
	// blk2: one commit parked while it holds its latches
	pOpts := dTxnOptions(3, dKinds, ctxFull, false, false)
	oOpts := dTxnOptions(3, dKinds, dCtxThree, false, true)
	if thorough {
		oOpts = dTxnOptions(3, dKinds, dCtxAll, true, true)
	}
	for p := 0; p < 2; p++ {
		chains := [][]dEvent{chainBC(0), chainBC(1)}
		chains[p] = chainPark(p)
		opts := [][]dTxn{oOpts, oOpts}
		opts[p] = pOpts
		fs = append(fs, &dFamily{Name: fmt.Sprintf("blk2/holder=T%d", p), Pool: "p3", N: 2, Opts: opts, Scheds: dSchedules(chains), Park: []string{"prewrite", "commit"},
			Desc: "2 txns; the holder's Commit is parked at its Prewrite / Commit request (latches held) while the other one begins / commits; waiting is established from the white-box waiting lists"})
	}
	// blk3: holder + two others (one waiting commit at a time)
	b3 := dTxnOptions(2, []string{"put"}, dCtxThree, false, false)
	pool3 := "p2"
	if thorough {
		b3 = dTxnOptions(3, []string{"put"}, dCtxThree, false, false)
		pool3 = "p3"
	}
	for p := 0; p < 3; p++ {
		chains := [][]dEvent{chainBC(0), chainBC(1), chainBC(2)}
		chains[p] = chainPark(p)
		fs = append(fs, &dFamily{Name: fmt.Sprintf("blk3/holder=T%d", p), Pool: pool3, N: 3, Opts: rep(b3, 3), Scheds: dSchedules(chains), Park: []string{"prewrite", "commit"},
			Desc: "3 txns, one parked holder; schedules in which a second commit would have to wait at the same time are cut at that call (counted)"})
	}
	return fs
}

// ---------- driver ----------

type dTotals struct {
	cases, nontrivial, transitions int64
	st                             dStats
	outcomes                       map[string]int64
	perFamily                      []map[string]any
	maxEvents                      int
	wall                           float64
	ran                            bool
}

var dbgShown atomic.Int64
var dbgLog *os.File
var dbgMu sync.Mutex

type dSample struct {
	idx int64
	c   string
}

type dFound struct {
	idx  int64
	c    *dCase
	v    dViol
	keys []string
}

func (s *dStats) add(o *dStats) {
	s.commits += o.commits
	s.rollbacks += o.rollbacks
	s.emptyCommits += o.emptyCommits
	s.foreign += o.foreign
	s.success += o.success
	s.latchConflict += o.latchConflict
	s.storeConflict += o.storeConflict
	s.keyExists += o.keyExists
	s.otherErr += o.otherErr
	s.staleAfterWait += o.staleAfterWait
	s.grantedAfterWait += o.grantedAfterWait
	s.blockedObserved += o.blockedObserved
	s.parked += o.parked
	s.notParked += o.notParked
	s.expectBlockButReturned += o.expectBlockButReturned
	s.skippedSecondPending += o.skippedSecondPending
	s.probes += o.probes
	s.dumps += o.dumps
	s.maxCommitChecks += o.maxCommitChecks
	s.prewriteCountChecks += o.prewriteCountChecks
	s.realCalls += o.realCalls
	s.inconclusive += o.inconclusive
}

func runCaseD(w *dWorld, c *dCase, st *dStats) *dExec {
	x := &dExec{w: w, c: c, st: st}
	func() {
		defer func() {
			if p := recover(); p != nil {
				x.violate("d:panic", fmt.Sprintf("panic in the calling goroutine: %v", p))
				x.abort = true
			}
		}()
		x.run()
	}()
	return x
}

func runPartD(thorough bool, tot *dTotals, samples *ev.Samples, budget time.Duration) {
	t0 := time.Now()
	dl := t0.Add(budget)
	tot.outcomes = map[string]int64{}
	tot.ran = true
	workers := runtime.GOMAXPROCS(0)
	worlds := make([]*dWorld, workers)
	for i := range worlds {
		w, err := newDWorld(i)
		if err != nil {
			run.Incomplete("part (d): cannot create the mock store: " + err.Error())
			return
		}
		worlds[i] = w
	}
	defer func() {
		for _, w := range worlds {
			w.close()
		}
	}()
	only := os.Getenv("VERIF_ONLY")
	if fn := os.Getenv("VERIF_C17D_LOG"); fn != "" {
		dbgLog, _ = os.Create(fn)
		defer dbgLog.Close()
	}
	var found []dFound
	stop := false
	type job struct {
		idx int64
		c   *dCase
	}
	for _, f := range dFamilies(thorough) {
		if only != "" && strings.HasPrefix(only, "d:") && !strings.Contains(f.Name, only[2:]) {
			continue
		}
		if stop {
			break
		}
		ft := time.Now()
		var mu sync.Mutex
		var fst dStats
		var fcases, fnontriv int64
		var hardStop atomic.Bool
		ffirsts := map[string]dSample{}
		// runChunk: all cases of a chunk are executed (deterministic set), in parallel on the
		// per-worker worlds; a diagnosed hang stops the rest of the chunk (every further case
		// would cost a watchdog period).
		runChunk := func(chunk []job) {
			var next atomic.Int64
			var wg sync.WaitGroup
			for wi := 0; wi < workers; wi++ {
				wg.Add(1)
				go func(w *dWorld) {
					defer wg.Done()
					var st dStats
					var cases, nontriv int64
					outs := map[string]int64{}
					firsts := map[string]dSample{}
					var loc []dFound
					var incs []string
					for {
						ji := int(next.Add(1)) - 1
						if ji >= len(chunk) || hardStop.Load() {
							break
						}
						j := chunk[ji]
						x := runCaseD(w, j.c, &st)
						cases++
						if x.incomplete != "" {
							st.inconclusive++
							incs = append(incs, x.incomplete+" [case "+j.c.String()+"]")
						}
						o := strings.Join(x.outcome, ",")
						outs[o]++
						if dbgLog != nil {
							dbgMu.Lock()
							fmt.Fprintf(dbgLog, "%s %d %s => %s\n", f.Name, j.idx, j.c.String(), o)
							dbgMu.Unlock()
						}
						if dbg := os.Getenv("VERIF_C17D_SHOW"); dbg != "" && strings.Contains(o, dbg) && dbgShown.Add(1) <= 8 {
							fmt.Fprintf(os.Stderr, "c17(d) show: %s => %s start=%v\n", j.c.String(), o, x.start)
						}
						if x.waited || strings.Contains(o, "conflict") || strings.Contains(o, "key-exists") {
							nontriv++
							sk := o
							if x.waited {
								sk += " (a commit waited for the latch)"
							}
							if old, ok := firsts[sk]; !ok || j.idx < old.idx {
								firsts[sk] = dSample{j.idx, j.c.String()}
							}
						}
						for _, v := range x.viols {
							loc = append(loc, dFound{idx: j.idx, c: j.c, v: v})
							if v.Key == "d:stuck" {
								hardStop.Store(true)
							}
						}
						if x.abort && x.incomplete != "" {
							hardStop.Store(true)
						}
					}
					mu.Lock()
					fst.add(&st)
					fcases += cases
					fnontriv += nontriv
					for k, v := range outs {
						tot.outcomes[k] += v
					}
					found = append(found, loc...)
					for k, v := range firsts {
						if old, ok := ffirsts[k]; !ok || v.idx < old.idx {
							ffirsts[k] = v
						}
					}
					for _, s := range incs {
						run.Incomplete(s)
					}
					mu.Unlock()
				}(worlds[wi])
			}
			wg.Wait()
		}
		var idx int64
		expired := false
		afterViol := 0
		chunk := make([]job, 0, 2048)
		f.each(func(c *dCase) bool {
			chunk = append(chunk, job{idx, c})
			idx++
			if len(chunk) == cap(chunk) {
				runChunk(chunk)
				chunk = chunk[:0]
				if len(found) > 0 {
					// keep going for a bounded, deterministic number of chunks so that the report
					// names every failing class (white-box AND property level), not only the first
					afterViol++
				}
				if afterViol > 40 || hardStop.Load() {
					return false
				}
				if time.Now().After(dl) || run.Expired() {
					expired = true
					return false
				}
			}
			return true
		})
		if len(chunk) > 0 && afterViol <= 40 && !expired && !hardStop.Load() {
			runChunk(chunk)
		}
		if expired {
			run.Incomplete(fmt.Sprintf("part (d): wall-clock budget expired in family %s after %d of %d cases", f.Name, idx, f.size()))
			stop = true
		}
		if hardStop.Load() {
			stop = true
		}
		// samples: per family the first case (enumeration order) of up to two outcome vectors,
		// picked by the run seed
		if samples != nil && len(ffirsts) > 0 {
			var ks []string
			for k := range ffirsts {
				ks = append(ks, k)
			}
			sort.Strings(ks)
			for n := 0; n < 2 && n < len(ks); n++ {
				pick := (run.Seed + len(tot.perFamily) + n*(len(ks)/2+1)) % len(ks)
				if n == 1 && len(ks) == 1 {
					break
				}
				k := ks[pick]
				v := ffirsts[k]
				samples.Add(func() any { return map[string]any{"part": "d", "case": v.c, "outcome": k} })
			}
		}
		tot.cases += fcases
		tot.nontrivial += fnontriv
		tot.st.add(&fst)
		for _, s := range f.Scheds {
			if len(s) > tot.maxEvents {
				tot.maxEvents = len(s)
			}
		}
		tot.perFamily = append(tot.perFamily, map[string]any{"family": f.Name, "pool": f.Pool, "txns": f.N, "schedules": len(f.Scheds), "park_points": f.Park,
			"cases": fcases, "cases_in_bounds": f.size(), "commit_calls": fst.commits, "blocked_commits_observed": fst.blockedObserved,
			"wall_s": float64(int(time.Since(ft).Seconds()*100)) / 100, "what": f.Desc})
		fmt.Fprintf(os.Stderr, "c17(d): %-18s cases=%d/%d commits=%d stale=%d success=%d store-conflict=%d key-exists=%d blocked=%d %.1fs\n", f.Name, fcases, f.size(), fst.commits, fst.latchConflict, fst.success, fst.storeConflict, fst.keyExists, fst.blockedObserved, time.Since(ft).Seconds())
		if len(found) > 0 {
			run.Note("part (d) stopped after the first chunk with violations (family %s, %d of %d cases)", f.Name, fcases, f.size())
			break
		}
	}
	tot.transitions = tot.st.realCalls
	tot.wall = time.Since(t0).Seconds()
	// deterministic report: first case in enumeration order per violation key
	sort.SliceStable(found, func(i, j int) bool { return found[i].idx < found[j].idx })
	seen := map[string]bool{}
	for _, f := range found {
		if seen[f.v.Key] {
			run.Violation(f.v.Key, f.v.What, nil)
			continue
		}
		seen[f.v.Key] = true
		run.Violation(f.v.Key, fmt.Sprintf("[%s] %s", f.c.String(), f.v.What), replayArtefact{Part: "d", D: f.c})
	}
}

func (t *dTotals) covMap() map[string]any {
	if !t.ran {
		return map[string]any{"ran": false}
	}
	s := t.st
	return map[string]any{
		"cases": t.cases, "real_api_calls": s.realCalls, "commit_calls": s.commits, "rollbacks": s.rollbacks, "empty_commits": s.emptyCommits, "foreign_commits": s.foreign,
		"outcomes":      map[string]int64{"success": s.success, "refused_by_latch": s.latchConflict, "store_write_conflict": s.storeConflict, "key_exists": s.keyExists, "other_error": s.otherErr},
		"holder_parked": s.parked, "holder_never_reached_park_point": s.notParked, "commits_observed_waiting_for_latch": s.blockedObserved,
		"waiters_stale_at_wakeup": s.staleAfterWait, "waiters_granted_at_wakeup": s.grantedAfterWait, "schedules_cut_second_waiter": s.skippedSecondPending,
		"latch_free_checks": s.dumps, "probe_locks": s.probes, "max_commit_ts_checks": s.maxCommitChecks, "prewrite_count_checks": s.prewriteCountChecks,
		"distinct_outcome_vectors": len(t.outcomes), "inconclusive_cases": s.inconclusive, "wall_s": float64(int(t.wall*100)) / 100,
	}
}

func replayDArtefact(a replayArtefact) {
	w, err := newDWorld(0)
	if err != nil {
		fmt.Fprintln(os.Stderr, err)
		os.Exit(2)
	}
	var st dStats
	x := runCaseD(w, a.D, &st)
	b, _ := json.Marshal(a.D)
	fmt.Println("case:", a.D.String())
	fmt.Println("json:", string(b))
	fmt.Println("start ts:", x.start, "outcomes:", x.outcome, "model max commit ts:", x.rel)
	for _, v := range x.viols {
		run.Violation(v.Key, v.What, a)
	}
	if x.incomplete != "" {
		run.Incomplete(x.incomplete)
	}
	run.Finish(ev.Coverage{"states": 1, "transitions": st.realCalls, "traces_validated_against_impl": 1, "evaluations": 1, "distinct_nontrivial": 1, "rule": "replay of one stored part (d) case", "samples": []any{a.D.String()}}, nil)
}

// C17: the local latch scheduler (internal/latch) is exclusive, deadlock-free and flags exactly
// stale work.
//
// Part (a) (deciding): explicit-state breadth-first search over the real latch.Latches. A state
// is a history of transitions replayed on a fresh Latches; transitions are the real
// acquire/release calls sequenced as LatchesScheduler.Lock/run/wakeup sequence them (callers
// run their first acquire themselves; ONE scheduler goroutine takes unlocks one at a time and
// re-acquires the woken locks in wake-up-list order before the next unlock), in every order.
// Two granularities: "method" (acquire/release atomic, as the property states) and "slot" (every
// acquireSlot/releaseSlot critical section is a step of its own - the real atomicity unit).
// Key sets and timestamps are chosen by the explorer at the transition that introduces them.
//
// Part (b): the real LatchesScheduler goroutine with 3 caller goroutines, released one API call
// at a time with quiescence in between (child process with GOMAXPROCS=1), all orders.
//
// Part (c): the same BFS started from cache states that make recycling of expired nodes run
// (partc.go). Part (d): the user of the latches - the real KVTxn.Commit on a store with latches
// enabled, bounded exhaustive enumeration of call orders x commit contexts x outcomes (partd.go).
package main

import (
	"crypto/sha256"
	"encoding/json"
	"flag"
	"fmt"
	"os"
	"runtime"
	"runtime/pprof"
	"sort"
	"sync"
	"sync/atomic"
	"time"

	"github.com/tikv/client-go/v2/internal/latch"
	"github.com/tikv/client-go/v2/verifrt/ev"
)

var run *ev.Run

// deadline: own soft wall-clock budget (a tier that does not finish is reported exhaustive:false).
var deadline time.Time

// ---------- packed histories ----------

// pack: K(2) T(3) Mask(4) Zero(1) Abs(rest). Stored histories carry concrete timestamps (the
// symbolic position is resolved once, when the transition is generated), so that a replay needs
// no state inspection.
func pack(o Op, abs uint64) uint64 {
	var k uint64
	switch o.K {
	case OpStart:
		k = 0
	case OpCont:
		k = 1
	case OpUnlock:
		k = 2
	case OpSched:
		k = 3
	}
	z := uint64(0)
	if o.Zero {
		z = 1
	}
	return k | uint64(o.T)<<2 | uint64(o.Mask)<<5 | z<<9 | abs<<10
}

func unpack(p uint64) Op {
	return Op{K: [...]byte{OpStart, OpCont, OpUnlock, OpSched}[p&3], T: int(p >> 2 & 7), Mask: int(p >> 5 & 15), Zero: p>>9&1 == 1, Pos: -1, Abs: p >> 10}
}

func unpackAll(h []uint64) []Op {
	ops := make([]Op, len(h))
	for i, p := range h {
		ops[i] = unpack(p)
	}
	return ops
}

// ---------- configurations ----------

type config struct {
	Lay  *Layout `json:"layout"`
	Fine bool    `json:"slot_granularity"`
	N    int     `json:"txns"`
	K    int     `json:"max_keys_per_txn"`
}

func (c config) String() string {
	g := "method"
	if c.Fine {
		g = "slot"
	}
	return fmt.Sprintf("%s/%s/N=%d/K=%d", c.Lay.Name, g, c.N, c.K)
}

func (c config) gran() string {
	if c.Fine {
		return "slot"
	}
	return "method"
}

func masksUpTo(k int) []int {
	var ms []int
	for sz := 1; sz <= k; sz++ {
		for m := 1; m < 1<<poolSize; m++ {
			n := 0
			for i := 0; i < poolSize; i++ {
				n += m >> i & 1
			}
			if n == sz {
				ms = append(ms, m)
			}
		}
	}
	return ms
}

// ---------- BFS ----------

type totals struct {
	states, transitions, nontrivial, terminal, realOps, replayOps       int64
	grant, staleFirst, staleWake, wait, requeue, collisionSkip, wakeups int64
	maxDepth                                                            int
	perConfig                                                           []map[string]any
	distinctTerminalOutcomes                                            map[string]bool
}

type succ struct {
	hash [16]byte
	op   uint64
	viol *violation
	flag uint8 // 1 nontrivial, 2 terminal, 4 interesting (re-queue / wake-up skipping another key's waiter / stale at wake-up)
	out  string
}

type found struct {
	cfg  config
	hist []uint64
	v    *violation
}

const chunkSize = 1 << 15

// bfs explores one configuration exhaustively. Returns the violations of the first level that
// has any (shortest counterexamples), sorted deterministically.
func bfs(cfg config, tot *totals, samples *ev.Samples, stateCap int64) []found {
	masks := masksUpTo(cfg.K)
	visited := map[[16]byte]struct{}{}
	root, _ := replay(cfg.Lay, cfg.Fine, cfg.N, nil, false)
	visited[hashOf(root.canon())] = struct{}{}
	frontier := [][]uint64{nil}
	var states, transitions, nontriv, terminal int64 = 1, 0, 0, 0
	depth := 0
	workers := runtime.GOMAXPROCS(0)
	var viols []found
	start := time.Now()
	for len(frontier) > 0 && len(viols) == 0 {
		var next [][]uint64
		for lo := 0; lo < len(frontier) && len(viols) == 0; lo += chunkSize {
			hi := lo + chunkSize
			if hi > len(frontier) {
				hi = len(frontier)
			}
			chunk := frontier[lo:hi]
			results := make([][]succ, len(chunk))
			var idx atomic.Int64
			var wg sync.WaitGroup
			var st stepStats
			var replayOps int64
			var mu sync.Mutex
			for w := 0; w < workers; w++ {
				wg.Add(1)
				go func() {
					defer wg.Done()
					var loc stepStats
					var locReplay int64
					for {
						i := int(idx.Add(1)) - 1
						if i >= len(chunk) {
							break
						}
						hist := unpackAll(chunk[i])
						base, ok := replayQuiet(cfg.Lay, cfg.Fine, cfg.N, hist)
						locReplay += int64(len(hist))
						if !ok {
							run.Incomplete("harness: stored history did not replay in " + cfg.String())
							continue
						}
						ops := base.enabled(masks)
						out := make([]succ, 0, len(ops))
						for oi, op := range ops {
							m := base
							if oi > 0 { // the first op may consume the machine built for enumeration
								m, _ = replayQuiet(cfg.Lay, cfg.Fine, cfg.N, hist)
								locReplay += int64(len(hist))
							}
							if !m.apply(op) {
								run.Incomplete("harness: enabled op not applicable or timestamp domain exhausted in " + cfg.String())
								continue
							}
							s := succ{op: pack(op, m.lastAbs), viol: m.viol}
							loc.grant += m.st.grant
							loc.staleFirst += m.st.staleFirst
							loc.staleWake += m.st.staleWake
							loc.wait += m.st.wait
							loc.requeue += m.st.requeue
							loc.collisionSkip += m.st.collisionSkip
							loc.wakeups += m.st.wakeups
							loc.realOps += m.st.realOps
							if m.viol == nil {
								s.hash = hashOf(m.canon())
								if m.nontrivial() {
									s.flag |= 1
								}
								if m.st.requeue+m.st.collisionSkip+m.st.staleWake > 0 {
									s.flag |= 4
								}
								if m.terminal() {
									s.flag |= 2
									s.out = m.outcome()
								}
							}
							out = append(out, s)
						}
						results[i] = out
					}
					mu.Lock()
					st.grant += loc.grant
					st.staleFirst += loc.staleFirst
					st.staleWake += loc.staleWake
					st.wait += loc.wait
					st.requeue += loc.requeue
					st.collisionSkip += loc.collisionSkip
					st.wakeups += loc.wakeups
					st.realOps += loc.realOps
					replayOps += locReplay
					mu.Unlock()
				}()
			}
			wg.Wait()
			tot.grant += int64(st.grant)
			tot.staleFirst += int64(st.staleFirst)
			tot.staleWake += int64(st.staleWake)
			tot.wait += int64(st.wait)
			tot.requeue += int64(st.requeue)
			tot.collisionSkip += int64(st.collisionSkip)
			tot.wakeups += int64(st.wakeups)
			tot.realOps += int64(st.realOps)
			tot.replayOps += replayOps
			// sequential, deterministic merge
			for i, out := range results {
				for _, s := range out {
					transitions++
					if s.viol != nil {
						h := append(append([]uint64(nil), chunk[i]...), s.op)
						viols = append(viols, found{cfg, h, s.viol})
						continue
					}
					if _, ok := visited[s.hash]; ok {
						continue
					}
					visited[s.hash] = struct{}{}
					states++
					if s.flag&1 != 0 {
						nontriv++
					}
					h := append(append(make([]uint64, 0, len(chunk[i])+1), chunk[i]...), s.op)
					if s.flag&2 != 0 {
						terminal++
						tot.distinctTerminalOutcomes[s.out] = true
					}
					if s.flag&4 != 0 && samples != nil {
						samples.Add(func() any { return map[string]any{"config": cfg.String(), "history": renderHist(cfg, h)} })
					}
					next = append(next, h)
				}
			}
			if stateCap > 0 && states > stateCap {
				run.Incomplete(fmt.Sprintf("state cap %d hit in %s at depth %d", stateCap, cfg.String(), depth))
				next = nil
				frontier = nil
				break
			}
			if run.Expired() || time.Now().After(deadline) {
				run.Incomplete("wall-clock budget expired in " + cfg.String())
				next = nil
				frontier = nil
				break
			}
		}
		if len(next) > 0 {
			depth++
		}
		frontier = next
	}
	tot.states += states
	tot.transitions += transitions
	tot.nontrivial += nontriv
	tot.terminal += terminal
	if depth > tot.maxDepth {
		tot.maxDepth = depth
	}
	tot.perConfig = append(tot.perConfig, map[string]any{"config": cfg.String(), "keys": cfg.Lay.Keys, "states": states, "transitions": transitions,
		"terminal_states": terminal, "depth": depth, "wall_s": float64(int(time.Since(start).Seconds()*100)) / 100})
	fmt.Fprintf(os.Stderr, "c17(a): %-34s states=%d transitions=%d depth=%d terminal=%d %.1fs\n", cfg.String(), states, transitions, depth, terminal, time.Since(start).Seconds())
	sort.SliceStable(viols, func(i, j int) bool {
		a, b := viols[i].hist, viols[j].hist
		if len(a) != len(b) {
			return len(a) < len(b)
		}
		for k := range a {
			if a[k] != b[k] {
				return a[k] < b[k]
			}
		}
		return false
	})
	return viols
}

func hashOf(b []byte) [16]byte {
	s := sha256.Sum256(b)
	var h [16]byte
	copy(h[:], s[:16])
	return h
}

// outcome: multiset of per-transaction results in a terminal state (for the distinct outcome count).
func (m *machine) outcome() string {
	var o []string
	for _, t := range m.tx {
		r := "granted"
		if t.lock.IsStale() {
			r = "stale"
		}
		o = append(o, fmt.Sprintf("%04b:%s", t.mask, r))
	}
	sort.Strings(o)
	return fmt.Sprint(o)
}

func renderHist(cfg config, h []uint64) []string {
	m, _ := replay(cfg.Lay, cfg.Fine, cfg.N, unpackAll(h), true)
	var out []string
	for _, l := range m.trace {
		if len(l) > 0 && l[0] != ' ' {
			out = append(out, l)
		}
	}
	return out
}

// replayArtefact is what is stored in replay files.
type replayArtefact struct {
	Part   string     `json:"part"`
	Size   uint       `json:"latches_size"`
	Pat    []int      `json:"slot_pattern"`
	Fine   bool       `json:"slot_granularity"`
	N      int        `json:"txns"`
	Ops    []Op       `json:"ops,omitempty"`
	B      *bCase     `json:"b_case,omitempty"`
	Trace  []string   `json:"trace,omitempty"`
	Config string     `json:"config,omitempty"`
	C      *cArtefact `json:"c_case,omitempty"`
	D      *dCase     `json:"d_case,omitempty"`
}

func artefact(cfg config, h []uint64) replayArtefact {
	m, _ := replay(cfg.Lay, cfg.Fine, cfg.N, unpackAll(h), true)
	return replayArtefact{Part: "a", Size: cfg.Lay.Size, Pat: cfg.Lay.Pattern, Fine: cfg.Fine, N: cfg.N, Ops: unpackAll(h), Trace: m.trace, Config: cfg.String()}
}

// ---------- main ----------

func layouts(thorough bool) []*Layout {
	var specs []struct {
		size uint
		pat  []int
	}
	add := func(size uint, pat ...int) {
		specs = append(specs, struct {
			size uint
			pat  []int
		}{size, pat})
	}
	// 2 slots: three keys collide, interleaved with the lone one in sorted (= acquisition) order
	add(2, 0, 1, 0, 0)
	// 2 slots: two pairs, interleaved
	add(2, 0, 1, 0, 1)
	if thorough {
		add(1, 0, 0, 0, 0) // one slot: everything collides
		add(2, 0, 0, 1, 1)
		add(2, 0, 0, 0, 1)
		add(2, 0, 0, 1, 0)
		add(2, 0, 1, 1, 0)
		add(2, 0, 1, 1, 1)
		add(4, 0, 1, 2, 3) // control: no collision at all
	}
	var out []*Layout
	for _, s := range specs {
		l := mkLayout(s.size, s.pat)
		if l == nil {
			run.Incomplete(fmt.Sprintf("no keys found for slot pattern %v", s.pat))
			continue
		}
		out = append(out, l)
	}
	return out
}

func main() {
	replayFile := flag.String("replay", "", "replay file written by a previous run")
	partB := flag.Bool("partb-child", false, "internal: run part (b) in this process (GOMAXPROCS=1) and print JSON")
	shard := flag.Int("shard", 0, "internal: part (b) shard")
	nshard := flag.Int("nshard", 1, "internal: part (b) shard count")
	only := flag.String("only", "", "a|b|c|d: run only one part (diagnostics)")
	cpuprof := flag.String("cpuprofile", "", "diagnostics")
	flag.Parse()

	if *partB {
		partBChild(*shard, *nshard, os.Getenv("VERIF_TIER") == "thorough")
		return
	}
	run = ev.Start("C17", "model_checking")
	if *cpuprof != "" {
		f, _ := os.Create(*cpuprof)
		pprof.StartCPUProfile(f)
	}
	if *replayFile != "" {
		if os.Getenv("VERIF_EVIDENCE_DIR") == "" {
			run.OutDir = os.TempDir() + "/c17-replay" // do not clobber the evidence of the last full run
		}
		doReplay(*replayFile)
		return
	}
	thorough := run.Thorough()

	// part (b) runs concurrently in child processes
	var bres *bResult
	var bwg sync.WaitGroup
	if *only != "a" && *only != "c" && *only != "d" {
		bwg.Add(1)
		go func() { defer bwg.Done(); bres = runPartB(thorough) }()
	}

	tot := &totals{distinctTerminalOutcomes: map[string]bool{}}
	samples := ev.NewSamples(6, run.Seed)
	var cfgs []config
	lays := layouts(thorough)
	if *only != "b" && *only != "c" && *only != "d" {
		for _, lay := range lays {
			cfgs = append(cfgs, config{lay, false, 3, 3}) // <= 3 txns first
		}
		for _, lay := range lays {
			cfgs = append(cfgs, config{lay, true, 3, 3})
		}
		if thorough {
			// 4 transactions: full key sets (<= 3 keys) on the four most different layouts,
			// <= 2 keys on the others; slot granularity with <= 2 keys on the two main layouts
			for i, lay := range lays {
				k := 2
				if i < 4 {
					k = 3
				}
				cfgs = append(cfgs, config{lay, false, 4, k})
			}
			for _, lay := range lays[:2] {
				cfgs = append(cfgs, config{lay, true, 4, 2})
			}
		} else {
			cfgs = append(cfgs, config{lays[0], false, 4, 2})
		}
	}
	budget := 105 * time.Second
	if thorough {
		budget = 28 * time.Minute
	}
	deadline = time.Now().Add(budget)
	stateCap := int64(40_000_000)
	nviol := 0
	for _, cfg := range cfgs {
		if time.Now().After(deadline) {
			run.Incomplete("wall-clock budget: configuration " + cfg.String() + " not run")
			continue
		}
		vs := bfs(cfg, tot, samples, stateCap)
		seen := map[string]bool{}
		for _, f := range vs {
			key := "a." + f.cfg.gran() + ":" + f.v.Key
			if f.v.Key[:min(8, len(f.v.Key))] == "harness:" {
				run.Incomplete(f.v.What)
				continue
			}
			nviol++
			if seen[key] {
				run.Violation(key, f.v.What, nil)
				continue
			}
			seen[key] = true
			run.Violation(key, fmt.Sprintf("[%s, %d ops] %s", f.cfg.String(), len(f.hist), f.v.What), artefact(f.cfg, f.hist))
		}
		if nviol > 0 {
			run.Note("part (a) stopped after the first configuration with violations (%s)", cfg.String())
			break
		}
	}
	// part (c): recycling of expired nodes (own budget on top of what part (a) left: a slow part
	// (a) on a loaded machine must not starve it)
	ctot := &cTotals{outcomes: map[string]bool{}}
	csamples := ev.NewSamples(4, run.Seed)
	if *only != "a" && *only != "b" && *only != "d" {
		cBudget := 60 * time.Second
		if thorough {
			cBudget = 12 * time.Minute
		}
		if d := time.Now().Add(cBudget); d.After(deadline) {
			deadline = d
		}
		runPartC(thorough, ctot, csamples, stateCap)
	}
	// part (d): the user of the latches - real KVTxn.Commit on a store with latches enabled
	dtot := &dTotals{}
	dsamples := ev.NewSamples(16, run.Seed)
	if *only == "" || *only == "d" {
		dBudget := 60 * time.Second
		if thorough {
			dBudget = 15 * time.Minute
		}
		runPartD(thorough, dtot, dsamples, dBudget)
	}
	bwg.Wait()

	cov := ev.Coverage{
		"states":                        tot.states + ctot.states + dtot.cases,
		"transitions":                   tot.transitions + ctot.transitions + dtot.transitions,
		"traces_validated_against_impl": tot.transitions + ctot.transitions + dtot.cases,
		"evaluations":                   tot.transitions + ctot.transitions + dtot.transitions,
		"distinct_nontrivial":           tot.nontrivial + ctot.nontrivial + dtot.nontrivial,
		"rule": "part (a): BFS over canonical states (white-box slot dump + harness status + ghost, timestamps rank-compressed) of the real Latches; " +
			"a transition is Start(key set, start ts position), Cont (slot granularity), Unlock(txn, commit ts position or 0) or a scheduler step; every transition's result is checked " +
			"against the ghost oracle (exclusivity, exact staleness, progress). non-trivial = states in which some lock is blocked, pending wake-up or flagged stale. " +
			"part (b): every order of Lock/UnLock calls of 3 callers through the real scheduler goroutine. " +
			"part (c): the same BFS (concrete oracle-scale timestamps, no rank compression) started from generated cache states in which one slot holds P >= latchListCount nodes " +
			"(P sequential lock/unlock pairs, commit ts 1 ms apart, optionally one without commit ts); then N transactions with <= K keys of that slot (and one of the other slot) whose start ts come from a grid " +
			"that is less than / exactly / more than expireDuration after the different commit ts, commit ts from the same grid, plus <= R calls of the global recycle(currentTS) between any two steps; " +
			"oracle as in part (a) with staleness information allowed (not required) to be forgotten once a timestamp >= expireDuration later has been presented. " +
			"part (d): every case = (option tuple of 2-3 optimistic transactions: key set, put/insert, commit ctx class or rollback) x (interleaving of their begin/set/commit calls, optionally one foreign commit, optionally one commit parked at its Prewrite/Commit request while it holds its latches), executed on the real KVStore/KVTxn.Commit with latches enabled; " +
			"checked: refused by the latch exactly when a written key was released by a finished successful commit with a greater commit ts, refused => no prewrite sent, latches free after every return, recorded max commit ts >= commit ts; a state of part (d) = one case, its transitions = real API calls (Begin/Set/Commit/Rollback), non-trivial = some commit refused by the latch, failed in the store, or waited for a latch. " +
			"states / transitions / distinct_nontrivial are the sums of parts (a), (c) and (d); per-part numbers under bounds.configs, part_c and part_d.",
		"bounds": map[string]any{"pool_keys": poolSize, "max_depth_reached": tot.maxDepth, "configs": tot.perConfig,
			"part_d": map[string]any{"latches_size": dLatchSize, "pools": dPools, "max_calls_per_schedule": dtot.maxEvents, "ctx_classes": dCtxList(thorough), "families": dtot.perFamily},
			"part_c": map[string]any{"hot_slot_keys": cHot, "latchListCount": latch.VerifLatchListCount, "expire_ms": latch.VerifExpireMS, "timestamp_offsets_ms": cOffs, "max_depth_after_setup": ctot.maxDepth, "configs": ctot.perConfig}},
		"part_c":                      ctot.covMap(),
		"part_d":                      dtot.covMap(),
		"terminal_states":             tot.terminal + ctot.terminal,
		"distinct_terminal_outcomes":  len(tot.distinctTerminalOutcomes) + len(ctot.outcomes),
		"real_ops_in_new_transitions": tot.realOps,
		"real_ops_replayed":           tot.replayOps,
		"outcome_counts": map[string]int64{"grants": tot.grant, "stale_at_first_acquire": tot.staleFirst, "stale_at_wakeup": tot.staleWake,
			"blocked": tot.wait, "requeued_after_wakeup": tot.requeue, "wakeups": tot.wakeups, "wakeup_skipping_other_key_waiter_in_same_slot": tot.collisionSkip},
		"samples": append(append(samples.List(), csamples.List()...), dsamples.List()...),
	}
	if bres != nil {
		cov["part_b"] = bres.covMap()
		cov["traces_validated_against_impl"] = tot.transitions + ctot.transitions + dtot.cases + bres.Executions
		for _, v := range bres.Viol {
			run.Violation(v.Key, v.What, v.Replay)
		}
		for _, w := range bres.Incomplete {
			run.Incomplete(w)
		}
	}
	assumptions := []string{
		"parts (a) and (b) never recycle: their pool has 4 keys (< latchListCount=5 nodes per slot, asserted on every state) and part (b) uses timestamps < 2^18 so that run() never starts latches.recycle; recycling is the subject of part (c)",
		"part (c): 'stale exactly when' is read with the documented expiry: a grant is accepted although a requested key was released with a greater commit ts iff a timestamp whose physical part is >= expireDuration (2 min) later than that commit ts had been presented to the latches before (start ts of any acquire attempt or argument of recycle); a stale flag always needs a greater released commit ts. The global recycle is one atomic transition (it locks one slot at a time and the second slot holds a single key); timestamps come from a finite grid (bounds.part_c)",
		"keys inside one Lock are distinct (txn.go passes the distinct mutation keys); a stale lock is always unlocked with commitTS 0 and a granted one with 0 or a commit ts > its start ts, as txn.go does",
		"part (a) models the single scheduler goroutine: unlocks are processed one at a time, wake-ups of one release are re-acquired in list order before the next unlock; callers' first acquires interleave freely (slot granularity: between any two slot critical sections)",
		"visited set keyed by a 128-bit SHA-256 prefix of the canonical state",
		"part (d): optimistic transactions on the in-repo mock cluster (one region, 2PC only - the mock declines async commit / 1PC), latches of size 2, per case fresh keys picked by their real slot id and a fresh LatchesScheduler on a long-lived store; timestamps come from the mock PD and are only compared with each other (start / commit ts as reported by the transaction); the reference model takes the latch decision of a sequential commit at the call, of a waiting commit after the holder's return; exclusivity is observed only while the holder is parked in the store client; at most one commit waits at a time (cut schedules are counted); a Commit that does not return within 30 s counts as a violation only with a positive stack diagnosis, otherwise as exhaustive:false; the latch verdicts of part (d) are deterministic, the STORE-side result of a commit that was woken right after a failed holder (success / write conflict / key exists) depends on the holder's asynchronous rollback and may differ between runs (counts under part_d.outcomes vary by a few units; the oracle does not depend on it)",
		"part (b) is sequentially consistent by construction (one API call at a time, quiescence in between); true parallel interleavings are covered by the slot-granularity search of part (a), data races are not checked",
	}
	pprof.StopCPUProfile()
	run.Finish(cov, assumptions)
}

func doReplay(file string) {
	b, err := os.ReadFile(file)
	if err != nil {
		fmt.Fprintln(os.Stderr, err)
		os.Exit(2)
	}
	var f struct {
		Key    string         `json:"key"`
		Replay replayArtefact `json:"replay"`
	}
	if err := json.Unmarshal(b, &f); err != nil {
		fmt.Fprintln(os.Stderr, err)
		os.Exit(2)
	}
	a := f.Replay
	if a.Part == "b" {
		replayB(f.Key, a)
		return
	}
	if a.Part == "c" {
		replayCArtefact(a)
		return
	}
	if a.Part == "d" {
		replayDArtefact(a)
		return
	}
	lay := mkLayout(a.Size, a.Pat)
	if lay == nil {
		fmt.Fprintln(os.Stderr, "cannot rebuild layout")
		os.Exit(2)
	}
	m, ok := replay(lay, a.Fine, a.N, a.Ops, true)
	for _, l := range m.trace {
		fmt.Println(l)
	}
	if !ok {
		fmt.Println("replay: an op of the stored history is not enabled any more (behaviour changed)")
	}
	if m.viol != nil {
		g := "method"
		if a.Fine {
			g = "slot"
		}
		run.Violation("a."+g+":"+m.viol.Key, m.viol.What, a)
	}
	run.Finish(ev.Coverage{"states": 1, "transitions": len(a.Ops), "traces_validated_against_impl": 1, "evaluations": 1, "distinct_nontrivial": 1, "rule": "replay of one stored history", "samples": []any{a.Ops}}, nil)
}

// C19: memory-comparable encodings are order preserving, invertible, prefix
// free, and reject malformed input. Bounded exhaustive enumeration of inputs
// (DESIGN.md 3.4 / 5 C19) against algebraic laws and independent reference
// decoders.
package main

import (
	"bytes"
	"encoding/binary"
	"fmt"
	"math"
	"sort"
	"sync"
	"sync/atomic"

	"github.com/tikv/client-go/v2/internal/apicodec"
	"github.com/tikv/client-go/v2/util/codec"
	"github.com/tikv/client-go/v2/verifrt/ev"
)

var alphabet = []byte{0x00, 0x01, 0x7F, 0x80, 0xFE, 0xFF}

var suffixes = [][]byte{{}, {0x00}, {0xFF}, {0xAA, 0xBB}, {0x08}, {0xF7, 0x00}}

var (
	run        *ev.Run
	evals      atomic.Int64
	inputs     atomic.Int64
	nontrivial atomic.Int64
	samples    *ev.Samples
)

func hex(b []byte) string { return fmt.Sprintf("%x", b) }

// guard runs f and converts a panic into a violation.
func guard(key string, in any, f func()) {
	defer func() {
		if p := recover(); p != nil {
			run.Violation(key+":panic", fmt.Sprintf("panic %v on %v", p, in), in)
		}
	}()
	f()
}

// ---------- byte strings ----------

func checkBytesRoundTrip(x []byte) []byte {
	var enc []byte
	guard("EncodeBytes", hex(x), func() {
		enc = codec.EncodeBytes(nil, x)
		evals.Add(1)
		// appending form keeps the prefix
		pre := []byte{0x55, 0x00}
		enc2 := codec.EncodeBytes(append([]byte{}, pre...), x)
		if !bytes.Equal(enc2[:2], pre) || !bytes.Equal(enc2[2:], enc) {
			run.Violation("EncodeBytes:append", "EncodeBytes(b,x) != b ++ enc(x) for x="+hex(x), hex(x))
		}
		// a reused buffer: spare capacity that holds stale non-zero bytes must not leak into the encoding
		for _, pre := range []int{0, 3} {
			dirty := bytes.Repeat([]byte{0xAA}, pre+len(enc)+32)
			enc3 := codec.EncodeBytes(dirty[:pre], x)
			evals.Add(1)
			if len(enc3) != pre+len(enc) || !bytes.Equal(enc3[pre:], enc) || !bytes.Equal(enc3[:pre], bytes.Repeat([]byte{0xAA}, pre)) {
				run.Violation("EncodeBytes:reused-buffer", fmt.Sprintf("EncodeBytes(buf[:%d] with stale spare capacity, %x) = %x, want prefix ++ %x", pre, x, enc3, enc), hex(x))
			}
		}
		if len(enc)%9 != 0 || len(enc) != (len(x)/8+1)*9 {
			run.Violation("EncodeBytes:length", "unexpected encoded length for x="+hex(x), hex(x))
		}
		for _, s := range suffixes {
			in := append(append([]byte{}, enc...), s...)
			rest, v, err := codec.DecodeBytes(in, nil)
			evals.Add(1)
			if err != nil || !bytes.Equal(v, x) || !bytes.Equal(rest, s) {
				run.Violation("DecodeBytes:roundtrip", fmt.Sprintf("DecodeBytes(enc(%x)++%x) = (%x,%x,%v)", x, s, rest, v, err), map[string]string{"x": hex(x), "suffix": hex(s)})
			}
			// with a caller-provided buffer
			rest, v, err = codec.DecodeBytes(in, make([]byte, 3, 64))
			if err != nil || !bytes.Equal(v, x) || !bytes.Equal(rest, s) {
				run.Violation("DecodeBytes:roundtrip-buf", fmt.Sprintf("DecodeBytes(enc(%x)++%x, buf) = (%x,%x,%v)", x, s, rest, v, err), map[string]string{"x": hex(x), "suffix": hex(s)})
			}
		}
	})
	return enc
}

// bytesOrderWalker enumerates all strings with a given first symbol in
// lexicographic order (pre-order DFS) and checks strict monotonicity and
// prefix freedom between consecutive encodings. Consecutive checks over a
// sorted enumeration imply both laws for all pairs (transitivity; a proper
// prefix of a later element is also a prefix of its immediate successor).
type bytesOrderWalker struct {
	maxLen  int
	prevX   []byte
	prevEnc []byte
	first   []byte // encoding of the first element (for stitching shards)
	firstX  []byte
	count   int64
}

func (w *bytesOrderWalker) visit(x []byte) {
	enc := checkBytesRoundTrip(x)
	w.count++
	inputs.Add(1)
	if len(x) > 0 {
		nontrivial.Add(1)
	}
	samples.Add(func() any { return map[string]string{"bytes": hex(x), "enc": hex(enc)} })
	if w.prevEnc != nil {
		pairCheck("EncodeBytes", w.prevX, x, w.prevEnc, enc, false)
	} else {
		w.first = enc
		w.firstX = append([]byte{}, x...)
	}
	w.prevEnc = enc
	w.prevX = append(w.prevX[:0], x...)
	if len(x) == w.maxLen {
		return
	}
	for _, c := range alphabet {
		w.visit(append(x, c))
	}
}

// pairCheck: x < y in natural order; enc must be strictly ordered (reversed if desc) and prefix free.
func pairCheck(fn string, x, y any, ex, ey []byte, desc bool) {
	evals.Add(1)
	c := bytes.Compare(ex, ey)
	if (!desc && c >= 0) || (desc && c <= 0) {
		run.Violation(fn+":order", fmt.Sprintf("%s: order not preserved for %v < %v: %x vs %x", fn, x, y, ex, ey), map[string]any{"x": fmt.Sprint(x), "y": fmt.Sprint(y)})
	}
	if bytes.HasPrefix(ey, ex) || bytes.HasPrefix(ex, ey) {
		run.Violation(fn+":prefix", fmt.Sprintf("%s: encoding of %v is a prefix of (or equal to) encoding of %v", fn, x, y), map[string]any{"x": fmt.Sprint(x), "y": fmt.Sprint(y)})
	}
}

func bytesExhaustive(maxLen int) {
	// shard on the first symbol; stitch the shard boundaries afterwards.
	ws := make([]*bytesOrderWalker, len(alphabet))
	var wg sync.WaitGroup
	for i, c := range alphabet {
		ws[i] = &bytesOrderWalker{maxLen: maxLen}
		wg.Add(1)
		go func(w *bytesOrderWalker, c byte) {
			defer wg.Done()
			w.visit([]byte{c})
		}(ws[i], c)
	}
	wg.Wait()
	empty := checkBytesRoundTrip(nil)
	inputs.Add(1)
	prevX, prevEnc := []byte{}, empty
	for _, w := range ws {
		pairCheck("EncodeBytes", prevX, w.firstX, prevEnc, w.first, false)
		prevX, prevEnc = w.prevX, w.prevEnc
	}
}

// long strings around multiples of the group size: fixed body, last 3
// positions (and the first) vary over the alphabet; sorted, consecutive checks.
func bytesLong() {
	for _, n := range []int{7, 8, 9, 15, 16, 17, 23, 24, 25, 31, 32, 33} {
		var xs [][]byte
		for _, body := range []byte{0x00, 0x41, 0xFF} {
			for _, c0 := range alphabet {
				for _, c1 := range alphabet {
					for _, c2 := range alphabet {
						for _, c3 := range alphabet {
							x := bytes.Repeat([]byte{body}, n)
							x[0] = c0
							x[n-3], x[n-2], x[n-1] = c1, c2, c3
							xs = append(xs, x)
							// and a shorter sibling, to cross the group boundary in comparisons
							xs = append(xs, x[:n-1])
						}
					}
				}
			}
		}
		sort.Slice(xs, func(i, j int) bool { return bytes.Compare(xs[i], xs[j]) < 0 })
		var prevX, prevEnc []byte
		for _, x := range xs {
			if prevX != nil && bytes.Equal(prevX, x) {
				continue
			}
			enc := checkBytesRoundTrip(x)
			inputs.Add(1)
			nontrivial.Add(1)
			if prevEnc != nil {
				pairCheck("EncodeBytes", prevX, x, prevEnc, enc, false)
			}
			prevX, prevEnc = x, enc
		}
	}
}

// all pairs for short strings (redundant with the consecutive argument; kept as a direct check).
func bytesAllPairs(maxLen int) {
	var xs [][]byte
	var gen func(x []byte)
	gen = func(x []byte) {
		xs = append(xs, append([]byte{}, x...))
		if len(x) == maxLen {
			return
		}
		for _, c := range alphabet {
			gen(append(x, c))
		}
	}
	gen(nil)
	encs := make([][]byte, len(xs))
	for i, x := range xs {
		encs[i] = codec.EncodeBytes(nil, x)
	}
	var wg sync.WaitGroup
	for i := range xs {
		wg.Add(1)
		go func(i int) {
			defer wg.Done()
			for j := range xs {
				evals.Add(1)
				cx := bytes.Compare(xs[i], xs[j])
				ce := bytes.Compare(encs[i], encs[j])
				if cx != ce {
					run.Violation("EncodeBytes:order", fmt.Sprintf("compare(%x,%x)=%d but encodings compare %d", xs[i], xs[j], cx, ce), map[string]string{"x": hex(xs[i]), "y": hex(xs[j])})
				}
				if i != j && bytes.HasPrefix(encs[j], encs[i]) {
					run.Violation("EncodeBytes:prefix", fmt.Sprintf("enc(%x) is a prefix of enc(%x)", xs[i], xs[j]), map[string]string{"x": hex(xs[i]), "y": hex(xs[j])})
				}
			}
		}(i)
	}
	wg.Wait()
}

// malformed byte-string encodings: truncations and single byte replacements.
// Law: decode either fails or returns (v, rest) with enc(v)++rest == input
// (the format is canonical: pad bytes are checked, markers are checked).
func bytesMalformed(maxLen int) {
	var xs [][]byte
	var gen func(x []byte)
	gen = func(x []byte) {
		xs = append(xs, append([]byte{}, x...))
		if len(x) == maxLen {
			return
		}
		for _, c := range alphabet {
			gen(append(x, c))
		}
	}
	gen(nil)
	for _, n := range []int{7, 8, 9, 16} {
		xs = append(xs, bytes.Repeat([]byte{0x41}, n), bytes.Repeat([]byte{0xFF}, n), bytes.Repeat([]byte{0}, n))
	}
	repl := []byte{0x00, 0x01, 0x7F, 0x80, 0xF6, 0xF7, 0xF8, 0xFE, 0xFF}
	check := func(in []byte, what string) {
		guard("DecodeBytes", hex(in), func() {
			evals.Add(1)
			cp := append([]byte{}, in...)
			rest, v, err := codec.DecodeBytes(cp, nil)
			if !bytes.Equal(cp, in) {
				run.Violation("DecodeBytes:mutates-input", "input modified: "+hex(in), hex(in))
			}
			if err != nil {
				return
			}
			re := append(codec.EncodeBytes(nil, v), rest...)
			if !bytes.Equal(re, in) {
				run.Violation("DecodeBytes:malformed-accepted", fmt.Sprintf("%s: DecodeBytes(%x) = (%x, rest %x) but enc(v)++rest = %x", what, in, v, rest, re), hex(in))
			}
		})
		// the mem-comparable key codec wraps it: must agree (error <=> error)
		guard("memCodec", hex(in), func() {
			evals.Add(1)
			k, err := apicodec.VerifDecodeMemKey(in)
			_, v, err2 := codec.DecodeBytes(in, nil)
			if (err == nil) != (err2 == nil) || (err == nil && !bytes.Equal(k, v)) {
				run.Violation("memCodec:disagree", "mem-comparable key codec disagrees with DecodeBytes on "+hex(in), hex(in))
			}
			if err != nil && !apicodec.IsDecodeError(err) {
				run.Violation("memCodec:error-class", "decode failure is not a decode error on "+hex(in), hex(in))
			}
		})
	}
	for _, x := range xs {
		enc := codec.EncodeBytes(nil, x)
		inputs.Add(1)
		for cut := 0; cut < len(enc); cut++ {
			in := enc[:cut]
			evals.Add(1)
			var err error
			guard("DecodeBytes", hex(in), func() { _, _, err = codec.DecodeBytes(in, nil) })
			if err == nil {
				run.Violation("DecodeBytes:truncated-accepted", "truncated encoding accepted: "+hex(in), hex(in))
			}
		}
		for i := range enc {
			for _, c := range repl {
				if enc[i] == c {
					continue
				}
				in := append([]byte{}, enc...)
				in[i] = c
				nontrivial.Add(1)
				check(in, "byte replaced")
			}
		}
		if k := apicodec.VerifEncodeMemKey(x); !bytes.Equal(k, enc) {
			run.Violation("memCodec:encode", "mem-comparable key codec encodes differently for "+hex(x), hex(x))
		}
	}
}

// ---------- integers ----------

func boundaryInts() []int64 {
	m := map[int64]bool{0: true, math.MinInt64: true, math.MaxInt64: true}
	add := func(v int64) {
		for d := int64(-2); d <= 2; d++ {
			m[v+d] = true // wraps around harmlessly
		}
	}
	for k := 0; k < 64; k++ {
		p := int64(1) << uint(k)
		add(p)
		add(-p)
	}
	for _, v := range []int64{239, 240, 247, 248, 255, 256, 0xff, 0xffff, 0xffffff, 0xffffffff, 0xffffffffff, 0xffffffffffff, 0xffffffffffffff,
		127, 128, 16383, 16384, 63, 64, 8191, 8192} {
		add(v)
		add(-v)
	}
	out := make([]int64, 0, len(m))
	for v := range m {
		out = append(out, v)
	}
	sort.Slice(out, func(i, j int) bool { return out[i] < out[j] })
	return out
}

type intCodec struct {
	name   string
	enc    func([]byte, int64) []byte
	dec    func([]byte) ([]byte, int64, error)
	cmp    bool // memcomparable
	desc   bool
	fixed  int // fixed length or 0
	refDec func([]byte) (int, int64, bool)
}
type uintCodec struct {
	name   string
	enc    func([]byte, uint64) []byte
	dec    func([]byte) ([]byte, uint64, error)
	cmp    bool
	desc   bool
	fixed  int
	refDec func([]byte) (int, uint64, bool)
}

// reference decoders, written from the format description, return (consumed, value, ok).
func refFixed(b []byte) (int, uint64, bool) {
	if len(b) < 8 {
		return 0, 0, false
	}
	return 8, binary.BigEndian.Uint64(b), true
}
func refCmpUvarint(b []byte) (int, uint64, bool) {
	if len(b) == 0 {
		return 0, 0, false
	}
	t := int(b[0])
	switch {
	case t < 8:
		return 0, 0, false
	case t <= 247:
		return 1, uint64(t - 8), true
	}
	n := t - 247
	if len(b) < 1+n {
		return 0, 0, false
	}
	var v uint64
	for _, c := range b[1 : 1+n] {
		v = v<<8 | uint64(c)
	}
	return 1 + n, v, true
}
func refCmpVarint(b []byte) (int, int64, bool) {
	if len(b) == 0 {
		return 0, 0, false
	}
	t := int(b[0])
	if t >= 8 && t <= 247 {
		return 1, int64(t - 8), true
	}
	if t > 247 {
		n, v, ok := refCmpUvarint(b)
		if !ok || v > math.MaxInt64 {
			return 0, 0, false
		}
		return n, int64(v), true
	}
	n := 8 - t
	if len(b) < 1+n {
		return 0, 0, false
	}
	v := ^uint64(0)
	for _, c := range b[1 : 1+n] {
		v = v<<8 | uint64(c)
	}
	if v <= math.MaxInt64 {
		return 0, 0, false
	}
	return 1 + n, int64(v), true
}

func intCodecs() []intCodec {
	return []intCodec{
		{"EncodeInt", codec.EncodeInt, codec.DecodeInt, true, false, 8, func(b []byte) (int, int64, bool) {
			n, u, ok := refFixed(b)
			return n, int64(u ^ (1 << 63)), ok
		}},
		{"EncodeIntDesc", codec.EncodeIntDesc, codec.DecodeIntDesc, true, true, 8, func(b []byte) (int, int64, bool) {
			n, u, ok := refFixed(b)
			return n, int64(^u ^ (1 << 63)), ok
		}},
		{"EncodeVarint", codec.EncodeVarint, codec.DecodeVarint, false, false, 0, func(b []byte) (int, int64, bool) {
			v, n := binary.Varint(b)
			return n, v, n > 0
		}},
		{"EncodeComparableVarint", codec.EncodeComparableVarint, codec.DecodeComparableVarint, true, false, 0, refCmpVarint},
	}
}
func uintCodecs() []uintCodec {
	return []uintCodec{
		{"EncodeUint", codec.EncodeUint, codec.DecodeUint, true, false, 8, refFixed},
		{"EncodeUintDesc", codec.EncodeUintDesc, codec.DecodeUintDesc, true, true, 8, func(b []byte) (int, uint64, bool) {
			n, u, ok := refFixed(b)
			return n, ^u, ok
		}},
		{"EncodeUvarint", codec.EncodeUvarint, codec.DecodeUvarint, false, false, 0, func(b []byte) (int, uint64, bool) {
			v, n := binary.Uvarint(b)
			return n, v, n > 0
		}},
		{"EncodeComparableUvarint", codec.EncodeComparableUvarint, codec.DecodeComparableUvarint, true, false, 0, refCmpUvarint},
	}
}

func shapeOfInt(name string, enc []byte) string {
	return fmt.Sprintf("%slen%d", name, len(enc))
}

func checkIntRoundTrip(c intCodec, v int64) []byte {
	var enc []byte
	guard(c.name, v, func() {
		enc = c.enc(nil, v)
		pre := []byte{0x55}
		if e2 := c.enc(append([]byte{}, pre...), v); !bytes.Equal(e2[1:], enc) || e2[0] != 0x55 {
			run.Violation(c.name+":append", fmt.Sprintf("%s(b,v) != b++enc(v) for %d", c.name, v), v)
		}
		if c.fixed > 0 && len(enc) != c.fixed {
			run.Violation(c.name+":length", fmt.Sprintf("%s(%d) has length %d", c.name, v, len(enc)), v)
		}
		{
			dirty := bytes.Repeat([]byte{0xAA}, 2+len(enc)+16)
			if e3 := c.enc(dirty[:2], v); len(e3) != 2+len(enc) || !bytes.Equal(e3[2:], enc) {
				run.Violation(c.name+":reused-buffer", fmt.Sprintf("%s into a reused buffer gives %x, want %x", c.name, e3, enc), v)
			}
		}
		for _, s := range suffixes {
			in := append(append([]byte{}, enc...), s...)
			evals.Add(1)
			rest, got, err := c.dec(in)
			if err != nil || got != v {
				run.Violation("De"+c.name[2:]+":value:"+shapeOfInt("", enc), fmt.Sprintf("decode(%s(%d)++%x) = (%d,%v)", c.name, v, s, got, err), map[string]any{"fn": c.name, "v": v, "suffix": hex(s)})
			} else if !bytes.Equal(rest, s) {
				run.Violation("De"+c.name[2:]+":rest:"+shapeOfInt("", enc), fmt.Sprintf("decode(%s(%d)++%x) returns rest %x, want %x", c.name, v, s, rest, s), map[string]any{"fn": c.name, "v": v, "suffix": hex(s)})
			}
		}
	})
	return enc
}

func checkUintRoundTrip(c uintCodec, v uint64) []byte {
	var enc []byte
	guard(c.name, v, func() {
		enc = c.enc(nil, v)
		pre := []byte{0x55}
		if e2 := c.enc(append([]byte{}, pre...), v); !bytes.Equal(e2[1:], enc) || e2[0] != 0x55 {
			run.Violation(c.name+":append", fmt.Sprintf("%s(b,v) != b++enc(v) for %d", c.name, v), v)
		}
		if c.fixed > 0 && len(enc) != c.fixed {
			run.Violation(c.name+":length", fmt.Sprintf("%s(%d) has length %d", c.name, v, len(enc)), v)
		}
		{
			dirty := bytes.Repeat([]byte{0xAA}, 2+len(enc)+16)
			if e3 := c.enc(dirty[:2], v); len(e3) != 2+len(enc) || !bytes.Equal(e3[2:], enc) {
				run.Violation(c.name+":reused-buffer", fmt.Sprintf("%s into a reused buffer gives %x, want %x", c.name, e3, enc), v)
			}
		}
		for _, s := range suffixes {
			in := append(append([]byte{}, enc...), s...)
			evals.Add(1)
			rest, got, err := c.dec(in)
			if err != nil || got != v {
				run.Violation("De"+c.name[2:]+":value:"+shapeOfInt("", enc), fmt.Sprintf("decode(%s(%d)++%x) = (%d,%v)", c.name, v, s, got, err), map[string]any{"fn": c.name, "v": v, "suffix": hex(s)})
			} else if !bytes.Equal(rest, s) {
				run.Violation("De"+c.name[2:]+":rest:"+shapeOfInt("", enc), fmt.Sprintf("decode(%s(%d)++%x) returns rest %x, want %x", c.name, v, s, rest, s), map[string]any{"fn": c.name, "v": v, "suffix": hex(s)})
			}
		}
	})
	return enc
}

func intsSorted(vals []int64, tag string) {
	for _, c := range intCodecs() {
		var prevEnc []byte
		var prev int64
		for i, v := range vals {
			enc := checkIntRoundTrip(c, v)
			inputs.Add(1)
			nontrivial.Add(1)
			if i%97 == 0 {
				samples.Add(func() any { return map[string]any{"fn": c.name, "v": v, "enc": hex(enc)} })
			}
			if c.cmp && prevEnc != nil {
				pairCheck(c.name, prev, v, prevEnc, enc, c.desc)
			}
			prev, prevEnc = v, enc
		}
	}
	_ = tag
}

func uintsSorted(vals []uint64) {
	for _, c := range uintCodecs() {
		var prevEnc []byte
		var prev uint64
		for i, v := range vals {
			enc := checkUintRoundTrip(c, v)
			inputs.Add(1)
			nontrivial.Add(1)
			if i%97 == 0 {
				samples.Add(func() any { return map[string]any{"fn": c.name, "v": v, "enc": hex(enc)} })
			}
			if c.cmp && prevEnc != nil {
				pairCheck(c.name, prev, v, prevEnc, enc, c.desc)
			}
			prev, prevEnc = v, enc
		}
	}
}

// all pairs over the boundary set (direct check of the order law and of
// EncodeIntToCmpUint / DecodeCmpUintToInt).
func intsAllPairs(vals []int64) {
	for _, c := range intCodecs() {
		if !c.cmp {
			continue
		}
		encs := make([][]byte, len(vals))
		for i, v := range vals {
			encs[i] = c.enc(nil, v)
		}
		for i := range vals {
			for j := range vals {
				evals.Add(1)
				want := 0
				if vals[i] < vals[j] {
					want = -1
				} else if vals[i] > vals[j] {
					want = 1
				}
				if c.desc {
					want = -want
				}
				if got := bytes.Compare(encs[i], encs[j]); got != want {
					run.Violation(c.name+":order", fmt.Sprintf("%s: compare(enc(%d),enc(%d))=%d want %d", c.name, vals[i], vals[j], got, want), []int64{vals[i], vals[j]})
				}
				if i != j && bytes.HasPrefix(encs[j], encs[i]) {
					run.Violation(c.name+":prefix", fmt.Sprintf("%s: enc(%d) is a prefix of enc(%d)", c.name, vals[i], vals[j]), []int64{vals[i], vals[j]})
				}
			}
		}
	}
	for i := range vals {
		u := codec.EncodeIntToCmpUint(vals[i])
		if codec.DecodeCmpUintToInt(u) != vals[i] {
			run.Violation("EncodeIntToCmpUint:roundtrip", fmt.Sprintf("v=%d", vals[i]), vals[i])
		}
		for j := range vals {
			evals.Add(1)
			if (vals[i] < vals[j]) != (u < codec.EncodeIntToCmpUint(vals[j])) {
				run.Violation("EncodeIntToCmpUint:order", fmt.Sprintf("%d vs %d", vals[i], vals[j]), []int64{vals[i], vals[j]})
			}
		}
	}
}

// malformed integer encodings: truncation must fail; single-byte replacement
// and arbitrary short inputs must agree with the reference decoder.
func intsMalformed(vals []int64) {
	repl := []byte{0x00, 0x01, 0x07, 0x08, 0x7F, 0x80, 0xF7, 0xF8, 0xFE, 0xFF}
	for _, c := range intCodecs() {
		c := c
		agree := func(in []byte) {
			guard("De"+c.name[2:], hex(in), func() {
				evals.Add(1)
				rest, got, err := c.dec(in)
				n, want, ok := c.refDec(in)
				if ok != (err == nil) {
					run.Violation("De"+c.name[2:]+":malformed", fmt.Sprintf("decode(%x): err=%v but reference ok=%v", in, err, ok), map[string]string{"fn": c.name, "in": hex(in)})
				} else if ok && (got != want) {
					run.Violation("De"+c.name[2:]+":value-mutated", fmt.Sprintf("decode(%x) = %d, reference %d", in, got, want), map[string]string{"fn": c.name, "in": hex(in)})
				} else if ok && !bytes.Equal(rest, in[n:]) {
					run.Violation("De"+c.name[2:]+":rest:len"+fmt.Sprint(n), fmt.Sprintf("decode(%x) returns rest %x, want %x", in, rest, in[n:]), map[string]string{"fn": c.name, "in": hex(in)})
				}
			})
		}
		for _, v := range vals {
			enc := c.enc(nil, v)
			for cut := 0; cut < len(enc); cut++ {
				evals.Add(1)
				var err error
				guard("De"+c.name[2:], hex(enc[:cut]), func() { _, _, err = c.dec(enc[:cut]) })
				if err == nil {
					run.Violation("De"+c.name[2:]+":truncated-accepted", fmt.Sprintf("truncated %x accepted", enc[:cut]), map[string]string{"fn": c.name, "in": hex(enc[:cut])})
				}
			}
			for i := range enc {
				for _, r := range repl {
					in := append([]byte{}, enc...)
					in[i] = r
					nontrivial.Add(1)
					agree(in)
					agree(append(in, 0xAA))
				}
			}
		}
		// all inputs of length <= 3 over the replacement alphabet
		var gen func(x []byte)
		gen = func(x []byte) {
			agree(x)
			if len(x) == 3 {
				return
			}
			for _, r := range repl {
				gen(append(x, r))
			}
		}
		gen(nil)
	}
	for _, c := range uintCodecs() {
		c := c
		agree := func(in []byte) {
			guard("De"+c.name[2:], hex(in), func() {
				evals.Add(1)
				rest, got, err := c.dec(in)
				n, want, ok := c.refDec(in)
				if ok != (err == nil) {
					run.Violation("De"+c.name[2:]+":malformed", fmt.Sprintf("decode(%x): err=%v but reference ok=%v", in, err, ok), map[string]string{"fn": c.name, "in": hex(in)})
				} else if ok && (got != want) {
					run.Violation("De"+c.name[2:]+":value-mutated", fmt.Sprintf("decode(%x) = %d, reference %d", in, got, want), map[string]string{"fn": c.name, "in": hex(in)})
				} else if ok && !bytes.Equal(rest, in[n:]) {
					run.Violation("De"+c.name[2:]+":rest:len"+fmt.Sprint(n), fmt.Sprintf("decode(%x) returns rest %x, want %x", in, rest, in[n:]), map[string]string{"fn": c.name, "in": hex(in)})
				}
			})
		}
		for _, sv := range vals {
			v := uint64(sv)
			enc := c.enc(nil, v)
			for cut := 0; cut < len(enc); cut++ {
				evals.Add(1)
				var err error
				guard("De"+c.name[2:], hex(enc[:cut]), func() { _, _, err = c.dec(enc[:cut]) })
				if err == nil {
					run.Violation("De"+c.name[2:]+":truncated-accepted", fmt.Sprintf("truncated %x accepted", enc[:cut]), map[string]string{"fn": c.name, "in": hex(enc[:cut])})
				}
			}
			for i := range enc {
				for _, r := range repl {
					in := append([]byte{}, enc...)
					in[i] = r
					nontrivial.Add(1)
					agree(in)
					agree(append(in, 0xAA))
				}
			}
		}
		var gen func(x []byte)
		gen = func(x []byte) {
			agree(x)
			if len(x) == 3 {
				return
			}
			for _, r := range repl {
				gen(append(x, r))
			}
		}
		gen(nil)
	}
}

func main() {
	run = ev.Start("C19", "model_checking")
	samples = ev.NewSamples(12, run.Seed)
	maxLen, pairLen, dense := 7, 3, int64(70000)
	if run.Thorough() {
		maxLen, pairLen, dense = 9, 4, 17000000
	}
	bytesExhaustive(maxLen)
	bytesLong()
	bytesAllPairs(pairLen)
	bytesMalformed(3)

	bi := boundaryInts()
	intsSorted(bi, "boundary")
	intsAllPairs(bi)
	// dense ranges across the 1->2->3(->4) byte boundaries of the variable-length forms
	var wg sync.WaitGroup
	chunks := int64(16)
	for k := int64(0); k < chunks; k++ {
		wg.Add(1)
		go func(k int64) {
			defer wg.Done()
			lo := -dense + k*(2*dense/chunks)
			hi := lo + 2*dense/chunks + 1 // overlap by one so that chunk borders are compared too
			vals := make([]int64, 0, hi-lo+1)
			for v := lo; v <= hi; v++ {
				vals = append(vals, v)
			}
			intsSorted(vals, "dense")
			us := make([]uint64, 0, len(vals)/2)
			for v := k * (dense / chunks); v <= (k+1)*(dense/chunks)+1; v++ {
				us = append(us, uint64(v))
			}
			uintsSorted(us)
		}(k)
	}
	wg.Wait()
	ub := make([]uint64, 0, len(bi))
	for _, v := range bi {
		ub = append(ub, uint64(v))
	}
	sort.Slice(ub, func(i, j int) bool { return ub[i] < ub[j] })
	uintsSorted(ub)
	intsMalformed(bi)

	run.Finish(ev.Coverage{
		"evaluations":                   evals.Load(),
		"distinct_nontrivial":           nontrivial.Load(),
		"states":                        inputs.Load(),
		"transitions":                   evals.Load(),
		"traces_validated_against_impl": evals.Load(),
		"rule": fmt.Sprintf("all byte strings of length <= %d over {00,01,7F,80,FE,FF} in lexicographic order (round trip with 6 suffixes, consecutive order + prefix-freedom => all pairs), "+
			"all pairs of strings of length <= %d, strings of length 7..33 around the 8-byte group with the first and last three bytes varied, every truncation and single-byte replacement of short encodings; "+
			"integers: %d boundary values (all pairs) and every integer in [-%d,%d] / [0,%d] for 8 codecs, truncations, replacements and all inputs of length <= 3 over a 10-byte alphabet against reference decoders; "+
			"non-trivial = non-empty string / integer input or mutated encoding; states = distinct inputs, transitions = law evaluations on the real functions", maxLen, pairLen, len(bi), dense, dense, dense),
		"samples": samples.List(),
		"bounds":  map[string]any{"max_len": maxLen, "all_pairs_len": pairLen, "dense_range": dense},
	}, []string{
		"non-canonical but well-formed variable-length integer encodings (a longer tag than needed) are not counted as malformed; the reference decoders define well-formedness",
	})
}

// C10: a request send ends within its retry budget and never mislabels the read mode.
//
// Engine envx (DESIGN.md 3.3 / 5 C10): the real RegionRequestSender + RegionCache + replica
// selector run over a mock PD with one region on three stores; every answer of a store
// (client.Client), every liveness probe and the read-ts validation are scripted. For every
// configuration the harness explores ALL fault scripts up to length F depth first, lazily: a
// script is extended only if the call consumed all of its answers and asked for one more (a
// longer script with the same prefix would produce the very same run, the answers being consumed
// by position and the run being deterministic). After the script the stores either answer
// genuinely (tail "success"), or repeat the last fault forever ("repeat-last"), or repeat the
// whole script forever ("cycle"); the two infinite tails are what makes "ends after a bounded
// number of attempts" a real demand.
//
// Parts read-ts-cmds / ts-carriers (catalogue.go): the same exploration for every command that carries a
// timestamp - discovered from the request types, not listed - through both entry points of the sender
// (SendReqCtx, SendReqAsync), in every replica-read mode and for every class of timestamp (passes
// validation / future / MaxUint64, which fails only for a stale read / future with validation off). The
// clause "no read is sent whose timestamp failed validation" is judged per command and entry point
// (keys read-sent-with-invalid-ts/<cmd>/<sync|async>), so a command that drops out of the validated set,
// an entry point that skips the validation or a wrong stale-read flag handed to the validator is seen.
//
// Part after-forwarded (config.Pre, world.earlierCall): two calls on one region cache. An earlier leader read
// ends in a forwarded success (leader store unreachable, forwarding on), so the region remembers the proxy;
// the judged call then runs every script x tail on that cache. Findings that the same case without the
// earlier call does not have carry /remembered-proxy/ in their key.
package main

import (
	"encoding/json"
	"flag"
	"fmt"
	"hash/fnv"
	"os"
	"runtime"
	"runtime/pprof"
	"sort"
	"strconv"
	"strings"
	"sync"
	"sync/atomic"
	"syscall"
	"time"

	"github.com/pingcap/failpoint"
	"github.com/pingcap/kvproto/pkg/errorpb"
	"github.com/pingcap/log"
	"github.com/tikv/client-go/v2/internal/locate"
	"github.com/tikv/client-go/v2/util"
	"github.com/tikv/client-go/v2/verifrt/c10rand"
	"github.com/tikv/client-go/v2/verifrt/ev"
	"go.uber.org/zap"
)

// ---------- oracle ----------

type finding struct {
	key  string
	what string
	loop []string // unbounded-retry only: the answers that repeat forever
	qual string   // part after-forwarded: the class exists only after the earlier call (see qualify)
}

// qualify marks a finding of a two-call case that the same case without the earlier call does not have:
// the class is named after what the earlier call left behind.
func (f finding) qualify(q string) finding {
	f.qual = q
	if i := strings.Index(f.key, "/"); i > 0 {
		f.key = f.key[:i] + "/" + q + f.key[i:]
	} else {
		f.key += "/" + q
	}
	return f
}

const replicas = 3

// fastCap: how many consecutive re-sends may happen without any accounted back-off in between.
// Every send consumes one attempt of the chosen replica (buildRPCContext: attempts++); a replica
// stops being a candidate at maxReplicaAttempt attempts (isLeaderCandidate/isExhausted) and
// onUpdateLeader documents one extra chance ("it won't result in infinite retry"). Hence a chain
// of immediate re-sends that the code intends is never longer than replicas*(maxReplicaAttempt+1).
func fastCapOf() int { return replicas * (locate.VerifC10MaxReplicaAttempt() + 1) }

// hardCap: total attempts of one call. Beyond the immediate re-sends every further attempt is
// preceded by at least one successful Backoff; a successful Backoff adds >= 2 ms to the counted
// sleep (base >= 2) or >= 1000 ms to the excluded (ServerIsBusy) sleep, and is refused once the
// counted sleep reaches the budget / the excluded sleep reaches max(10 min, budget).
func hardCapOf(budget int) int {
	ex := 600000
	if budget > ex {
		ex = budget
	}
	return fastCapOf() + budget/2 + 1 + ex/1000 + 1
}

var stepCap = map[string]int{"tikvRPC": 2000, "regionMiss": 500, "regionScheduling": 500, "tikvServerBusy": 10000, "tikvDiskFull": 5000,
	"maxTsNotSynced": 500, "regionNotInitialized": 1000, "regionRecoveryInProgress": 10000, "isWitness": 10000, "staleCommand": 1000, "pdRPC": 3000}

func regionErrLabel(e *errorpb.Error) string {
	switch {
	case e.GetNotLeader() != nil:
		return "not_leader"
	case e.GetRegionNotFound() != nil:
		return "region_not_found"
	case e.GetKeyNotInRegion() != nil:
		return "key_not_in_region"
	case e.GetEpochNotMatch() != nil:
		return "epoch_not_match"
	case e.GetServerIsBusy() != nil:
		return "server_is_busy"
	case e.GetStaleCommand() != nil:
		return "stale_command"
	case e.GetStoreNotMatch() != nil:
		return "store_not_match"
	case e.GetRaftEntryTooLarge() != nil:
		return "raft_entry_too_large"
	case e.GetMaxTimestampNotSynced() != nil:
		return "max_timestamp_not_synced"
	case e.GetReadIndexNotReady() != nil:
		return "read_index_not_ready"
	case e.GetProposalInMergingMode() != nil:
		return "proposal_in_merging_mode"
	case e.GetDataIsNotReady() != nil:
		return "data_is_not_ready"
	case e.GetRegionNotInitialized() != nil:
		return "region_not_initialized"
	case e.GetDiskFull() != nil:
		return "disk_full"
	case e.GetRecoveryInProgress() != nil:
		return "recovery_in_progress"
	case e.GetFlashbackInProgress() != nil:
		return "flashback_in_progress"
	case e.GetFlashbackNotPrepared() != nil:
		return "flashback_not_prepared"
	case e.GetIsWitness() != nil:
		return "is_witness"
	case e.GetMismatchPeerId() != nil:
		return "mismatch_peer_id"
	case e.GetBucketVersionNotMatch() != nil:
		return "bucket_version_not_match"
	case e.GetUndeterminedResult() != nil:
		return "undetermined_result"
	}
	return "other"
}

func roleOf(topo string, store uint64) string {
	switch {
	case store == leaderSID:
		return "leader"
	case topo == "2v1l" && store == 3:
		return "learner"
	}
	return "follower"
}

// judge applies the oracle to one finished run. It returns the outcome class and the findings.
func judge(r *result) (outcome string, fs []finding) {
	cfg := r.id.Cfg
	kind := "read"
	if cfg.isWrite() {
		kind = "write"
	}
	after := func(k int) string {
		if k == 0 {
			return "-"
		}
		return r.attempts[k-1].Answer
	}
	// Violation keys are stable classes: rule / read-or-write / replica-read mode. The answer that preceded
	// the offending attempt goes into the description only.
	add := func(rule string, k int, format string, a ...any) {
		fs = append(fs, finding{key: fmt.Sprintf("%s/%s/%s", rule, kind, cfg.Mode), what: fmt.Sprintf(format, a...) + " (previous answer: " + after(k) + ")"})
	}
	n := len(r.attempts)
	if r.setupErr != "" {
		return "setup-failed", []finding{{key: "harness-setup", what: r.setupErr}}
	}

	// --- every recorded attempt ---
	wireInvalid := 0 // attempts whose timestamp on the wire fails validation
	for _, at := range r.attempts {
		target := at.Addr
		if at.Forwarded != "" {
			target = at.Forwarded
		}
		tStore := storeOfAddr(target)
		if _, ok := peerOfStore[tStore]; !ok {
			add("non-peer-store", at.K, "attempt %d goes to %q which hosts no peer of the region", at.K, target)
		} else if at.PeerStore != tStore || at.PeerID != peerOfStore[tStore] {
			add("peer-context-mismatch", at.K, "attempt %d goes to %q but the request context names peer %d on store %d", at.K, target, at.PeerID, at.PeerStore)
		}
		if at.Forwarded != "" {
			pStore := storeOfAddr(at.Addr)
			if !cfg.Fwd {
				add("forwarded-while-disabled", at.K, "attempt %d is forwarded via %q although forwarding is off", at.K, at.Addr)
			}
			if _, ok := peerOfStore[pStore]; !ok || pStore == tStore {
				add("bad-proxy", at.K, "attempt %d uses proxy %q for target %q", at.K, at.Addr, target)
			}
		}
		if cfg.isWrite() && at.ReplicaRead {
			add("write-flagged-replica-read", at.K, "attempt %d of write command %s carries ReplicaRead=true", at.K, cfg.Cmd)
		}
		if cfg.isWrite() && at.StaleRead {
			add("write-flagged-stale-read", at.K, "attempt %d of write command %s carries StaleRead=true", at.K, cfg.Cmd)
		}
		if at.K >= 1 && !at.Retry {
			add("retry-marker-missing", at.K, "attempt %d (a re-send within one call) has IsRetryRequest=false", at.K)
		}
		if cfg.tsChecked() && cfg.TS != "future-novalidate" && !tsIsValid(at.ReadTS, cfg.entryStale()) {
			wireInvalid++
		}
		// (commands of the catalogue are reported by the per-command class below only)
		if cfg.tsChecked() && !strings.HasPrefix(cfg.Cmd, "cmd:") && cfg.TS != "future-novalidate" && !tsIsValid(at.ReadTS, cfg.entryStale()) {
			add("invalid-read-ts-sent", at.K, "attempt %d sends read ts %d which the validator rejects", at.K, at.ReadTS)
		}
	}
	if r.validator.rejected > 0 && cfg.TS != "future-novalidate" && (n > 0 || r.err == nil) {
		add("ts-validation-ignored", 0, "validator rejected the read ts but the call made %d attempts, err=%v", n, r.err)
	}
	// The read-timestamp clause as a model: validation is enabled, the command is a read that carries a read
	// timestamp (catalogue), and the timestamp it carries fails validation for the kind of read it is when it
	// is handed to the sender (stale or not). Then nothing may be sent and the call must end with an error -
	// whether or not the code consulted the validator. The class names the command and the entry point.
	if cfg.tsChecked() && cfg.TS != "future-novalidate" && (wireInvalid > 0 || !tsIsValid(cfg.tsValue(), cfg.entryStale())) {
		switch {
		case n > 0:
			fs = append(fs, finding{key: fmt.Sprintf("read-sent-with-invalid-ts/%s/%s", cfg.cmdName(), cfg.path()),
				what: fmt.Sprintf("%s carries read ts %d (stale read: %v) which fails validation, yet %d attempt(s) reached a store (first: %s); the validator was consulted %d time(s); err=%v",
					cfg.cmdName(), cfg.tsValue(), cfg.entryStale(), n, r.attempts[0].Addr, r.validator.calls, r.err)})
		case r.err == nil && r.panicked == nil && r.capped == nil:
			fs = append(fs, finding{key: fmt.Sprintf("invalid-read-ts-not-refused/%s/%s", cfg.cmdName(), cfg.path()),
				what: fmt.Sprintf("%s carries read ts %d which fails validation; nothing was sent but the call returned no error", cfg.cmdName(), cfg.tsValue())})
		}
	}
	if cfg.path() == "async" && r.asyncNoCallback && r.panicked == nil && r.capped == nil {
		add("async-never-called-back", n, "SendReqAsync returned and the executor ran dry, but the callback was never invoked (%d attempts)", n)
		return "no-callback", fs
	}

	// --- termination ---
	if r.panicked != nil {
		add("panic", n, "panic in the code under test: %v", r.panicked)
		return "panic", fs
	}
	if r.capped != nil {
		// class of an unbounded retry: the set of answers that repeat forever
		loop := r.id.Script
		if r.id.Tail == tailRepeat {
			loop = loop[len(loop)-1:]
		}
		set := map[string]bool{}
		for _, a := range loop {
			set[a] = true
		}
		var ls []string
		for a := range set {
			ls = append(ls, a)
		}
		sort.Strings(ls)
		fs = append(fs, finding{key: "unbounded-retry/" + strings.Join(ls, "+"), loop: ls,
			what: fmt.Sprintf("call aborted by the harness: %s (accounted back-off %d ms, budget %d ms)", r.capped.why, r.sleep, cfg.Budget)})
		return "aborted", fs
	}

	// --- budget ---
	excluded := r.sleepBy["tikvServerBusy"]
	counted := r.sleep - excluded
	step := 0
	for name := range r.sleepBy {
		c, ok := stepCap[name]
		if !ok {
			c = 10000
		}
		if name != "tikvServerBusy" && c > step {
			step = c
		}
	}
	if counted > cfg.Budget-1+step {
		add("budget-exceeded", n, "counted back-off %d ms > budget %d ms + one step (%d ms)", counted, cfg.Budget, step)
	}
	exLimit := 600000
	if cfg.Budget > exLimit {
		exLimit = cfg.Budget
	}
	if excluded > exLimit-1+stepCap["tikvServerBusy"] {
		add("budget-exceeded-busy", n, "ServerIsBusy back-off %d ms > %d ms + one step", excluded, exLimit)
	}

	// --- result ---
	switch {
	case r.err != nil:
		outcome = "error:" + errClass(r.err)
	case r.resp == nil:
		add("nil-result", n, "the call returned neither a response nor an error")
		outcome = "nil"
	default:
		regionErr, e := r.resp.GetRegionError()
		if e != nil {
			add("nil-result", n, "unreadable response: %v", e)
			return "unreadable", fs
		}
		if regionErr != nil {
			outcome = "region-error:" + regionErrLabel(regionErr)
			break
		}
		got := payloadNonce(r.resp)
		genuine := n > 0 && r.attempts[n-1].genuineOK
		if genuine {
			if obj := r.attempts[n-1].respObj; obj != nil {
				genuine = r.resp.Resp == obj // catalogue commands: the very message the store produced
			} else {
				genuine = got == r.attempts[n-1].nonce
			}
		}
		if !genuine {
			add("fabricated-success", n, "success payload %d was not produced by the store asked last (attempts %d)", got, n)
			outcome = "success:fabricated"
			break
		}
		last := r.attempts[n-1]
		target := last.Addr
		if last.Forwarded != "" {
			target = last.Forwarded
		}
		if cfg.path() == "async" {
			if r.asyncAddr != target {
				add("success-context-mismatch", n, "success of %q returned with the address %q", target, r.asyncAddr)
			}
		} else if r.rpcCtx == nil || r.rpcCtx.Addr != target || r.rpcCtx.Peer.GetId() != last.PeerID {
			add("success-context-mismatch", n, "success of %q returned with an RPC context of another store", target)
		}
		outcome = fmt.Sprintf("success:%s@%s", roleOf(cfg.Topo, storeOfAddr(target)), target)
		if last.Forwarded != "" {
			outcome += "/forwarded"
		}
		if last.StaleRead {
			outcome += "/stale"
		} else if last.ReplicaRead {
			outcome += "/replica"
		}
	}
	return outcome, fs
}

// ---------- enumeration ----------

// part is one exhaustively explored sub-space: all scripts up to length F over the alphabet (plus the
// two infinite tails) for every listed configuration.
type part struct {
	Name     string
	F        int
	alphabet []answer
	configs  []config
}

type bounds struct {
	parts []*part
}

func rangeAnswers(from, to answer) (as []answer) {
	for a := from; a <= to; a++ {
		as = append(as, a)
	}
	return
}

type liveFwd struct {
	live string
	fwd  bool
}

type grid struct {
	modes   []string
	topos   func(mode string) []string
	opts    func(mode string) []string
	cmds    []string
	lives   []liveFwd
	budgets []int
	slows   []string
}

// product lists the grid simplest first (leader read, three voters, no option, Get, all stores
// reachable, large budget ...), so that the reported example of a violation class is the simplest one.
func (g grid) product() (out []config) {
	for rnd := 0; rnd < 2; rnd++ {
		for _, mode := range g.modes {
			for _, topo := range g.topos(mode) {
				for _, opt := range g.opts(mode) {
					for _, cmd := range g.cmds {
						for _, lf := range g.lives {
							for _, bud := range g.budgets {
								for _, slow := range g.slows {
									if slow != "none" && (lf.live != "all" && lf.live != "leader-down-known") {
										continue // slowness is combined with two liveness settings only
									}
									out = append(out, config{Topo: topo, Mode: mode, Opt: opt, Cmd: cmd, Live: lf.live, Fwd: lf.fwd,
										TS: "valid", Budget: bud, Slow: slow, Rnd: rnd})
								}
							}
						}
					}
				}
			}
		}
	}
	return
}

func makeBounds(thorough bool) bounds {
	core := append(rangeAnswers(aRPCErr, aUnknownErr), aReadIndexNotReady, aProposalInMerging, aRaftEntryTooLarge, aKeyNotInRegion, aFlashbackInProgress)
	all := rangeAnswers(aRPCErr, nAnswers-1)
	modes := []string{"leader", "leader-busy", "follower", "mixed", "learner", "prefer-leader", "stale"}
	base := grid{
		modes: modes,
		topos: func(mode string) []string {
			if mode == "learner" || mode == "mixed" {
				return []string{"3v", "2v1l"}
			}
			return []string{"3v"}
		},
		opts: func(mode string) []string {
			if mode == "leader" || mode == "leader-busy" {
				return []string{"none"}
			}
			return []string{"none", "label-s2"}
		},
		cmds: []string{"get", "get-short", "prewrite", "commit-short"},
		lives: []liveFwd{{"all", false}, {"leader-down", false}, {"leader-down", true}, {"leader-down-known", false}, {"leader-down-known", true},
			{"s2-down", false}, {"s2-down-known", true}},
		budgets: []int{20000, 10},
		slows:   []string{"none"},
	}
	// read-ts probes: a future read ts with and without validation, every command and mode; one answer deep.
	probes := func(cmds []string) (out []config) {
		for _, mode := range modes {
			for _, cmd := range cmds {
				for _, ts := range []string{"future", "future-novalidate"} {
					out = append(out, config{Topo: "3v", Mode: mode, Opt: "none", Cmd: cmd, Live: "all", TS: ts, Budget: 20000, Slow: "none"})
				}
			}
		}
		return
	}
	// read-ts-cmds: the read-timestamp clause for EVERY read that carries a read timestamp (catalogue.go: the
	// set is discovered from the request types, it is a superset of the commands the original validateReadTS
	// listed) x both entry points of the sender x every replica-read mode (stale and non-stale reads) x a
	// timestamp that passes validation / lies in the future / is MaxUint64 (passes unless the read is a stale
	// read) / lies in the future with validation switched off.
	// ts-carriers: every other command with a timestamp (transactional writes, the excluded debug read), both
	// entry points, every mode: the flag rules for all write commands, and the measured list of commands for
	// which the code consults the validator (asserted to be a subset of the harness's read set).
	perCmd := func(es []*cmdEntry, tss []string, lives []liveFwd, rnds []int) (out []config) {
		for _, rnd := range rnds {
			for _, e := range es {
				for _, path := range []string{"sync", "async"} {
					for _, mode := range modes {
						for _, lf := range lives {
							for _, ts := range tss {
								out = append(out, config{Topo: "3v", Mode: mode, Opt: "none", Cmd: "cmd:" + e.Name, Path: path, Live: lf.live, Fwd: lf.fwd,
									TS: ts, Budget: 20000, Slow: "none", Rnd: rnd})
							}
						}
					}
				}
			}
		}
		return
	}
	var others []*cmdEntry
	for _, e := range catalogue.carriers {
		if !e.isRead() {
			others = append(others, e)
		}
	}
	tsAll := []string{"valid", "future", "max", "future-novalidate"}
	// after-forwarded: two calls on one region cache. The earlier call (config.Pre) is a leader read that ends
	// in a forwarded success - leader store unreachable, forwarding on - so that the region REMEMBERS the proxy
	// (regionStore.proxyTiKVIdx) and the leader store is known unreachable; the judged call then runs every
	// fault script on that cache, in every mode / command / budget of the base grid. A fresh cache never has a
	// remembered proxy, so the selector's "remembered proxy" branch is reached by this part only. The earlier
	// calls: the first proxy tried works (store2 is remembered) / it fails once and the next works (store3).
	twoCall := func(g grid, cmds []string) (out []config) {
		g.cmds = cmds
		g.slows = []string{"none"}
		g.lives = []liveFwd{{"leader-down", true}, {"leader-down-known", true}}
		pres := map[string][]string{
			"leader-down":       {"RPCError", "RPCError,RPCError"}, // leader fails (found unreachable), forwarded via store2 | store2 fails too, via store3
			"leader-down-known": {"ok", "RPCError"},                // forwarded at once via store2 | store2 fails, via store3
		}
		for _, c := range g.product() {
			for _, pre := range pres[c.Live] {
				c.Pre = pre
				out = append(out, c)
			}
		}
		return
	}
	var b bounds
	if !thorough {
		b.parts = []*part{
			{Name: "main", F: 2, alphabet: core, configs: base.product()},
			{Name: "read-ts", F: 1, alphabet: core, configs: probes(base.cmds)},
			{Name: "read-ts-cmds", F: 1, alphabet: core, configs: perCmd(catalogue.reads, tsAll, []liveFwd{{"all", false}}, []int{0})},
			{Name: "ts-carriers", F: 0, alphabet: core, configs: perCmd(others, []string{"valid", "future"}, []liveFwd{{"all", false}}, []int{0})},
			{Name: "after-forwarded", F: 2, alphabet: core, configs: twoCall(base, []string{"get", "prewrite"})},
		}
	} else {
		wide := base
		wide.topos = func(mode string) []string {
			if mode == "learner" || mode == "mixed" || mode == "stale" {
				return []string{"3v", "2v1l"}
			}
			return []string{"3v"}
		}
		wide.opts = func(mode string) []string {
			if mode == "leader" || mode == "leader-busy" {
				return []string{"none", "leader-only"}
			}
			return []string{"none", "label-s2", "label-s1", "label-nomatch", "leader-only", "stores-s3"}
		}
		wide.cmds = append(append([]string{}, base.cmds...), "batchget")
		wide.lives = append(append([]liveFwd{}, base.lives...), liveFwd{"s2-down", true}, liveFwd{"s2-down-known", false}, liveFwd{"all-down", false}, liveFwd{"all-down", true}, liveFwd{"leader-unknown", true}, liveFwd{"s3-down-known", false})
		wide.slows = []string{"none", "s2", "leader"}
		deep := base
		deep.budgets = []int{20000, 10}
		b.parts = []*part{
			{Name: "deep", F: 3, alphabet: core, configs: deep.product()},
			{Name: "wide", F: 2, alphabet: all, configs: wide.product()},
			{Name: "read-ts", F: 1, alphabet: all, configs: probes(wide.cmds)},
			{Name: "read-ts-cmds", F: 2, alphabet: all, configs: perCmd(catalogue.reads, tsAll, []liveFwd{{"all", false}, {"leader-down-known", true}}, []int{0, 1})},
			{Name: "ts-carriers", F: 1, alphabet: all, configs: perCmd(others, []string{"valid", "future", "max"}, []liveFwd{{"all", false}}, []int{0, 1})},
			{Name: "after-forwarded", F: 2, alphabet: all, configs: twoCall(wide, wide.cmds)},
		}
	}
	ord := 0
	for _, p := range b.parts {
		for i := range p.configs {
			p.configs[i].ord = ord
			ord++
		}
	}
	return b
}

type stats struct {
	runs, transitions, nontrivial, maxAttempts, maxFast int64
	pruned                                              int64 // scripts not extended because the call had ended earlier
	outcomes                                            map[string]int64
	paths                                               map[uint64]struct{}
	byPart                                              map[string]int64 // runs per part
	byCmdPath                                           map[string]int64 // catalogue commands: runs per command/entry point
	refused                                             map[string]int64 // command/entry point: runs that ended with no attempt because the read ts failed validation
	validated                                           map[string]int64 // CmdType name: runs in which the code consulted the validator
	byPre                                               map[string]int64 // two-call cases: runs per (earlier call, liveness, how it ended, proxy it left)
	preRemembered                                       int64            // two-call cases that started the judged call with a remembered proxy
	preForwarded                                        int64            // ... in which the judged call sent at least one forwarded attempt
}

type best struct {
	f     finding
	id    caseID
	trace []attempt
	pre   []attempt // attempts of the earlier call
	count int64
	seen  map[string]bool // "mode/cmd" combinations in which the class occurred
}

type explorer struct {
	run     *ev.Run
	b       bounds
	fastCap int
	samples *ev.Samples

	mu    sync.Mutex
	viol  map[string]*best
	total stats
}

func caseLess(a, b caseID) bool {
	if len(a.Script) != len(b.Script) {
		return len(a.Script) < len(b.Script)
	}
	if a.Tail != b.Tail {
		return a.Tail == tailSuccess || (a.Tail == tailRepeat && b.Tail == tailCycle)
	}
	if a.Cfg.ord != b.Cfg.ord {
		return a.Cfg.ord < b.Cfg.ord
	}
	return strings.Join(a.Script, ",") < strings.Join(b.Script, ",")
}

func (x *explorer) report(f finding, r *result) {
	x.mu.Lock()
	defer x.mu.Unlock()
	mc := r.id.Cfg.Mode + "/" + r.id.Cfg.Cmd
	cur, ok := x.viol[f.key]
	if !ok {
		x.viol[f.key] = &best{f: f, id: r.id, trace: r.attempts, pre: r.preAttempts, count: 1, seen: map[string]bool{mc: true}}
		return
	}
	cur.count++
	cur.seen[mc] = true
	if caseLess(r.id, cur.id) {
		cur.f, cur.id, cur.trace, cur.pre = f, r.id, r.attempts, r.preAttempts
	}
}

type worker struct {
	x  *explorer
	w  *world
	st stats
	// progress for the watchdog
	part string
	beat atomic.Int64
	cur  atomic.Pointer[caseID]
	idle atomic.Bool
}

func pathHash(r *result, outcome string) uint64 {
	h := fnv.New64a()
	buf := make([]byte, 0, 64)
	for _, at := range r.attempts {
		buf = append(buf[:0], at.Addr...)
		buf = append(buf, '>')
		buf = append(buf, at.Forwarded...)
		flags := byte('0')
		if at.ReplicaRead {
			flags |= 1
		}
		if at.StaleRead {
			flags |= 2
		}
		if at.Retry {
			flags |= 4
		}
		buf = append(buf, '|', flags, '|')
		buf = append(buf, at.Answer...)
		buf = append(buf, ';')
		h.Write(buf)
	}
	h.Write([]byte(outcome))
	if r.id.Cfg.Pre != "" {
		fmt.Fprintf(h, "|pre=%s>%d", r.preOutcome, r.preProxy)
	}
	return h.Sum64()
}

// one executes a case, judges it and records statistics. It returns the number of attempts.
func (wk *worker) one(id caseID) int {
	wk.cur.Store(&id)
	wk.beat.Add(1)
	x := wk.x
	r := wk.w.run(id, x.fastCap, hardCapOf(id.Cfg.Budget))
	outcome, fs := judge(r)
	if id.Cfg.Pre != "" {
		// A two-call case. Its findings are classed by a differential run: the same case without the earlier
		// call (a case of the one-call space). What that run shows as well is reported under the plain key;
		// the rest exists only in the state the earlier call left (remembered proxy, known liveness).
		if len(fs) > 0 && r.setupErr == "" {
			plain := id
			plain.Cfg.Pre = ""
			_, fs0 := judge(wk.w.run(plain, x.fastCap, hardCapOf(id.Cfg.Budget)))
			has := map[string]bool{}
			for _, f := range fs0 {
				has[f.key] = true
			}
			q := "after-earlier-call"
			if r.preProxy >= 0 {
				q = "remembered-proxy"
			}
			for i, f := range fs {
				if !has[f.key] {
					fs[i] = f.qualify(q)
				}
			}
		}
		wk.st.byPre[fmt.Sprintf("earlier-call=%s live=%s fwd=%v -> %s, remembered proxy index %d", id.Cfg.Pre, id.Cfg.Live, id.Cfg.Fwd, r.preOutcome, r.preProxy)]++
		if r.preProxy >= 0 {
			wk.st.preRemembered++
			for _, at := range r.attempts {
				if at.Forwarded != "" {
					wk.st.preForwarded++
					break
				}
			}
		}
	}
	for _, f := range fs {
		x.report(f, r)
	}
	n := len(r.attempts)
	wk.st.runs++
	wk.st.byPart[wk.part]++
	if cfg := id.Cfg; strings.HasPrefix(cfg.Cmd, "cmd:") {
		cp := cfg.cmdName() + "/" + cfg.path()
		wk.st.byCmdPath[cp]++
		if len(r.attempts) == 0 && r.validator.rejected > 0 {
			wk.st.refused[cp]++
		}
	}
	if r.validator != nil && r.validator.calls > 0 {
		wk.st.validated[id.Cfg.cmdName()]++
	}
	wk.st.transitions += int64(n)
	if int64(n) > wk.st.maxAttempts {
		wk.st.maxAttempts = int64(n)
	}
	if int64(r.maxFast) > wk.st.maxFast {
		wk.st.maxFast = int64(r.maxFast)
	}
	if n >= 2 || !strings.HasPrefix(outcome, "success") {
		wk.st.nontrivial++
	}
	wk.st.outcomes[outcome]++
	wk.st.paths[pathHash(r, outcome)] = struct{}{}
	if n >= 2 {
		x.samples.Add(func() any {
			m := map[string]any{"case": id, "attempts": r.attempts, "outcome": outcome, "backoff_ms": r.sleep}
			if id.Cfg.Pre != "" {
				m["earlier_call"] = map[string]any{"attempts": r.preAttempts, "ended": r.preOutcome, "remembered_proxy_index": r.preProxy}
			}
			return m
		})
	}
	return n
}

func names(as []answer) []string {
	out := make([]string, len(as))
	for i, a := range as {
		out[i] = a.String()
	}
	return out
}

func allEqual(as []answer) bool {
	for _, a := range as {
		if a != as[0] {
			return false
		}
	}
	return true
}

// explore is the lazy depth-first enumeration of all scripts over the alphabet (see file comment).
func (wk *worker) explore(pt *part, cfg config, prefix []answer) {
	maxLen := pt.F
	n := wk.one(caseID{Cfg: cfg, Script: names(prefix), Tail: tailSuccess})
	if n <= len(prefix) {
		// The call ended without asking for an answer beyond the script: every longer script with this
		// prefix, and every infinite tail, gives the same run.
		if len(prefix) < maxLen {
			wk.st.pruned++
		}
		return
	}
	if len(prefix) >= 1 {
		wk.one(caseID{Cfg: cfg, Script: names(prefix), Tail: tailRepeat})
		if !allEqual(prefix) {
			wk.one(caseID{Cfg: cfg, Script: names(prefix), Tail: tailCycle})
		}
	}
	if len(prefix) >= maxLen {
		return
	}
	for _, a := range pt.alphabet {
		if !answerPossible(cfg, a) {
			continue
		}
		wk.explore(pt, cfg, append(prefix[:len(prefix):len(prefix)], a))
	}
}

// answerPossible: a store can give the answer to the command. A region error needs a response type that can
// carry one; tikvrpc.GenRegionErrorResp knows none for a few commands (BatchCop: the stream wrapper has no
// region error), for those only the transport level answers remain.
func answerPossible(cfg config, a answer) bool {
	if !strings.HasPrefix(cfg.Cmd, "cmd:") {
		return true
	}
	if e := cfg.entry(); e != nil && !e.RegionErrOK {
		return a == aRPCErr || a == aDeadline || a == aGRPCCanceled
	}
	return true
}

// processCPU returns the user+system CPU seconds consumed by this process.
func processCPU() float64 {
	var ru syscall.Rusage
	if err := syscall.Getrusage(syscall.RUSAGE_SELF, &ru); err != nil {
		return 0
	}
	return float64(ru.Utime.Sec+ru.Stime.Sec) + float64(ru.Utime.Usec+ru.Stime.Usec)/1e6
}

type job struct {
	pt  *part
	cfg config
}

// setPhase installs the process-wide deterministic "random" sources: the selector's tie break and
// the back-off jitter. Called only while no request is in flight.
func setPhase(rnd int) {
	c10rand.SetMode(rnd)
	if rnd == 0 {
		locate.VerifC10SetRandIntn(func(n int) int { return 0 })
	} else {
		locate.VerifC10SetRandIntn(func(n int) int { return n - 1 })
	}
}

func (x *explorer) phase(rnd int, jobs []job) {
	setPhase(rnd)
	nw := runtime.GOMAXPROCS(0)
	if nw > len(jobs) {
		nw = len(jobs)
	}
	if nw == 0 {
		return
	}
	var next atomic.Int64
	workers := make([]*worker, nw)
	var wg sync.WaitGroup
	done := make(chan struct{})
	for i := range workers {
		wk := &worker{x: x, w: newWorld()}
		wk.st.outcomes, wk.st.paths, wk.st.byPart = map[string]int64{}, map[uint64]struct{}{}, map[string]int64{}
		wk.st.byCmdPath, wk.st.refused, wk.st.validated = map[string]int64{}, map[string]int64{}, map[string]int64{}
		wk.st.byPre = map[string]int64{}
		workers[i] = wk
		wg.Add(1)
		go func() {
			defer wg.Done()
			defer wk.idle.Store(true)
			for {
				j := int(next.Add(1)) - 1
				if j >= len(jobs) || x.run.Expired() {
					return
				}
				wk.part = jobs[j].pt.Name
				wk.explore(jobs[j].pt, jobs[j].cfg, nil)
			}
		}()
	}
	// Watchdog for "never hangs". Nothing in a run may block (back-off is virtual, the environment answers
	// at once) and one run needs far less than a CPU-second. The watchdog measures CPU time of the process,
	// not wall-clock time, so that an overloaded machine cannot trigger it: a worker that stays in the same
	// run while the process burns 600 CPU-seconds is spinning; if no worker finishes a run for five minutes
	// while the process uses next to no CPU, a call is blocked.
	go func() {
		last := make([]int64, nw)
		cpuAt := make([]float64, nw)
		quiet := 0
		quietCPU := processCPU()
		t := time.NewTicker(5 * time.Second)
		defer t.Stop()
		for {
			select {
			case <-done:
				return
			case <-t.C:
				now := processCPU()
				progressed := false
				var suspect *worker
				for i, wk := range workers {
					b := wk.beat.Load()
					if b != last[i] || wk.idle.Load() || wk.cur.Load() == nil {
						if b != last[i] {
							progressed = true
						}
						last[i], cpuAt[i] = b, now
						continue
					}
					suspect = wk
					if now-cpuAt[i] > 600 {
						x.run.Violation("hang", "a call did not return while the process consumed 600 CPU-seconds (virtual back-off, instant environment)", wk.cur.Load())
						x.finish(true)
					}
				}
				if progressed || suspect == nil || now-quietCPU > 0.5 {
					quiet, quietCPU = 0, now
					continue
				}
				if quiet++; quiet >= 60 {
					x.run.Violation("hang", "a call is blocked: no run finished for five minutes and the process is idle (virtual back-off, instant environment)", suspect.cur.Load())
					x.finish(true)
				}
			}
		}
	}()
	wg.Wait()
	close(done)
	if int(next.Load()) < len(jobs) || x.run.Expired() {
		x.run.Incomplete("wall-clock budget (VERIF_BUDGET_S) expired before all configurations were explored")
	}
	for _, wk := range workers {
		x.total.runs += wk.st.runs
		x.total.transitions += wk.st.transitions
		x.total.nontrivial += wk.st.nontrivial
		x.total.pruned += wk.st.pruned
		if wk.st.maxAttempts > x.total.maxAttempts {
			x.total.maxAttempts = wk.st.maxAttempts
		}
		if wk.st.maxFast > x.total.maxFast {
			x.total.maxFast = wk.st.maxFast
		}
		for k, v := range wk.st.outcomes {
			x.total.outcomes[k] += v
		}
		for k, v := range wk.st.byPart {
			x.total.byPart[k] += v
		}
		for k, v := range wk.st.byCmdPath {
			x.total.byCmdPath[k] += v
		}
		for k, v := range wk.st.refused {
			x.total.refused[k] += v
		}
		for k, v := range wk.st.validated {
			x.total.validated[k] += v
		}
		for k := range wk.st.paths {
			x.total.paths[k] = struct{}{}
		}
		for k, v := range wk.st.byPre {
			x.total.byPre[k] += v
		}
		x.total.preRemembered += wk.st.preRemembered
		x.total.preForwarded += wk.st.preForwarded
	}
}

var stopProfile = func() {}

func (x *explorer) finish(early bool) {
	stopProfile()
	x.mu.Lock()
	keys := make([]string, 0, len(x.viol))
	for k := range x.viol {
		keys = append(keys, k)
	}
	sort.Strings(keys)
	// Unbounded retries are reported by their minimal repeating answer sets only: a set that contains a
	// smaller looping set adds nothing (its cases are counted under the smaller one).
	subset := func(a, b []string) bool { // a strict subset of b
		if len(a) >= len(b) {
			return false
		}
		for _, s := range a {
			found := false
			for _, t := range b {
				found = found || s == t
			}
			if !found {
				return false
			}
		}
		return true
	}
	for _, k := range keys {
		v := x.viol[k]
		if v.f.loop == nil {
			continue
		}
		for _, k2 := range keys {
			if v2 := x.viol[k2]; v2 != nil && v2.f.loop != nil && v2.f.qual == v.f.qual && subset(v2.f.loop, v.f.loop) {
				v2.count += v.count
				for mc := range v.seen {
					v2.seen[mc] = true
				}
				delete(x.viol, k)
				break
			}
		}
	}
	for _, k := range keys {
		v := x.viol[k]
		if v == nil {
			continue
		}
		var seen []string
		for mc := range v.seen {
			seen = append(seen, mc)
		}
		sort.Strings(seen)
		what := fmt.Sprintf("%s [%s script=%v tail=%s; %d cases in mode/cmd %v]", v.f.what, v.id.Cfg, v.id.Script, v.id.Tail, v.count, seen)
		if v.f.loop != nil {
			// confirm that the loop is not merely a little longer than the cap
			setPhase(v.id.Cfg.Rnd)
			r2 := newWorld().run(v.id, 20*x.fastCap, 20*hardCapOf(v.id.Cfg.Budget))
			if r2.capped != nil {
				what += fmt.Sprintf(" still running after %d attempts with the caps raised x20 (%s, accounted back-off %d ms)", len(r2.attempts), r2.capped.why, r2.sleep)
			} else {
				what += fmt.Sprintf(" ends after %d attempts when the caps are raised x20", len(r2.attempts))
			}
		}
		art := map[string]any{"config": v.id.Cfg, "script": v.id.Script, "tail": v.id.Tail, "trace": v.trace}
		if v.id.Cfg.Pre != "" {
			art["earlier_call_trace"] = v.pre
		}
		x.run.Violation(k, what, art)
	}
	x.mu.Unlock()
	if early {
		x.run.Incomplete("stopped early by the hang watchdog")
	}
	outs := map[string]int64{}
	classes := map[string]int64{}
	for k, v := range x.total.outcomes {
		outs[k] = v
		c := k
		if i := strings.Index(k, ":"); i > 0 {
			c = k[:i]
		}
		classes[c] += v
	}
	var partInfo []map[string]any
	nConfigs := 0
	for _, pt := range x.b.parts {
		alpha := int64(len(pt.alphabet))
		full := int64(0) // scripts x tails of the full space per configuration
		pow := int64(1)
		for l := 0; l <= pt.F; l++ {
			switch l {
			case 0:
				full++
			case 1:
				full += pow * 2
			default:
				full += pow*3 - alpha // constant scripts: cycle == repeat-last
			}
			pow *= alpha
		}
		nConfigs += len(pt.configs)
		partInfo = append(partInfo, map[string]any{"part": pt.Name, "F": pt.F, "alphabet": names(pt.alphabet), "configurations": len(pt.configs),
			"budgets_ms": budgetsOf(pt.configs), "scripts_x_tails_per_configuration_full_space": full, "runs_executed": x.total.byPart[pt.Name]})
	}
	// The catalogue of reads against what the code does: the harness's read set must be a superset of the
	// commands for which the running code consults the validator.
	readSet := map[string]bool{}
	for _, e := range catalogue.reads {
		readSet[e.Name] = true
	}
	var validatedByCode, outside, fromFloor []string
	for name := range x.total.validated {
		validatedByCode = append(validatedByCode, name)
		if !readSet[name] {
			outside = append(outside, name)
		}
	}
	sort.Strings(validatedByCode)
	sort.Strings(outside)
	if len(outside) > 0 {
		x.run.Incomplete(fmt.Sprintf("the code consults the read-ts validator for %v, which catalogue.go does not class as reads with a read timestamp: the harness's read set is no longer a superset of the validated commands", outside))
	}
	var carriers []map[string]any
	for _, e := range catalogue.carriers {
		carriers = append(carriers, map[string]any{"cmd": e.Name, "message": e.ReqT.String(), "ts_field": e.Field, "write": e.Write,
			"excluded": e.Excluded, "read_with_read_ts": e.isRead(), "floor": e.Floor, "region_error_expressible": e.RegionErrOK})
		if e.FromFloor {
			fromFloor = append(fromFloor, e.Name)
		}
	}
	catInfo := map[string]any{
		"named_cmd_types":                          catalogue.named,
		"timestamp_carriers":                       carriers,
		"reads_with_read_ts":                       entryNames(catalogue.reads),
		"floor_commands_missing_from_discovery":    fromFloor,
		"commands_for_which_the_code_validates":    validatedByCode,
		"validated_outside_the_read_set":           outside,
		"runs_per_command_and_entry_point":         x.total.byCmdPath,
		"runs_refused_before_any_send_per_command": x.total.refused,
		"entry_points":                             []string{"sync=SendReqCtx", "async=SendReqAsync"},
		"ts_classes":                               []string{"valid", "future", "max (MaxUint64: invalid only for a stale read)", "future-novalidate"},
	}
	cov := ev.Coverage{
		"read_ts_catalogue":                       catInfo,
		"states":                                  x.total.runs,
		"transitions":                             x.total.transitions,
		"traces_validated_against_impl":           x.total.runs,
		"evaluations":                             x.total.runs,
		"distinct_nontrivial":                     x.total.nontrivial,
		"distinct_access_paths":                   len(x.total.paths),
		"distinct_outcomes":                       len(outs),
		"outcomes":                                outs,
		"outcome_classes":                         classes,
		"max_attempts_in_one_call":                x.total.maxAttempts,
		"max_consecutive_resends_without_backoff": x.total.maxFast,
		"prefixes_not_extended":                   x.total.pruned,
		"two_call_cases": map[string]any{
			"runs_per_earlier_call_and_what_it_left":           x.total.byPre,
			"judged_calls_started_with_a_remembered_proxy":     x.total.preRemembered,
			"of_those_with_a_forwarded_attempt_in_judged_call": x.total.preForwarded,
			"finding_classes_only_seen_after_the_earlier_call": "keys carry /remembered-proxy/ (or /after-earlier-call/ when no proxy was left): decided by re-running the case without the earlier call",
			"dedup": "none: every (configuration incl. earlier call, script, tail) is executed; the state the earlier call leaves in the cache is a function of the configuration and is measured above",
		},
		"rule": "states = executed (configuration, script, tail) triples, all distinct; transitions = RPC attempts made by the real sender; " +
			"scripts are enumerated depth first over the alphabet and extended only while the call consumes the whole script " +
			"(a longer script with the same prefix is then the same run); non-trivial = at least 2 attempts or a non-success end; " +
			"parts read-ts-cmds / ts-carriers: one configuration per (command of the catalogue, entry point SendReqCtx|SendReqAsync, replica-read mode, " +
			"timestamp class, liveness), the commands being discovered from the request types (every CmdType x every accessor message type x every " +
			"uint64 field that GetStartTS returns), not listed by hand; " +
			"part after-forwarded: two calls on ONE region cache - an earlier leader read that ends in a forwarded success (leader store unreachable, " +
			"forwarding on; via the first proxy or, after one failed proxy, via the second), so that the region remembers the proxy, then the judged call: " +
			"every script x tail as in part main, every mode / command / budget; same oracle; the earlier call is part of the configuration (field pre)",
		"bounds": map[string]any{"parts": partInfo, "tails": []string{tailSuccess, tailRepeat, tailCycle},
			"configurations": nConfigs, "fast_resend_cap": x.fastCap},
		"samples": x.samples.List(),
	}
	if x.total.byPart["after-forwarded"] > 0 && (x.total.preRemembered == 0 || x.total.preForwarded == 0) {
		x.run.Incomplete(fmt.Sprintf("part after-forwarded is vacuous: %d judged calls started with a remembered proxy, %d of them forwarded an attempt", x.total.preRemembered, x.total.preForwarded))
	}
	x.run.Finish(cov, []string{
		"one SendReqCtx call (configurations with path=async: one SendReqAsync call) per run on a fresh RegionCache/RegionRequestSender - in part after-forwarded preceded by one unjudged leader-read Get on the same cache (own sender and Backoffer, budget 20 s, faults by position then genuine answers), microseconds earlier, liveness unchanged between the two calls; one region on stores 1-3 (leader on store 1), store 4 hosts no peer",
		"back-off does not sleep (failpoint tikvclient/fastBackoffBySkipSleep); the Backoffer accounts the sleep as usual; jitter is deterministic (max in phase rnd=0, min in rnd=1)",
		"replica tie-break randomness is replaced by first (rnd=0) / last (rnd=1) candidate, the same choice at every tie of a run",
		"the cache's background tickers are stopped before the call; a store found unreachable stays unreachable for the rest of the call",
		"a call is declared unbounded when it makes replicas*(maxReplicaAttempt+1) consecutive re-sends with no accounted back-off, or exceeds the attempt cap derived from the budget",
		"answers are not filtered for plausibility (any store may give any answer); the oracle demands only termination, budget, result genuineness and the three flag rules",
		"write commands are combined with every replica-read mode the request API lets a caller set (SetReplicaReadType, EnableStaleWithMixedReplicaRead), as the property quantifies over modes x commands; the repository's own tests call write+replica-read 'unsupported'",
		"the 3-voter and the 2-voter+learner layouts are the only region layouts; region epochs/ranges never change during a call except through the scripted EpochNotMatch answers",
		"a 'read that carries a read timestamp' is every command whose message has a uint64 field returned by Request.GetStartTS and which is neither a transactional/raw write (IsTxnWriteRequest/IsRawWriteRequest) nor MvccGetByStartTs (debug lookup by a transaction's start ts); the implicit reads of write commands (the TODO in validateReadTS) are not demanded; requests to TiDB/TiFlash endpoints are not sent",
		"the validator is scripted: a timestamp <= now is valid, a later one is not, MaxUint64 is valid unless the request is a stale read when handed to the sender (as in pdOracle.ValidateReadTS); the oracle does not demand that the validator is consulted, only that nothing is sent and an error is returned when the verdict for (timestamp, stale-or-not at entry) is 'invalid'",
		"asynchronous entry point: the executor runs Go(f) inline and drains scheduled callbacks after SendReqAsync returned (one legal schedule, single goroutine); commands whose response type cannot carry a region error (BatchCop) get transport-level faults only",
	})
}

func budgetsOf(cs []config) []int {
	seen := map[int]bool{}
	var out []int
	for _, c := range cs {
		if !seen[c.Budget] {
			seen[c.Budget] = true
			out = append(out, c.Budget)
		}
	}
	sort.Ints(out)
	return out
}

// ---------- replay ----------

func replay(path string) {
	b, err := os.ReadFile(path)
	if err != nil {
		fmt.Fprintln(os.Stderr, err)
		os.Exit(2)
	}
	var doc struct {
		Key    string `json:"key"`
		Replay caseID `json:"replay"`
	}
	if err := json.Unmarshal(b, &doc); err != nil {
		fmt.Fprintln(os.Stderr, "bad replay file:", err)
		os.Exit(2)
	}
	id := doc.Replay
	if id.Tail == "" {
		id.Tail = tailSuccess
	}
	setPhase(id.Cfg.Rnd)
	wantSelectorString = true
	r := newWorld().run(id, fastCapOf(), hardCapOf(id.Cfg.Budget))
	outcome, fs := judge(r)
	fmt.Printf("replay %s script=%v tail=%s\n", id.Cfg, id.Script, id.Tail)
	if id.Cfg.Pre != "" {
		fmt.Printf("earlier call: %d attempts, ended %s, remembered proxy index %d\n", len(r.preAttempts), r.preOutcome, r.preProxy)
		plain := id
		plain.Cfg.Pre = ""
		_, fs0 := judge(newWorld().run(plain, fastCapOf(), hardCapOf(id.Cfg.Budget)))
		fmt.Printf("the same case without the earlier call: %d finding(s)\n", len(fs0))
		q := "after-earlier-call"
		if r.preProxy >= 0 {
			q = "remembered-proxy"
		}
		for i, f := range fs {
			plainHas := false
			for _, f0 := range fs0 {
				plainHas = plainHas || f0.key == f.key
			}
			if !plainHas {
				fs[i] = f.qualify(q)
			}
		}
	}
	for i, at := range r.attempts {
		if i >= 40 {
			fmt.Printf("  ... %d more attempts\n", len(r.attempts)-i)
			break
		}
		j, _ := json.Marshal(at)
		fmt.Printf("  %s\n", j)
	}
	fmt.Printf("outcome=%s err=%v backoff=%dms %v\nselector=%s\n", outcome, r.err, r.sleep, r.sleepBy, r.selector)
	if len(fs) == 0 {
		fmt.Println("replay: no violation")
		os.Exit(0)
	}
	for _, f := range fs {
		fmt.Printf("  violation key=%s: %s\n", f.key, f.what)
	}
	fmt.Printf("VIOLATION property=C10 replay=%s\n", path)
	os.Exit(1)
}

func main() {
	replayFile := flag.String("replay", "", "re-run the case stored in a replay file")
	cpuProf := flag.String("cpuprofile", "", "write a CPU profile (harness tuning only)")
	flag.Parse()
	if *cpuProf != "" {
		f, _ := os.Create(*cpuProf)
		pprof.StartCPUProfile(f)
		stopProfile = pprof.StopCPUProfile
	}

	log.ReplaceGlobals(zap.NewNop(), &log.ZapProperties{})
	util.EnableFailpoints()
	if err := failpoint.Enable("tikvclient/fastBackoffBySkipSleep", "return"); err != nil {
		fmt.Fprintln(os.Stderr, "cannot enable failpoint:", err)
		os.Exit(2)
	}
	if *replayFile != "" {
		replay(*replayFile)
	}

	run := ev.Start("C10", "model_checking")
	x := &explorer{run: run, b: makeBounds(run.Thorough()), fastCap: fastCapOf(), samples: ev.NewSamples(6, run.Seed), viol: map[string]*best{}}
	x.total.outcomes, x.total.paths, x.total.byPart = map[string]int64{}, map[uint64]struct{}{}, map[string]int64{}
	x.total.byCmdPath, x.total.refused, x.total.validated = map[string]int64{}, map[string]int64{}, map[string]int64{}
	x.total.byPre = map[string]int64{}
	for _, p := range catalogue.problems {
		run.Note("catalogue: %s", p)
	}
	stride := 1 // sizing aid only: VERIF_C10_STRIDE=k explores every k-th configuration (evidence says exhaustive:false)
	if v, err := strconv.Atoi(os.Getenv("VERIF_C10_STRIDE")); err == nil && v > 1 {
		stride = v
		run.Incomplete(fmt.Sprintf("VERIF_C10_STRIDE=%d: only every %d-th configuration explored", v, v))
	}
	onlyParts := map[string]bool{} // sizing aid only: VERIF_C10_PARTS=a,b explores the named parts only (evidence says exhaustive:false)
	if v := os.Getenv("VERIF_C10_PARTS"); v != "" {
		for _, n := range strings.Split(v, ",") {
			onlyParts[n] = true
		}
		run.Incomplete("VERIF_C10_PARTS=" + v + ": only these parts explored")
	}
	for rnd := 0; rnd < 2; rnd++ {
		var jobs []job
		for _, pt := range x.b.parts {
			if len(onlyParts) > 0 && !onlyParts[pt.Name] {
				continue
			}
			for _, c := range pt.configs {
				if c.ord%stride != 0 {
					continue
				}
				if c.Rnd == rnd {
					jobs = append(jobs, job{pt, c})
				}
			}
		}
		x.phase(rnd, jobs)
	}
	x.finish(false)
}

package main

// The scripted environment of one run: a mock PD (mocktikv cluster, read only), a fresh
// RegionCache + RegionRequestSender, the scripted client.Client, the scripted liveness probe
// and the scripted read-ts validator.

import (
	"context"
	"fmt"
	"math"
	"strconv"
	"strings"
	"time"

	"github.com/pingcap/kvproto/pkg/coprocessor"
	"github.com/pingcap/kvproto/pkg/errorpb"
	"github.com/pingcap/kvproto/pkg/kvrpcpb"
	"github.com/pingcap/kvproto/pkg/metapb"
	"github.com/pingcap/kvproto/pkg/tikvpb"
	"github.com/pkg/errors"
	"github.com/tikv/client-go/v2/config/retry"
	"github.com/tikv/client-go/v2/internal/apicodec"
	"github.com/tikv/client-go/v2/internal/client"
	"github.com/tikv/client-go/v2/internal/locate"
	"github.com/tikv/client-go/v2/internal/mockstore/mocktikv"
	"github.com/tikv/client-go/v2/kv"
	"github.com/tikv/client-go/v2/oracle"
	"github.com/tikv/client-go/v2/tikvrpc"
	"github.com/tikv/client-go/v2/util/async"
	"google.golang.org/grpc/codes"
	"google.golang.org/grpc/status"
)

// ---------- answers ----------

type answer int

const (
	aOK answer = iota
	aRPCErr
	aDeadline
	aNotLeaderNoHint
	aNotLeaderNext // hint: the peer after the asked one (cyclic, store order)
	aNotLeaderPrev // hint: the peer before the asked one
	aEpochNotMatchEmpty
	aEpochNotMatchNewer // current regions carry a newer version
	aRegionNotFound
	aServerBusy
	aServerBusyWait // with estimated wait
	aStaleCommand
	aStoreNotMatch
	aDataIsNotReady
	aMaxTsNotSynced
	aDiskFull
	aUnknownErr
	// --- extended alphabet ---
	aEpochNotMatchOlder // current regions carry an older version: "client is ahead of tikv"
	aNotLeaderUnknownPeer
	aServerBusyDeadline // ServerIsBusy whose reason says the deadline is exceeded
	aDeadlineMsg        // region error whose message says "Deadline is exceeded"
	aGRPCCanceled
	aReadIndexNotReady
	aProposalInMerging
	aRaftEntryTooLarge
	aKeyNotInRegion
	aFlashbackInProgress
	aRegionNotInitialized
	aRecoveryInProgress
	aIsWitness
	aMismatchPeerID
	aUndetermined
	aBucketVersionNotMatch
	aFlashbackNotPrepared
	nAnswers
)

var answerNames = [...]string{
	aOK: "OK", aRPCErr: "RPCError", aDeadline: "DeadlineExceeded", aNotLeaderNoHint: "NotLeader",
	aNotLeaderNext: "NotLeaderToNext", aNotLeaderPrev: "NotLeaderToPrev", aEpochNotMatchEmpty: "EpochNotMatch",
	aEpochNotMatchNewer: "EpochNotMatch+newer", aRegionNotFound: "RegionNotFound", aServerBusy: "ServerIsBusy",
	aServerBusyWait: "ServerIsBusy+wait", aStaleCommand: "StaleCommand", aStoreNotMatch: "StoreNotMatch",
	aDataIsNotReady: "DataIsNotReady", aMaxTsNotSynced: "MaxTimestampNotSynced", aDiskFull: "DiskFull",
	aUnknownErr: "UnknownRegionError", aEpochNotMatchOlder: "EpochNotMatch+older", aNotLeaderUnknownPeer: "NotLeaderToStranger",
	aServerBusyDeadline: "ServerIsBusy+deadline", aDeadlineMsg: "DeadlineMessage", aGRPCCanceled: "GRPCCanceled",
	aReadIndexNotReady: "ReadIndexNotReady", aProposalInMerging: "ProposalInMergingMode", aRaftEntryTooLarge: "RaftEntryTooLarge",
	aKeyNotInRegion: "KeyNotInRegion", aFlashbackInProgress: "FlashbackInProgress", aRegionNotInitialized: "RegionNotInitialized",
	aRecoveryInProgress: "RecoveryInProgress", aIsWitness: "IsWitness", aMismatchPeerID: "MismatchPeerId",
	aUndetermined: "UndeterminedResult", aBucketVersionNotMatch: "BucketVersionNotMatch", aFlashbackNotPrepared: "FlashbackNotPrepared",
}

func (a answer) String() string { return answerNames[a] }

func answerByName(s string) (answer, bool) {
	for i, n := range answerNames {
		if n == s {
			return answer(i), true
		}
	}
	return 0, false
}

const (
	tailSuccess = "success"     // after the script every attempt succeeds
	tailRepeat  = "repeat-last" // after the script the last answer repeats forever
	tailCycle   = "cycle"       // the whole script repeats forever
)

// ---------- configuration of one run ----------

type config struct {
	Topo   string `json:"topo"`           // 3v | 2v1l
	Mode   string `json:"mode"`           // leader | leader-busy | follower | mixed | learner | prefer-leader | stale
	Opt    string `json:"opt"`            // none | label-s2 | label-s1 | label-nomatch | leader-only | stores-s3
	Cmd    string `json:"cmd"`            // get | get-short | batchget | prewrite | commit-short | cmd:<CmdType name> (built from the catalogue)
	Path   string `json:"path,omitempty"` // "" or sync: SendReqCtx; async: SendReqAsync
	Live   string `json:"live"`           // all | leader-down | leader-down-known | s2-down | s2-down-known | all-down | leader-unknown | s3-down-known
	Fwd    bool   `json:"fwd"`            // forwarding enabled
	TS     string `json:"ts"`             // valid | future | max (MaxUint64: valid unless the request is a stale read) | future-novalidate
	Budget int    `json:"budget"`         // back-off budget of the call in ms
	Slow   string `json:"slow"`           // none | s2 | leader
	Rnd    int    `json:"rnd"`            // 0: ties pick the first candidate, jitter max; 1: ties pick the last, jitter min
	// Pre: "" = the judged call is the first one on the region cache. Otherwise an EARLIER call ran on the
	// same cache before the judged one (part "after-forwarded"): a leader-read Get whose stores answer the
	// listed faults by position ("ok" = none) and genuinely afterwards, over the same liveness / forwarding
	// setting. It is meant to end in a forwarded success, which makes the region remember the proxy.
	Pre string `json:"pre,omitempty"`
	ord int    // position in the enumeration order (simplest first); used to pick the reported example
}

func (c config) String() string {
	s := fmt.Sprintf("%s/%s/%s/%s/%s/live=%s/fwd=%v/ts=%s/B=%d/slow=%s/rnd=%d", c.Topo, c.Mode, c.Opt, c.Cmd, c.path(), c.Live, c.Fwd, c.TS, c.Budget, c.Slow, c.Rnd)
	if c.Pre != "" {
		s += "/earlier-call=" + c.Pre
	}
	return s
}

func (c config) path() string {
	if c.Path == "" {
		return "sync"
	}
	return c.Path
}

// entry: the catalogue entry of the command (nil for a command the catalogue does not know).
func (c config) entry() *cmdEntry {
	switch c.Cmd {
	case "get", "get-short":
		return catalogue.byName["Get"]
	case "batchget":
		return catalogue.byName["BatchGet"]
	case "prewrite":
		return catalogue.byName["Prewrite"]
	case "commit-short":
		return catalogue.byName["Commit"]
	}
	return catalogue.byName[strings.TrimPrefix(c.Cmd, "cmd:")]
}

func (c config) isWrite() bool {
	if strings.HasPrefix(c.Cmd, "cmd:") {
		e := c.entry()
		return e != nil && e.Write
	}
	return c.Cmd == "prewrite" || c.Cmd == "commit-short"
}

// tsChecked: the read-timestamp clause applies to the command (a read that carries a read timestamp).
func (c config) tsChecked() bool {
	if strings.HasPrefix(c.Cmd, "cmd:") {
		e := c.entry()
		return e != nil && e.isRead()
	}
	return !c.isWrite()
}

// cmdName: the CmdType name, used in violation keys.
func (c config) cmdName() string {
	if e := c.entry(); e != nil {
		return e.Name
	}
	return c.Cmd
}

func (c config) tsValue() uint64 {
	switch c.TS {
	case "valid":
		return nowTS - 1
	case "max":
		return math.MaxUint64
	}
	return futureTS
}

// entryStale: the request is a stale read when it is handed to the sender.
func (c config) entryStale() bool { return c.Mode == "stale" }

type caseID struct {
	Cfg    config   `json:"config"`
	Script []string `json:"script"`
	Tail   string   `json:"tail"`
}

// ---------- topology ----------

const (
	regionID   = 10
	leaderSID  = 1
	strangerID = 4 // a store that hosts no peer of the region
	nowTS      = 1000
	futureTS   = 5000
)

var peerOfStore = map[uint64]uint64{1: 11, 2: 12, 3: 13}

func storeAddr(id uint64) string { return fmt.Sprintf("store%d", id) }

func storeOfAddr(addr string) uint64 {
	switch addr {
	case "store1":
		return 1
	case "store2":
		return 2
	case "store3":
		return 3
	case "store4":
		return 4
	}
	return 0
}

func newCluster(topo string) *mocktikv.Cluster {
	cl := mocktikv.NewCluster(nil)
	for id := uint64(1); id <= 4; id++ {
		cl.AddStore(id, storeAddr(id),
			&metapb.StoreLabel{Key: "id", Value: fmt.Sprint(id)},
			&metapb.StoreLabel{Key: "zone", Value: fmt.Sprintf("z%d", id)})
	}
	switch topo {
	case "3v":
		cl.Bootstrap(regionID, []uint64{1, 2, 3}, []uint64{11, 12, 13}, 11)
	case "2v1l":
		cl.Bootstrap(regionID, []uint64{1, 2}, []uint64{11, 12}, 11)
		cl.AddLearner(regionID, 3, 13)
	default:
		panic("bad topo " + topo)
	}
	return cl
}

// ---------- scripted read-ts validator ----------

type tsValidator struct {
	calls    int
	rejected int
}

// tsIsValid is the verdict of the scripted validator, a function of what the real one looks at: the
// timestamp and whether the read is a stale read. Timestamps up to "now" are valid, later ones are not;
// MaxUint64 ("read the latest") is valid for an ordinary read and invalid for a stale read, as in
// oracles.pdOracle.ValidateReadTS.
func tsIsValid(ts uint64, staleRead bool) bool {
	if ts == math.MaxUint64 {
		return !staleRead
	}
	return ts <= nowTS
}

func (v *tsValidator) ValidateReadTS(ctx context.Context, readTS uint64, isStaleRead bool, opt *oracle.Option) error {
	v.calls++
	if !tsIsValid(readTS, isStaleRead) {
		v.rejected++
		return errors.Errorf("c10 read ts %d is in the future (now %d)", readTS, uint64(nowTS))
	}
	return nil
}

// ---------- one recorded attempt ----------

type attempt struct {
	K           int    `json:"k"`
	Addr        string `json:"addr"`
	Forwarded   string `json:"forwarded_host,omitempty"`
	PeerID      uint64 `json:"peer"`
	PeerStore   uint64 `json:"peer_store"`
	ReplicaRead bool   `json:"replica_read"`
	StaleRead   bool   `json:"stale_read"`
	Retry       bool   `json:"is_retry"`
	ReadTS      uint64 `json:"read_ts,omitempty"`
	SleepBefore int    `json:"sleep_before_ms"`
	Answer      string `json:"answer"`
	nonce       uint64
	genuineOK   bool
	respObj     any // catalogue commands: the message of the genuine answer (identity is the nonce)
}

type capExceeded struct{ why string }

// ---------- scripted client ----------

type scriptClient struct {
	cfg        config
	script     []answer
	tail       string
	bo         *retry.Backoffer
	attempts   []attempt
	hardCap    int // total attempts
	fastCap    int // consecutive attempts without any accounted back-off in between
	fastRun    int
	maxFast    int
	closed     []string
	asyncSends int
}

func (c *scriptClient) Close() error { return nil }
func (c *scriptClient) CloseAddr(addr string) error {
	c.closed = append(c.closed, addr)
	return nil
}
func (c *scriptClient) SetEventListener(client.ClientEventListener) {}
func (c *scriptClient) SendRequestAsync(ctx context.Context, addr string, req *tikvrpc.Request, cb async.Callback[*tikvrpc.Response]) {
	c.asyncSends++
	cb.Invoke(c.SendRequest(ctx, addr, req, 0))
}

func (c *scriptClient) answerAt(k int) answer {
	if k < len(c.script) {
		return c.script[k]
	}
	switch c.tail {
	case tailRepeat:
		return c.script[len(c.script)-1]
	case tailCycle:
		return c.script[k%len(c.script)]
	}
	return aOK
}

const genuinePrefix = "c10-genuine-"

func nonceOf(k int, store uint64) uint64 { return 7_000_000 + uint64(k)*100 + store }

func readTSOf(req *tikvrpc.Request) uint64 {
	switch r := req.Req.(type) {
	case *kvrpcpb.GetRequest:
		return r.Version
	case *kvrpcpb.BatchGetRequest:
		return r.Version
	}
	if e := catalogue.byCmd[req.Type]; e != nil {
		return e.tsOnWire(req)
	}
	return 0
}

func (c *scriptClient) SendRequest(ctx context.Context, addr string, req *tikvrpc.Request, timeout time.Duration) (*tikvrpc.Response, error) {
	k := len(c.attempts)
	sleep := c.bo.GetTotalSleep()
	if k > 0 && c.attempts[k-1].SleepBefore == sleep {
		c.fastRun++
	} else {
		c.fastRun = 0
	}
	if c.fastRun > c.maxFast {
		c.maxFast = c.fastRun
	}
	ans := c.answerAt(k)
	at := attempt{K: k, Addr: addr, Forwarded: req.ForwardedHost, ReplicaRead: req.Context.ReplicaRead, StaleRead: req.Context.StaleRead,
		Retry: req.Context.IsRetryRequest, ReadTS: readTSOf(req), SleepBefore: sleep, Answer: ans.String()}
	if p := req.Context.Peer; p != nil {
		at.PeerID, at.PeerStore = p.Id, p.StoreId
	}
	target := addr
	if req.ForwardedHost != "" {
		target = req.ForwardedHost
	}
	tStore := storeOfAddr(target)
	at.nonce = nonceOf(k, tStore)
	at.genuineOK = ans == aOK
	c.attempts = append(c.attempts, at)
	if c.fastRun >= c.fastCap {
		panic(capExceeded{fmt.Sprintf("%d consecutive re-sends without any accounted back-off", c.fastRun)})
	}
	if len(c.attempts) > c.hardCap {
		panic(capExceeded{fmt.Sprintf("more than %d attempts", c.hardCap)})
	}
	if ans == aOK {
		resp := genuineResp(req, at.nonce)
		if payloadNonce(resp) == 0 {
			c.attempts[k].respObj = resp.Resp
		}
		return resp, nil
	}
	return faultResp(ans, req, tStore, c.cfg.Topo)
}

func genuineResp(req *tikvrpc.Request, nonce uint64) *tikvrpc.Response {
	val := strconv.AppendUint([]byte(genuinePrefix), nonce, 10)
	switch req.Type {
	case tikvrpc.CmdGet:
		return &tikvrpc.Response{Resp: &kvrpcpb.GetResponse{Value: val}}
	case tikvrpc.CmdBatchGet:
		return &tikvrpc.Response{Resp: &kvrpcpb.BatchGetResponse{Pairs: []*kvrpcpb.KvPair{{Key: []byte("k"), Value: val}}}}
	case tikvrpc.CmdPrewrite:
		return &tikvrpc.Response{Resp: &kvrpcpb.PrewriteResponse{MinCommitTs: nonce}}
	case tikvrpc.CmdCommit:
		return &tikvrpc.Response{Resp: &kvrpcpb.CommitResponse{CommitVersion: nonce}}
	}
	// Any other command: a fresh, empty answer of the command's own response type; the oracle recognises
	// it by identity. The type is the one GenRegionErrorResp uses for the command (no region error set);
	// the two stream commands it cannot express get their stream wrapper.
	switch req.Type {
	case tikvrpc.CmdBatchCop:
		return &tikvrpc.Response{Resp: &tikvrpc.BatchCopStreamResponse{BatchResponse: &coprocessor.BatchResponse{}}}
	case tikvrpc.CmdCopStream:
		return &tikvrpc.Response{Resp: &tikvrpc.CopStreamResponse{Response: &coprocessor.Response{}}}
	}
	if resp, err := tikvrpc.GenRegionErrorResp(req, nil); err == nil && resp != nil && resp.Resp != nil {
		return resp
	}
	return &tikvrpc.Response{Resp: &tikvpb.BatchCommandsEmptyResponse{}}
}

// payloadNonce extracts the nonce of a genuine payload (0: none).
func payloadNonce(resp *tikvrpc.Response) uint64 {
	var val []byte
	switch r := resp.Resp.(type) {
	case *kvrpcpb.GetResponse:
		val = r.Value
	case *kvrpcpb.BatchGetResponse:
		if len(r.Pairs) == 1 {
			val = r.Pairs[0].Value
		}
	case *kvrpcpb.PrewriteResponse:
		return r.MinCommitTs
	case *kvrpcpb.CommitResponse:
		return r.CommitVersion
	}
	if !strings.HasPrefix(string(val), genuinePrefix) {
		return 0
	}
	n, err := strconv.ParseUint(string(val[len(genuinePrefix):]), 10, 64)
	if err != nil {
		return 0
	}
	return n
}

func regionPeers(topo string) []*metapb.Peer {
	ps := []*metapb.Peer{{Id: 11, StoreId: 1}, {Id: 12, StoreId: 2}, {Id: 13, StoreId: 3}}
	if topo == "2v1l" {
		ps[2].Role = metapb.PeerRole_Learner
	}
	return ps
}

func faultResp(a answer, req *tikvrpc.Request, tStore uint64, topo string) (*tikvrpc.Response, error) {
	peers := regionPeers(topo)
	idx := 0
	for i, p := range peers {
		if p.StoreId == tStore {
			idx = i
		}
	}
	curEpoch := req.Context.RegionEpoch
	if curEpoch == nil {
		curEpoch = &metapb.RegionEpoch{}
	}
	var e *errorpb.Error
	switch a {
	case aRPCErr:
		return nil, errors.New("c10 connection refused")
	case aDeadline:
		return nil, errors.WithStack(context.DeadlineExceeded)
	case aGRPCCanceled:
		return nil, errors.WithStack(status.Error(codes.Canceled, "c10 grpc canceled"))
	case aNotLeaderNoHint:
		e = &errorpb.Error{NotLeader: &errorpb.NotLeader{RegionId: regionID}}
	case aNotLeaderNext:
		e = &errorpb.Error{NotLeader: &errorpb.NotLeader{RegionId: regionID, Leader: peers[(idx+1)%len(peers)]}}
	case aNotLeaderPrev:
		e = &errorpb.Error{NotLeader: &errorpb.NotLeader{RegionId: regionID, Leader: peers[(idx+len(peers)-1)%len(peers)]}}
	case aNotLeaderUnknownPeer:
		e = &errorpb.Error{NotLeader: &errorpb.NotLeader{RegionId: regionID, Leader: &metapb.Peer{Id: 99, StoreId: strangerID}}}
	case aEpochNotMatchEmpty:
		e = &errorpb.Error{EpochNotMatch: &errorpb.EpochNotMatch{}}
	case aEpochNotMatchNewer:
		e = &errorpb.Error{EpochNotMatch: &errorpb.EpochNotMatch{CurrentRegions: []*metapb.Region{{Id: regionID, Peers: peers,
			RegionEpoch: &metapb.RegionEpoch{ConfVer: curEpoch.ConfVer, Version: curEpoch.Version + 1}}}}}
	case aEpochNotMatchOlder:
		v := curEpoch.Version
		if v > 0 {
			v--
		}
		e = &errorpb.Error{EpochNotMatch: &errorpb.EpochNotMatch{CurrentRegions: []*metapb.Region{{Id: regionID, Peers: peers,
			RegionEpoch: &metapb.RegionEpoch{ConfVer: curEpoch.ConfVer, Version: v}}}}}
	case aRegionNotFound:
		e = &errorpb.Error{RegionNotFound: &errorpb.RegionNotFound{RegionId: regionID}}
	case aServerBusy:
		e = &errorpb.Error{ServerIsBusy: &errorpb.ServerIsBusy{Reason: "c10 busy"}}
	case aServerBusyWait:
		// one minute: far above any busy threshold for the whole (microseconds long) run
		e = &errorpb.Error{ServerIsBusy: &errorpb.ServerIsBusy{Reason: "c10 busy", EstimatedWaitMs: 60000}}
	case aServerBusyDeadline:
		e = &errorpb.Error{ServerIsBusy: &errorpb.ServerIsBusy{Reason: "deadline is exceeded"}}
	case aDeadlineMsg:
		e = &errorpb.Error{Message: "Deadline is exceeded"}
	case aStaleCommand:
		e = &errorpb.Error{StaleCommand: &errorpb.StaleCommand{}}
	case aStoreNotMatch:
		e = &errorpb.Error{StoreNotMatch: &errorpb.StoreNotMatch{RequestStoreId: tStore, ActualStoreId: strangerID}}
	case aDataIsNotReady:
		e = &errorpb.Error{DataIsNotReady: &errorpb.DataIsNotReady{RegionId: regionID, PeerId: peers[idx].Id, SafeTs: 1}}
	case aMaxTsNotSynced:
		e = &errorpb.Error{MaxTimestampNotSynced: &errorpb.MaxTimestampNotSynced{}}
	case aDiskFull:
		e = &errorpb.Error{DiskFull: &errorpb.DiskFull{StoreId: []uint64{tStore}, Reason: "c10 full"}}
	case aUnknownErr:
		e = &errorpb.Error{Message: "c10: something the client has never heard of"}
	case aReadIndexNotReady:
		e = &errorpb.Error{ReadIndexNotReady: &errorpb.ReadIndexNotReady{RegionId: regionID}}
	case aProposalInMerging:
		e = &errorpb.Error{ProposalInMergingMode: &errorpb.ProposalInMergingMode{RegionId: regionID}}
	case aRaftEntryTooLarge:
		e = &errorpb.Error{RaftEntryTooLarge: &errorpb.RaftEntryTooLarge{RegionId: regionID, EntrySize: 1 << 30}}
	case aKeyNotInRegion:
		e = &errorpb.Error{KeyNotInRegion: &errorpb.KeyNotInRegion{RegionId: regionID, Key: []byte("k")}}
	case aFlashbackInProgress:
		e = &errorpb.Error{FlashbackInProgress: &errorpb.FlashbackInProgress{RegionId: regionID, FlashbackStartTs: 5}}
	case aRegionNotInitialized:
		e = &errorpb.Error{RegionNotInitialized: &errorpb.RegionNotInitialized{RegionId: regionID}}
	case aRecoveryInProgress:
		e = &errorpb.Error{RecoveryInProgress: &errorpb.RecoveryInProgress{RegionId: regionID}}
	case aIsWitness:
		e = &errorpb.Error{IsWitness: &errorpb.IsWitness{RegionId: regionID}}
	case aMismatchPeerID:
		e = &errorpb.Error{MismatchPeerId: &errorpb.MismatchPeerId{RequestPeerId: peers[idx].Id, StorePeerId: 98}}
	case aUndetermined:
		e = &errorpb.Error{UndeterminedResult: &errorpb.UndeterminedResult{}}
	case aBucketVersionNotMatch:
		e = &errorpb.Error{BucketVersionNotMatch: &errorpb.BucketVersionNotMatch{Version: 1}}
	case aFlashbackNotPrepared:
		e = &errorpb.Error{FlashbackNotPrepared: &errorpb.FlashbackNotPrepared{RegionId: regionID}}
	default:
		panic(fmt.Sprintf("no response for answer %d", a))
	}
	if e.Message == "" {
		e.Message = "c10 scripted " + a.String()
	}
	return tikvrpc.GenRegionErrorResp(req, e)
}

// ---------- building and running one case ----------

type result struct {
	id        caseID
	attempts  []attempt
	resp      *tikvrpc.Response
	rpcCtx    *locate.RPCContext
	err       error
	panicked  any
	capped    *capExceeded
	maxFast   int
	sleep     int
	sleepBy   map[string]int
	validator *tsValidator
	selector  string
	setupErr  string
	// asynchronous path only
	asyncAddr       string
	asyncNoCallback bool
	asyncSends      int
	// earlier call (config.Pre)
	preAttempts []attempt
	preOutcome  string // how the earlier call ended
	preProxy    int    // the region's remembered proxy (access index) when the judged call starts; -1 none
}

// inlineExec is the async.Executor of the asynchronous path (see run).
type inlineExec struct{ q []func() }

func (e *inlineExec) Go(f func())         { f() }
func (e *inlineExec) Append(fs ...func()) { e.q = append(e.q, fs...) }
func (e *inlineExec) drain() {
	for len(e.q) > 0 {
		f := e.q[0]
		e.q = e.q[1:]
		f()
	}
}

type world struct {
	clusters map[string]*mocktikv.Cluster
}

func newWorld() *world {
	return &world{clusters: map[string]*mocktikv.Cluster{"3v": newCluster("3v"), "2v1l": newCluster("2v1l")}}
}

func buildRequest(cfg config) (*tikvrpc.Request, []locate.StoreSelectorOption, time.Duration) {
	ts := cfg.tsValue()
	var req *tikvrpc.Request
	timeout := client.ReadTimeoutShort
	if strings.HasPrefix(cfg.Cmd, "cmd:") {
		e := cfg.entry()
		if e == nil {
			panic("bad cmd " + cfg.Cmd)
		}
		req = e.build(ts)
	}
	switch cfg.Cmd {
	case "get":
		req = tikvrpc.NewRequest(tikvrpc.CmdGet, &kvrpcpb.GetRequest{Key: []byte("k"), Version: ts})
	case "get-short":
		req = tikvrpc.NewRequest(tikvrpc.CmdGet, &kvrpcpb.GetRequest{Key: []byte("k"), Version: ts})
		timeout = 500 * time.Millisecond
	case "batchget":
		req = tikvrpc.NewRequest(tikvrpc.CmdBatchGet, &kvrpcpb.BatchGetRequest{Keys: [][]byte{[]byte("k")}, Version: ts})
	case "prewrite":
		req = tikvrpc.NewRequest(tikvrpc.CmdPrewrite, &kvrpcpb.PrewriteRequest{
			Mutations:   []*kvrpcpb.Mutation{{Op: kvrpcpb.Op_Put, Key: []byte("k"), Value: []byte("v")}},
			PrimaryLock: []byte("k"), StartVersion: ts, LockTtl: 3000})
	case "commit-short":
		req = tikvrpc.NewRequest(tikvrpc.CmdCommit, &kvrpcpb.CommitRequest{StartVersion: ts, Keys: [][]byte{[]byte("k")}, CommitVersion: ts + 1})
		timeout = 500 * time.Millisecond
	default:
		if req == nil {
			panic("bad cmd " + cfg.Cmd)
		}
	}
	switch cfg.Mode {
	case "leader":
	case "leader-busy":
		req.BusyThresholdMs = 100
	case "follower":
		req.SetReplicaReadType(kv.ReplicaReadFollower)
	case "mixed":
		req.SetReplicaReadType(kv.ReplicaReadMixed)
	case "learner":
		req.SetReplicaReadType(kv.ReplicaReadLearner)
	case "prefer-leader":
		req.SetReplicaReadType(kv.ReplicaReadPreferLeader)
	case "stale":
		req.EnableStaleWithMixedReplicaRead()
		req.ReadReplicaScope = oracle.GlobalTxnScope
		req.TxnScope = oracle.GlobalTxnScope
	default:
		panic("bad mode " + cfg.Mode)
	}
	var opts []locate.StoreSelectorOption
	switch cfg.Opt {
	case "none":
	case "label-s2":
		opts = append(opts, locate.WithMatchLabels([]*metapb.StoreLabel{{Key: "zone", Value: "z2"}}))
	case "label-s1":
		opts = append(opts, locate.WithMatchLabels([]*metapb.StoreLabel{{Key: "zone", Value: "z1"}}))
	case "label-nomatch":
		opts = append(opts, locate.WithMatchLabels([]*metapb.StoreLabel{{Key: "zone", Value: "nowhere"}}))
	case "leader-only":
		opts = append(opts, locate.WithLeaderOnly())
	case "stores-s3":
		opts = append(opts, locate.WithMatchStores([]uint64{3}))
	default:
		panic("bad opt " + cfg.Opt)
	}
	return req, opts, timeout
}

func livenessOf(cfg config) (probe map[uint64]uint32, cached map[uint64]uint32) {
	probe, cached = map[uint64]uint32{}, map[uint64]uint32{}
	un := locate.VerifC10Unreachable
	switch cfg.Live {
	case "all":
	case "leader-down":
		probe[leaderSID] = un
	case "leader-down-known":
		probe[leaderSID], cached[leaderSID] = un, un
	case "s2-down":
		probe[2] = un
	case "s2-down-known":
		probe[2], cached[2] = un, un
	case "s3-down-known":
		probe[3], cached[3] = un, un
	case "all-down":
		probe[1], probe[2], probe[3] = un, un, un
	case "leader-unknown":
		probe[leaderSID] = locate.VerifC10Unknown
	default:
		panic("bad live " + cfg.Live)
	}
	return
}

var wantSelectorString bool // replay only

func (w *world) run(id caseID, fastCap, hardCap int) (res *result) {
	cfg := id.Cfg
	res = &result{id: id}
	script := make([]answer, len(id.Script))
	for i, s := range id.Script {
		a, ok := answerByName(s)
		if !ok {
			res.setupErr = "unknown answer " + s
			return
		}
		script[i] = a
	}
	pd := locate.NewCodecPDClient(apicodec.ModeTxn, mocktikv.NewPDClient(w.clusters[cfg.Topo]))
	cache := locate.NewRegionCache(pd, locate.RegionCacheNoHealthTick)
	loc, err := cache.LocateKey(retry.NewBackoffer(context.Background(), 1000), []byte("k"))
	// Stop the background tickers (store re-resolve, cache GC ...): they work on a seconds scale and
	// would only add scheduling noise to a call that lasts microseconds. The request path never needs them.
	cache.Close()
	if err != nil {
		res.setupErr = "LocateKey: " + err.Error()
		return
	}
	probe, cached := livenessOf(cfg)
	cache.VerifC10SetLivenessProbe(func(storeID uint64) uint32 { return probe[storeID] })
	for s, l := range cached {
		if !cache.VerifC10SetCachedLiveness(s, l) {
			res.setupErr = "store not cached"
			return
		}
	}
	switch cfg.Slow {
	case "s2":
		cache.VerifC10MarkSlow(2)
	case "leader":
		cache.VerifC10MarkSlow(leaderSID)
	}
	cache.VerifC10SetForwarding(cfg.Fwd)

	res.preProxy = -1
	if cfg.Pre != "" {
		if !w.earlierCall(cfg, cache, loc.Region, res, fastCap, hardCap) {
			return
		}
	}

	bo := retry.NewBackoffer(context.Background(), cfg.Budget)
	cl := &scriptClient{cfg: cfg, script: script, tail: id.Tail, bo: bo, fastCap: fastCap, hardCap: hardCap}
	res.validator = &tsValidator{}
	var validator oracle.ReadTSValidator = res.validator
	if cfg.TS == "future-novalidate" {
		validator = oracle.NoopReadTSValidator{}
	}
	sender := locate.NewRegionRequestSender(cache, cl, validator)
	req, opts, timeout := buildRequest(cfg)

	func() {
		defer func() {
			if p := recover(); p != nil {
				if ce, ok := p.(capExceeded); ok {
					res.capped = &ce
				} else {
					res.panicked = p
				}
			}
		}()
		if cfg.path() == "async" {
			// The executor runs everything on this goroutine: Go(f) runs f at once (one of the schedules a
			// pool may choose), scheduled callbacks are queued and drained after SendReqAsync returned. So a
			// panic of the code under test and the harness's caps surface here, and the run is deterministic.
			ex := &inlineExec{}
			done := false
			sender.SendReqAsync(bo, req, loc.Region, timeout, async.NewCallback(ex, func(r *tikvrpc.ResponseExt, e error) {
				done = true
				res.err = e
				if r != nil {
					res.resp, res.asyncAddr = &r.Response, r.Addr
				}
			}), opts...)
			ex.drain()
			res.asyncNoCallback = !done
			return
		}
		res.resp, res.rpcCtx, _, res.err = sender.SendReqCtx(bo, req, loc.Region, timeout, tikvrpc.TiKV, opts...)
	}()
	res.asyncSends = cl.asyncSends
	res.attempts = cl.attempts
	res.maxFast = cl.maxFast
	res.sleep = bo.GetTotalSleep()
	res.sleepBy = bo.GetBackoffSleepMS()
	if wantSelectorString {
		res.selector = sender.VerifC10SelectorString()
	}
	return
}

// earlierCall runs the call that precedes the judged one on the same region cache (config.Pre): a plain
// leader-read Get through a sender of its own, with a generous budget; the stores answer the faults of
// cfg.Pre by position and genuinely afterwards. The call is not judged (the same call is a case of part
// "main"); it only brings the cache into the state a real client is in after a forwarded request: leader
// store known unreachable, proxy remembered in the region (regionStore.proxyTiKVIdx). What it left behind
// is measured (res.preOutcome, res.preProxy) and is part of the case identity through cfg.Pre.
func (w *world) earlierCall(cfg config, cache *locate.RegionCache, region locate.RegionVerID, res *result, fastCap, hardCap int) (ok bool) {
	var script []answer
	if cfg.Pre != "ok" {
		for _, s := range strings.Split(cfg.Pre, ",") {
			a, found := answerByName(s)
			if !found {
				res.setupErr = "unknown answer in the earlier call: " + s
				return false
			}
			script = append(script, a)
		}
	}
	pcfg := config{Topo: cfg.Topo, Mode: "leader", Opt: "none", Cmd: "get", Live: cfg.Live, Fwd: cfg.Fwd, TS: "valid", Budget: 20000, Slow: cfg.Slow, Rnd: cfg.Rnd}
	bo := retry.NewBackoffer(context.Background(), pcfg.Budget)
	cl := &scriptClient{cfg: pcfg, script: script, tail: tailSuccess, bo: bo, fastCap: fastCap, hardCap: hardCap}
	sender := locate.NewRegionRequestSender(cache, cl, oracle.NoopReadTSValidator{})
	req, opts, timeout := buildRequest(pcfg)
	var resp *tikvrpc.Response
	var err error
	func() {
		defer func() {
			if p := recover(); p != nil {
				err = errors.Errorf("earlier call aborted: %v", p)
			}
		}()
		resp, _, _, err = sender.SendReqCtx(bo, req, region, timeout, tikvrpc.TiKV, opts...)
	}()
	res.preAttempts = cl.attempts
	n := len(cl.attempts)
	switch {
	case err != nil:
		res.preOutcome = "error"
	case resp == nil:
		res.preOutcome = "nil"
	default:
		if re, e := resp.GetRegionError(); e != nil || re != nil {
			res.preOutcome = "region-error"
		} else if n > 0 && cl.attempts[n-1].genuineOK && cl.attempts[n-1].Forwarded != "" {
			res.preOutcome = "success/forwarded-via-" + cl.attempts[n-1].Addr
		} else {
			res.preOutcome = "success/direct"
		}
	}
	res.preProxy = cache.VerifC10ProxyIdx(region)
	return true
}

func errClass(err error) string {
	msg := errors.Cause(err).Error()
	if i := strings.IndexAny(msg, ":,\n"); i > 0 {
		msg = msg[:i]
	}
	out := make([]byte, 0, len(msg))
	for i := 0; i < len(msg) && len(out) < 48; i++ {
		ch := msg[i]
		if ch >= '0' && ch <= '9' {
			if len(out) > 0 && out[len(out)-1] == '#' {
				continue
			}
			ch = '#'
		}
		out = append(out, ch)
	}
	return string(out)
}

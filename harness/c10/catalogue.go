package main

// The catalogue of commands that carry a timestamp, discovered from the request types.
//
// Nothing here reads internal/locate: the set of "reads that carry a read timestamp" must not depend on
// the list inside RegionRequestSender.validateReadTS, which is the code under test.
//
//   - every CmdType value with a name is tried with every message type that an accessor of
//     *tikvrpc.Request returns (req.Get(), req.ScanLock(), ...);
//   - a (command, message type, uint64 field) triple "carries the timestamp" when setting only that field
//     to a marker makes req.GetStartTS() return the marker (GetStartTS type-asserts through the accessor,
//     so a wrong message type panics and is rejected);
//   - the command is a write when req.IsTxnWriteRequest() or req.IsRawWriteRequest() says so;
//   - a READ WITH A READ TIMESTAMP is every timestamp carrying command that is not a write and is not in
//     the (explained) exclusion table below. A command that is added to tikvrpc later is therefore in the
//     set by default.
//
// Floor: the commands the original validateReadTS listed (recorded here with their message type and
// field). The harness's set is always a superset of the floor, even if discovery loses one of them (for
// example because GetStartTS lost a case): such a command is then built from the floor entry.

import (
	"fmt"
	"reflect"
	"runtime"
	"sort"

	"github.com/pingcap/kvproto/pkg/coprocessor"
	"github.com/pingcap/kvproto/pkg/errorpb"
	"github.com/pingcap/kvproto/pkg/kvrpcpb"
	"github.com/tikv/client-go/v2/tikvrpc"
)

type cmdEntry struct {
	Cmd         tikvrpc.CmdType
	Name        string
	ReqT        reflect.Type // pointer to the message struct
	Field       string       // the uint64 field that GetStartTS reads
	fieldIdx    int
	Write       bool
	Excluded    string // non-empty: why a non-write timestamp carrier is not a read with a read timestamp
	Floor       bool   // listed by the original validateReadTS
	FromFloor   bool   // discovery did not find it; built from the floor entry
	RegionErrOK bool   // tikvrpc.GenRegionErrorResp can express a region error for it
}

// isRead: the read-timestamp clause of the property applies to the command.
func (e *cmdEntry) isRead() bool { return !e.Write && e.Excluded == "" }

// notReadTS: non-write commands whose timestamp field is not a read timestamp.
var notReadTS = map[string]string{
	"MvccGetByStartTS": "debug lookup: start_ts is the search key that identifies a transaction, nothing is read at that timestamp",
}

type floorEntry struct {
	name  string
	msg   any
	field string
}

// readTSFloor: the case list of RegionRequestSender.validateReadTS at the time the property was written.
var readTSFloor = []floorEntry{
	{"Get", &kvrpcpb.GetRequest{}, "Version"},
	{"Scan", &kvrpcpb.ScanRequest{}, "Version"},
	{"BatchGet", &kvrpcpb.BatchGetRequest{}, "Version"},
	{"Cop", &coprocessor.Request{}, "StartTs"},
	{"CopStream", &coprocessor.Request{}, "StartTs"},
	{"BatchCop", &coprocessor.BatchRequest{}, "StartTs"},
	{"ScanLock", &kvrpcpb.ScanLockRequest{}, "MaxVersion"},
	{"BufferBatchGet", &kvrpcpb.BufferBatchGetRequest{}, "Version"},
}

type protoMsg interface{ ProtoMessage() }

var protoMsgT = reflect.TypeOf((*protoMsg)(nil)).Elem()

// typeAsserts reports whether f panics with a failed type assertion.
func typeAsserts(f func()) (yes bool) {
	defer func() {
		if p := recover(); p != nil {
			_, yes = p.(*runtime.TypeAssertionError)
		}
	}()
	f()
	return false
}

// accessorTypes: result types of the niladic accessors declared on *tikvrpc.Request itself (methods
// promoted from the embedded kvrpcpb.Context are not accessors of Req).
func accessorTypes() []reflect.Type {
	rt := reflect.TypeOf(&tikvrpc.Request{})
	ct := reflect.TypeOf(&kvrpcpb.Context{})
	seen := map[reflect.Type]bool{}
	var out []reflect.Type
	for i := 0; i < rt.NumMethod(); i++ {
		m := rt.Method(i)
		if _, promoted := ct.MethodByName(m.Name); promoted {
			continue
		}
		if m.Type.NumIn() != 1 || m.Type.NumOut() != 1 {
			continue
		}
		o := m.Type.Out(0)
		if o.Kind() != reflect.Ptr || o.Elem().Kind() != reflect.Struct || !o.Implements(protoMsgT) || seen[o] {
			continue
		}
		seen[o] = true
		out = append(out, o)
	}
	sort.Slice(out, func(i, j int) bool { return out[i].String() < out[j].String() })
	return out
}

const tsMarker = uint64(0x5EED0C10)

type catalogueT struct {
	byName   map[string]*cmdEntry
	byCmd    map[tikvrpc.CmdType]*cmdEntry
	carriers []*cmdEntry // every timestamp carrying command, CmdType order
	reads    []*cmdEntry // the reads with a read timestamp
	problems []string
	named    int // CmdType values with a name
}

func discover() *catalogueT {
	cat := &catalogueT{byName: map[string]*cmdEntry{}, byCmd: map[tikvrpc.CmdType]*cmdEntry{}}
	cands := accessorTypes()
	unknown := tikvrpc.CmdType(4095).String()
	nameToCmd := map[string]tikvrpc.CmdType{}
	for c := 0; c < 4096; c++ {
		cmd := tikvrpc.CmdType(c)
		name := cmd.String()
		if name == unknown {
			continue
		}
		cat.named++
		if _, dup := nameToCmd[name]; dup {
			cat.problems = append(cat.problems, fmt.Sprintf("CmdType %d shares the name %s with another value", c, name))
			continue
		}
		nameToCmd[name] = cmd
		var found []*cmdEntry
		for _, t := range cands {
			if typeAsserts(func() { tikvrpc.NewRequest(cmd, reflect.New(t.Elem()).Interface()).GetStartTS() }) {
				continue
			}
			for i := 0; i < t.Elem().NumField(); i++ {
				f := t.Elem().Field(i)
				if f.Type.Kind() != reflect.Uint64 || !f.IsExported() {
					continue
				}
				msg := reflect.New(t.Elem())
				msg.Elem().Field(i).SetUint(tsMarker)
				if tikvrpc.NewRequest(cmd, msg.Interface()).GetStartTS() == tsMarker {
					found = append(found, &cmdEntry{Cmd: cmd, Name: name, ReqT: t, Field: f.Name, fieldIdx: i})
				}
			}
		}
		if len(found) == 0 {
			continue
		}
		if len(found) > 1 {
			cat.problems = append(cat.problems, fmt.Sprintf("command %s: timestamp field not unique (%d candidates); using %s.%s", name, len(found), found[0].ReqT, found[0].Field))
		}
		e := found[0]
		probe := tikvrpc.NewRequest(cmd, reflect.New(e.ReqT.Elem()).Interface())
		e.Write = probe.IsTxnWriteRequest() || probe.IsRawWriteRequest()
		if !e.Write {
			e.Excluded = notReadTS[name]
		}
		cat.byName[name], cat.byCmd[cmd] = e, e
		cat.carriers = append(cat.carriers, e)
	}
	// the floor
	for _, fl := range readTSFloor {
		e := cat.byName[fl.name]
		if e == nil {
			cmd, ok := nameToCmd[fl.name]
			if !ok {
				cat.problems = append(cat.problems, "floor command "+fl.name+" has no CmdType any more")
				continue
			}
			t := reflect.TypeOf(fl.msg)
			sf, ok := t.Elem().FieldByName(fl.field)
			if !ok || sf.Type.Kind() != reflect.Uint64 {
				cat.problems = append(cat.problems, "floor command "+fl.name+": field "+fl.field+" is gone")
				continue
			}
			e = &cmdEntry{Cmd: cmd, Name: fl.name, ReqT: t, Field: fl.field, fieldIdx: sf.Index[0], FromFloor: true}
			cat.byName[fl.name], cat.byCmd[cmd] = e, e
			cat.carriers = append(cat.carriers, e)
			cat.problems = append(cat.problems, "floor command "+fl.name+": GetStartTS does not return its "+fl.field+" field; built from the floor entry")
		} else if e.ReqT != reflect.TypeOf(fl.msg) || e.Field != fl.field {
			cat.problems = append(cat.problems, fmt.Sprintf("floor command %s: discovered %s.%s, floor says %s.%s", fl.name, e.ReqT, e.Field, reflect.TypeOf(fl.msg), fl.field))
		}
		e.Floor = true
		e.Write, e.Excluded = false, "" // superset: a floor command is always a read with a read timestamp
	}
	sort.Slice(cat.carriers, func(i, j int) bool { return cat.carriers[i].Cmd < cat.carriers[j].Cmd })
	for _, e := range cat.carriers {
		req := tikvrpc.NewRequest(e.Cmd, reflect.New(e.ReqT.Elem()).Interface())
		func() {
			defer func() { recover() }()
			resp, err := tikvrpc.GenRegionErrorResp(req, &errorpb.Error{Message: "probe"})
			e.RegionErrOK = err == nil && resp != nil && resp.Resp != nil
		}()
		if e.isRead() {
			cat.reads = append(cat.reads, e)
		}
	}
	return cat
}

var catalogue = discover()

func entryNames(es []*cmdEntry) []string {
	out := make([]string, len(es))
	for i, e := range es {
		out[i] = e.Name
	}
	return out
}

// build makes a request of the command whose timestamp field holds ts.
func (e *cmdEntry) build(ts uint64) *tikvrpc.Request {
	msg := reflect.New(e.ReqT.Elem())
	msg.Elem().Field(e.fieldIdx).SetUint(ts)
	return tikvrpc.NewRequest(e.Cmd, msg.Interface())
}

// tsOnWire reads the timestamp field of the message that is being sent.
func (e *cmdEntry) tsOnWire(req *tikvrpc.Request) uint64 {
	v := reflect.ValueOf(req.Req)
	if v.Type() != e.ReqT || v.IsNil() {
		return 0
	}
	return v.Elem().Field(e.fieldIdx).Uint()
}

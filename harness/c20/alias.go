// Part "alias" of the C20 harness: independence of a back-offer, its clones and
// its forks.
//
// "Cloned and forked back-offers start from the parent's accounting, and
// merging a fork back never loses or double-counts sleep time" implies that a
// derived back-offer is a COPY: what a clone does afterwards never changes what
// its source or a sibling reports, and vice versa. A Backoffer keeps slices and
// maps (the list of configs it saw, per-kind sleep and times maps, the ring of
// errors); a derived back-offer that shares one of them with its source looks
// right until the wrong one of them writes. Whether a shared slice is written
// in place or re-allocated depends on its spare capacity, i.e. on HOW MANY
// back-offs the source made before and on HOW the source itself came to be
// (append growth 1,2,4,8,16 of a directly used back-offer; the exact-size copy
// of Fork/Clone rounded up to the allocator's size class; the slice adopted
// from a merged fork). The breadth-first suites never get there: they stop at
// depth 5..8 and their reference mirrors the configs list as a set.
//
// This part enumerates PROGRAMS (no deduplication at all: the implementation
// state that matters here - lengths and capacities - is not part of the
// reference, so every program is executed):
//
//	source   n prior back-offs (n = 0..9; thorough also 10, 11, 12, 16, 17 with the quick step families: the growth steps 1,2,4,8,16,32 of a list
//	         that is appended to, and the size classes 1,2,3,4,6,8,10,12,.. of an exact-size copy) of 1 or 3
//	         different kinds (round robin), made
//	           direct   : on the root back-offer, which is the source
//	           fork     : on the root; the source is a Fork() of it
//	           fork-mid : half on the root, then Fork(), the rest on the fork = the source
//	           merged   : half on the root, Fork(), rest on the fork, root.UpdateUsingForked(fork); source = root
//	derived  TWO back-offers D1, D2 taken from the source S:
//	           clone+clone, fork+clone-of-fork, clone+clone-of-clone, fork+fork, clone+fork, fork+fork-of-fork
//	         D2 is taken together with D1, or (when it is derived from D1) only right before its own first step
//	steps    families of step sequences (aliasBoundsFor): every interleaving of a back-offs of D1, b of D2
//	         (a, b = 1..2; thorough 1..3 with a+b <= 5) and s (0 or 1) of S, every step on every kind of the step alphabet: the
//	         kind the source already used and two new kinds of different magnitude (thorough: also the
//	         budget-excluded kind; its longest sequences use the old and one new kind only)
//	budget   exactly the non-excluded total that D1 / D2 / S (if it steps) has after its last step, so that
//	         this back-offer is exhausted from then on while the others go on
//	ending   UpdateUsingForked(D1) or (D2) into its parent if it has one (thorough: also into the top of its parent
//	         chain), then one more back-off of the receiver and of the other derived back-offer
//
// Observation, after EVERY operation: the complete observation set of every
// live back-offer (GetTotalSleep, GetTotalBackoffTimes, ErrorsNum,
// GetBackoffSleepMS, GetBackoffTimes, GetTypes), and for every live back-offer
// that is exhausted according to the reference one more Backoff call (a
// "probe": it must be refused without sleeping and report the error of the
// kind with the largest accumulated sleep of THAT back-offer; a refused call
// changes nothing, so probing is an observation; no probes behind an operation
// of the program that was itself a refused call, except at the end).
//
// Oracle: the reference accountant of ref.go, in which Clone / Fork copy the
// counters by value (deep-copy semantics) and UpdateUsingForked copies the
// fork's counters into the receiver. On top of check() of world.go:
//   - GetTypes lists one entry per recorded back-off: per kind at least as many
//     as this back-offer recorded or inherited (its GetBackoffTimes), at most
//     those plus the ones of the back-offers on its parent chain (documented:
//     "type list of this backoff and all its ancestors");
//   - an operation on one back-offer changes no observation of any other one
//     (except GetTypes of back-offers that have the actor on their parent chain).
package main

import (
	"encoding/json"
	"fmt"
	"os"
	"runtime"
	"sort"
	"strings"
	"sync"
	"sync/atomic"
	"time"
)

const (
	viaDirect uint8 = iota
	viaFork
	viaForkMid
	viaMerged
)

var viaNames = []string{"direct", "fork", "fork-mid", "merged"}

const (
	shCC   uint8 = iota // D1 = S.Clone(),  D2 = S.Clone()
	shFC                // D1 = S.Fork(),   D2 = D1.Clone()
	shCofC              // D1 = S.Clone(),  D2 = D1.Clone()
	shFF                // D1 = S.Fork(),   D2 = S.Fork()
	shCF                // D1 = S.Clone(),  D2 = S.Fork()
	shFofF              // D1 = S.Fork(),   D2 = D1.Fork()
)

var shapeNames = []string{"clone+clone", "fork+clone-of-fork", "clone+clone-of-clone", "fork+fork", "clone+fork", "fork+fork-of-fork"}

// kinds of the prior back-offs (all NoJitter, base 2: small amounts, three different errors)
var aliasOldKinds = []string{"regionMiss", "staleCommand", "maxTsNotSynced"}

// step alphabet: index 0 is a kind the source already used (for n >= 1), 1 and 2 are new kinds of
// different magnitude (first sleep 50..99ms / 250..499ms), 3 is the budget-excluded kind
var aliasStepKinds = []string{"regionMiss", "tikvRPC", "pdRPC", "tikvServerBusy"}

const (
	actS uint8 = iota
	actD1
	actD2
)

type aliasStep struct{ Actor, Kind uint8 }

type aliasBase struct {
	N     int
	Pat   int // number of different kinds among the prior back-offs (1..3)
	Via   uint8
	Shape uint8
	Late  bool
	Jit   uint8
	// basicOnly: only the step sequences of the first nBasic families (the ones of the quick tier)
	basicOnly bool
}

func (b aliasBase) String() string {
	late := ""
	if b.Late {
		late = ", D2 taken right before its first step"
	}
	return fmt.Sprintf("source with %d prior back-offs of %d kind(s) (%s), %s%s, jitter %s", b.N, b.Pat, viaNames[b.Via], shapeNames[b.Shape], late, []string{"min", "max"}[b.Jit])
}

type aliasBounds struct {
	priors      []int
	priorsBasic []int // further values of n that are run with the first nBasic families only
	nBasic      int
	patterns    []int
	vias        []uint8
	shapes      []uint8
	lates       []bool
	jits        []uint8
	families    []seqFamily
	farMerge    bool
	// quick: "D2 taken right before its first step" only for the pairs in which D2 is derived from D1 (there it inherits D1's steps)
	lateOnlyChained bool
}

func aliasBoundsFor(thorough bool) aliasBounds {
	all := func(n int) []int {
		var l []int
		for i := 0; i <= n; i++ {
			l = append(l, i)
		}
		return l
	}
	b := aliasBounds{
		priors: all(9), patterns: []int{1, 3},
		vias:   []uint8{viaDirect, viaFork, viaForkMid, viaMerged},
		shapes: []uint8{shCC, shFC, shCofC, shFF, shCF, shFofF},
		lates:  []bool{false, true}, jits: []uint8{jitMax},
		families:        []seqFamily{{s: 0, maxAB: 2, nk: 3}, {s: 1, maxAB: 1, nk: 3}},
		nBasic:          2,
		lateOnlyChained: true,
	}
	if thorough {
		b.priorsBasic = []int{10, 11, 12, 16, 17} // 16 -> 17: the next growth of a directly used back-offer's list
		b.farMerge = true
		b.families = append(b.families,
			seqFamily{s: 0, maxAB: 3, nk: 2, maxSum: 5}, // longer runs of each derived back-offer: the old kind and one new kind
			seqFamily{s: 1, maxAB: 2, nk: 2},            // the source steps in between
			seqFamily{s: 0, maxAB: 2, nk: 4, needExcl: true})
	}
	return b
}

func aliasBases(ab aliasBounds) (out []aliasBase) {
	for pi, n := range append(append([]int(nil), ab.priors...), ab.priorsBasic...) {
		for _, pat := range ab.patterns {
			if pat > max(n, 1) {
				continue // fewer back-offs than kinds: the same program as with fewer kinds
			}
			for _, via := range ab.vias {
				if via == viaForkMid && n <= 1 {
					continue // nothing left for the fork to do: the same program as via fork
				}
				for _, sh := range ab.shapes {
					for _, late := range ab.lates {
						if late && ab.lateOnlyChained && sh != shFC && sh != shCofC && sh != shFofF {
							continue
						}
						for _, j := range ab.jits {
							out = append(out, aliasBase{N: n, Pat: pat, Via: via, Shape: sh, Late: late, Jit: j, basicOnly: pi >= len(ab.priors)})
						}
					}
				}
			}
		}
	}
	return
}

// seqFamily is one block of step sequences: every interleaving of a steps of D1, b steps of D2 (a, b = 1..maxAB)
// and exactly s steps of S, every step on every one of the first nk kinds of the step alphabet.
type seqFamily struct {
	s, maxAB, nk int
	maxSum       int  // 0: none; otherwise a + b <= maxSum
	needExcl     bool // only the sequences that use the budget-excluded kind (the others are in another family)
}

func (f seqFamily) String() string {
	x := ""
	if f.needExcl {
		x = " (sequences with the excluded kind)"
	}
	if f.maxSum > 0 {
		x += fmt.Sprintf(" D1+D2<=%d", f.maxSum)
	}
	return fmt.Sprintf("S:%d D1,D2:1..%d kinds:%d%s", f.s, f.maxAB, f.nk, x)
}

// aliasSeqs lists the step sequences of all families without repetition, shortest first.
func aliasSeqs(fams []seqFamily) (out [][]aliasStep) {
	var cur []aliasStep
	seen := map[string]bool{}
	var rec func(left [3]int, nk int, needExcl bool)
	rec = func(left [3]int, nk int, needExcl bool) {
		if left[0]+left[1]+left[2] == 0 {
			if needExcl {
				has := false
				for _, s := range cur {
					has = has || s.Kind == 3
				}
				if !has {
					return
				}
			}
			key := make([]byte, 0, len(cur))
			for _, s := range cur {
				key = append(key, s.Actor*8+s.Kind)
			}
			if seen[string(key)] {
				return
			}
			seen[string(key)] = true
			out = append(out, append([]aliasStep(nil), cur...))
			return
		}
		for a := uint8(0); a < 3; a++ {
			if left[a] == 0 {
				continue
			}
			left[a]--
			for k := 0; k < nk; k++ {
				cur = append(cur, aliasStep{a, uint8(k)})
				rec(left, nk, needExcl)
				cur = cur[:len(cur)-1]
			}
			left[a]++
		}
	}
	for _, f := range fams {
		for a := 1; a <= f.maxAB; a++ {
			for b := 1; b <= f.maxAB; b++ {
				if f.maxSum > 0 && a+b > f.maxSum {
					continue
				}
				rec([3]int{f.s, a, b}, f.nk, f.needExcl)
			}
		}
	}
	sort.SliceStable(out, func(i, j int) bool { return len(out[i]) < len(out[j]) })
	return
}

// aliasCore is a program without its ending.
type aliasCore struct {
	ops        []op
	slot       [3]int // slots of S, D1, D2
	deriveFrom int    // index of the first derive operation
}

func boOp(slot int, kind string, jit uint8) op {
	return op{Code: opBackoff, Slot: uint8(slot), Kind: uint8(kindNamed(kind).id), Jit: jit, Max: -1}
}

// expand builds the operations of (base, sequence). ok is false when the
// combination is the same program as another one of the enumeration.
func (b aliasBase) expand(seq []aliasStep) (c aliasCore, ok bool) {
	if b.Late && seq[0].Actor == actD2 {
		return c, false // D2 is taken before the first step anyway
	}
	prior := func(slot, from, to int) {
		for i := from; i < to; i++ {
			c.ops = append(c.ops, boOp(slot, aliasOldKinds[i%b.Pat], jitMin))
		}
	}
	h := (b.N + 1) / 2
	next := 1
	switch b.Via {
	case viaDirect:
		prior(0, 0, b.N)
		c.slot[actS] = 0
	case viaFork:
		prior(0, 0, b.N)
		c.ops = append(c.ops, op{Code: opFork, Slot: 0})
		c.slot[actS], next = 1, 2
	case viaForkMid:
		prior(0, 0, h)
		c.ops = append(c.ops, op{Code: opFork, Slot: 0})
		prior(1, h, b.N)
		c.slot[actS], next = 1, 2
	case viaMerged:
		prior(0, 0, h)
		c.ops = append(c.ops, op{Code: opFork, Slot: 0})
		prior(1, h, b.N)
		c.ops = append(c.ops, op{Code: opUpdate, Slot: 0, Src: 1})
		c.slot[actS], next = 0, 2
	}
	c.deriveFrom = len(c.ops)
	s := c.slot[actS]
	c.slot[actD1], c.slot[actD2] = next, next+1
	d1 := c.slot[actD1]
	var derive1, derive2 op
	switch b.Shape {
	case shCC:
		derive1, derive2 = op{Code: opClone, Slot: uint8(s)}, op{Code: opClone, Slot: uint8(s)}
	case shFC:
		derive1, derive2 = op{Code: opFork, Slot: uint8(s)}, op{Code: opClone, Slot: uint8(d1)}
	case shCofC:
		derive1, derive2 = op{Code: opClone, Slot: uint8(s)}, op{Code: opClone, Slot: uint8(d1)}
	case shFF:
		derive1, derive2 = op{Code: opFork, Slot: uint8(s)}, op{Code: opFork, Slot: uint8(s)}
	case shCF:
		derive1, derive2 = op{Code: opClone, Slot: uint8(s)}, op{Code: opFork, Slot: uint8(s)}
	case shFofF:
		derive1, derive2 = op{Code: opFork, Slot: uint8(s)}, op{Code: opFork, Slot: uint8(d1)}
	}
	c.ops = append(c.ops, derive1)
	have2 := false
	if !b.Late {
		c.ops = append(c.ops, derive2)
		have2 = true
	}
	for _, st := range seq {
		if st.Actor == actD2 && !have2 {
			c.ops = append(c.ops, derive2)
			have2 = true
		}
		c.ops = append(c.ops, boOp(c.slot[st.Actor], aliasStepKinds[st.Kind], b.Jit))
	}
	return c, true
}

// ---------------------------------------------------------------------------
// execution of one program: linear, every operation judged
// ---------------------------------------------------------------------------

type aliasExec struct {
	e      *env
	shape  string
	budget int
	ops    []op
	trace  func(string)
	// index in ops of the first derive operation of D1 / D2: states after a back-off behind it are "non-trivial"
	deriveFrom int
	// filled by run
	fs        []finding
	fsPos     []int // number of executed operations (probes included) when the finding was made
	executed  int64
	probes    int64
	probesDef int64 // refused calls on a back-offer whose longest sleeper was recorded exactly once (a single entry names it)
	onState   func(h uint64, nontrivial bool)
	outc      map[outKey]int64
}

func (x *aliasExec) add(key, what string) {
	for _, f := range x.fs {
		if f.key == key {
			return
		}
	}
	x.fs = append(x.fs, finding{key: key, what: what})
	x.fsPos = append(x.fsPos, int(x.executed))
}

func aliasRel(src []int, x, m int) string {
	if m < 0 {
		return "nobody"
	}
	if x == m {
		return "itself"
	}
	for a := src[x]; a >= 0; a = src[a] {
		if a == m {
			return "its-source"
		}
	}
	for a := src[m]; a >= 0; a = src[a] {
		if a == x {
			return "its-derivative"
		}
	}
	return "sibling"
}

func sameStrings(a, b []string) bool {
	if len(a) != len(b) {
		return false
	}
	for i := range a {
		if a[i] != b[i] {
			return false
		}
	}
	return true
}

// typesOnly: findings that leave the counters of real and reference state in agreement
func typesOnly(key string) bool {
	return strings.Contains(key, "GetTypes")
}

// aliasExtra holds the checks of this part that check() of world.go does not make.
func aliasExtra(o op, aliveBefore []bool, pre, post []boObs, r *refState) (out []finding) {
	add := func(key, format string, a ...any) {
		out = append(out, finding{key: key, what: fmt.Sprintf(format, a...)})
	}
	actor := -1
	switch o.Code {
	case opBackoff, opLockFast, opCfgMax, opReset, opResetMax, opClone, opFork, opUpdate:
		actor = int(o.Slot)
	}
	for i := range post {
		if i >= len(r.bos) || !r.bos[i].alive {
			continue
		}
		// GetTypes: one entry per recorded back-off of this back-offer (inherited ones included) and of its parent chain
		var cnt [32]int
		for _, t := range post[i].Types {
			if k, known := kindByName[t]; known {
				cnt[k.id]++
			} else {
				add("GetTypes-lists-foreign-entry", "after %s b%d.GetTypes()=%v contains %q, which nobody backed off with", o, i, post[i].Types, t)
			}
		}
		for _, k := range kinds {
			lower := r.bos[i].times[k.id]
			upper := lower
			for p := r.bos[i].parent; p >= 0; p = r.bos[p].parent {
				upper += r.bos[p].times[k.id]
			}
			if got := cnt[k.id]; got < lower {
				add("GetTypes-misses-own-entry", "after %s b%d.GetTypes()=%v lists %s %d time(s), b%d recorded or inherited %d back-off(s) of that kind", o, i, post[i].Types, k.name, got, i, lower)
			} else if got > upper {
				add("GetTypes-lists-foreign-entry", "after %s b%d.GetTypes()=%v lists %s %d time(s), b%d and its parent chain recorded only %d", o, i, post[i].Types, k.name, got, i, upper)
			}
		}
		// nobody else changes
		if i == actor || i >= len(pre) || i >= len(aliveBefore) || !aliveBefore[i] {
			continue
		}
		p, q := pre[i], post[i]
		if p.Total != q.Total {
			add("bystander-changed:GetTotalSleep", "%s changed b%d.GetTotalSleep() from %d to %d", o, i, p.Total, q.Total)
		}
		if p.TotalTimes != q.TotalTimes || !sameMap(p.Times, q.Times) {
			add("bystander-changed:GetBackoffTimes", "%s changed b%d.GetBackoffTimes() from %s to %s", o, i, mapText(p.Times), mapText(q.Times))
		}
		if !sameMap(p.SleepMS, q.SleepMS) {
			add("bystander-changed:GetBackoffSleepMS", "%s changed b%d.GetBackoffSleepMS() from %s to %s", o, i, mapText(p.SleepMS), mapText(q.SleepMS))
		}
		if p.ErrorsNum != q.ErrorsNum {
			add("bystander-changed:ErrorsNum", "%s changed b%d.ErrorsNum() from %d to %d", o, i, p.ErrorsNum, q.ErrorsNum)
		}
		if actor < 0 || !r.onParentChain(i, actor) {
			if !sameStrings(p.Types, q.Types) {
				add("bystander-changed:GetTypes", "%s changed b%d.GetTypes() from %v to %v although b%d is not on the parent chain of b%d", o, i, p.Types, q.Types, actor, i)
			}
		}
	}
	return
}

func hashOp(h uint64, o op) uint64 {
	for _, b := range [...]uint8{o.Code, o.Slot, o.Kind, o.Jit, o.Intr, o.Src, uint8(o.Max), uint8(uint16(o.Max) >> 8)} {
		h ^= uint64(b)
		h *= 1099511628211
	}
	return h
}

func (x *aliasExec) run() {
	w := newWorld(x.e, x.budget, 1)
	defer w.close()
	ref := newRef(x.budget, 1)
	src := []int{-1} // derivation source of every slot
	pre, pp := w.observe()
	if pp != nil {
		x.add("alias:panic:getter:"+x.shape, fmt.Sprintf("a getter panicked on a new back-offer: %v", pp))
		return
	}
	lastMut := -1
	derivedStepped := false
	var lastExp expectation
	hadTypes := false
	progIdx := 0 // index in x.ops of the operation in flight (probes belong to the operation before them)
	h := uint64(14695981039346656037) ^ uint64(x.budget)*0x9e3779b97f4a7c15
	hist := make([]op, 0, len(x.ops)+8)

	// do executes and judges one operation; false: stop the program
	do := func(o op, probe bool) bool {
		aliveBefore := append([]bool(nil), w.alive...)
		res := w.exec(o)
		post, p2 := w.observe()
		exp := ref.apply(o, res.reachedSleep())
		lastExp = exp
		hist = append(hist, o)
		x.executed++
		h = hashOp(h, o)
		if o.Code == opClone || o.Code == opFork {
			src = append(src, int(o.Slot))
		}
		var fs []finding
		if p2 != nil {
			fs = []finding{{key: "panic:getter", what: fmt.Sprintf("a getter panicked after %s: %v", o, p2)}}
		} else {
			fs, _ = check(o, exp, res, pre, post, ref)
			if res.panicked == nil {
				fs = append(fs, aliasExtra(o, aliveBefore, pre, post, ref)...)
			}
		}
		ok := outKey{code: o.Code, branch: exp.branch}
		if isBackoffOp(o.Code) {
			ok.class = classOrKind(res.class)
			if exp.exhausted {
				x.probes++
				// the informative ones: the longest sleeper has a single entry in this back-offer's list
				if _, argmax := ref.bos[o.Slot].longestSleepers(); len(argmax) > 0 {
					for _, id := range argmax {
						if ref.bos[o.Slot].times[id] == 1 {
							x.probesDef++
							break
						}
					}
				}
			}
		}
		x.outc[ok]++
		if x.trace != nil {
			tag := ""
			if probe {
				tag = " (probe)"
			}
			x.trace(fmt.Sprintf("%3d. %-52s %-28s slept=%dms err=%s%s", len(hist), o, exp.branch, res.elapsedMs, res.class, tag))
		}
		stop := false
		sawTypes := false
		for _, f := range fs {
			if typesOnly(f.key) {
				if hadTypes {
					continue // the entries that went missing earlier in this program are still missing: reported once
				}
				sawTypes = true
			}
			base := f.key
			if strings.HasPrefix(base, "exhausted:error-is-not-the-longest-sleeper") {
				base = "exhausted:error-is-not-the-longest-sleeper"
			}
			if i := strings.Index(base, "-after-"); i >= 0 && strings.HasPrefix(base, "obs:") {
				base = base[:i] // obs:<getter>:<receiver|bystander|child>
			}
			key := "alias:" + base + ":" + x.shape
			if isBackoffOp(o.Code) && exp.exhausted {
				key += ":last-backoff-by-" + aliasRel(src, int(o.Slot), lastMut)
			}
			x.add(key, fmt.Sprintf("%s | history: %s", f.what, histText(hist)))
			if x.trace != nil {
				x.trace(fmt.Sprintf("      FAIL %s: %s", key, f.what))
			}
			if !typesOnly(f.key) {
				stop = true
			}
		}
		hadTypes = hadTypes || sawTypes
		if isBackoffOp(o.Code) && exp.slept {
			lastMut = int(o.Slot)
			if progIdx > x.deriveFrom {
				derivedStepped = true
			}
		}
		if x.onState != nil {
			x.onState(h, derivedStepped)
		}
		pre = post
		return !stop
	}

	for i, o := range x.ops {
		progIdx = i
		if !do(o, false) {
			return
		}
		if i < x.deriveFrom {
			continue // a lone back-offer (or the root and the fork that becomes the source): the other suites' business
		}
		refusedStep := -1
		if isBackoffOp(o.Code) && lastExp.exhausted {
			refusedStep = int(o.Slot) // this step was itself a refused call on that back-offer: no second one
			if i < len(x.ops)-1 {
				continue // a refused call changed nothing (checked): the probes made after the operation before it still stand
			}
		}
		// probes: every live back-offer that is exhausted according to the reference must refuse a call,
		// report the error of ITS longest sleeper and change nothing
		for i := range ref.bos {
			b := &ref.bos[i]
			if !b.alive || i == refusedStep || b.budget <= 0 || b.total-b.excl < b.budget {
				continue
			}
			if !do(boOp(i, "regionMiss", jitMin), true) {
				return
			}
		}
	}
}

// ---------------------------------------------------------------------------
// enumeration
// ---------------------------------------------------------------------------

type aliasReplay struct {
	Suite  string `json:"suite"` // "alias"
	Shape  string `json:"shape"`
	Base   string `json:"program"`
	Budget int    `json:"budget"`
	Weight int    `json:"weight"`
	Ops    []jop  `json:"ops"`
}

type aliasStats struct {
	bases, seqs, programs, steps, states, nontrivial, probes, probesDef int64
	bounds                                                              aliasBounds
}

// variants returns the (ending, budget) variants of one core program: the
// operations with their ending appended and the budget.
func aliasVariants(c aliasCore, seq []aliasStep, farMerge bool, jit uint8, emit func(ops []op, budget int)) {
	// dry run without a budget: totals of the budget targets and the parent links
	r := newRef(0, 1)
	for _, o := range c.ops {
		r.apply(o, true)
	}
	var budgets []int
	addBudget := func(slot int) {
		b := max(1, r.bos[slot].total-r.bos[slot].excl)
		for _, x := range budgets {
			if x == b {
				return
			}
		}
		budgets = append(budgets, b)
	}
	addBudget(c.slot[actD1])
	addBudget(c.slot[actD2])
	for _, s := range seq {
		if s.Actor == actS {
			addBudget(c.slot[actS])
			break
		}
	}
	type merge struct{ recv, src, other int }
	var merges []merge
	for _, d := range []uint8{actD1, actD2} {
		sl := c.slot[d]
		other := c.slot[actD1+actD2-d]
		p := r.bos[sl].parent
		if p < 0 {
			continue
		}
		if other == p {
			other = -1 // the receiver backs off once more anyway
		}
		merges = append(merges, merge{p, sl, other})
		if farMerge {
			top := p
			for r.bos[top].parent >= 0 {
				top = r.bos[top].parent
			}
			if top != p {
				merges = append(merges, merge{top, sl, other})
			}
		}
	}
	if len(merges) == 0 {
		for _, b := range budgets {
			emit(c.ops, b)
		}
		return
	}
	for _, m := range merges {
		ops := append(append([]op(nil), c.ops...), op{Code: opUpdate, Slot: uint8(m.recv), Src: uint8(m.src)}, boOp(m.recv, "regionMiss", jit))
		if m.other >= 0 && m.other != m.recv {
			ops = append(ops, boOp(m.other, "tikvRPC", jit))
		}
		for _, b := range budgets {
			emit(ops, b)
		}
	}
}

type aliasViol struct {
	hlen, unit, idx int
	what            string
	art             aliasReplay
	count           int64
}

func (v *aliasViol) before(o *aliasViol) bool {
	if v.hlen != o.hlen {
		return v.hlen < o.hlen
	}
	if v.unit != o.unit {
		return v.unit < o.unit
	}
	return v.idx < o.idx
}

func runAlias(thorough bool) aliasStats {
	ab := aliasBoundsFor(thorough)
	bases := aliasBases(ab)
	seqs := aliasSeqs(ab.families)
	seqsBasic := aliasSeqs(ab.families[:ab.nBasic])
	st := aliasStats{bounds: ab, bases: int64(len(bases)), seqs: int64(len(seqs))}
	workers := runtime.GOMAXPROCS(0)
	// allocation heavy with a tiny live heap: without a ballast the collector runs all the time and serialises the workers
	ballast := make([]byte, 512<<20)
	defer runtime.KeepAlive(ballast)
	dry := os.Getenv("VERIF_C20_ALIAS_DRY") != "" // development aid: count the programs only
	if dry {
		run.Incomplete("VERIF_C20_ALIAS_DRY: the programs of part alias were only counted")
	}
	type wres struct {
		progOps                                               int64
		viols                                                 map[string]*aliasViol
		outc                                                  map[outKey]int64
		programs, steps, states, nontrivial, probes, probeDef int64
	}
	results := make([]wres, workers)
	var next atomic.Int64
	var wg sync.WaitGroup
	for wi := 0; wi < workers; wi++ {
		wg.Add(1)
		go func(wi int) {
			defer wg.Done()
			e := theRouter.attach()
			defer theRouter.detach()
			wr := &results[wi]
			wr.viols, wr.outc = map[string]*aliasViol{}, map[outKey]int64{}
			for {
				ui := int(next.Add(1)) - 1
				if ui >= len(bases) {
					return
				}
				if run.Expired() {
					run.Incomplete("wall-clock budget VERIF_BUDGET_S used up (alias)")
					return
				}
				base := bases[ui]
				// distinct (budget, operation prefix) pairs of this unit; units differ in their first operations
				// (prior back-offs, derivation) or in the jitter answers, so the sum over units is the global count
				seen := map[uint64]bool{}
				idx := 0
				unitSeqs := seqs
				if base.basicOnly {
					unitSeqs = seqsBasic
				}
				for _, seq := range unitSeqs {
					core, ok := base.expand(seq)
					if !ok {
						continue
					}
					aliasVariants(core, seq, ab.farMerge, base.Jit, func(ops []op, budget int) {
						idx++
						x := &aliasExec{e: e, shape: shapeNames[base.Shape], budget: budget, ops: ops, outc: wr.outc, deriveFrom: core.deriveFrom}
						x.onState = func(h uint64, nt bool) {
							if !seen[h] {
								seen[h] = true
								wr.states++
								if nt {
									wr.nontrivial++
								}
							}
						}
						if !dry {
							x.run()
						}
						wr.programs++
						wr.progOps += int64(len(ops))
						wr.steps += x.executed
						wr.probes += x.probes
						wr.probeDef += x.probesDef
						for fi, f := range x.fs {
							nv := &aliasViol{hlen: x.fsPos[fi], unit: ui, idx: idx, what: "[alias] " + f.what + " | program: " + base.String() + fmt.Sprintf(", budget %dms", budget)}
							cur := wr.viols[f.key]
							if cur == nil || nv.before(cur) {
								nv.art = aliasReplay{Suite: "alias", Shape: shapeNames[base.Shape], Base: base.String(), Budget: budget, Weight: 1}
								for _, o := range ops {
									nv.art.Ops = append(nv.art.Ops, o.toJSON())
								}
								if cur != nil {
									nv.count = cur.count
								}
								wr.viols[f.key] = nv
								cur = nv
							}
							cur.count++
						}
						if (ui*7919+idx)%20011 == 7 {
							samples.Add(func() any {
								return map[string]any{"suite": "alias", "program": base.String(), "budget": budget, "history": histText(ops), "operations_executed_incl_probes": x.executed, "refused_probes": x.probes}
							})
						}
					})
				}
			}
		}(wi)
	}
	wg.Wait()
	viols := map[string]*aliasViol{}
	var progOps int64
	for wi := range results {
		wr := &results[wi]
		st.programs += wr.programs
		progOps += wr.progOps
		st.steps += wr.steps
		st.states += wr.states
		st.nontrivial += wr.nontrivial
		st.probes += wr.probes
		st.probesDef += wr.probeDef
		outcomeMu.Lock()
		for k, n := range wr.outc {
			outcomes["alias "+k.label()] += n
		}
		outcomeMu.Unlock()
		for k, v := range wr.viols {
			cur := viols[k]
			if cur == nil {
				viols[k] = v
				continue
			}
			cnt := cur.count + v.count
			if v.before(cur) {
				viols[k] = v
			}
			viols[k].count = cnt
		}
	}
	keys := make([]string, 0, len(viols))
	for k := range viols {
		keys = append(keys, k)
	}
	sort.Strings(keys)
	for _, k := range keys {
		v := viols[k]
		for i := int64(0); i < min(v.count, 1000); i++ {
			run.Violation(k, v.what, v.art)
		}
	}
	if dry {
		fmt.Fprintf(os.Stderr, "c20: alias (dry) program operations without probes=%d\n", progOps)
	}
	fmt.Fprintf(os.Stderr, "c20: alias bases=%d sequences=%d programs=%d operations=%d states=%d refused-probes=%d violations=%d t=%.0fs\n",
		st.bases, st.seqs, st.programs, st.steps, st.states, st.probes, len(keys), time.Since(t0).Seconds())
	return st
}

// replayAlias re-runs one program of this part from a replay file.
func replayAlias(raw json.RawMessage, path string) {
	var r aliasReplay
	if err := json.Unmarshal(raw, &r); err != nil {
		fmt.Fprintln(os.Stderr, "replay:", err)
		os.Exit(2)
	}
	var ops []op
	for _, j := range r.Ops {
		o, err := opFromJSON(j)
		if err != nil {
			fmt.Fprintln(os.Stderr, "replay:", err)
			os.Exit(2)
		}
		ops = append(ops, o)
	}
	e := theRouter.attach()
	defer theRouter.detach()
	fmt.Printf("program: %s, budget %dms (a probe = a call the reference expects to be refused)\n", r.Base, r.Budget)
	x := &aliasExec{e: e, shape: r.Shape, budget: r.Budget, ops: ops, outc: map[outKey]int64{}, trace: func(s string) { fmt.Println(s) }}
	x.run()
	if len(x.fs) > 0 {
		fmt.Printf("VIOLATION property=C20 replay=%s\n", path)
		os.Exit(1)
	}
	fmt.Println("replay: no violation")
	os.Exit(0)
}

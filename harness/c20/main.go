// C20: back-off never exceeds its budget; cloned / forked back-offers account
// consistently (DESIGN.md section 5, C20).
//
// Engine: explicit-state breadth-first search over operation sequences of the
// REAL retry.Backoffer (seqx, DESIGN 3.2) x deviation-bounded enumeration of
// environment answers (envx, DESIGN 3.3): the jitter draw of every back-off is
// an explorer decision in {minimum, maximum} of the range the code draws
// from, sleeping is virtual (time and math/rand of config/retry are rewritten
// to verifrt/vtime and verifrt/vrand by profile c20), and context
// cancellation / kill are transitions that can be placed between calls or in
// the middle of a sleep. A state is the history that reaches it: every
// successor is executed on a fresh Backoffer by replaying the shortest
// history plus one operation. After the new operation the full observation
// set of every live backoffer is compared with the reference accountant
// (ref.go). States are deduplicated by the canonical reference state.
//
// A second part (chains.go) covers what the depth bound of the search cannot:
// long chains (>= 128 back-offs) of one kind / two kinds on one backoffer for
// every kind incl. a synthetic grid of configs, judged after every step.
//
// A third part (alias.go) covers the independence of a back-offer, its clones
// and its forks: a source brought to every internal capacity state (0..n prior
// back-offs, made directly / before a fork / on a merged fork), two derived
// back-offers, every interleaving of their back-offs, exhaustion of either
// one, optional merge; every program is executed (no deduplication) and every
// live back-offer is observed (and, if exhausted, probed) after every operation.
package main

import (
	"encoding/json"
	"fmt"
	"os"
	"runtime"
	"runtime/debug"
	"runtime/pprof"
	"sort"
	"strings"
	"sync"
	"sync/atomic"
	"time"

	"github.com/pingcap/log"
	"github.com/tikv/client-go/v2/verifrt/ev"
	"go.uber.org/zap"
)

var stopProfile func()
var t0 = time.Now()

var (
	run     *ev.Run
	samples *ev.Samples

	nStates      int64 // distinct canonical reference states
	nNontrivial  int64 // ... in which at least one back-off was performed
	nTransitions atomic.Int64
	nOpsExecuted atomic.Int64
	nNotes       atomic.Int64
	maxOvershoot atomic.Int64

	outcomeMu sync.Mutex
	outcomes  = map[string]int64{}
)

// suites per tier. Budgets: small=6ms and medium=150ms (before the weight):
// two 2ms-base sleeps (2+4) hit 6 exactly, two tikvRPC sleeps with minimum
// jitter (50+100) hit 150 exactly, so both sides of the `>=` in the budget
// check are inside the space; one lock-fast sleep (5..9ms) straddles 6.
var budgets = []int{6, 150}
var weights = []int{1, 2}

func coreBackoffs(full bool) []boTemplate {
	t := []boTemplate{
		{opBackoff, "regionMiss", -1, jitMin, intrNone},
		{opBackoff, "tikvRPC", -1, jitMin, intrNone},
		{opBackoff, "tikvRPC", -1, jitMax, intrNone},
		{opBackoff, "tikvServerBusy", -1, jitMin, intrNone},
		{opBackoff, "tikvServerBusy", -1, jitMax, intrNone},
		{opLockFast, "txnLockFast", 3, jitMin, intrNone},
		{opLockFast, "txnLockFast", 8, jitMin, intrNone},
		{opLockFast, "txnLockFast", 8, jitMax, intrNone},
		{opCfgMax, "tikvRPC", 60, jitMax, intrNone},
		{opBackoff, "tikvRPC", -1, jitMax, intrCancel},
		{opBackoff, "tikvRPC", -1, jitMax, intrKill},
	}
	if full {
		t = append(t,
			boTemplate{opCfgMax, "regionMiss", 0, jitMin, intrNone},
			boTemplate{opCfgMax, "tikvServerBusy", 1500, jitMax, intrNone},
			boTemplate{opBackoff, "tikvServerBusy", -1, jitMin, intrCancel},
		)
	}
	return t
}

func allKindBackoffs() []boTemplate {
	var t []boTemplate
	for _, k := range kinds {
		t = append(t, boTemplate{opBackoff, k.name, -1, jitMin, intrNone})
		if k.jitter != 1 {
			t = append(t, boTemplate{opBackoff, k.name, -1, jitMax, intrNone})
		}
	}
	t = append(t,
		boTemplate{opCfgMax, "regionMiss", 0, jitMin, intrNone}, // "force sleep 0"
		boTemplate{opCfgMax, "regionMiss", 1, jitMin, intrNone},
		boTemplate{opCfgMax, "tikvRPC", 60, jitMax, intrNone},
		boTemplate{opCfgMax, "tikvServerBusy", 1500, jitMax, intrNone},
		boTemplate{opCfgMax, "verifFull", 4, jitMax, intrNone},
		boTemplate{opLockFast, "txnLockFast", 3, jitMax, intrNone},
		boTemplate{opBackoff, "pdRPC", -1, jitMax, intrCancel},
		boTemplate{opBackoff, "pdRPC", -1, jitMax, intrKill},
	)
	return t
}

func suitesFor(thorough bool) []*suite {
	family := func(name string, depth int, full bool) *suite {
		return &suite{name: name, depth: depth, maxLive: 3, maxCreated: 4, backoffs: coreBackoffs(full),
			reset: true, resetMax: []int16{6, 150}, clone: true, fork: true, update: true, cancel: true, kill: true}
	}
	ss := []*suite{
		// every built-in kind (and a custom FullJitter config) on a single backoffer
		{name: "kinds", depth: 4, maxLive: 1, maxCreated: 1, backoffs: allKindBackoffs(),
			reset: true, resetMax: []int16{6}, cancel: true, kill: true},
	}
	if !thorough {
		// the whole alphabet on a family of up to three live backoffers over the core kinds
		return append(ss, family("family", 5, false))
	}
	f6 := family("family", 6, false)
	f6.configs = [][2]int{{6, 1}, {150, 2}} // the other two (budget, weight) pairs are explored to depth 5 by family-ext
	return append(ss,
		f6,
		// three more back-off calls (per-call maximum 0, a cut excluded sleep, an excluded sleep cut by cancellation)
		family("family-ext", 5, true),
		// deeper, over a reduced alphabet: one backoffer plus at most one fork of it at a time, five back-off
		// calls, Reset, Fork, UpdateUsingForked, cancellation (long accumulations, repeated fork/merge rounds, exhaustion of the medium budget)
		&suite{name: "deep", depth: 8, maxLive: 2, maxCreated: 3, backoffs: []boTemplate{
			{opBackoff, "regionMiss", -1, jitMin, intrNone},
			{opBackoff, "tikvRPC", -1, jitMin, intrNone},
			{opBackoff, "tikvRPC", -1, jitMax, intrNone},
			{opBackoff, "tikvServerBusy", -1, jitMax, intrNone},
			{opLockFast, "txnLockFast", 8, jitMax, intrNone},
		}, reset: true, fork: true, update: true, cancel: true})
}

// node is a state of the search: the shortest history reaching it.
type node struct {
	hist  []op
	hints uint16 // bit i: operation i reached its sleep on the real code (see refState.apply)
}

type cand struct {
	parent int32
	idx    int32
	o      op
	key    [16]byte
	nontr  bool
	hint   bool
}

type violRec struct {
	parent, idx int32
	what        string
	hist        []op
	count       int64
	desync      int64 // occurrences after which real and reference state disagree
}

// runCase executes hist on a fresh world and reference. Only the last
// operation is checked (its prefix was checked when it was the last one).
func runCase(e *env, budget, weight int, hist []op) (ref *refState, exp expectation, res result, fs []finding, notes []engineNote) {
	w := newWorld(e, budget, weight)
	defer w.close()
	ref = newRef(budget, weight)
	last := len(hist) - 1
	for i, o := range hist {
		if i < last {
			r := w.exec(o)
			ref.apply(o, r.reachedSleep())
			if r.panicked != nil {
				// cannot happen on a prefix that was checked before; keep the harness alive anyway
				fs = append(fs, finding{key: "panic:prefix", what: fmt.Sprintf("%s panicked during replay: %v", o, r.panicked), desync: true})
				return
			}
			continue
		}
		pre, p1 := w.observe()
		res = w.exec(o)
		post, p2 := w.observe()
		exp = ref.apply(o, res.reachedSleep())
		if p1 != nil || p2 != nil {
			fs = append(fs, finding{key: "panic:getter", what: fmt.Sprintf("a getter panicked around %s: %v %v", o, p1, p2), desync: true})
			return
		}
		fs, notes = check(o, exp, res, pre, post, ref)
	}
	return
}

type outKey struct {
	code   uint8
	branch string
	class  string
}

func (k outKey) label() string {
	if isBackoffOp(k.code) {
		return fmt.Sprintf("%s %s -> %s", opNames[k.code], k.branch, k.class)
	}
	return fmt.Sprintf("%s %s", opNames[k.code], k.branch)
}

func outcomeLabel(o op, exp expectation, res result) string {
	return outKey{o.Code, exp.branch, res.class}.label()
}

func replayOf(s *suite, budget, weight int, hist []op) replayArt {
	a := replayArt{Suite: s.name, Budget: budget, Weight: weight}
	for _, o := range hist {
		a.Ops = append(a.Ops, o.toJSON())
	}
	return a
}

// bfs explores one (suite, budget, weight) space.
func bfs(s *suite, budget, weight int) {
	seen := map[[16]byte]struct{}{}
	root := newRef(budget, weight)
	k0, _ := root.key(nil)
	seen[k0] = struct{}{}
	nStates++
	frontier := []node{{}}
	workers := runtime.GOMAXPROCS(0)
	stopped := false

	for depth := 1; depth <= s.depth && len(frontier) > 0 && !stopped; depth++ {
		lastLevel := depth == s.depth
		var next atomic.Int64
		type wres struct {
			cands    []cand
			lastKeys map[uint64]bool // final level: only count distinct states (64-bit prefix of the key)
			lastNT   map[uint64]bool
			viols    map[string]*violRec
			outc     map[outKey]int64
			notes    map[string]int64
			trans    int64
			opsExec  int64
		}
		results := make([]wres, workers)
		var wg sync.WaitGroup
		for wi := 0; wi < workers; wi++ {
			wg.Add(1)
			go func(wi int) {
				defer wg.Done()
				e := theRouter.attach()
				defer theRouter.detach()
				wr := &results[wi]
				wr.viols, wr.outc, wr.notes = map[string]*violRec{}, map[outKey]int64{}, map[string]int64{}
				if lastLevel {
					wr.lastKeys, wr.lastNT = map[uint64]bool{}, map[uint64]bool{}
				}
				var ops []op
				var kbuf []byte
				hist := make([]op, 0, s.depth)
				for {
					lo := int(next.Add(64)) - 64
					if lo >= len(frontier) {
						return
					}
					hi := min(lo+64, len(frontier))
					for pi := lo; pi < hi; pi++ {
						if run.Expired() {
							run.Incomplete("wall-clock budget VERIF_BUDGET_S used up")
							return
						}
						parent := frontier[pi]
						// enabled operations come from the reference state of the parent
						pref := newRef(budget, weight)
						for i, o := range parent.hist {
							pref.apply(o, parent.hints&(1<<uint(i)) != 0)
						}
						ops = s.enabledOps(pref, ops)
						for oi, o := range ops {
							hist = append(append(hist[:0], parent.hist...), o)
							ref, exp, res, fs, notes := runCase(e, budget, weight, hist)
							wr.trans++
							wr.opsExec += int64(len(hist))
							wr.outc[outKey{o.Code, exp.branch, res.class}]++
							for _, n := range notes {
								wr.notes[string(n)]++
							}
							desync := false
							for _, f := range fs {
								desync = desync || f.desync
								v := wr.viols[f.key]
								if v == nil {
									v = &violRec{parent: int32(pi), idx: int32(oi), what: f.what, hist: append([]op(nil), hist...)}
									wr.viols[f.key] = v
								} else if int32(pi) < v.parent || (int32(pi) == v.parent && int32(oi) < v.idx) {
									v.parent, v.idx, v.what, v.hist = int32(pi), int32(oi), f.what, append([]op(nil), hist...)
								}
								v.count++
								if f.desync {
									v.desync++
								}
							}
							if isBackoffOp(o.Code) && exp.budget > 0 && exp.slept && !kinds[o.Kind].excluded {
								// measured overshoot over the budget, in ms
								over := int64(exp.nonExclPre + res.elapsedMs - exp.budget)
								for {
									cur := maxOvershoot.Load()
									if over <= cur || maxOvershoot.CompareAndSwap(cur, over) {
										break
									}
								}
							}
							if wr.trans%4099 == 1 { // the sample store is shared: offer it a thin, deterministic slice of the cases
								samples.Add(func() any {
									return map[string]any{"suite": s.name, "budget": budget, "weight": weight, "history": histText(hist), "outcome": outcomeLabel(o, exp, res), "slept_ms": res.elapsedMs}
								})
							}
							if desync {
								continue // real and reference disagree: nothing sound to explore below
							}
							var key [16]byte
							key, kbuf = ref.key(kbuf)
							if lastLevel {
								h := uint64(key[0]) | uint64(key[1])<<8 | uint64(key[2])<<16 | uint64(key[3])<<24 | uint64(key[4])<<32 | uint64(key[5])<<40 | uint64(key[6])<<48 | uint64(key[7])<<56
								if _, dup := seen[key]; !dup {
									wr.lastKeys[h] = true
									if ref.nontrivial() {
										wr.lastNT[h] = true
									}
								}
								continue
							}
							wr.cands = append(wr.cands, cand{parent: int32(pi), idx: int32(oi), o: o, key: key, nontr: ref.nontrivial(), hint: res.reachedSleep()})
						}
					}
				}
			}(wi)
		}
		wg.Wait()
		{
			var tr int64
			for wi := range results {
				tr += results[wi].trans
			}
			fmt.Fprintf(os.Stderr, "c20: %s budget=%d weight=%d depth=%d frontier=%d transitions=%d t=%.0fs\n", s.name, budget, weight, depth, len(frontier), tr, time.Since(t0).Seconds())
		}

		// merge, deterministically
		viols := map[string]*violRec{}
		for wi := range results {
			for k, v := range results[wi].viols {
				cur := viols[k]
				if cur == nil {
					viols[k] = v
					continue
				}
				cnt, ds := cur.count+v.count, cur.desync+v.desync
				if v.parent < cur.parent || (v.parent == cur.parent && v.idx < cur.idx) {
					viols[k] = v
				}
				viols[k].count, viols[k].desync = cnt, ds
			}
			nTransitions.Add(results[wi].trans)
			nOpsExecuted.Add(results[wi].opsExec)
			outcomeMu.Lock()
			for k, n := range results[wi].outc {
				outcomes[k.label()] += n
			}
			outcomeMu.Unlock()
			for k, n := range results[wi].notes {
				nNotes.Add(n)
				run.Note("%s/budget=%d/weight=%d: %s (x%d)", s.name, budget, weight, k, n)
				run.Incomplete("the real sleep schedule differs from the documented one the reference assumes; deduplication by reference state is not justified (see notes)")
			}
		}
		vkeys := make([]string, 0, len(viols))
		for k := range viols {
			vkeys = append(vkeys, k)
		}
		sort.Strings(vkeys)
		var violEdges int64
		for _, k := range vkeys {
			v := viols[k]
			violEdges += v.desync
			what := fmt.Sprintf("[%s budget=%d weight=%d depth=%d] %s | history: %s", s.name, budget, weight, depth, v.what, histText(v.hist))
			art := replayOf(s, budget, weight, v.hist)
			for i := int64(0); i < min(v.count, 1000); i++ {
				run.Violation(k, what, art)
			}
		}
		// A tree on which real and reference state disagree all over the place (a mutation) is not worth
		// exploring to the end; violations that leave the state intact never stop the search.
		if violEdges > 200000 && !lastLevel {
			stopped = true
			run.Incomplete(fmt.Sprintf("suite %s stopped at depth %d after %d transitions that left real and reference state in disagreement", s.name, depth, violEdges))
		}

		if lastLevel {
			all, nt := map[uint64]bool{}, map[uint64]bool{}
			for wi := range results {
				for h := range results[wi].lastKeys {
					all[h] = true
				}
				for h := range results[wi].lastNT {
					nt[h] = true
				}
			}
			nStates += int64(len(all))
			nNontrivial += int64(len(nt))
			break
		}
		var cands []cand
		for wi := range results {
			cands = append(cands, results[wi].cands...)
			results[wi].cands = nil
		}
		sort.Slice(cands, func(i, j int) bool {
			if cands[i].parent != cands[j].parent {
				return cands[i].parent < cands[j].parent
			}
			return cands[i].idx < cands[j].idx
		})
		var nf []node
		for _, c := range cands {
			if _, dup := seen[c.key]; dup {
				continue
			}
			seen[c.key] = struct{}{}
			nStates++
			if c.nontr {
				nNontrivial++
			}
			h := make([]op, len(frontier[c.parent].hist)+1)
			copy(h, frontier[c.parent].hist)
			h[len(h)-1] = c.o
			hints := frontier[c.parent].hints
			if c.hint {
				hints |= 1 << uint(len(h)-1)
			}
			nf = append(nf, node{hist: h, hints: hints})
		}
		frontier = nf
	}
}

func doReplay(path string) {
	b, err := os.ReadFile(path)
	if err != nil {
		fmt.Fprintln(os.Stderr, "replay:", err)
		os.Exit(2)
	}
	var raw struct {
		Replay json.RawMessage `json:"replay"`
	}
	var probe struct {
		Suite string `json:"suite"`
	}
	if err := json.Unmarshal(b, &raw); err == nil && json.Unmarshal(raw.Replay, &probe) == nil && probe.Suite == "chains" {
		replayChain(raw.Replay, path) // a chain program (chains.go); does not return
	}
	if probe.Suite == "alias" {
		replayAlias(raw.Replay, path) // a program of part alias (alias.go); does not return
	}
	var f struct {
		Key    string    `json:"key"`
		Replay replayArt `json:"replay"`
	}
	if err := json.Unmarshal(b, &f); err != nil {
		fmt.Fprintln(os.Stderr, "replay:", err)
		os.Exit(2)
	}
	var hist []op
	for _, j := range f.Replay.Ops {
		o, err := opFromJSON(j)
		if err != nil {
			fmt.Fprintln(os.Stderr, "replay:", err)
			os.Exit(2)
		}
		hist = append(hist, o)
	}
	e := theRouter.attach()
	defer theRouter.detach()
	failed := false
	// every prefix is checked, so a replay also shows where the first deviation is
	for n := 1; n <= len(hist); n++ {
		_, exp, res, fs, notes := runCase(e, f.Replay.Budget, f.Replay.Weight, hist[:n])
		fmt.Printf("%2d. %-70s %-32s slept=%dms err=%s\n", n, hist[n-1], exp.branch, res.elapsedMs, res.class)
		for _, nt := range notes {
			fmt.Printf("      note: %s\n", nt)
		}
		for _, fd := range fs {
			fmt.Printf("      FAIL %s: %s\n", fd.key, fd.what)
			failed = true
		}
	}
	if failed {
		fmt.Printf("VIOLATION property=C20 replay=%s\n", path)
		os.Exit(1)
	}
	fmt.Println("replay: no violation")
	os.Exit(0)
}

func main() {
	log.ReplaceGlobals(zap.NewNop(), &log.ZapProperties{}) // exhaustion and kill are logged at Warn/Info
	debug.SetGCPercent(400)                                // allocation heavy, small live heap
	initKinds()
	initChainKinds()
	installRouter()
	for i, a := range os.Args {
		if a == "--replay" && i+1 < len(os.Args) {
			doReplay(os.Args[i+1])
		}
	}
	if pf := os.Getenv("VERIF_C20_CPUPROFILE"); pf != "" { // development aid
		if f, err := os.Create(pf); err == nil {
			pprof.StartCPUProfile(f)
			defer pprof.StopCPUProfile()
			stopProfile = pprof.StopCPUProfile
		}
	}
	run = ev.Start("C20", "model_checking")
	samples = ev.NewSamples(12, run.Seed)
	ss := suitesFor(run.Thorough())
	withChains, withAlias := true, true
	if sel := os.Getenv("VERIF_C20_SUITES"); sel != "" { // development aid: run a subset (the evidence then says so)
		var keep []*suite
		for _, s := range ss {
			if strings.Contains(","+sel+",", ","+s.name+",") {
				keep = append(keep, s)
			}
		}
		ss = keep
		withChains = strings.Contains(","+sel+",", ",chains,")
		withAlias = strings.Contains(","+sel+",", ",alias,")
		run.Incomplete("only suites " + sel + " were run (VERIF_C20_SUITES)")
	}
	bounds := map[string]any{"budgets_ms": budgets, "weights": weights, "jitter_answers": "min,max", "excluded_cap_ms": excludedLimitMs}
	perSuite := map[string]any{}
	for _, s := range ss {
		before, tBefore := nStates, nTransitions.Load()
		cfgs := s.configs
		if cfgs == nil {
			for _, b := range budgets {
				for _, w := range weights {
					cfgs = append(cfgs, [2]int{b, w})
				}
			}
		}
		for _, c := range cfgs {
			bfs(s, c[0], c[1])
		}
		bounds["depth_"+s.name] = s.depth
		perSuite[s.name] = map[string]any{"depth": s.depth, "states": nStates - before, "transitions": nTransitions.Load() - tBefore,
			"alphabet_backoff_calls": len(s.backoffs), "max_live_backoffers": s.maxLive, "budget_weight_pairs": cfgs}
	}
	// part "chains" (chains.go): long chains of one kind / two kinds on one backoffer, every kind incl. a synthetic grid
	if withChains {
		cs := runChains(run.Thorough())
		// every executed chain operation reaches a state no other (program, position) reaches: programs differ in
		// their configuration and positions in their counters, so the states of this part are counted as they are visited
		nStates += cs.states
		nNontrivial += cs.states
		nTransitions.Add(cs.steps)
		nOpsExecuted.Add(cs.steps)
		cb := cs.bounds
		bounds["chains"] = map[string]any{
			"len_single": cb.lenSingle, "derive_every_single": cb.everySingle, "len_pair": cb.lenPair, "derive_every_pair": cb.everyPair, "steps_on_derived_backoffer": cb.tailSingle,
			"kinds": cs.kinds, "synthetic_kinds": cs.synth, "kinds_in_pairs": cs.pairKinds, "synthetic_bases": synthBases, "synthetic_caps": synthCaps,
			"jitter_modes": "none,full,equal,decorr", "patterns": "single,alternate,halves", "budget_modes": budNames, "per_call_max_single": "none,0,5,cap-1", "variants": varNames,
			"steps_after_first_refusal": chainAfterRefusal,
		}
		perSuite["chains"] = map[string]any{"programs": cs.programs, "programs_reaching_exhaustion": cs.refusedPrograms, "states": cs.states, "transitions": cs.steps, "max_overshoot_over_budget_ms": cs.maxOvershoot, "len_single": cb.lenSingle, "len_pair": cb.lenPair}
	}
	// part "alias" (alias.go): a source with 0..n prior back-offs, two derived back-offers, all interleavings of their steps
	if withAlias {
		as := runAlias(run.Thorough())
		// states of this part = distinct (budget, operation prefix) pairs (the programs share prefixes; nothing else is merged)
		nStates += as.states
		nNontrivial += as.nontrivial
		nTransitions.Add(as.steps)
		nOpsExecuted.Add(as.steps)
		b := as.bounds
		var jn []string
		for _, j := range b.jits {
			jn = append(jn, []string{"min", "max"}[j])
		}
		var fams []string
		for _, f := range b.families {
			fams = append(fams, f.String())
		}
		bounds["alias"] = map[string]any{
			"prior_backoffs": b.priors, "prior_backoffs_with_the_first_two_families_only": b.priorsBasic, "kinds_among_prior_backoffs": b.patterns, "prior_kinds": aliasOldKinds, "source_made_via": viaNames, "derived_pairs": shapeNames,
			"second_derived_taken": "with the first | right before its first step", "second_derived_taken_late_only_when_derived_from_the_first": b.lateOnlyChained, "jitter_answers": jn,
			"step_sequence_families": fams, "step_kinds": aliasStepKinds,
			"budget": "the total of D1 | D2 | S (if it steps) after its last step", "ending": "UpdateUsingForked of D1 | D2 into its parent (if it has one), then one back-off of the receiver and of the other derived back-offer",
			"merge_into_top_of_parent_chain": b.farMerge,
		}
		perSuite["alias"] = map[string]any{"sources_x_derivations": as.bases, "step_sequences": as.seqs, "programs": as.programs, "states": as.states, "states_after_a_step_behind_the_derivation": as.nontrivial,
			"transitions": as.steps, "refused_calls": as.probes, "refused_calls_whose_longest_kind_has_a_single_entry": as.probesDef}
	}
	if stopProfile != nil {
		stopProfile()
	}
	outcomeMu.Lock()
	oc := map[string]int64{}
	for k, v := range outcomes {
		oc[k] = v
	}
	outcomeMu.Unlock()
	run.Finish(ev.Coverage{
		"states":                        nStates,
		"transitions":                   nTransitions.Load(),
		"traces_validated_against_impl": nTransitions.Load(),
		"evaluations":                   nTransitions.Load(),
		"ops_executed_incl_replay":      nOpsExecuted.Load(),
		"distinct_nontrivial":           nNontrivial,
		"distinct_outcomes":             len(oc),
		"outcome_counts":                oc,
		"max_overshoot_over_budget_ms":  maxOvershoot.Load(),
		"schedule_notes":                nNotes.Load(),
		"per_suite":                     perSuite,
		"bounds":                        bounds,
		"rule": "breadth-first over all operation sequences up to the depth of each suite, for budgets {6,150}ms x weights {1,2}; every back-off call carries its environment answers " +
			"(jitter minimum/maximum, optional context cancellation or kill in the middle of the sleep); each transition is executed on the real Backoffer (fresh instance + replay of the shortest history) " +
			"and compared with the reference accountant; states = distinct canonical reference states (final level counted by 64-bit key prefix), transitions = checked (state, operation) pairs, " +
			"non-trivial = states in which at least one back-off was accounted; suite kinds: one backoffer x every built-in kind + a custom FullJitter config; suite family: up to 3 live backoffers (clone/fork/merge/cancel/kill) x core kinds; " +
			"thorough adds family-ext (three more back-off calls) and deep (a backoffer and one fork of it at a time, reduced alphabet, depth 8); see per_suite for depths and (budget, weight) pairs; " +
			"part chains (no replay, oracle after every step on the same backoffer): for every kind (built-in + synthetic grid jitter mode x base x cap) every chain program single/alternate/halves of bounds.chains.len_* back-offs x jitter {min,max} per kind x " +
			"budget {none, never reached, exactly the total at half of the chain, +1, half with weight 2, exactly the total at 7/8 of the chain} x per-call maximum x {Clone and Fork aside, Fork + UpdateUsingForked} every k-th step; its states = (program, position) pairs, its transitions = operations executed and judged; " +
			"part alias (no replay, no deduplication, oracle after every operation): a source back-offer with bounds.alias.prior_backoffs prior back-offs of 1-3 kinds made directly / on a root it is forked from / half before and half after the fork / " +
			"on a fork merged back, x two derived back-offers (bounds.alias.derived_pairs, the second taken at once or right before its first step) x every step sequence of bounds.alias.step_sequence_families (every interleaving of a, b back-offs of the two derived back-offers " +
			"and s of the source, every step on every one of the first `kinds` entries of step_kinds) x budget = exactly the total of one of them after its last step x optional UpdateUsingForked ending; after every operation every live back-offer is observed " +
			"and every back-offer the reference calls exhausted is probed with one more call (must be refused, report its own longest sleeper, change nothing); its states = distinct (budget, operation prefix) pairs, " +
			"its transitions = operations executed and judged (probes included), non-trivial = states behind a back-off that follows the derivation",
		"samples": samples.List(),
	}, []string{
		"the 10 min own cap of the budget-excluded kind (tikvServerBusy) is lowered to 3000ms with the package's own test-only setter so that exhausting it is reachable; the oracle bounds excluded sleep by max(own cap, budget) + one step because the code demands both (with budget <= cap this is the property's bound)",
		"UpdateUsingForked is only applied to a backoffer on the fork's parent chain and the fork is not used afterwards (documented precondition); merging is specified as copying the fork's counters (DESIGN C20), also when the receiver slept in between",
		"the largest-sleeper rule is judged on the lifetime per-kind accounting (GetBackoffSleepMS), ties accept any tied kind, excluded kinds may or may not compete, an exhausted backoffer without any eligible kind may return the caller's error",
		"a sleep cut by context cancellation is accounted as 0ms (documented in newBackoffFn); the budget bound is judged on accounted sleep, and accounted sleep equals virtual time slept for every completed sleep",
		"a kill in the middle of a sleep is only demanded to be reported when that call returns (nothing can wake the sleeper); a kill before the call is demanded to be reported at once without sleeping and without accounting; an implementation that sleeps first is reported (kill:next-call-sleeps-before-reporting) and its accounting of that sleep is followed so that exploration continues",
		"breadth-first suites: the exact exponential schedule (base*2^n, jitter range) is not demanded: only sleep <= cap and <= per-call maximum; a schedule different from the documented one marks the run non-exhaustive because deduplication relies on it",
		"part chains: the documented schedule min(cap, base*2^n) with the documented jitter (NoJitter: exact; Full: Intn(v); Equal: v/2+Intn(v/2); Decorr: min(cap, base+Intn(3*last-base))) IS demanded step by step (it is what 'one step' and 'the exponential cap of its kind' of the property refer to); DecorrJitter configs with cap < base are not explored (3*cap-base <= 0 makes the documented draw range empty)",
		"GetTypes is only required to list the kinds the backoffer itself recorded or inherited (after a merge: those both sides had)",
		"part alias: Clone and Fork are specified as copies by value (a derived back-offer and its source never influence each other afterwards); GetTypes is demanded to list, per kind, at least the back-offs the back-offer recorded or inherited (= its GetBackoffTimes) and at most those plus the ones of its parent chain (documented: 'type list of this backoff and all its ancestors'); a probe call on an exhausted back-offer is treated as an observation because a refused call is specified to change nothing (that is checked too)",
		"jitter answers are the two ends of the drawn range only (in a chain: the same end at every step of a kind); DecorrJitter is not used by any built-in kind and is explored by the chains part only",
	})
}

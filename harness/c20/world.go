package main

import (
	"context"
	"fmt"
	"sort"
	"strings"
	"sync/atomic"
	"time"

	pkgerrors "github.com/pkg/errors"
	"github.com/tikv/client-go/v2/config/retry"
	tikverr "github.com/tikv/client-go/v2/error"
	"github.com/tikv/client-go/v2/kv"
)

// world is one fresh instance of the real objects: the root Backoffer with its
// cancellable root context and kv.Variables, plus everything cloned / forked
// from it. Slot and context-node numbers are creation order, exactly as in
// the reference.
type world struct {
	env     *env
	killed  uint32
	vars    *kv.Variables
	bos     []*retry.Backoffer
	alive   []bool
	boCtx   []int
	cancels []context.CancelFunc // by context node
}

func newWorld(e *env, budget, weight int) *world {
	w := &world{env: e}
	w.vars = kv.NewVariables(&w.killed)
	w.vars.BackOffWeight = weight
	ctx, cancel := context.WithCancel(context.Background())
	w.cancels = append(w.cancels, cancel)
	w.bos = append(w.bos, retry.NewBackofferWithVars(ctx, budget, w.vars))
	w.alive = append(w.alive, true)
	w.boCtx = append(w.boCtx, 0)
	return w
}

func (w *world) close() {
	for _, c := range w.cancels {
		c()
	}
	w.env.clock.StopAll()
}

// result is what one executed operation showed.
type result struct {
	class     string // error class of a back-off call
	errText   string
	elapsedMs int
	exactMs   bool // elapsed virtual time was a whole number of ms
	draws     []int64
	timers    []time.Duration
	sleeps    int
	panicked  any
}

func classify(err error) string {
	if err == nil {
		return "nil"
	}
	cause := pkgerrors.Cause(err)
	if cause == errIn {
		return "passed"
	}
	if k, ok := cause.(tikverr.ErrQueryInterruptedWithSignal); ok {
		return fmt.Sprintf("killed:%d", k.Signal)
	}
	if c, ok := classOfErr(cause); ok {
		return c
	}
	return fmt.Sprintf("other:%T", cause)
}

func classOfErr(e error) (c string, ok bool) {
	defer func() {
		if recover() != nil { // unhashable dynamic type
			c, ok = "", false
		}
	}()
	c, ok = errClassOf[e]
	return
}

// reachedSleep reports whether the call got as far as its sleep (drew jitter, armed a timer or let time pass).
func (r result) reachedSleep() bool {
	return len(r.timers) > 0 || len(r.draws) > 0 || r.sleeps > 0 || r.elapsedMs > 0
}

func (w *world) exec(o op) (res result) {
	defer func() {
		if p := recover(); p != nil {
			res.panicked = p
		}
	}()
	switch o.Code {
	case opBackoff, opLockFast, opCfgMax:
		b := w.bos[o.Slot]
		w.env.begin(o.Jit, o.Intr, w.cancels[w.boCtx[o.Slot]], &w.killed)
		t0 := w.env.clock.Elapsed()
		var err error
		switch o.Code {
		case opBackoff:
			err = b.Backoff(kinds[o.Kind].cfg, errIn)
		case opLockFast:
			err = b.BackoffWithMaxSleepTxnLockFast(int(o.Max), errIn)
		default:
			err = b.BackoffWithCfgAndMaxSleep(kinds[o.Kind].cfg, int(o.Max), errIn)
		}
		el := w.env.clock.Elapsed() - t0
		res.elapsedMs = int(el / time.Millisecond)
		res.exactMs = el%time.Millisecond == 0
		res.class = classify(err)
		if err != nil {
			res.errText = err.Error()
		}
		res.draws = append([]int64(nil), w.env.draws...)
		res.timers = append([]time.Duration(nil), w.env.timers...)
		res.sleeps = w.env.sleeps
		w.env.clock.StopAll() // an interrupted sleep leaves its timer behind
	case opReset:
		w.bos[o.Slot].Reset()
	case opResetMax:
		w.bos[o.Slot].ResetMaxSleep(int(o.Max))
	case opClone:
		n := w.bos[o.Slot].Clone()
		w.bos = append(w.bos, n)
		w.alive = append(w.alive, true)
		w.boCtx = append(w.boCtx, w.boCtx[o.Slot])
	case opFork:
		n, cancel := w.bos[o.Slot].Fork()
		w.cancels = append(w.cancels, cancel)
		w.bos = append(w.bos, n)
		w.alive = append(w.alive, true)
		w.boCtx = append(w.boCtx, len(w.cancels)-1)
	case opUpdate:
		w.bos[o.Slot].UpdateUsingForked(w.bos[o.Src])
		w.alive[o.Src] = false // "Make sure forked is no longer used after this"
	case opCancel:
		w.cancels[o.Src]()
	case opKill:
		atomic.StoreUint32(&w.killed, 1)
	}
	return
}

// boObs is the observation set of one backoffer.
type boObs struct {
	Total      int            `json:"GetTotalSleep"`
	TotalTimes int            `json:"GetTotalBackoffTimes"`
	ErrorsNum  int            `json:"ErrorsNum"`
	SleepMS    map[string]int `json:"GetBackoffSleepMS"`
	Times      map[string]int `json:"GetBackoffTimes"`
	Types      []string       `json:"GetTypes"`
}

func copyNonZero(m map[string]int) map[string]int {
	out := map[string]int{}
	for k, v := range m {
		if v != 0 {
			out[k] = v
		}
	}
	return out
}

func (w *world) observe() (obs []boObs, panicked any) {
	defer func() {
		if p := recover(); p != nil {
			panicked = p
		}
	}()
	obs = make([]boObs, len(w.bos))
	for i, b := range w.bos {
		if !w.alive[i] {
			continue
		}
		obs[i] = boObs{Total: b.GetTotalSleep(), TotalTimes: b.GetTotalBackoffTimes(), ErrorsNum: b.ErrorsNum(),
			SleepMS: copyNonZero(b.GetBackoffSleepMS()), Times: copyNonZero(b.GetBackoffTimes()), Types: append([]string(nil), b.GetTypes()...)}
	}
	return
}

func sameMap(a, b map[string]int) bool {
	if len(a) != len(b) {
		return false
	}
	for k, v := range a {
		if b[k] != v {
			return false
		}
	}
	return true
}

func mapText(m map[string]int) string {
	ks := make([]string, 0, len(m))
	for k := range m {
		ks = append(ks, k)
	}
	sort.Strings(ks)
	s := "{"
	for i, k := range ks {
		if i > 0 {
			s += ","
		}
		s += fmt.Sprintf("%s:%d", k, m[k])
	}
	return s + "}"
}

// refObs renders the reference's view of slot i in the same shape.
func (r *refState) refObs(i int) boObs {
	b := &r.bos[i]
	o := boObs{Total: b.total, ErrorsNum: b.errorsNum, SleepMS: map[string]int{}, Times: map[string]int{}}
	for _, k := range kinds {
		if b.sleepMS[k.id] != 0 {
			o.SleepMS[k.name] = b.sleepMS[k.id]
		}
		if b.times[k.id] != 0 {
			o.Times[k.name] = b.times[k.id]
			o.TotalTimes += b.times[k.id]
		}
	}
	return o
}

// finding is one violated check of a transition.
type finding struct {
	key    string
	what   string
	desync bool // the real state no longer matches the reference: do not explore further from here
}

// engineNote is not a violation: the real code left the documented sleep
// schedule in a way the property does not forbid. Deduplication by reference
// state is then no longer justified, so the run is marked incomplete.
type engineNote string

// check compares one executed transition with the reference. pre/post are the
// real observations around the operation, rpost the reference after it.
func check(o op, e expectation, res result, pre, post []boObs, rpost *refState) (fs []finding, notes []engineNote) {
	add := func(key, format string, a ...any) {
		fs = append(fs, finding{key: key, what: fmt.Sprintf(format, a...)})
	}
	desync := func(key, format string, a ...any) {
		fs = append(fs, finding{key: key, what: fmt.Sprintf(format, a...), desync: true})
	}
	name := opNames[o.Code]
	if res.panicked != nil {
		desync("panic:"+name, "%s panicked: %v", o, res.panicked)
		return
	}

	if isBackoffOp(o.Code) {
		k := kinds[o.Kind]
		shape := "jitter-" + jitterName(k.jitter)
		if !res.exactMs {
			notes = append(notes, engineNote("a sleep was not a whole number of milliseconds"))
		}
		// --- demanded by the property text, judged on the real call alone ---
		if res.elapsedMs > e.capMs {
			add("sleep:exceeds-exponential-cap:"+shape, "%s slept %dms, the cap of kind %s is %dms", o, res.elapsedMs, k.name, e.capMs)
		}
		if e.perCallMax >= 0 && res.elapsedMs > e.perCallMax {
			add("sleep:exceeds-per-call-max:"+name, "%s slept %dms although the per-call maximum is %dms", o, res.elapsedMs, e.perCallMax)
		}
		switch {
		case e.branch == "backoff:ctx-cancelled":
			if res.class == "nil" {
				desync("cancel:next-call-returns-nil", "%s returned nil although its context was already cancelled", o)
			}
			if res.elapsedMs != 0 {
				desync("cancel:next-call-sleeps", "%s slept %dms although its context was already cancelled", o, res.elapsedMs)
			}
		case e.branch == "backoff:killed-before-call-refused":
			if !contains(e.classes, res.class) {
				add("kill:call-does-not-report-kill", "%s returned %s although the query was killed before the call; expected %v", o, res.class, e.classes)
			}
		case e.exhausted:
			if res.elapsedMs != 0 || len(res.timers) > 0 {
				desync("budget:sleeps-when-exhausted:"+e.branch, "%s slept %dms although %dms (non-excluded) of the %dms budget were already used", o, res.elapsedMs, e.nonExclPre, e.budget)
			}
			if res.class == "nil" {
				desync("budget:returns-nil-when-exhausted:"+e.branch, "%s returned nil although %dms of the %dms budget were already used", o, e.nonExclPre, e.budget)
			} else if !contains(e.classes, res.class) && !(e.killedBefore && res.class == "killed:1") {
				sh := "plain"
				if e.missingCfg {
					sh = "longest-kind-missing-from-configs"
				}
				add("exhausted:error-is-not-the-longest-sleeper:"+sh, "%s on an exhausted budget returned error class %s (%q); the kind(s) with the largest accumulated sleep demand %v; accounting %s",
					o, res.class, firstLine(res.errText), e.classes, mapText(pre[o.Slot].SleepMS))
			}
		default:
			// the reference lets the call sleep
			if e.killedBefore && res.elapsedMs > 0 {
				add("kill:next-call-sleeps-before-reporting", "%s slept %dms although the query was killed before the call (returned %s)", o, res.elapsedMs, res.class)
			}
			if e.wantNil && res.class != "nil" {
				if len(res.timers) == 0 && res.elapsedMs == 0 {
					desync("budget:error-before-exhaustion", "%s returned %s (%q) without sleeping although only %dms (non-excluded) of the %dms budget were used", o, res.class, firstLine(res.errText), e.nonExclPre, e.budget)
				} else {
					desync("backoff:error-after-sleep-within-budget", "%s slept %dms and then returned %s (%q) although only %dms (non-excluded) of the %dms budget were used before the call and nothing was cancelled or killed", o, res.elapsedMs, res.class, firstLine(res.errText), e.nonExclPre, e.budget)
				}
			}
			if !e.wantNil && !contains(e.classes, res.class) {
				add("kill:call-does-not-report-kill", "%s returned %s although the query is killed; expected %v", o, res.class, e.classes)
			}
			if o.Intr == intrCancel && res.elapsedMs > e.elapsedMs {
				add("cancel:sleep-continues-after-cancel", "%s kept sleeping for %dms although its context was cancelled after %dms", o, res.elapsedMs, e.elapsedMs)
			}
			// budget + one step, on the real total (excluded share from the reference)
			if e.budget > 0 && !k.excluded {
				after := post[o.Slot].Total - rpost.bos[o.Slot].excl
				if after > e.budget-1+res.elapsedMs {
					add("budget:total-exceeds-budget-plus-one-step", "after %s total non-excluded sleep is %dms: more than budget %dms plus this step (%dms)", o, after, e.budget, res.elapsedMs)
				}
			}
			// accounting equals the time really slept (an interrupted sleep may account less)
			d := post[o.Slot].Total - pre[o.Slot].Total
			if o.Intr != intrCancel && d != res.elapsedMs {
				desync("accounting:sleep-not-equal-to-time-slept", "%s slept %dms of virtual time but GetTotalSleep grew by %dms", o, res.elapsedMs, d)
			}
			if o.Intr == intrCancel && (d < 0 || d > res.elapsedMs) {
				desync("accounting:sleep-not-equal-to-time-slept", "%s was cut after %dms but GetTotalSleep grew by %dms", o, res.elapsedMs, d)
			}
			// documented schedule (not demanded by the property): only a soundness condition of the deduplication
			if res.elapsedMs != e.elapsedMs || (len(res.timers) == 1 && int(res.timers[0]/time.Millisecond) != e.timerMs) || len(res.timers) != 1 || res.sleeps != 0 {
				notes = append(notes, engineNote(fmt.Sprintf("sleep schedule differs from the documented one: kind %s expected %dms (timer %dms), saw %dms (timers %v)", k.name, e.elapsedMs, e.timerMs, res.elapsedMs, res.timers)))
			}
			if (e.askN == 0) != (len(res.draws) == 0) || (len(res.draws) == 1 && res.draws[0] != e.askN) || len(res.draws) > 1 {
				notes = append(notes, engineNote(fmt.Sprintf("jitter draw differs from the documented one: kind %s expected Intn(%d), saw %v", k.name, e.askN, res.draws)))
			}
		}
		if e.branch == "backoff:ctx-cancelled" || e.exhausted {
			if len(res.timers) > 0 || len(res.draws) > 0 {
				// armed a timer although it must not sleep: already reported above when time passed
				if res.elapsedMs == 0 && !e.exhausted {
					desync("cancel:next-call-sleeps", "%s armed a timer although its context was already cancelled", o)
				}
			}
		}
	}

	if len(fs) > 0 {
		notes = nil // a failed check already explains a different schedule
	}

	// --- fork / clone start from the parent's accounting; merge copies the fork's ---
	switch o.Code {
	case opClone, opFork:
		n := len(post) - 1
		p, c := post[o.Slot], post[n]
		if c.Total != p.Total || c.TotalTimes != p.TotalTimes || c.ErrorsNum != p.ErrorsNum || !sameMap(c.SleepMS, p.SleepMS) || !sameMap(c.Times, p.Times) {
			desync("derive:"+name+"-does-not-start-from-parent-accounting", "%s: child total=%d times=%d errors=%d sleep=%s, parent total=%d times=%d errors=%d sleep=%s",
				o, c.Total, c.TotalTimes, c.ErrorsNum, mapText(c.SleepMS), p.Total, p.TotalTimes, p.ErrorsNum, mapText(p.SleepMS))
		}
	case opUpdate:
		src, dst := pre[o.Src], post[o.Slot]
		if dst.Total != src.Total || !sameMap(dst.SleepMS, src.SleepMS) {
			what := "loses"
			if dst.Total > src.Total {
				what = "double-counts"
			}
			desync("merge:"+what+"-sleep-time", "%s: receiver has total=%d sleep=%s afterwards, the fork had total=%d sleep=%s (receiver before: total=%d)",
				o, dst.Total, mapText(dst.SleepMS), src.Total, mapText(src.SleepMS), pre[o.Slot].Total)
		}
		if dst.TotalTimes != src.TotalTimes || !sameMap(dst.Times, src.Times) || dst.ErrorsNum != src.ErrorsNum {
			desync("merge:counters-differ-from-fork", "%s: receiver has times=%s errors=%d afterwards, the fork had times=%s errors=%d", o, mapText(dst.Times), dst.ErrorsNum, mapText(src.Times), src.ErrorsNum)
		}
	}

	// --- every observation of every live backoffer against the reference ---
	// A transition that already failed a check above usually also leaves the counters off; that is the
	// same defect, so it is not reported again under obs:* keys (the state is just marked as diverged).
	// Findings that only concern the returned error or a kill noticed late do not explain wrong counters.
	primary, explained := len(fs), -1
	for i, f := range fs {
		if !strings.HasPrefix(f.key, "kill:next-call-sleeps") && !strings.HasPrefix(f.key, "exhausted:error-is-not") {
			explained = i
			break
		}
	}
	defer func() {
		if explained >= 0 && len(fs) > primary {
			fs = fs[:primary]
			fs[explained].desync = true
		}
	}()
	for i := range post {
		if !rpost.bos[i].alive {
			continue
		}
		want, got := rpost.refObs(i), post[i]
		who := "receiver"
		if isBackoffOp(o.Code) || o.Code == opReset || o.Code == opResetMax || o.Code == opUpdate {
			if i != int(o.Slot) {
				who = "bystander"
			}
		} else if o.Code == opClone || o.Code == opFork {
			if i == len(post)-1 {
				who = "child"
			} else if i != int(o.Slot) {
				who = "bystander"
			}
		} else {
			who = "any"
		}
		sfx := ":" + who + "-after-" + name
		if got.Total != want.Total {
			desync("obs:GetTotalSleep"+sfx, "after %s b%d.GetTotalSleep()=%d, reference %d", o, i, got.Total, want.Total)
		}
		if got.TotalTimes != want.TotalTimes {
			desync("obs:GetTotalBackoffTimes"+sfx, "after %s b%d.GetTotalBackoffTimes()=%d, reference %d", o, i, got.TotalTimes, want.TotalTimes)
		}
		if got.ErrorsNum != want.ErrorsNum {
			desync("obs:ErrorsNum"+sfx, "after %s b%d.ErrorsNum()=%d, reference %d", o, i, got.ErrorsNum, want.ErrorsNum)
		}
		if !sameMap(got.SleepMS, want.SleepMS) {
			desync("obs:GetBackoffSleepMS"+sfx, "after %s b%d.GetBackoffSleepMS()=%s, reference %s", o, i, mapText(got.SleepMS), mapText(want.SleepMS))
		}
		if !sameMap(got.Times, want.Times) {
			desync("obs:GetBackoffTimes"+sfx, "after %s b%d.GetBackoffTimes()=%s, reference %s", o, i, mapText(got.Times), mapText(want.Times))
		}
		// GetTypes: the property says nothing about it; the only demand is the documented one that the
		// kinds this backoffer backed off with (or inherited when it was created) are listed.
		have := map[string]bool{}
		for _, t := range got.Types {
			have[t] = true
		}
		for _, k := range kinds {
			if rpost.bos[i].listed&(1<<uint(k.id)) != 0 && !have[k.name] {
				desync("obs:GetTypes-misses-own-kind"+sfx, "after %s b%d.GetTypes()=%v lacks %s", o, i, got.Types, k.name)
			}
		}
	}
	return
}

func contains(l []string, s string) bool {
	for _, x := range l {
		if x == s {
			return true
		}
	}
	return false
}

func firstLine(s string) string {
	for i := 0; i < len(s); i++ {
		if s[i] == '\n' {
			return s[:i]
		}
	}
	return s
}

package main

import (
	"fmt"
	"strings"
)

// Operation codes, simplest first.
const (
	opBackoff  uint8 = iota // Backoff(cfg, err)
	opLockFast              // BackoffWithMaxSleepTxnLockFast(max, err)
	opCfgMax                // BackoffWithCfgAndMaxSleep(cfg, max, err)
	opReset                 // Reset()
	opResetMax              // ResetMaxSleep(max)
	opClone                 // Clone() -> new slot
	opFork                  // Fork() -> new slot with a child context
	opUpdate                // slot.UpdateUsingForked(src); src is retired afterwards (documented precondition)
	opCancel                // cancel context node src (root context or the cancel func of a Fork)
	opKill                  // store 1 into *vars.Killed
)

var opNames = []string{"Backoff", "BackoffWithMaxSleepTxnLockFast", "BackoffWithCfgAndMaxSleep", "Reset", "ResetMaxSleep", "Clone", "Fork", "UpdateUsingForked", "CancelCtx", "Kill"}

// Environment decisions attached to a back-off call.
const (
	jitMin uint8 = 0 // rand.Intn(n) answers 0
	jitMax uint8 = 1 // rand.Intn(n) answers n-1

	intrNone   uint8 = 0
	intrCancel uint8 = 1 // the backoffer's context is cancelled at half of the sleep; the timer never fires
	intrKill   uint8 = 2 // the killed flag is set while the call sleeps; the timer then fires
)

// op is one transition: 8 bytes, so that histories are cheap to keep.
type op struct {
	Code uint8
	Slot uint8 // receiver
	Kind uint8 // kind id (back-off calls)
	Jit  uint8
	Intr uint8
	Src  uint8 // opUpdate: forked slot; opCancel: context node
	Max  int16 // per-call maximum (-1: none) / new budget for ResetMaxSleep
}

func isBackoffOp(c uint8) bool { return c <= opCfgMax }

func (o op) String() string {
	switch o.Code {
	case opBackoff, opLockFast, opCfgMax:
		var sb strings.Builder
		switch o.Code {
		case opBackoff:
			fmt.Fprintf(&sb, "b%d.Backoff(%s)", o.Slot, kinds[o.Kind].name)
		case opLockFast:
			fmt.Fprintf(&sb, "b%d.BackoffWithMaxSleepTxnLockFast(%d)", o.Slot, o.Max)
		default:
			fmt.Fprintf(&sb, "b%d.BackoffWithCfgAndMaxSleep(%s,%d)", o.Slot, kinds[o.Kind].name, o.Max)
		}
		if kinds[o.Kind].jitter != 1 { // not NoJitter
			if o.Jit == jitMin {
				sb.WriteString("[jitter=min]")
			} else {
				sb.WriteString("[jitter=max]")
			}
		}
		switch o.Intr {
		case intrCancel:
			sb.WriteString("[ctx cancelled mid-sleep]")
		case intrKill:
			sb.WriteString("[killed mid-sleep]")
		}
		return sb.String()
	case opReset:
		return fmt.Sprintf("b%d.Reset()", o.Slot)
	case opResetMax:
		return fmt.Sprintf("b%d.ResetMaxSleep(%d)", o.Slot, o.Max)
	case opClone:
		return fmt.Sprintf("b%d.Clone()", o.Slot)
	case opFork:
		return fmt.Sprintf("b%d.Fork()", o.Slot)
	case opUpdate:
		return fmt.Sprintf("b%d.UpdateUsingForked(b%d)", o.Slot, o.Src)
	case opCancel:
		return fmt.Sprintf("cancel(ctx%d)", o.Src)
	case opKill:
		return "kill()"
	}
	return "?"
}

// jop is the JSON form of an op used in replay files (kinds by name).
type jop struct {
	Op   string `json:"op"`
	Slot int    `json:"slot"`
	Kind string `json:"kind,omitempty"`
	Max  int    `json:"max"`
	Jit  string `json:"jitter,omitempty"`
	Intr string `json:"interrupt,omitempty"`
	Src  int    `json:"src"`
	Text string `json:"text"`
}

func (o op) toJSON() jop {
	j := jop{Op: opNames[o.Code], Slot: int(o.Slot), Max: int(o.Max), Src: int(o.Src), Text: o.String()}
	if isBackoffOp(o.Code) {
		j.Kind = kinds[o.Kind].name
		j.Jit = []string{"min", "max"}[o.Jit]
		j.Intr = []string{"", "cancel", "kill"}[o.Intr]
	}
	return j
}

func opFromJSON(j jop) (op, error) {
	o := op{Slot: uint8(j.Slot), Max: int16(j.Max), Src: uint8(j.Src)}
	found := false
	for i, n := range opNames {
		if n == j.Op {
			o.Code = uint8(i)
			found = true
		}
	}
	if !found {
		return o, fmt.Errorf("unknown op %q", j.Op)
	}
	if isBackoffOp(o.Code) {
		k, ok := kindByName[j.Kind]
		if !ok {
			return o, fmt.Errorf("unknown kind %q", j.Kind)
		}
		o.Kind = uint8(k.id)
		if j.Jit == "max" {
			o.Jit = jitMax
		}
		switch j.Intr {
		case "cancel":
			o.Intr = intrCancel
		case "kill":
			o.Intr = intrKill
		}
	}
	return o, nil
}

// replayArt is the artefact stored with a violation: enough to re-run it.
type replayArt struct {
	Suite  string `json:"suite"`
	Budget int    `json:"budget"`
	Weight int    `json:"weight"`
	Ops    []jop  `json:"ops"`
}

func histText(h []op) string {
	s := make([]string, len(h))
	for i, o := range h {
		s[i] = o.String()
	}
	return strings.Join(s, "; ")
}

// boTemplate is a back-off call of a suite's alphabet (receiver filled in later).
type boTemplate struct {
	code uint8
	kind string
	max  int16
	jit  uint8
	intr uint8
}

// suite is one alphabet + bounds. See main.go for the ones used per tier.
type suite struct {
	name       string
	depth      int
	maxLive    int // backoffers alive at the same time
	maxCreated int // backoffers ever created (root included)
	backoffs   []boTemplate
	reset      bool
	resetMax   []int16
	clone      bool
	fork       bool
	update     bool
	cancel     bool
	kill       bool
	configs    [][2]int // (budget, weight) pairs to explore; nil: all of budgets x weights
}

// enabledOps lists the transitions enabled in reference state r, in a fixed
// order (receiver by receiver, simplest operation first, kill last).
func (s *suite) enabledOps(r *refState, out []op) []op {
	out = out[:0]
	live := 0
	for i := range r.bos {
		if r.bos[i].alive {
			live++
		}
	}
	for i := range r.bos {
		b := &r.bos[i]
		if !b.alive {
			continue
		}
		for _, t := range s.backoffs {
			out = append(out, op{Code: t.code, Slot: uint8(i), Kind: uint8(kindNamed(t.kind).id), Jit: t.jit, Intr: t.intr, Max: t.max})
		}
		if s.reset {
			out = append(out, op{Code: opReset, Slot: uint8(i)})
		}
		for _, m := range s.resetMax {
			out = append(out, op{Code: opResetMax, Slot: uint8(i), Max: m})
		}
		if live < s.maxLive && len(r.bos) < s.maxCreated {
			if s.clone {
				out = append(out, op{Code: opClone, Slot: uint8(i)})
			}
			if s.fork {
				out = append(out, op{Code: opFork, Slot: uint8(i)})
			}
		}
		if s.update {
			// valid merges only: the receiver must be on the parent chain of src
			for j := range r.bos {
				if j == i || !r.bos[j].alive {
					continue
				}
				if r.onParentChain(j, i) {
					out = append(out, op{Code: opUpdate, Slot: uint8(i), Src: uint8(j)})
				}
			}
		}
	}
	if s.cancel {
		for n := range r.ctxParent {
			if r.ctxDone(n) {
				continue
			}
			out = append(out, op{Code: opCancel, Src: uint8(n)})
		}
	}
	if s.kill && r.killed == 0 {
		out = append(out, op{Code: opKill})
	}
	return out
}

// Part "chains" of the C20 harness: long chains of back-offs.
//
// The breadth-first suites of main.go explore every operation sequence, but
// only to depth 4..8: the exponential step of a kind never gets beyond a few
// doublings, per-kind attempt counters stay tiny and the accounted totals stay
// small. This part covers the other axis: for every back-off kind (every
// built-in Bo* config, the custom FullJitter config and a grid of synthetic
// configs: every jitter mode x small/large base x small/large cap) it runs
// chain PROGRAMS of chainLen (>= 128) back-offs on one Backoffer
//
//	single   : A A A A ...
//	alternate: A B A B ...            (ordered pairs of kinds)
//	halves   : A ... A B ... B        (ordered pairs of kinds)
//
// for every combination of
//
//	jitter answer per kind  {min, max} (fixed along the chain)
//	budget                  none (0) | larger than the sum of all steps (never ends the chain)
//	                        | exactly the total after half of the chain | that + 1 | half of it with weight 2
//	                        | exactly the total after 7/8 of the chain
//	per-call maximum        none | 0 | 5 | cap-1                       (single chains)
//	derive variant          side : after every `every`-th step Clone() and Fork() the backoffer, run `tail`
//	                               steps on the child, drop it (the parent must not notice)
//	                        merge: after every `every`-th step Fork(), run `tail` steps on the fork,
//	                               UpdateUsingForked it back, continue on the parent
//
// The enumeration is exhaustive over this finite grid and deterministic. A
// chain is linear, so no replay is needed: the oracle runs after EVERY step on
// the same real Backoffer (sleeping virtual, jitter answered by the program).
//
// Oracle (property text + documented behaviour of config/retry), per step:
//   - the sleep (virtual time, armed timer, accounted amount) is >= 0, <= the
//     kind's exponential cap and <= the per-call maximum;
//   - it equals the documented schedule min(cap, base*2^n) with the documented
//     jitter (integer reference, no floats, no shifts);
//   - GetTotalSleep / GetBackoffSleepMS / GetBackoffTimes are monotone, grow by
//     exactly the time slept and the per-kind amounts sum up to the total;
//   - budget rule on the REAL counters: a call is refused iff the non-excluded
//     total already reached the budget (an excluded kind: iff its own sleep
//     reached max(own cap, budget)), so the total never exceeds budget + one
//     step; a refused call does not sleep and reports the error of the kind
//     with the largest accumulated sleep; within the budget a call returns nil;
//   - Clone / Fork start from the parent's accounting (with a fresh
//     exponential schedule), the parent is untouched by what the child does,
//     UpdateUsingForked makes the parent's accounting equal to the fork's.
//
// After the first refusal the program goes on for chainAfterRefusal more
// steps (every one must be refused again), then stops.
package main

import (
	"context"
	"encoding/json"
	"errors"
	"fmt"
	"math"
	"os"
	"runtime"
	"sort"
	"sync"
	"sync/atomic"
	"time"

	"github.com/tikv/client-go/v2/config/retry"
	"github.com/tikv/client-go/v2/kv"
	"github.com/tikv/client-go/v2/verifrt/vtime"
)

const chainAfterRefusal = 4

// chainKind is one back-off config of this part.
type chainKind struct {
	idx      int
	name     string
	cfg      *retry.Config
	base     int // effective base (>= 2; txnLockFast: vars.BackoffLockFast)
	cap      int
	jitter   int
	class    string // error class reported on exhaustion
	excluded bool
	limit    int
	synth    bool
}

var (
	chainKinds      []*chainKind
	chainKindByName = map[string]*chainKind{}
	// synthetic grid
	synthBases = []int{1, 2, 7, 100, 3000}
	synthCaps  = []int{2, 9, 500, 600000, math.MaxInt32}
)

func initChainKinds() {
	add := func(k *chainKind) {
		k.idx = len(chainKinds)
		chainKinds = append(chainKinds, k)
		chainKindByName[k.name] = k
	}
	for _, k := range kinds { // every built-in kind + the custom FullJitter config of the BFS suites
		add(&chainKind{name: k.name, cfg: k.cfg, base: k.base, cap: k.cap, jitter: k.jitter, class: errClassOf[k.err], excluded: k.excluded, limit: k.limit})
	}
	for _, j := range []int{retry.NoJitter, retry.FullJitter, retry.EqualJitter, retry.DecorrJitter} {
		for _, base := range synthBases {
			for _, cp := range synthCaps {
				eb := max(base, 2) // documented in newBackoffFn
				if j == retry.DecorrJitter && cp < eb {
					// DecorrJitter draws from [0, 3*last-base): a cap below base/3 makes that range empty
					// (rand.Intn panics). A cap below the base is a misconfiguration, not explored.
					continue
				}
				name := fmt.Sprintf("syn-%s-b%d-c%d", jitterName(j), base, cp)
				err := errors.New("verif " + name + " exhausted")
				errClassOf[err] = "kinderr:" + name
				add(&chainKind{name: name, cfg: retry.NewConfig(name, nil, retry.NewBackoffFnCfg(base, cp, j), err),
					base: eb, cap: cp, jitter: j, class: "kinderr:" + name, synth: true})
			}
		}
	}
}

// representative synthetic kinds for the pair chains of the quick tier: per
// jitter mode one small (base 2, cap 9) and one large (base 100, cap 600000).
func isPairRepresentative(k *chainKind) bool {
	if !k.synth {
		return true
	}
	return (k.cfg.Base() == 2 && k.cap == 9) || (k.cfg.Base() == 100 && k.cap == 600000)
}

// ---------------------------------------------------------------------------
// programs
// ---------------------------------------------------------------------------

const (
	patSingle uint8 = iota
	patAlternate
	patHalves
)

var patNames = []string{"single", "alternate", "halves"}

const (
	budNone  uint8 = iota // maxSleep 0: no budget
	budHuge               // larger than the sum of all steps the program can make, weight 2
	budMid                // the non-excluded total after half of the main chain (boundary: next call refused)
	budMidP1              // that + 1 (boundary: one more step)
	budMidW2              // half of it, weight 2
	budLate               // the non-excluded total after 7/8 of the main chain (a long run after the kinds changed)
	nBudModes
)

var budNames = []string{"none", "huge", "mid", "mid+1", "mid/2*w2", "late"}

const (
	varSide uint8 = iota
	varMerge
)

var varNames = []string{"side", "merge"}

type chainProg struct {
	A, B       int // kind indices (B < 0: single)
	JitA, JitB uint8
	Pattern    uint8
	Mode       uint8
	Max        int // per-call maximum, -1 none
	Variant    uint8
	Len        int
	Every      int // derive after every Every-th step of the main chain
	Tail       int // steps on a derived backoffer
}

func (p *chainProg) kindAt(i int) int { // which of the two kinds (0/1) makes main step i (0-based)
	switch p.Pattern {
	case patAlternate:
		return i & 1
	case patHalves:
		if i >= p.Len/2 {
			return 1
		}
	}
	return 0
}

func (p *chainProg) kinds2() (ks [2]*chainKind, jit [2]uint8) {
	ks[0], jit[0] = chainKinds[p.A], p.JitA
	if p.B >= 0 {
		ks[1], jit[1] = chainKinds[p.B], p.JitB
	}
	return
}

type chainReplay struct {
	Suite    string `json:"suite"` // "chains"
	Pattern  string `json:"pattern"`
	KindA    string `json:"kind_a"`
	KindB    string `json:"kind_b,omitempty"`
	JitA     string `json:"jitter_a"`
	JitB     string `json:"jitter_b,omitempty"`
	Budget   string `json:"budget_mode"`
	MaxSleep int    `json:"budget_ms"`
	Weight   int    `json:"weight"`
	Max      int    `json:"per_call_max"`
	Variant  string `json:"variant"`
	Len      int    `json:"len"`
	Every    int    `json:"every"`
	Tail     int    `json:"tail"`
	FailedAt string `json:"failed_at,omitempty"`
}

func (p *chainProg) replay(failedAt string) chainReplay {
	ms, w := p.budget()
	r := chainReplay{Suite: "chains", Pattern: patNames[p.Pattern], KindA: chainKinds[p.A].name, JitA: []string{"min", "max"}[p.JitA],
		Budget: budNames[p.Mode], MaxSleep: ms, Weight: w, Max: p.Max, Variant: varNames[p.Variant], Len: p.Len, Every: p.Every, Tail: p.Tail, FailedAt: failedAt}
	if p.B >= 0 {
		r.KindB, r.JitB = chainKinds[p.B].name, []string{"min", "max"}[p.JitB]
	}
	return r
}

func indexOf(l []string, s string) int {
	for i, x := range l {
		if x == s {
			return i
		}
	}
	return -1
}

func progFromReplay(r chainReplay) (*chainProg, error) {
	p := &chainProg{B: -1, Max: r.Max, Len: r.Len, Every: r.Every, Tail: r.Tail}
	a, ok := chainKindByName[r.KindA]
	if !ok {
		return nil, fmt.Errorf("unknown kind %q", r.KindA)
	}
	p.A = a.idx
	if r.KindB != "" {
		b, ok := chainKindByName[r.KindB]
		if !ok {
			return nil, fmt.Errorf("unknown kind %q", r.KindB)
		}
		p.B = b.idx
	}
	if r.JitA == "max" {
		p.JitA = jitMax
	}
	if r.JitB == "max" {
		p.JitB = jitMax
	}
	pi, bi, vi := indexOf(patNames, r.Pattern), indexOf(budNames, r.Budget), indexOf(varNames, r.Variant)
	if pi < 0 || bi < 0 || vi < 0 || p.Len <= 0 || p.Every <= 0 {
		return nil, fmt.Errorf("bad chain replay %+v", r)
	}
	p.Pattern, p.Mode, p.Variant = uint8(pi), uint8(bi), uint8(vi)
	return p, nil
}

func (p *chainProg) String() string {
	ks, _ := p.kinds2()
	ms, w := p.budget()
	s := fmt.Sprintf("%s chain of %d x %s", patNames[p.Pattern], p.Len, ks[0].name)
	if ks[0].jitter != retry.NoJitter {
		s += "[jitter=" + []string{"min", "max"}[p.JitA] + "]"
	}
	if ks[1] != nil {
		s += " / " + ks[1].name
		if ks[1].jitter != retry.NoJitter {
			s += "[jitter=" + []string{"min", "max"}[p.JitB] + "]"
		}
	}
	s += fmt.Sprintf(", budget %s (%dms x weight %d)", budNames[p.Mode], ms, w)
	if p.Max >= 0 {
		s += fmt.Sprintf(", per-call max %dms", p.Max)
	}
	s += fmt.Sprintf(", %s every %d steps (child runs %d steps)", map[uint8]string{varSide: "Clone+Fork aside", varMerge: "Fork+UpdateUsingForked"}[p.Variant], p.Every, p.Tail)
	return s
}

// budget returns (maxSleep, weight) of the program. The "mid" modes are
// computed by a dry run of the reference on the main chain without a budget.
func (p *chainProg) budget() (maxSleep, weight int) {
	ks, jit := p.kinds2()
	switch p.Mode {
	case budNone:
		return 0, 1
	case budHuge:
		mc := ks[0].cap
		if ks[1] != nil {
			mc = max(mc, ks[1].cap)
		}
		return (p.Len*(p.Tail+1)+chainAfterRefusal+8)*mc + 1, 2
	}
	var b crefBo
	n := p.Len / 2
	if p.Mode == budLate {
		n = p.Len * 7 / 8
	}
	for i := 0; i < n; i++ {
		ki := p.kindAt(i)
		b.step(ks, ki, jit[ki], p.Max)
	}
	t := b.total - b.excl
	switch p.Mode {
	case budMid, budLate:
		return max(1, t), 1
	case budMidP1:
		return max(1, t) + 1, 1
	default:
		return max(1, t/2), 2
	}
}

// ---------------------------------------------------------------------------
// reference (plain ints; written from the property text and the doc comments)
// ---------------------------------------------------------------------------

type crefBo struct {
	budget    int // effective; <= 0: none
	total     int
	excl      int
	errorsNum int
	sleep     [2]int
	times     [2]int
	attempts  [2]int // completed sleeps of this backoffer per kind (a derived backoffer starts at 0)
	last      [2]int // DecorrJitter: the previous planned sleep (0: none yet)
}

func (b crefBo) derive() crefBo { // Clone / Fork: accounting inherited, schedule fresh
	b.attempts, b.last = [2]int{}, [2]int{}
	return b
}

func (b *crefBo) merge(src *crefBo) { // UpdateUsingForked: copy semantics; budget and schedule of the receiver stay
	b.total, b.excl, b.errorsNum, b.sleep, b.times = src.total, src.excl, src.errorsNum, src.sleep, src.times
}

type cexp struct {
	refused bool
	branch  string
	classes []string // refused: acceptable error classes
	planned int      // sleep of the schedule before the per-call maximum
	real    int      // expected sleep
	askN    int64    // bound of the documented jitter draw (0: none)
}

func (b *crefBo) longest(ks [2]*chainKind) (classes []string) {
	add := func(c string) {
		for _, x := range classes {
			if x == c {
				return
			}
		}
		classes = append(classes, c)
	}
	best, bestAll := 0, 0
	for i, k := range ks {
		if k == nil {
			continue
		}
		if !k.excluded {
			best = max(best, b.sleep[i])
		}
		bestAll = max(bestAll, b.sleep[i])
	}
	if best > 0 {
		for i, k := range ks {
			if k != nil && !k.excluded && b.sleep[i] == best {
				add(k.class)
			}
		}
	} else {
		add("passed") // no eligible kind: the caller's error
	}
	if bestAll > best { // the property text does not say whether excluded kinds compete: both readings accepted
		for i, k := range ks {
			if k != nil && b.sleep[i] == bestAll {
				add(k.class)
			}
		}
	}
	return
}

func (b *crefBo) step(ks [2]*chainKind, ki int, jit uint8, perCallMax int) (e cexp) {
	k := ks[ki]
	if b.budget > 0 {
		if b.total-b.excl >= b.budget {
			e.refused, e.branch = true, "budget-exhausted"
		} else if k.excluded && b.excl >= k.limit && b.excl >= b.budget {
			e.refused, e.branch = true, "excluded-cap-exhausted"
		}
	}
	if e.refused {
		e.classes = b.longest(ks)
		return
	}
	e.branch = "slept"
	b.errorsNum++
	pick := func(n int) int {
		e.askN = int64(n)
		if jit == jitMax {
			return n - 1
		}
		return 0
	}
	switch k.jitter {
	case retry.NoJitter:
		e.planned = expoRef(k.base, k.cap, b.attempts[ki])
	case retry.FullJitter:
		e.planned = pick(expoRef(k.base, k.cap, b.attempts[ki]))
	case retry.EqualJitter:
		v := expoRef(k.base, k.cap, b.attempts[ki])
		e.planned = v/2 + pick(v/2)
	case retry.DecorrJitter:
		last := b.last[ki]
		if last == 0 {
			last = k.base
		}
		e.planned = min(k.cap, k.base+pick(last*3-k.base))
	default:
		panic("jitter mode not modelled")
	}
	e.real = e.planned
	if perCallMax >= 0 && e.real > perCallMax {
		e.real = perCallMax
	}
	b.attempts[ki]++
	b.last[ki] = e.planned
	b.total += e.real
	if k.excluded {
		b.excl += e.real
	}
	b.sleep[ki] += e.real
	b.times[ki]++
	return
}

// ---------------------------------------------------------------------------
// real side
// ---------------------------------------------------------------------------

type cobs struct {
	total, totalTimes, errorsNum int
	sleep, times                 [2]int
	sumSleep, sumTimes           int // over the whole maps
}

func chainObserve(b *retry.Backoffer, ks [2]*chainKind) (o cobs, panicked any) {
	defer func() {
		if p := recover(); p != nil {
			panicked = p
		}
	}()
	o.total, o.totalTimes, o.errorsNum = b.GetTotalSleep(), b.GetTotalBackoffTimes(), b.ErrorsNum()
	sm, tm := b.GetBackoffSleepMS(), b.GetBackoffTimes()
	for i, k := range ks {
		if k != nil {
			o.sleep[i], o.times[i] = sm[k.name], tm[k.name]
		}
	}
	for _, v := range sm {
		o.sumSleep += v
	}
	for _, v := range tm {
		o.sumTimes += v
	}
	return
}

func (o cobs) String() string {
	return fmt.Sprintf("total=%d times=%d errors=%d per-kind sleep=%v times=%v", o.total, o.totalTimes, o.errorsNum, o.sleep, o.times)
}

func (o cobs) sameAccounting(p cobs) bool {
	return o.total == p.total && o.totalTimes == p.totalTimes && o.errorsNum == p.errorsNum && o.sleep == p.sleep && o.times == p.times && o.sumSleep == p.sumSleep
}

func (b *crefBo) matches(o cobs) bool {
	return o.total == b.total && o.errorsNum == b.errorsNum && o.sleep == b.sleep && o.times == b.times && o.totalTimes == b.times[0]+b.times[1]
}

type chainRun struct {
	e          *env
	p          *chainProg
	ks         [2]*chainKind
	jit        [2]uint8
	budget     int // effective
	steps      int64
	states     int64
	fs         []finding
	failAt     string
	outc       map[string]int64
	trace      func(string) // replay mode: one line per step
	maxOv      int64
	sawRefusal bool
}

func (c *chainRun) fail(at, key, format string, a ...any) {
	c.fs = append(c.fs, finding{key: key, what: fmt.Sprintf(format, a...)})
	if c.failAt == "" {
		c.failAt = at
	}
}

// backoff executes one back-off call on the real backoffer b / reference rb and judges it.
// It returns false when the chain must stop (a check failed: real and reference may disagree).
func (c *chainRun) backoff(at string, b *retry.Backoffer, rb *crefBo, ki int) (refused, ok bool) {
	k, jit := c.ks[ki], c.jit[ki]
	shape := "jitter-" + jitterName(k.jitter)
	pre, pp := chainObserve(b, c.ks)
	if pp != nil {
		c.fail(at, "chain:panic:getter", "%s: a getter panicked: %v", at, pp)
		return false, false
	}
	c.e.begin(jit, intrNone, nil, nil)
	t0 := c.e.clock.Now()
	var err error
	var panicked any
	func() {
		defer func() { panicked = recover() }()
		if c.p.Max < 0 {
			err = b.Backoff(k.cfg, errIn)
		} else {
			err = b.BackoffWithCfgAndMaxSleep(k.cfg, c.p.Max, errIn)
		}
	}()
	el := c.e.clock.Now().Sub(t0)
	c.e.clock.StopAll()
	c.steps++
	c.states++
	call := fmt.Sprintf("Backoff(%s) #%d of this kind on this backoffer", k.name, rb.attempts[ki]+1)
	if panicked != nil {
		c.fail(at, "chain:panic:"+shape, "%s: %s panicked: %v", at, call, panicked)
		return false, false
	}
	post, pp := chainObserve(b, c.ks)
	if pp != nil {
		c.fail(at, "chain:panic:getter", "%s: a getter panicked: %v", at, pp)
		return false, false
	}
	class := classify(err)
	elMs := int(el / time.Millisecond)
	d := post.total - pre.total
	dk := post.sleep[ki] - pre.sleep[ki]
	exp := rb.step(c.ks, ki, jit, c.p.Max)
	c.outc["chain "+exp.branch+" -> "+classOrKind(class)]++
	if c.trace != nil {
		c.trace(fmt.Sprintf("%-28s %-60s %-24s slept=%dms (schedule %dms) err=%s total=%d", at, call, exp.branch, elMs, exp.real, class, post.total))
	}
	n0 := len(c.fs)

	// ---- judged on the real call and the real counters alone ----
	timerNeg := false
	for _, t := range c.e.timers {
		if t < 0 {
			timerNeg = true
		}
	}
	if d < 0 || dk < 0 || timerNeg || post.total < 0 || post.sleep[ki] < 0 {
		c.fail(at, "chain:sleep-negative:"+shape, "%s: %s accounted a negative sleep: GetTotalSleep %d -> %d, GetBackoffSleepMS[%s] %d -> %d (timers %v)", at, call, pre.total, post.total, k.name, pre.sleep[ki], post.sleep[ki], c.e.timers)
	}
	if elMs > k.cap || d > k.cap {
		c.fail(at, "chain:sleep-exceeds-exponential-cap:"+shape, "%s: %s slept %dms (accounted %dms), the cap of the kind is %dms", at, call, elMs, d, k.cap)
	}
	if c.p.Max >= 0 && (elMs > c.p.Max || d > c.p.Max) {
		c.fail(at, "chain:sleep-exceeds-per-call-max:"+shape, "%s: %s slept %dms (accounted %dms), the per-call maximum is %dms", at, call, elMs, d, c.p.Max)
	}
	if d != elMs || dk != elMs || el%time.Millisecond != 0 {
		c.fail(at, "chain:accounting:total-not-sum-of-sleeps:"+shape, "%s: %s slept %v of virtual time, GetTotalSleep grew by %d and GetBackoffSleepMS[%s] by %d", at, call, el, d, k.name, dk)
	}
	if post.sumSleep != post.total || post.sumSleep != post.sleep[0]+post.sleep[1] {
		c.fail(at, "chain:accounting:total-not-sum-of-sleeps:"+shape, "%s: after %s GetTotalSleep=%d but the per-kind amounts sum up to %d (%v)", at, call, post.total, post.sumSleep, post.sleep)
	}
	// budget rule on the real counters (no Reset in a chain: the excluded share is the excluded kind's own amount)
	realExcl := func(o cobs) int {
		x := 0
		for i, kk := range c.ks {
			if kk != nil && kk.excluded {
				x += o.sleep[i]
			}
		}
		return x
	}
	mustRefuse, why := false, ""
	if c.budget > 0 {
		if ne := pre.total - realExcl(pre); ne >= c.budget {
			mustRefuse, why = true, fmt.Sprintf("%dms (non-excluded) of the %dms budget were already used", ne, c.budget)
		} else if k.excluded && pre.sleep[ki] >= max(k.limit, c.budget) {
			mustRefuse, why = true, fmt.Sprintf("the excluded kind already slept %dms, its own cap is %dms (budget %dms)", pre.sleep[ki], k.limit, c.budget)
		}
	}
	slept := elMs != 0 || d != 0 || len(c.e.timers) > 0
	switch {
	case mustRefuse:
		c.sawRefusal = true
		if slept {
			c.fail(at, "chain:budget:sleeps-when-exhausted:"+shape, "%s: %s slept %dms (accounted %d) although %s", at, call, elMs, d, why)
		}
		if class == "nil" {
			c.fail(at, "chain:budget:returns-nil-when-exhausted:"+shape, "%s: %s returned nil although %s", at, call, why)
		} else if exp.refused && !contains(exp.classes, class) {
			c.fail(at, "chain:exhausted:error-is-not-the-longest-sleeper", "%s: %s on an exhausted budget returned error class %s (%q); the kind(s) with the largest accumulated sleep demand %v; accounting %s",
				at, call, class, firstLine(errString(err)), exp.classes, pre)
		}
		if post.times[ki] != pre.times[ki] || post.errorsNum != pre.errorsNum {
			c.fail(at, "chain:accounting:refused-call-is-counted", "%s: %s was refused but is counted: %s -> %s", at, call, pre, post)
		}
	default:
		if class != "nil" {
			c.fail(at, "chain:budget:error-before-exhaustion:"+shape, "%s: %s returned %s (%q) although only %dms (non-excluded) of the budget (%dms; 0 = none) were used and nothing was cancelled", at, call, class, firstLine(errString(err)), pre.total-realExcl(pre), c.budget)
		}
		if post.times[ki] != pre.times[ki]+1 || post.sumTimes != pre.sumTimes+1 || post.totalTimes != pre.totalTimes+1 || post.errorsNum != pre.errorsNum+1 {
			c.fail(at, "chain:accounting:times-not-incremented", "%s: %s: counters before %s, after %s", at, call, pre, post)
		}
		if c.budget > 0 {
			if !k.excluded {
				if ne := post.total - realExcl(post); ne > c.budget-1+elMs {
					c.fail(at, "chain:budget:total-exceeds-budget-plus-one-step", "%s: after %s the non-excluded total is %dms: more than budget %dms plus this step (%dms)", at, call, ne, c.budget, elMs)
				}
				if ov := int64(post.total - realExcl(post) - c.budget); ov > c.maxOv {
					c.maxOv = ov
				}
			} else if post.sleep[ki] > max(k.limit, c.budget)-1+elMs {
				c.fail(at, "chain:budget:excluded-exceeds-own-cap-plus-one-step", "%s: after %s the excluded kind slept %dms: more than max(own cap %dms, budget %dms) plus this step (%dms)", at, call, post.sleep[ki], k.limit, c.budget, elMs)
			}
		}
	}
	// ---- against the reference: the documented schedule ----
	if !mustRefuse && !exp.refused && class == "nil" {
		if elMs != exp.real || len(c.e.timers) != 1 || (len(c.e.timers) == 1 && c.e.timers[0] != time.Duration(exp.real)*time.Millisecond) {
			c.fail(at, "chain:sleep-differs-from-exponential-schedule:"+shape, "%s: %s slept %dms (timers %v); min(cap %d, base %d * 2^%d) with jitter %s=%s and per-call max %d is %dms",
				at, call, elMs, c.e.timers, k.cap, k.base, rb.attempts[ki]-1, jitterName(k.jitter), []string{"min", "max"}[jit], c.p.Max, exp.real)
		} else if (exp.askN == 0) != (len(c.e.draws) == 0) || (len(c.e.draws) == 1 && c.e.draws[0] != exp.askN) || len(c.e.draws) > 1 {
			c.fail(at, "chain:sleep-differs-from-exponential-schedule:"+shape, "%s: %s drew its jitter from %v; the documented schedule draws from [0,%d)", at, call, c.e.draws, exp.askN)
		}
	}
	if len(c.fs) == n0 && (mustRefuse != exp.refused || !rb.matches(post)) {
		// cannot happen when everything above held; kept as a safety net for the reference itself
		c.fail(at, "chain:reference-disagrees", "%s: after %s real counters %s, reference total=%d per-kind=%v times=%v errors=%d refused=%v/%v", at, call, post, rb.total, rb.sleep, rb.times, rb.errorsNum, mustRefuse, exp.refused)
	}
	return mustRefuse, len(c.fs) == n0
}

func errString(err error) string {
	if err == nil {
		return ""
	}
	return err.Error()
}

func classOrKind(class string) string {
	if len(class) > 8 && class[:8] == "kinderr:" {
		return "kinderr"
	}
	return class
}

// deriveCheck: child against parent right after Clone / Fork.
func (c *chainRun) deriveCheck(at, name string, parent, child *retry.Backoffer, rparent *crefBo) bool {
	po, p1 := chainObserve(parent, c.ks)
	co, p2 := chainObserve(child, c.ks)
	c.steps++
	c.states++
	c.outc["chain "+name]++
	if p1 != nil || p2 != nil {
		c.fail(at, "chain:panic:getter", "%s: a getter panicked after %s: %v %v", at, name, p1, p2)
		return false
	}
	if !co.sameAccounting(po) {
		c.fail(at, "chain:derive:"+name+"-does-not-start-from-parent-accounting", "%s: after %s() the child has %s, the parent %s", at, name, co, po)
		return false
	}
	if !rparent.matches(po) {
		c.fail(at, "chain:derive:"+name+"-changes-parent", "%s: after %s() the parent has %s, reference total=%d per-kind=%v", at, name, po, rparent.total, rparent.sleep)
		return false
	}
	return true
}

// tail runs up to Tail steps on a derived backoffer, continuing the pattern of the main chain at step i.
func (c *chainRun) tail(at string, b *retry.Backoffer, rb *crefBo, i int) bool {
	for t := 0; t < c.p.Tail; t++ {
		ki := c.p.kindAt(min(i+t, c.p.Len-1))
		if _, ok := c.backoff(fmt.Sprintf("%s+%d", at, t+1), b, rb, ki); !ok {
			return false
		}
	}
	return true
}

func runChain(e *env, p *chainProg, trace func(string)) *chainRun {
	c := &chainRun{e: e, p: p, outc: map[string]int64{}, trace: trace}
	c.ks, c.jit = p.kinds2()
	// a fresh clock per chain: the totals of a long chain with a large cap are years of virtual time
	e.clock = vtime.NewClock(time.Time{})
	e.clock.OnStart = e.onTimer
	maxSleep, weight := p.budget()
	c.budget = effectiveBudget(maxSleep, weight)
	var killed uint32
	vars := kv.NewVariables(&killed)
	vars.BackOffWeight = weight
	ctx, cancel := context.WithCancel(context.Background())
	defer cancel()
	b := retry.NewBackofferWithVars(ctx, maxSleep, vars)
	rb := &crefBo{budget: c.budget}

	refusals := 0
	for i := 0; i < p.Len; i++ {
		at := fmt.Sprintf("step %d", i+1)
		refused, ok := c.backoff(at, b, rb, p.kindAt(i))
		if !ok {
			return c
		}
		if refused {
			refusals++
		}
		if (i+1)%p.Every == 0 {
			switch p.Variant {
			case varSide:
				cl := b.Clone()
				rcl := rb.derive()
				if !c.deriveCheck(at+" Clone", "Clone", b, cl, rb) || !c.tail(at+" clone", cl, &rcl, i+1) {
					return c
				}
				fk, fcancel := b.Fork()
				rfk := rb.derive()
				ok := c.deriveCheck(at+" Fork", "Fork", b, fk, rb) && c.tail(at+" fork", fk, &rfk, i+1)
				fcancel()
				if !ok {
					return c
				}
				// the parent must not have noticed
				if po, pp := chainObserve(b, c.ks); pp != nil || !rb.matches(po) {
					c.fail(at, "chain:derive:child-changes-parent", "%s: after a clone and a fork backed off the parent has %s, reference total=%d per-kind=%v (%v)", at, po, rb.total, rb.sleep, pp)
					return c
				}
			case varMerge:
				fk, fcancel := b.Fork()
				rfk := rb.derive()
				if !c.deriveCheck(at+" Fork", "Fork", b, fk, rb) || !c.tail(at+" fork", fk, &rfk, i+1) {
					fcancel()
					return c
				}
				fo, _ := chainObserve(fk, c.ks)
				pre, _ := chainObserve(b, c.ks)
				b.UpdateUsingForked(fk)
				fcancel()
				rb.merge(&rfk)
				c.steps++
				c.states++
				c.outc["chain UpdateUsingForked"]++
				po, pp := chainObserve(b, c.ks)
				if pp != nil {
					c.fail(at, "chain:panic:getter", "%s: a getter panicked after UpdateUsingForked: %v", at, pp)
					return c
				}
				if !po.sameAccounting(fo) {
					what := "loses"
					if po.total > fo.total {
						what = "double-counts"
					}
					c.fail(at, "chain:merge:"+what+"-sleep-time", "%s: after UpdateUsingForked the receiver has %s, the fork had %s (receiver before: %s)", at, po, fo, pre)
					return c
				}
				if !rb.matches(po) {
					c.fail(at, "chain:reference-disagrees", "%s: after UpdateUsingForked real counters %s, reference total=%d per-kind=%v", at, po, rb.total, rb.sleep)
					return c
				}
			}
		}
		if refusals > chainAfterRefusal {
			break
		}
	}
	// GetTypes must list the kinds this backoffer backed off with (checked once: the list grows with every call)
	func() {
		defer func() {
			if pp := recover(); pp != nil {
				c.fail("end", "chain:panic:getter", "GetTypes panicked: %v", pp)
			}
		}()
		have := map[string]bool{}
		for _, t := range b.GetTypes() {
			have[t] = true
		}
		for i, k := range c.ks {
			if k != nil && rb.times[i] > 0 && !have[k.name] {
				c.fail("end", "chain:GetTypes-misses-own-kind", "after the chain GetTypes() lacks %s", k.name)
			}
		}
	}()
	return c
}

// ---------------------------------------------------------------------------
// enumeration
// ---------------------------------------------------------------------------

type chainBounds struct {
	lenSingle, everySingle, tailSingle int
	lenPair, everyPair, tailPair       int
	allPairs                           bool
}

func chainBoundsFor(thorough bool) chainBounds {
	if thorough {
		// 1100 steps: the float exponent of 2^n overflows to +Inf at n=1024
		return chainBounds{lenSingle: 1100, everySingle: 1, tailSingle: 3, lenPair: 160, everyPair: 8, tailPair: 3, allPairs: true}
	}
	return chainBounds{lenSingle: 128, everySingle: 1, tailSingle: 3, lenPair: 128, everyPair: 16, tailPair: 3}
}

func jitsOf(k *chainKind) []uint8 {
	if k.jitter == retry.NoJitter {
		return []uint8{jitMin} // no draw: both answers are the same chain
	}
	return []uint8{jitMin, jitMax}
}

func chainPrograms(cb chainBounds) (progs []*chainProg) {
	// single chains
	for _, k := range chainKinds {
		maxes := []int{-1, 0, 5}
		if k.cap-1 > 5 {
			maxes = append(maxes, k.cap-1)
		}
		for _, j := range jitsOf(k) {
			for mode := uint8(0); mode < nBudModes; mode++ {
				for _, m := range maxes {
					for _, v := range []uint8{varSide, varMerge} {
						progs = append(progs, &chainProg{A: k.idx, B: -1, JitA: j, Pattern: patSingle, Mode: mode, Max: m, Variant: v, Len: cb.lenSingle, Every: cb.everySingle, Tail: cb.tailSingle})
					}
				}
			}
		}
	}
	// two-kind chains over ordered pairs
	for _, a := range chainKinds {
		if !cb.allPairs && !isPairRepresentative(a) {
			continue
		}
		for _, b := range chainKinds {
			if a == b || (!cb.allPairs && !isPairRepresentative(b)) {
				continue
			}
			for _, ja := range jitsOf(a) {
				for _, jb := range jitsOf(b) {
					for _, pat := range []uint8{patAlternate, patHalves} {
						for mode := uint8(0); mode < nBudModes; mode++ {
							for _, v := range []uint8{varSide, varMerge} {
								progs = append(progs, &chainProg{A: a.idx, B: b.idx, JitA: ja, JitB: jb, Pattern: pat, Mode: mode, Max: -1, Variant: v, Len: cb.lenPair, Every: cb.everyPair, Tail: cb.tailPair})
							}
						}
					}
				}
			}
		}
	}
	return
}

type chainStats struct {
	programs, steps, states, refusedPrograms int64
	maxOvershoot                             int64 // largest measured (non-excluded total - budget) after a step, ms
	kinds, synth, pairKinds                  int
	bounds                                   chainBounds
}

// runChains enumerates every chain program of the tier and reports into run.
func runChains(thorough bool) chainStats {
	cb := chainBoundsFor(thorough)
	progs := chainPrograms(cb)
	st := chainStats{bounds: cb, kinds: len(chainKinds)}
	for _, k := range chainKinds {
		if k.synth {
			st.synth++
		}
		if cb.allPairs || isPairRepresentative(k) {
			st.pairKinds++
		}
	}
	type vrec struct {
		prog  int
		what  string
		art   chainReplay
		count int64
	}
	workers := runtime.GOMAXPROCS(0)
	type wres struct {
		viols                  map[string]*vrec
		outc                   map[string]int64
		steps, states, refused int64
		maxOv                  int64
	}
	results := make([]wres, workers)
	var next atomic.Int64
	var wg sync.WaitGroup
	for wi := 0; wi < workers; wi++ {
		wg.Add(1)
		go func(wi int) {
			defer wg.Done()
			e := theRouter.attach()
			defer theRouter.detach()
			wr := &results[wi]
			wr.viols, wr.outc = map[string]*vrec{}, map[string]int64{}
			for {
				lo := int(next.Add(16)) - 16
				if lo >= len(progs) {
					return
				}
				for pi := lo; pi < min(lo+16, len(progs)); pi++ {
					if run.Expired() {
						run.Incomplete("wall-clock budget VERIF_BUDGET_S used up (chains)")
						return
					}
					p := progs[pi]
					c := runChain(e, p, nil)
					wr.steps += c.steps
					wr.states += c.states
					wr.maxOv = max(wr.maxOv, c.maxOv)
					for k, n := range c.outc {
						wr.outc[k] += n
					}
					if c.sawRefusal {
						wr.refused++
					}
					for _, f := range c.fs {
						v := wr.viols[f.key]
						if v == nil {
							v = &vrec{prog: pi}
							wr.viols[f.key] = v
						}
						if v.count == 0 || pi < v.prog {
							v.prog, v.what, v.art = pi, "[chains] "+f.what+" | program: "+p.String(), p.replay(c.failAt)
						}
						v.count++
					}
					if pi%997 == 3 {
						samples.Add(func() any {
							return map[string]any{"suite": "chains", "program": p.String(), "steps_executed": c.steps, "final_outcomes": c.outc}
						})
					}
				}
			}
		}(wi)
	}
	wg.Wait()
	viols := map[string]*vrec{}
	for wi := range results {
		wr := &results[wi]
		st.steps += wr.steps
		st.states += wr.states
		st.refusedPrograms += wr.refused
		st.maxOvershoot = max(st.maxOvershoot, wr.maxOv)
		outcomeMu.Lock()
		for k, n := range wr.outc {
			outcomes[k] += n
		}
		outcomeMu.Unlock()
		for k, v := range wr.viols {
			cur := viols[k]
			if cur == nil {
				viols[k] = v
				continue
			}
			cnt := cur.count + v.count
			if v.prog < cur.prog {
				viols[k] = v
			}
			viols[k].count = cnt
		}
	}
	st.programs = int64(len(progs))
	keys := make([]string, 0, len(viols))
	for k := range viols {
		keys = append(keys, k)
	}
	sort.Strings(keys)
	for _, k := range keys {
		v := viols[k]
		for i := int64(0); i < min(v.count, 1000); i++ {
			run.Violation(k, v.what, v.art)
		}
	}
	fmt.Fprintf(os.Stderr, "c20: chains programs=%d steps=%d kinds=%d (synthetic %d) violations=%d t=%.0fs\n", st.programs, st.steps, st.kinds, st.synth, len(keys), time.Since(t0).Seconds())
	return st
}

// replayChain re-runs one chain program from a replay file.
func replayChain(raw json.RawMessage, path string) {
	var r chainReplay
	if err := json.Unmarshal(raw, &r); err != nil {
		fmt.Fprintln(os.Stderr, "replay:", err)
		os.Exit(2)
	}
	p, err := progFromReplay(r)
	if err != nil {
		fmt.Fprintln(os.Stderr, "replay:", err)
		os.Exit(2)
	}
	e := theRouter.attach()
	defer theRouter.detach()
	fmt.Println("program:", p.String())
	c := runChain(e, p, func(s string) { fmt.Println(s) })
	for _, f := range c.fs {
		fmt.Printf("      FAIL %s: %s\n", f.key, f.what)
	}
	if len(c.fs) > 0 {
		fmt.Printf("VIOLATION property=C20 replay=%s\n", path)
		os.Exit(1)
	}
	fmt.Println("replay: no violation")
	os.Exit(0)
}

package main

import (
	"math/rand"
	"runtime"
	"sync"
	"sync/atomic"
	"syscall"
	"time"

	"github.com/tikv/client-go/v2/verifrt/vrand"
	"github.com/tikv/client-go/v2/verifrt/vtime"
)

// The shims have one process-wide controller each. This harness runs many
// independent sequential explorations in parallel, one per worker goroutine,
// so the installed controller is a router: a worker locks itself to an OS
// thread and registers under its thread id; every shim call is served by the
// environment of the calling worker (the code under test is synchronous, so
// it always runs on the worker's goroutine). Calls from any other goroutine
// fall back to real time / real randomness.

// env is the scripted environment of one worker: a virtual clock plus the
// decisions attached to the back-off call in flight.
type env struct {
	clock *vtime.Clock

	// plan for the call in flight
	jit    uint8
	intr   uint8
	cancel func()  // cancels the receiver's context (intrCancel)
	killed *uint32 // the killed flag (intrKill)

	// log of the call in flight
	draws  []int64         // bounds of the jitter draws
	timers []time.Duration // durations of the timers armed
	sleeps int             // direct Sleep calls
}

func newEnv() *env {
	e := &env{clock: vtime.NewClock(time.Time{})}
	e.clock.OnStart = e.onTimer
	return e
}

func (e *env) begin(jit, intr uint8, cancel func(), killed *uint32) {
	e.jit, e.intr, e.cancel, e.killed = jit, intr, cancel, killed
	e.draws = e.draws[:0]
	e.timers = e.timers[:0]
	e.sleeps = 0
}

// onTimer runs inside the call that armed a timer (time.After in the sleep
// function). The code under test is about to block in a select on the timer
// and ctx.Done(), so exactly one of the two is made ready here:
// deterministically, never both.
func (e *env) onTimer(c *vtime.Clock, d time.Duration) {
	e.timers = append(e.timers, d)
	if len(e.timers) > 1 {
		// a second timer within one call is not planned for: let it fire
		c.Advance(d)
		return
	}
	switch e.intr {
	case intrCancel:
		c.Advance(d / 2 / time.Millisecond * time.Millisecond) // half of the sleep passes (whole ms), then the context is cancelled
		e.cancel()
	case intrKill:
		atomic.StoreUint32(e.killed, 1) // the flag flips while the call sleeps; nothing wakes the sleeper
		c.Advance(d)
	default:
		c.Advance(d)
	}
}

type router struct {
	byTid sync.Map // tid -> *env
}

var theRouter = &router{}

func (r *router) env() *env {
	if v, ok := r.byTid.Load(syscall.Gettid()); ok {
		return v.(*env)
	}
	return nil
}

// attach binds the calling goroutine (and its OS thread) to a fresh environment.
func (r *router) attach() *env {
	runtime.LockOSThread()
	e := newEnv()
	r.byTid.Store(syscall.Gettid(), e)
	return e
}

func (r *router) detach() {
	r.byTid.Delete(syscall.Gettid())
	runtime.UnlockOSThread()
}

// vtime.Controller
func (r *router) Now() time.Time {
	if e := r.env(); e != nil {
		return e.clock.Now()
	}
	return time.Now()
}

func (r *router) Sleep(d time.Duration) {
	if e := r.env(); e != nil {
		e.sleeps++
		e.clock.Sleep(d)
		return
	}
	time.Sleep(d)
}

type realStopper struct{ t *time.Timer }

func (s realStopper) Stop() bool { return s.t.Stop() }

func (r *router) StartTimer(d time.Duration, fire func(time.Time)) vtime.Stopper {
	if e := r.env(); e != nil {
		return e.clock.StartTimer(d, fire)
	}
	return realStopper{time.AfterFunc(d, func() { fire(time.Now()) })}
}

// vrand.Decider
func (r *router) Intn(api string, n int64) int64 {
	if e := r.env(); e != nil {
		e.draws = append(e.draws, n)
		if e.jit == jitMax {
			return n - 1
		}
		return 0
	}
	return rand.Int63n(n)
}

func (r *router) Bits(api string, bits int) uint64 {
	if e := r.env(); e != nil {
		e.draws = append(e.draws, -int64(bits))
		if e.jit == jitMax {
			return ^uint64(0)
		}
		return 0
	}
	return rand.Uint64()
}

func (r *router) Float(api string) float64 {
	if e := r.env(); e != nil {
		e.draws = append(e.draws, -1)
		if e.jit == jitMax {
			return 1 - 1.0/(1<<53)
		}
		return 0
	}
	return rand.Float64()
}

func installRouter() {
	vtime.SetController(theRouter)
	vrand.SetSource(theRouter)
}

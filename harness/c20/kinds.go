package main

import (
	"errors"
	"fmt"

	"github.com/tikv/client-go/v2/config/retry"
)

// kind is one back-off Config known to the harness: every built-in one plus a
// custom FullJitter config (passed through BackoffWithCfgAndMaxSleep/Backoff
// like any caller-defined config).
type kind struct {
	id       int
	name     string
	cfg      *retry.Config
	base     int // effective base (txnLockFast: vars.BackoffLockFast)
	cap      int // exponential cap of the kind (ms)
	jitter   int
	err      error // the error the kind reports on exhaustion
	excluded bool  // sleep of this kind is not charged to the budget
	limit    int   // own cap (ms) of an excluded kind
	lockFast bool
}

const (
	// lockFastBase is kv.DefBackoffLockFast; the harness builds its Variables
	// with kv.NewVariables, which uses it.
	lockFastBase = 10
	// excludedLimitMs replaces the 10 min cap of the budget-excluded kind(s)
	// through the package's own test-only setter, so that exhausting it is
	// reachable within the depth bound: serverBusy sleeps [1000,1999] then
	// [2000,3999], so two steps with minimum jitter hit the cap exactly.
	excludedLimitMs = 3000
)

var (
	kinds      []*kind
	kindByName = map[string]*kind{}
	errCustom  = errors.New("verif custom kind exhausted")
	errIn      = errors.New("verif-passed-in-error")
	// errClassOf maps the error value of a kind to a class label; kinds that
	// share one error value (e.g. txnLock/txnNotFound/txnLockFast) share a class.
	errClassOf = map[error]string{}
)

func initKinds() {
	builtins := []*retry.Config{
		retry.BoRegionMiss, retry.BoTiKVRPC, retry.BoTiKVServerBusy, retry.BoTxnLockFast, // core kinds first
		retry.BoTiFlashRPC, retry.BoTxnLock, retry.BoPDRPC, retry.BoRegionScheduling,
		retry.BoTiKVDiskFull, retry.BoRegionRecoveryInProgress, retry.BoTiFlashServerBusy,
		retry.BoTxnNotFound, retry.BoStaleCmd, retry.BoMaxTsNotSynced, retry.BoCommitTSLag,
		retry.BoMaxRegionNotInitialized, retry.BoIsWitness,
	}
	custom := retry.NewConfig("verifFull", nil, retry.NewBackoffFnCfg(3, 20, retry.FullJitter), errCustom)
	for _, c := range append(builtins, custom) {
		name, base, cp, jit, err := retry.VerifCfgParams(c)
		k := &kind{id: len(kinds), name: name, cfg: c, base: base, cap: cp, jitter: jit, err: err}
		if name == "txnLockFast" {
			k.lockFast = true
			k.base = lockFastBase
		}
		if k.base < 2 {
			k.base = 2 // documented in newBackoffFn
		}
		if _, ok := retry.VerifExcludedLimit(name); ok {
			retry.VerifSetExcludedLimit(name, excludedLimitMs)
			k.excluded = true
			k.limit, _ = retry.VerifExcludedLimit(name)
		}
		if _, dup := kindByName[name]; dup {
			panic("duplicate kind " + name)
		}
		if _, ok := errClassOf[err]; !ok {
			errClassOf[err] = "kinderr:" + name
		}
		kinds = append(kinds, k)
		kindByName[name] = k
	}
	if len(kinds) > 32 {
		panic("cfgs bitset too small")
	}
}

func kindNamed(n string) *kind {
	k := kindByName[n]
	if k == nil {
		panic(fmt.Sprintf("unknown kind %q", n))
	}
	return k
}

func jitterName(j int) string {
	switch j {
	case retry.NoJitter:
		return "none"
	case retry.FullJitter:
		return "full"
	case retry.EqualJitter:
		return "equal"
	case retry.DecorrJitter:
		return "decorr"
	}
	return fmt.Sprint(j)
}

package main

import (
	"crypto/sha256"
	"encoding/binary"
	"math"
)

// ---------------------------------------------------------------------------
// Reference accountant: plain ints, written from the property text (C20) and
// the documented behaviour of config/retry (doc comments of Backoffer, Config,
// newBackoffFn, kv.Variables). It never looks at the real objects.
//
// Fields that mirror *hidden* state of the real Backoffer which the property
// does not talk about (attempts per kind = state of the lazily created sleep
// functions, cfgs = set of kinds in Backoffer.configs) are kept only so that
// two histories with the same reference state really have the same futures
// for the observation set; that is what makes deduplication by this state
// sound. They are never the ground for a violation by themselves.
// ---------------------------------------------------------------------------

type refBo struct {
	alive     bool
	budget    int // effective budget: configured maximum * weight (0 or less: unlimited)
	total     int // sleep accounted since creation of the lineage / last Reset (ms)
	excl      int // part of total slept by budget-excluded kinds
	errorsNum int
	parent    int    // slot of the backoffer this one was forked from (-1: none); clones inherit it
	ctx       int    // context node
	cfgs      uint32 // mirror of Backoffer.configs as a set (UpdateUsingForked leaves the receiver's list alone)
	listed    uint32 // kinds GetTypes must list whatever a merge does with the list: own and inherited records, intersected on merge
	sleepMS   []int  // per kind, lifetime of the lineage (Reset does not clear it)
	times     []int  // per kind, lifetime of the lineage
	attempts  []int  // per kind, completed sleeps of this backoffer since creation / last Reset
}

type refState struct {
	weight       int
	killed       uint32
	ctxParent    []int // context tree; node 0 is the root context
	ctxCancelled []bool
	bos          []refBo
}

func effectiveBudget(maxSleep, weight int) int {
	// documented in withVars: multiplied by BackOffWeight unless that overflows int32
	if maxSleep > 0 && math.MaxInt32/weight >= maxSleep {
		return maxSleep * weight
	}
	return maxSleep
}

func newRef(budget, weight int) *refState {
	r := &refState{weight: weight, ctxParent: []int{-1}, ctxCancelled: []bool{false}}
	r.bos = append(r.bos, refBo{alive: true, budget: effectiveBudget(budget, weight), parent: -1, ctx: 0,
		sleepMS: make([]int, len(kinds)), times: make([]int, len(kinds)), attempts: make([]int, len(kinds))})
	return r
}

func (r *refState) ctxDone(n int) bool {
	for ; n >= 0; n = r.ctxParent[n] {
		if r.ctxCancelled[n] {
			return true
		}
	}
	return false
}

// onParentChain reports whether slot anc is reachable from slot s by parent links.
func (r *refState) onParentChain(s, anc int) bool {
	for p := r.bos[s].parent; p >= 0; p = r.bos[p].parent {
		if p == anc {
			return true
		}
	}
	return false
}

func (b *refBo) copyAccounting() refBo {
	return refBo{alive: true, budget: b.budget, total: b.total, excl: b.excl, errorsNum: b.errorsNum, cfgs: b.cfgs, listed: b.listed,
		sleepMS: append([]int(nil), b.sleepMS...), times: append([]int(nil), b.times...), attempts: make([]int, len(kinds))}
}

// expoRef is min(cap, base*2^n) in integers.
func expoRef(base, cp, n int) int {
	v := base
	for i := 0; i < n; i++ {
		v *= 2
		if v >= cp {
			return cp
		}
	}
	if v > cp {
		v = cp
	}
	return v
}

// expectation is what the reference says about one transition.
type expectation struct {
	branch string // which rule applied (also the outcome label)

	// back-off calls only
	wantNil      bool     // the call must return nil
	classes      []string // if not wantNil: acceptable error classes (empty: any non-nil error)
	elapsedMs    int      // virtual time the call may take
	killedBefore bool     // the killed flag was already set when the call started
	exhausted    bool     // the budget rule demanded an error
	missingCfg   bool     // exhausted, and the longest sleeper is absent from the mirrored configs list
	capMs        int      // exponential cap of the kind
	perCallMax   int      // per-call maximum (-1: none)
	budget       int      // effective budget before the call
	nonExclPre   int      // total - excluded before the call
	askN         int64    // bound of the jitter draw the documented schedule makes (0: none)
	timerMs      int      // duration of the timer the call arms (-1: none)
	slept        bool     // the model lets the call reach its sleep
}

// longestSleepers returns the error classes the property accepts on
// exhaustion: the kind(s) with the largest accumulated sleep. Ties accept any
// of the tied kinds. The implementation documents ("longest sleep type")
// that budget-excluded kinds do not compete; the property text does not say,
// so both readings are accepted. With no eligible kind the caller's error (or
// the excluded kind's own error) is accepted.
func (b *refBo) longestSleepers() (classes []string, argmax []int) {
	add := func(c string) {
		for _, x := range classes {
			if x == c {
				return
			}
		}
		classes = append(classes, c)
	}
	best := 0
	for _, k := range kinds {
		if !k.excluded && b.sleepMS[k.id] > best {
			best = b.sleepMS[k.id]
		}
	}
	if best > 0 {
		for _, k := range kinds {
			if !k.excluded && b.sleepMS[k.id] == best {
				add(errClassOf[k.err])
				argmax = append(argmax, k.id)
			}
		}
	} else {
		add("passed")
	}
	bestAll := 0
	for _, k := range kinds {
		if b.sleepMS[k.id] > bestAll {
			bestAll = b.sleepMS[k.id]
		}
	}
	if bestAll > best {
		for _, k := range kinds {
			if b.sleepMS[k.id] == bestAll {
				add(errClassOf[k.err])
			}
		}
	}
	return
}

// apply advances the reference by one transition and returns its expectation.
//
// reachedSleep is the only thing the reference is told about the real call:
// whether it got as far as its sleep. It is consulted in exactly one
// situation, a back-off call on a query that was killed before the call. The
// property demands an error at once there; an implementation that sleeps
// first and reports the kill afterwards is reported as a violation by check,
// but its accounting of that sleep is followed so that exploration below the
// deviation stays meaningful.
func (r *refState) apply(o op, reachedSleep bool) expectation {
	switch o.Code {
	case opBackoff, opLockFast, opCfgMax:
		return r.applyBackoff(o, reachedSleep)
	case opReset:
		b := &r.bos[o.Slot]
		b.total, b.excl = 0, 0
		for i := range b.attempts {
			b.attempts[i] = 0
		}
		return expectation{branch: "reset"}
	case opResetMax:
		b := &r.bos[o.Slot]
		b.total, b.excl = 0, 0
		for i := range b.attempts {
			b.attempts[i] = 0
		}
		b.budget = effectiveBudget(int(o.Max), r.weight)
		return expectation{branch: "reset-max"}
	case opClone:
		b := &r.bos[o.Slot]
		n := b.copyAccounting()
		n.parent, n.ctx = b.parent, b.ctx
		r.bos = append(r.bos, n)
		return expectation{branch: "clone"}
	case opFork:
		b := &r.bos[o.Slot]
		n := b.copyAccounting()
		n.parent = int(o.Slot)
		r.ctxParent = append(r.ctxParent, b.ctx)
		r.ctxCancelled = append(r.ctxCancelled, false)
		n.ctx = len(r.ctxParent) - 1
		r.bos = append(r.bos, n)
		return expectation{branch: "fork"}
	case opUpdate:
		dst, src := &r.bos[o.Slot], &r.bos[o.Src]
		br := "merge:same"
		if dst.total != src.total {
			br = "merge:changes-total"
		}
		// copy semantics: the receiver's accounting becomes the fork's
		dst.total, dst.excl, dst.errorsNum = src.total, src.excl, src.errorsNum
		copy(dst.sleepMS, src.sleepMS)
		copy(dst.times, src.times)
		// budget, attempts and the configs list of the receiver are untouched
		dst.listed &= src.listed
		src.alive = false
		return expectation{branch: br}
	case opCancel:
		r.ctxCancelled[o.Src] = true
		return expectation{branch: "cancel"}
	case opKill:
		r.killed = 1
		return expectation{branch: "kill"}
	}
	panic("bad op")
}

func (r *refState) applyBackoff(o op, reachedSleep bool) expectation {
	b := &r.bos[o.Slot]
	k := kinds[o.Kind]
	e := expectation{capMs: k.cap, perCallMax: int(o.Max), budget: b.budget, nonExclPre: b.total - b.excl, timerMs: -1}
	if o.Code == opBackoff {
		e.perCallMax = -1
	}
	// 1. cancelled context: an error at once, nothing slept, nothing accounted
	if r.ctxDone(b.ctx) {
		e.branch = "backoff:ctx-cancelled"
		return e
	}
	e.killedBefore = r.killed != 0
	// 2. budget: checked before the sleep
	if b.budget > 0 {
		if b.total-b.excl >= b.budget {
			e.exhausted = true
			e.branch = "backoff:budget-exhausted"
		} else if k.excluded && b.excl >= k.limit && b.excl >= b.budget {
			e.exhausted = true
			e.branch = "backoff:excluded-cap-exhausted"
		}
	}
	if e.exhausted {
		var argmax []int
		e.classes, argmax = b.longestSleepers()
		for _, id := range argmax {
			if b.cfgs&(1<<uint(id)) == 0 {
				e.missingCfg = true
			}
		}
		return e
	}
	// 3. killed before the call: an error at once, nothing slept, nothing accounted
	if e.killedBefore && !reachedSleep {
		e.branch = "backoff:killed-before-call-refused"
		e.classes = []string{"killed:1"}
		return e
	}
	// 4. the call is recorded and sleeps
	e.slept = true
	b.errorsNum++
	b.cfgs |= 1 << uint(k.id)
	b.listed |= 1 << uint(k.id)
	v := expoRef(k.base, k.cap, b.attempts[k.id])
	pick := func(n int) int {
		e.askN = int64(n)
		if o.Jit == jitMax {
			return n - 1
		}
		return 0
	}
	planned := v
	switch k.jitter {
	case 1: // NoJitter
	case 2: // FullJitter
		planned = pick(v)
	case 3: // EqualJitter
		planned = v/2 + pick(v/2)
	default:
		panic("jitter mode not modelled")
	}
	if e.perCallMax >= 0 && planned > e.perCallMax {
		planned = e.perCallMax
	}
	e.timerMs = planned
	accounted := planned
	switch o.Intr {
	case intrCancel:
		// documented in newBackoffFn: an interrupted sleep returns 0 and does not count as an attempt
		e.elapsedMs = planned / 2
		accounted = 0
		r.ctxCancelled[b.ctx] = true
		e.branch = "backoff:sleep-cut-by-cancel"
	case intrKill:
		e.elapsedMs = planned
		b.attempts[k.id]++
		r.killed = 1
		e.branch = "backoff:killed-mid-sleep"
	default:
		e.elapsedMs = planned
		b.attempts[k.id]++
		e.branch = "backoff:slept"
	}
	b.total += accounted
	if k.excluded {
		b.excl += accounted
	}
	b.sleepMS[k.id] += accounted
	b.times[k.id]++
	if r.killed != 0 {
		e.classes = []string{"killed:1"}
		if e.killedBefore {
			e.branch = "backoff:killed-before-call"
		}
	} else {
		e.wantNil = true
	}
	return e
}

// key is the canonical form of the reference state (sha256 truncated to 128 bits).
func (r *refState) key(buf []byte) ([16]byte, []byte) {
	buf = buf[:0]
	put := func(v int) { buf = binary.AppendVarint(buf, int64(v)) }
	put(int(r.killed))
	put(len(r.ctxParent))
	for i := range r.ctxParent {
		put(r.ctxParent[i])
		if r.ctxDone(i) { // only effective cancellation is observable
			put(1)
		} else {
			put(0)
		}
	}
	put(len(r.bos))
	for i := range r.bos {
		b := &r.bos[i]
		put(b.parent)
		if !b.alive {
			// a retired backoffer only matters as a link of parent chains
			put(-1)
			continue
		}
		put(b.ctx)
		put(b.budget)
		put(b.total)
		put(b.excl)
		put(b.errorsNum)
		put(int(b.cfgs))
		put(int(b.cfgs ^ b.listed))
		for j := range b.sleepMS {
			if b.sleepMS[j] != 0 || b.times[j] != 0 || b.attempts[j] != 0 {
				put(j + 1)
				put(b.sleepMS[j])
				put(b.times[j])
				put(b.attempts[j])
			}
		}
		put(0)
	}
	sum := sha256.Sum256(buf)
	var k [16]byte
	copy(k[:], sum[:16])
	return k, buf
}

func (r *refState) nontrivial() bool {
	for i := range r.bos {
		for _, t := range r.bos[i].times {
			if t > 0 {
				return true
			}
		}
	}
	return false
}

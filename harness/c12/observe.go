package main

import (
	"fmt"
	"strings"

	"github.com/pingcap/kvproto/pkg/kvrpcpb"
	"github.com/tikv/client-go/v2/internal/mockstore/mocktikv"
	"github.com/tikv/client-go/v2/tikvrpc"
	"github.com/tikv/client-go/v2/verifrt/models/refmvcc"
)

// ---------- complete stored state ----------

// renderModel / renderMock print the complete stored state of both sides in
// one format. The for-update-ts is printed for pessimistic locks only (the
// mock does not keep it on prewrite locks and nothing observable depends on it).
func renderModel(s *refmvcc.Store) string {
	var b strings.Builder
	for _, k := range s.Keys() {
		b.WriteString(k + ":")
		if l := s.LockOf(k); l != nil {
			fu := uint64(0)
			if l.Op == refmvcc.OpPessimistic {
				fu = l.ForUpdate
			}
			fmt.Fprintf(&b, " L{%s %s pri=%s ttl=%d fu=%s mc=%s v=%q}", u(l.Start), l.Op, l.Primary, l.TTL, u(fu), u(l.MinCommit), l.Value)
		}
		for _, w := range s.Writes(k) {
			fmt.Fprintf(&b, " W{%s<-%s %s %q}", u(w.Commit), u(w.Start), w.Type, w.Value)
		}
		b.WriteString("\n")
	}
	return b.String()
}

// renderMock also checks the storage invariants of the mock's own layout and
// the laws of the property on the stored records; problems are returned in bad.
func renderMock(entries []mocktikv.VerifEntry) (out string, bad []string) {
	var b strings.Builder
	for _, e := range entries {
		k := string(e.Key)
		b.WriteString(k + ":")
		if l := e.Lock; l != nil {
			op := "?" + l.Op.String()
			switch l.Op {
			case kvrpcpb.Op_Put:
				op = "Put"
			case kvrpcpb.Op_Del:
				op = "Del"
			case kvrpcpb.Op_Lock:
				op = "Lock"
			case kvrpcpb.Op_PessimisticLock:
				op = "Pessimistic"
			}
			fu := uint64(0)
			if l.Op == kvrpcpb.Op_PessimisticLock {
				fu = l.ForUpdateTS
			}
			fmt.Fprintf(&b, " L{%s %s pri=%s ttl=%d fu=%s mc=%s v=%q}", u(l.StartTS), op, l.Primary, l.TTL, u(fu), u(l.MinCommitTS), l.Value)
		}
		seen := map[uint64]int{}
		for i, w := range e.Writes {
			ty := [...]string{"Put", "Delete", "Rollback", "Lock"}[w.Type]
			fmt.Fprintf(&b, " W{%s<-%s %s %q}", u(w.CommitTS), u(w.StartTS), ty, w.Value)
			if w.Version != w.CommitTS {
				bad = append(bad, fmt.Sprintf("key %s: record stored under version %s has commit ts %s", k, u(w.Version), u(w.CommitTS)))
			}
			if i > 0 && e.Writes[i-1].Version <= w.Version {
				bad = append(bad, fmt.Sprintf("key %s: records not in descending version order", k))
			}
			if prev, dup := seen[w.StartTS]; dup {
				if (prev == 2) != (w.Type == 2) {
					bad = append(bad, fmt.Sprintf("key %s: transaction %s is both committed and rolled back", k, u(w.StartTS)))
				} else {
					bad = append(bad, fmt.Sprintf("key %s: transaction %s has two records", k, u(w.StartTS)))
				}
			}
			seen[w.StartTS] = w.Type
		}
		b.WriteString("\n")
	}
	return b.String(), bad
}

// ---------- observation set ----------

func kvOf(p mocktikv.Pair) refmvcc.KV {
	if p.Err != nil {
		er := classify(p.Err)
		return refmvcc.KV{Key: er.Key, Err: er}
	}
	return refmvcc.KV{Key: string(p.Key), Value: string(p.Value)}
}

func kvsOf(ps []mocktikv.Pair) []refmvcc.KV {
	out := make([]refmvcc.KV, 0, len(ps))
	for _, p := range ps {
		out = append(out, kvOf(p))
	}
	return out
}

func pbKV(p *kvrpcpb.KvPair) refmvcc.KV {
	if p.Error != nil {
		er := classifyKeyErr(p.Error)
		return refmvcc.KV{Key: er.Key, Err: er}
	}
	return refmvcc.KV{Key: string(p.Key), Value: string(p.Value)}
}

func pbKVs(ps []*kvrpcpb.KvPair) []refmvcc.KV {
	out := make([]refmvcc.KV, 0, len(ps))
	for _, p := range ps {
		out = append(out, pbKV(p))
	}
	return out
}

func kvsStr(ps []refmvcc.KV) string {
	parts := make([]string, len(ps))
	for i, p := range ps {
		parts[i] = p.String()
	}
	return "[" + strings.Join(parts, " ") + "]"
}

func sameKVs(a, b []refmvcc.KV) bool {
	if len(a) != len(b) {
		return false
	}
	for i := range a {
		if a[i] != b[i] {
			return false
		}
	}
	return true
}

func locksStr(ls []refmvcc.LockInfo) string {
	parts := make([]string, len(ls))
	for i, l := range ls {
		parts[i] = fmt.Sprintf("%s(pri=%s start=%s)", l.Key, l.Primary, u(l.Start))
	}
	return "[" + strings.Join(parts, " ") + "]"
}

// obsFail is one failed observation.
type obsFail struct {
	key  string // stable class
	what string
}

const bigLimit = 100

// observe compares the full observation set of the state: Get of every key at
// every pool timestamp (snapshot isolation, with the lock's transaction listed
// as resolved, and read-committed = MVCC truth), BatchGet, Scan and ReverseScan
// over all bound pairs with a small and a large limit (against the model, and
// the laws scan == per-key gets / reverse scan == mirror on the mock's own
// answers), ScanLock. It returns the failures and the number of reads done.
func (m *mock) observe(c config, s *refmvcc.Store) (fails []obsFail, n int) {
	fail := func(key, format string, a ...any) {
		fails = append(fails, obsFail{key, fmt.Sprintf(format, a...)})
	}
	lockSit := func(k string, ts uint64) string {
		l := s.LockOf(k)
		switch {
		case l == nil:
			return "no-lock"
		case l.Start > ts:
			return "newer-lock"
		case l.Op == refmvcc.OpPut || l.Op == refmvcc.OpDel:
			return "data-lock"
		}
		return "non-data-lock"
	}
	tsName := func(ts uint64) string {
		if ts == refmvcc.MaxTS {
			return "max-ts"
		}
		return "ts"
	}
	bounds := append([]string{""}, c.keys...)
	bounds = append(bounds, c.endBound)
	allKeys := append(append([]string{}, c.keys...), c.endBound) // endBound is never written: an absent key
	si, rc := kvrpcpb.IsolationLevel_SI, kvrpcpb.IsolationLevel_RC
	for _, ts := range c.readTS {
		gets := map[string]refmvcc.KV{}
		for _, k := range allKeys {
			want := s.Get(k, ts, nil)
			var got refmvcc.KV
			if m.useRPC {
				resp := m.send(tikvrpc.CmdGet, &kvrpcpb.GetRequest{Key: []byte(k), Version: ts}).(*kvrpcpb.GetResponse)
				if resp.Error != nil {
					er := classifyKeyErr(resp.Error)
					got = refmvcc.KV{Key: er.Key, Err: er}
				} else {
					got = refmvcc.KV{Key: k, Value: string(resp.Value)}
				}
			} else {
				p := m.db.GetKVPair([]byte(k), ts, si, nil)
				got = kvOf(p)
				got.Key = k
				if p.Err != nil {
					got.Key = got.Err.Key
				}
			}
			n++
			gets[k] = got
			if got != want {
				fail("get:"+tsName(ts)+":"+lockSit(k, ts), "Get(%s @%s) = %s, reference %s", k, u(ts), got, want)
			}
			if m.useRPC {
				continue
			}
			// read committed ignores locks: the MVCC truth
			v, _, _ := s.Read(k, ts)
			p := m.db.GetKVPair([]byte(k), ts, rc, nil)
			n++
			if p.Err != nil || string(p.Value) != v {
				fail("get-rc:"+tsName(ts)+":"+lockSit(k, ts), "Get RC(%s @%s) = %q err=%v, reference %q", k, u(ts), p.Value, p.Err, v)
			}
			if l := s.LockOf(k); l != nil {
				want := s.Get(k, ts, []uint64{l.Start})
				p := m.db.GetKVPair([]byte(k), ts, si, []uint64{l.Start})
				got := kvOf(p)
				if p.Err == nil {
					got.Key = k
				}
				n++
				if got != want {
					fail("get-resolved:"+tsName(ts)+":"+lockSit(k, ts), "Get(%s @%s resolved=[%s]) = %s, reference %s", k, u(ts), u(l.Start), got, want)
				}
			}
		}
		// batch get
		{
			want := s.BatchGet(allKeys, ts, nil)
			var got []refmvcc.KV
			if m.useRPC {
				got = pbKVs(m.send(tikvrpc.CmdBatchGet, &kvrpcpb.BatchGetRequest{Keys: bs(allKeys), Version: ts}).(*kvrpcpb.BatchGetResponse).Pairs)
			} else {
				got = kvsOf(m.db.BatchGet(bs(allKeys), ts, si, nil))
			}
			n++
			if !sameKVs(got, want) {
				fail("batchget:"+tsName(ts), "BatchGet(@%s) = %s, reference %s", u(ts), kvsStr(got), kvsStr(want))
			}
		}
		// scans
		for _, lo := range bounds { // "" = no lower bound
			for _, hi := range bounds { // "" = no upper bound
				if lo != "" && hi != "" && lo >= hi {
					continue
				}
				// law: per-key gets of the range, on the mock's own answers
				var perKey []refmvcc.KV
				for _, k := range allKeys {
					if k >= lo && (hi == "" || k < hi) {
						if g := gets[k]; !g.Err.IsOK() || g.Value != "" {
							perKey = append(perKey, g)
						}
					}
				}
				for _, limit := range []int{1, bigLimit} {
					var fw, rv []refmvcc.KV
					if m.useRPC {
						fw = pbKVs(m.send(tikvrpc.CmdScan, &kvrpcpb.ScanRequest{StartKey: []byte(lo), EndKey: []byte(hi), Limit: uint32(limit), Version: ts}).(*kvrpcpb.ScanResponse).Pairs)
						rv = pbKVs(m.send(tikvrpc.CmdScan, &kvrpcpb.ScanRequest{StartKey: []byte(hi), EndKey: []byte(lo), Limit: uint32(limit), Version: ts, Reverse: true}).(*kvrpcpb.ScanResponse).Pairs)
					} else {
						fw = kvsOf(m.db.Scan([]byte(lo), []byte(hi), limit, ts, si, nil))
						rv = kvsOf(m.db.ReverseScan([]byte(lo), []byte(hi), limit, ts, si, nil))
					}
					n += 2
					wantF := s.Scan(lo, hi, limit, ts, nil)
					wantR := s.ReverseScan(lo, hi, limit, ts, nil)
					shape := "bounded"
					if lo == "" && hi == "" {
						shape = "unbounded"
					} else if lo == "" {
						shape = "no-lower"
					} else if hi == "" {
						shape = "no-upper"
					}
					lim := "limit1"
					if limit != 1 {
						lim = "nolimit"
					}
					if !sameKVs(fw, wantF) {
						fail("scan:"+shape+":"+lim, "Scan([%s,%s) limit %d @%s) = %s, reference %s", lo, hi, limit, u(ts), kvsStr(fw), kvsStr(wantF))
					}
					if !sameKVs(rv, wantR) {
						fail("reverse-scan:"+shape+":"+lim, "ReverseScan([%s,%s) limit %d @%s) = %s, reference %s", lo, hi, limit, u(ts), kvsStr(rv), kvsStr(wantR))
					}
					if limit == bigLimit {
						if !sameKVs(fw, perKey) {
							fail("law:scan-equals-gets:"+shape, "Scan([%s,%s) @%s) = %s but the per-key gets give %s", lo, hi, u(ts), kvsStr(fw), kvsStr(perKey))
						}
						mirror := make([]refmvcc.KV, len(fw))
						for x := range fw {
							mirror[len(fw)-1-x] = fw[x]
						}
						if !sameKVs(rv, mirror) {
							fail("law:reverse-scan-is-mirror:"+shape, "ReverseScan([%s,%s) @%s) = %s, Scan gives %s", lo, hi, u(ts), kvsStr(rv), kvsStr(fw))
						}
					}
				}
			}
		}
		// scan lock
		for _, rg := range [][2]string{{"", ""}, {c.keys[len(c.keys)-1], ""}, {"", c.keys[len(c.keys)-1]}} {
			if m.useRPC && (rg[0] != "" || rg[1] != "") {
				continue // the handler always scans the whole region
			}
			want := s.ScanLock(rg[0], rg[1], ts)
			var got []refmvcc.LockInfo
			if m.useRPC {
				resp := m.send(tikvrpc.CmdScanLock, &kvrpcpb.ScanLockRequest{MaxVersion: ts}).(*kvrpcpb.ScanLockResponse)
				for _, l := range resp.Locks {
					got = append(got, refmvcc.LockInfo{Key: string(l.Key), Primary: string(l.PrimaryLock), Start: l.LockVersion})
				}
			} else {
				ls, err := m.db.ScanLock([]byte(rg[0]), []byte(rg[1]), ts)
				if err != nil {
					fail("scanlock:error", "ScanLock error %v", err)
				}
				for _, l := range ls {
					got = append(got, refmvcc.LockInfo{Key: string(l.Key), Primary: string(l.PrimaryLock), Start: l.LockVersion})
				}
			}
			n++
			if locksStr(got) != locksStr(want) {
				fail("scanlock", "ScanLock([%s,%s) max=%s) = %s, reference %s", rg[0], rg[1], u(ts), locksStr(got), locksStr(want))
			}
		}
	}
	return fails, n
}

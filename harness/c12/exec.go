package main

import (
	"context"
	"fmt"
	"strings"
	"time"

	"github.com/pingcap/kvproto/pkg/kvrpcpb"
	"github.com/pingcap/kvproto/pkg/metapb"
	"github.com/pkg/errors"
	"github.com/tikv/client-go/v2/internal/mockstore/mocktikv"
	"github.com/tikv/client-go/v2/tikvrpc"
	"github.com/tikv/client-go/v2/verifrt/models/refmvcc"
)

// Result is the normalised answer of one command on either side.
type Result struct {
	Errs  []refmvcc.Err // per mutation / key, or a single element
	Extra []string      // further payload, compared verbatim
}

// ---------- model side ----------

func mutOp(s string) refmvcc.Op {
	switch s {
	case "put":
		return refmvcc.OpPut
	case "del":
		return refmvcc.OpDel
	case "lock":
		return refmvcc.OpLock
	case "insert":
		return refmvcc.OpInsert
	case "cne":
		return refmvcc.OpCheckNotExists
	}
	panic("bad mutop " + s)
}

func (o Op) modeOf(i int) string {
	if len(o.Modes) > 0 {
		return o.Modes[i]
	}
	return o.Mode
}

func action(mode string) refmvcc.Action {
	switch mode {
	case "pess":
		return refmvcc.DoPessimisticCheck
	case "cons":
		return refmvcc.DoConstraintCheck
	}
	return refmvcc.SkipPessimisticCheck
}

func lockResultStr(r refmvcc.LockKeyResult) string {
	return fmt.Sprintf("type=%d value=%q exists=%v conflict=%s", r.Type, r.Value, r.Exists, u(r.ConflictTS))
}

// applyModel runs op on the reference model.
func applyModel(s *refmvcc.Store, o Op) Result {
	switch o.Kind {
	case "prewrite":
		r := refmvcc.PrewriteReq{Start: o.Start, Primary: o.Primary, TTL: o.ttl(), MinCommit: o.MinCommit, ForUpdate: o.ForUpdate}
		for i, k := range o.Keys {
			m := refmvcc.Mutation{Op: mutOp(o.MutOp), Key: k, Action: action(o.modeOf(i))}
			if m.Op == refmvcc.OpPut || m.Op == refmvcc.OpInsert {
				m.Value = o.Value
			}
			r.Muts = append(r.Muts, m)
		}
		return Result{Errs: s.Prewrite(r)}
	case "plock":
		rs := s.PessimisticLock(refmvcc.LockReq{Start: o.Start, ForUpdate: o.ForUpdate, Primary: o.Primary, TTL: o.ttl(), MinCommit: o.MinCommit, Keys: o.Keys,
			ReturnValues: o.ReturnValues, CheckExistence: o.CheckExistence, LockOnlyIfExists: o.LockOnlyIfExists, ForceLock: o.ForceLock})
		var res Result
		for _, r := range rs {
			res.Errs = append(res.Errs, r.Err)
			res.Extra = append(res.Extra, lockResultStr(r))
			// (a no-wait request may stop at the first locked key: handled by the comparison)
		}
		return res
	case "prollback":
		s.PessimisticRollback("", "", o.Keys, o.Start, o.ForUpdate)
		return Result{Errs: []refmvcc.Err{{}}}
	case "commit":
		return Result{Errs: []refmvcc.Err{s.Commit(o.Keys, o.Start, o.Commit)}}
	case "rollback":
		return Result{Errs: []refmvcc.Err{s.Rollback(o.Keys, o.Start)}}
	case "cleanup":
		return Result{Errs: []refmvcc.Err{s.Cleanup(o.Keys[0], o.Start, o.Current)}}
	case "status":
		st := s.CheckTxnStatus(o.Keys[0], o.Start, o.Caller, o.Current, o.RollbackIfNE, o.ResolvingPes)
		res := Result{Errs: []refmvcc.Err{st.Err}}
		if st.Err.IsOK() {
			res.Extra = []string{fmt.Sprintf("ttl=%d commit=%s action=%s", st.TTL, u(st.CommitTS), st.Action)}
		}
		return res
	case "heartbeat":
		ttl, er := s.TxnHeartBeat(o.Keys[0], o.Start, o.Advise)
		res := Result{Errs: []refmvcc.Err{er}}
		if er.IsOK() {
			res.Extra = []string{fmt.Sprintf("ttl=%d", ttl)}
		}
		return res
	case "resolve":
		return Result{Errs: []refmvcc.Err{s.ResolveLock("", "", o.Start, o.Commit)}}
	case "bresolve":
		return Result{Errs: []refmvcc.Err{s.BatchResolveLock("", "", o.Txns)}}
	case "gc":
		return Result{Errs: []refmvcc.Err{s.GC(o.StartKey, o.EndKey, o.Safe)}}
	}
	panic("unknown op kind " + o.Kind)
}

// ---------- mock side ----------

// mock is one instance of the real store plus (for the RPC path) the handler stack in front of it.
type mock struct {
	db     *mocktikv.MVCCLevelDB
	rpc    *mocktikv.RPCClient
	ctx    kvrpcpb.Context
	addr   string
	useRPC bool
}

func newMock(useRPC bool) *mock {
	db, err := mocktikv.NewMVCCLevelDB("")
	if err != nil {
		panic(err)
	}
	m := &mock{db: db, useRPC: useRPC}
	if useRPC {
		cl := mocktikv.NewCluster(db)
		storeID, peerID, regionID := mocktikv.BootstrapWithSingleStore(cl)
		m.rpc = mocktikv.NewRPCClient(cl, db, nil)
		region, _ := cl.GetRegion(regionID)
		m.ctx = kvrpcpb.Context{RegionId: regionID, RegionEpoch: region.RegionEpoch, Peer: &metapb.Peer{Id: peerID, StoreId: storeID}}
		m.addr = cl.GetStore(storeID).Address
	}
	return m
}

func (m *mock) close() { m.db.Close() }

func (m *mock) send(typ tikvrpc.CmdType, req interface{}) interface{} {
	r := tikvrpc.NewRequest(typ, req, m.ctx)
	resp, err := m.rpc.SendRequest(context.Background(), m.addr, r, time.Second)
	if err != nil {
		panic(fmt.Sprintf("rpc transport error: %v", err))
	}
	return resp.Resp
}

// classify maps an error of the MVCCStore API to the model's answer classes.
func classify(err error) refmvcc.Err {
	if err == nil {
		return refmvcc.Err{}
	}
	switch e := errors.Cause(err).(type) {
	case *mocktikv.ErrLocked:
		return refmvcc.Err{Class: refmvcc.Locked, Key: string(e.Key.Raw()), LockStart: e.StartTS, LockPrimary: string(e.Primary), LockTTL: e.TTL}
	case *mocktikv.ErrKeyAlreadyExist:
		return refmvcc.Err{Class: refmvcc.AlreadyExists, Key: string(e.Key)}
	case *mocktikv.ErrConflict:
		return refmvcc.Err{Class: refmvcc.WriteConflict, Key: string(e.Key), CommitTS: e.ConflictCommitTS}
	case *mocktikv.ErrDeadlock:
		return refmvcc.Err{Class: refmvcc.Deadlock}
	case mocktikv.ErrRetryable:
		if strings.Contains(string(e), "txn not found") {
			return refmvcc.Err{Class: refmvcc.TxnLockNotFound}
		}
	case *mocktikv.ErrCommitTSExpired:
		return refmvcc.Err{Class: refmvcc.CommitTsExpired, Key: string(e.Key), MinCommitTS: e.MinCommitTs}
	case *mocktikv.ErrTxnNotFound:
		return refmvcc.Err{Class: refmvcc.TxnNotFound}
	case mocktikv.ErrAlreadyCommitted:
		return refmvcc.Err{Class: refmvcc.AlreadyCommitted, CommitTS: uint64(e)}
	case *mocktikv.ErrAlreadyRollbacked:
		return refmvcc.Err{Class: refmvcc.AlreadyRolledBack}
	case mocktikv.ErrAbort:
		if strings.Contains(string(e), "pessimistic lock not found") {
			return refmvcc.Err{Class: refmvcc.PessimisticLockNotFound}
		}
	}
	return classifyText(err.Error())
}

func classifyText(msg string) refmvcc.Err {
	switch {
	case strings.Contains(msg, "pessimistic lock not found"):
		return refmvcc.Err{Class: refmvcc.PessimisticLockNotFound}
	case strings.Contains(msg, "already rolled back"):
		return refmvcc.Err{Class: refmvcc.AlreadyRolledBack}
	case strings.Contains(msg, "lock doesn't exist"):
		return refmvcc.Err{Class: refmvcc.TxnNotFound}
	case strings.Contains(msg, "under safePoint"):
		return refmvcc.Err{Class: refmvcc.GCBlocked}
	case strings.Contains(msg, "txn already committed"):
		return refmvcc.Err{Class: refmvcc.AlreadyCommitted}
	}
	return refmvcc.Err{Class: refmvcc.Abort}
}

// classifyKeyErr maps a protobuf KeyError (RPC path).
func classifyKeyErr(ke *kvrpcpb.KeyError) refmvcc.Err {
	switch {
	case ke == nil:
		return refmvcc.Err{}
	case ke.Locked != nil:
		l := ke.Locked
		return refmvcc.Err{Class: refmvcc.Locked, Key: string(l.Key), LockStart: l.LockVersion, LockPrimary: string(l.PrimaryLock), LockTTL: l.LockTtl}
	case ke.AlreadyExist != nil:
		return refmvcc.Err{Class: refmvcc.AlreadyExists, Key: string(ke.AlreadyExist.Key)}
	case ke.Conflict != nil:
		return refmvcc.Err{Class: refmvcc.WriteConflict, Key: string(ke.Conflict.Key), CommitTS: ke.Conflict.ConflictCommitTs}
	case ke.Deadlock != nil:
		return refmvcc.Err{Class: refmvcc.Deadlock}
	case ke.CommitTsExpired != nil:
		return refmvcc.Err{Class: refmvcc.CommitTsExpired, Key: string(ke.CommitTsExpired.Key), MinCommitTS: ke.CommitTsExpired.MinCommitTs}
	case ke.TxnNotFound != nil:
		return refmvcc.Err{Class: refmvcc.TxnNotFound}
	case ke.Retryable != "":
		if strings.Contains(ke.Retryable, "txn not found") {
			return refmvcc.Err{Class: refmvcc.TxnLockNotFound}
		}
		return refmvcc.Err{Class: refmvcc.Abort}
	}
	return classifyText(ke.Abort)
}

func bs(ks []string) [][]byte {
	out := make([][]byte, len(ks))
	for i, k := range ks {
		out[i] = []byte(k)
	}
	return out
}

func pbOp(s string) kvrpcpb.Op {
	switch s {
	case "put":
		return kvrpcpb.Op_Put
	case "del":
		return kvrpcpb.Op_Del
	case "lock":
		return kvrpcpb.Op_Lock
	case "insert":
		return kvrpcpb.Op_Insert
	case "cne":
		return kvrpcpb.Op_CheckNotExists
	}
	panic("bad mutop")
}

func (m *mock) prewriteReq(o Op) *kvrpcpb.PrewriteRequest {
	req := &kvrpcpb.PrewriteRequest{PrimaryLock: []byte(o.Primary), StartVersion: o.Start, LockTtl: o.ttl(), MinCommitTs: o.MinCommit,
		ForUpdateTs: o.ForUpdate, TxnSize: uint64(len(o.Keys)), Context: &kvrpcpb.Context{}}
	anyAction := false
	for i, k := range o.Keys {
		mu := &kvrpcpb.Mutation{Op: pbOp(o.MutOp), Key: []byte(k)}
		if o.MutOp == "put" || o.MutOp == "insert" {
			mu.Value = []byte(o.Value)
		}
		req.Mutations = append(req.Mutations, mu)
		a := kvrpcpb.PrewriteRequest_SKIP_PESSIMISTIC_CHECK
		switch o.modeOf(i) {
		case "pess":
			a, anyAction = kvrpcpb.PrewriteRequest_DO_PESSIMISTIC_CHECK, true
		case "cons":
			a, anyAction = kvrpcpb.PrewriteRequest_DO_CONSTRAINT_CHECK, true
		}
		req.PessimisticActions = append(req.PessimisticActions, a)
	}
	if !anyAction {
		req.PessimisticActions = nil
	}
	return req
}

func (m *mock) plockReq(o Op) *kvrpcpb.PessimisticLockRequest {
	req := &kvrpcpb.PessimisticLockRequest{PrimaryLock: []byte(o.Primary), StartVersion: o.Start, ForUpdateTs: o.ForUpdate, LockTtl: o.ttl(), MinCommitTs: o.MinCommit,
		WaitTimeout: mocktikv.LockNoWait, ReturnValues: o.ReturnValues, CheckExistence: o.CheckExistence, LockOnlyIfExists: o.LockOnlyIfExists,
		Context: &kvrpcpb.Context{}}
	if o.ForceLock {
		req.WakeUpMode = kvrpcpb.PessimisticLockWakeUpMode_WakeUpModeForceLock
	}
	for _, k := range o.Keys {
		req.Mutations = append(req.Mutations, &kvrpcpb.Mutation{Op: kvrpcpb.Op_PessimisticLock, Key: []byte(k)})
	}
	return req
}

// plockResult normalises a pessimistic lock response to the model's per-key form.
func plockResult(o Op, resp *kvrpcpb.PessimisticLockResponse) Result {
	var res Result
	n := len(o.Keys)
	if o.ForceLock {
		// Results has one element per key (Failed for failed keys); errors are listed separately.
		ei := 0
		for i := 0; i < n && i < len(resp.Results); i++ {
			r := resp.Results[i]
			lr := refmvcc.LockKeyResult{}
			switch r.Type {
			case kvrpcpb.PessimisticLockKeyResultType_LockResultNormal:
				lr.Type = refmvcc.LockNormal
			case kvrpcpb.PessimisticLockKeyResultType_LockResultLockedWithConflict:
				lr.Type = refmvcc.LockedWithConflict
			default:
				lr.Type = refmvcc.LockFailed
			}
			lr.Value, lr.Exists, lr.ConflictTS = string(r.Value), r.Existence, r.LockedWithConflictTs
			er := refmvcc.Err{}
			if lr.Type == refmvcc.LockFailed && ei < len(resp.Errors) {
				er = classifyKeyErr(resp.Errors[ei])
				ei++
			}
			res.Errs = append(res.Errs, er)
			res.Extra = append(res.Extra, lockResultStr(lr))
		}
		if len(resp.Results) != n || ei != len(resp.Errors) {
			res.Extra = append(res.Extra, fmt.Sprintf("malformed: %d results %d errors for %d keys", len(resp.Results), len(resp.Errors), n))
		}
		return res
	}
	if len(resp.Errors) > 0 {
		// Only the failed keys are reported; successful ones before them are implied.
		for _, ke := range resp.Errors {
			res.Errs = append(res.Errs, classifyKeyErr(ke))
		}
		return res
	}
	for i := 0; i < n; i++ {
		lr := refmvcc.LockKeyResult{}
		if o.ReturnValues {
			if i < len(resp.Values) && i < len(resp.NotFounds) {
				lr.Value, lr.Exists = string(resp.Values[i]), !resp.NotFounds[i]
			} else {
				res.Extra = append(res.Extra, "malformed: values/not-founds shorter than keys")
			}
		} else if o.CheckExistence {
			if i < len(resp.NotFounds) {
				lr.Exists = !resp.NotFounds[i]
			} else {
				res.Extra = append(res.Extra, "malformed: not-founds shorter than keys")
			}
		}
		res.Errs = append(res.Errs, refmvcc.Err{})
		res.Extra = append(res.Extra, lockResultStr(lr))
	}
	return res
}

func one(e refmvcc.Err) Result { return Result{Errs: []refmvcc.Err{e}} }

// apply runs op on the real store (directly or through the RPC handlers).
func (m *mock) apply(o Op) Result {
	if m.useRPC {
		return m.applyRPC(o)
	}
	db := m.db
	switch o.Kind {
	case "prewrite":
		errs := db.Prewrite(m.prewriteReq(o))
		res := Result{}
		for i := range o.Keys {
			// (a successful check-not-exists mutation has no slot in the mock's answer)
			if i < len(errs) {
				res.Errs = append(res.Errs, classify(errs[i]))
			} else {
				res.Errs = append(res.Errs, refmvcc.Err{})
			}
		}
		return res
	case "plock":
		return plockResult(o, db.PessimisticLock(m.plockReq(o)))
	case "prollback":
		errs := db.PessimisticRollback(nil, nil, bs(o.Keys), o.Start, o.ForUpdate)
		for _, e := range errs {
			if e != nil {
				return one(classify(e))
			}
		}
		return one(refmvcc.Err{})
	case "commit":
		return one(classify(db.Commit(bs(o.Keys), o.Start, o.Commit)))
	case "rollback":
		return one(classify(db.Rollback(bs(o.Keys), o.Start)))
	case "cleanup":
		return one(classify(db.Cleanup([]byte(o.Keys[0]), o.Start, o.Current)))
	case "status":
		ttl, commit, act, err := db.CheckTxnStatus([]byte(o.Keys[0]), o.Start, o.Caller, o.Current, o.RollbackIfNE, o.ResolvingPes)
		res := one(classify(err))
		if err == nil {
			res.Extra = []string{fmt.Sprintf("ttl=%d commit=%s action=%s", ttl, u(commit), act)}
		}
		return res
	case "heartbeat":
		ttl, err := db.TxnHeartBeat([]byte(o.Keys[0]), o.Start, o.Advise)
		res := one(classify(err))
		if err == nil {
			res.Extra = []string{fmt.Sprintf("ttl=%d", ttl)}
		}
		return res
	case "resolve":
		return one(classify(db.ResolveLock(nil, nil, o.Start, o.Commit)))
	case "bresolve":
		return one(classify(db.BatchResolveLock(nil, nil, o.Txns)))
	case "gc":
		return one(classify(db.GC([]byte(o.StartKey), []byte(o.EndKey), o.Safe)))
	}
	panic("unknown op kind " + o.Kind)
}

// rpcSupported: commands whose RPC form can express the op (the handlers of
// ResolveLock / GC always use the whole region; BatchResolveLock has no handler).
func rpcSupported(o Op) bool {
	switch o.Kind {
	case "bresolve":
		return false
	case "gc":
		return o.StartKey == "" && o.EndKey == ""
	}
	return true
}

func (m *mock) applyRPC(o Op) Result {
	switch o.Kind {
	case "prewrite":
		resp := m.send(tikvrpc.CmdPrewrite, m.prewriteReq(o)).(*kvrpcpb.PrewriteResponse)
		// The handler reports all lock errors, or only the first error of another kind.
		res := Result{}
		for _, ke := range resp.Errors {
			res.Errs = append(res.Errs, classifyKeyErr(ke))
		}
		return res
	case "plock":
		return plockResult(o, m.send(tikvrpc.CmdPessimisticLock, m.plockReq(o)).(*kvrpcpb.PessimisticLockResponse))
	case "prollback":
		resp := m.send(tikvrpc.CmdPessimisticRollback, &kvrpcpb.PessimisticRollbackRequest{Keys: bs(o.Keys), StartVersion: o.Start, ForUpdateTs: o.ForUpdate}).(*kvrpcpb.PessimisticRollbackResponse)
		if len(resp.Errors) > 0 {
			return one(classifyKeyErr(resp.Errors[0]))
		}
		return one(refmvcc.Err{})
	case "commit":
		resp := m.send(tikvrpc.CmdCommit, &kvrpcpb.CommitRequest{Keys: bs(o.Keys), StartVersion: o.Start, CommitVersion: o.Commit}).(*kvrpcpb.CommitResponse)
		return one(classifyKeyErr(resp.Error))
	case "rollback":
		resp := m.send(tikvrpc.CmdBatchRollback, &kvrpcpb.BatchRollbackRequest{Keys: bs(o.Keys), StartVersion: o.Start}).(*kvrpcpb.BatchRollbackResponse)
		return one(classifyKeyErr(resp.Error))
	case "cleanup":
		resp := m.send(tikvrpc.CmdCleanup, &kvrpcpb.CleanupRequest{Key: []byte(o.Keys[0]), StartVersion: o.Start, CurrentTs: o.Current}).(*kvrpcpb.CleanupResponse)
		if resp.Error == nil && resp.CommitVersion != 0 {
			return one(refmvcc.Err{Class: refmvcc.AlreadyCommitted, CommitTS: resp.CommitVersion})
		}
		return one(classifyKeyErr(resp.Error))
	case "status":
		resp := m.send(tikvrpc.CmdCheckTxnStatus, &kvrpcpb.CheckTxnStatusRequest{PrimaryKey: []byte(o.Keys[0]), LockTs: o.Start, CallerStartTs: o.Caller,
			CurrentTs: o.Current, RollbackIfNotExist: o.RollbackIfNE, ResolvingPessimisticLock: o.ResolvingPes}).(*kvrpcpb.CheckTxnStatusResponse)
		res := one(classifyKeyErr(resp.Error))
		if resp.Error == nil {
			res.Extra = []string{fmt.Sprintf("ttl=%d commit=%s action=%s", resp.LockTtl, u(resp.CommitVersion), resp.Action)}
		}
		return res
	case "heartbeat":
		resp := m.send(tikvrpc.CmdTxnHeartBeat, &kvrpcpb.TxnHeartBeatRequest{PrimaryLock: []byte(o.Keys[0]), StartVersion: o.Start, AdviseLockTtl: o.Advise}).(*kvrpcpb.TxnHeartBeatResponse)
		res := one(classifyKeyErr(resp.Error))
		if resp.Error == nil {
			res.Extra = []string{fmt.Sprintf("ttl=%d", resp.LockTtl)}
		}
		return res
	case "resolve":
		resp := m.send(tikvrpc.CmdResolveLock, &kvrpcpb.ResolveLockRequest{StartVersion: o.Start, CommitVersion: o.Commit}).(*kvrpcpb.ResolveLockResponse)
		return one(classifyKeyErr(resp.Error))
	case "gc":
		resp := m.send(tikvrpc.CmdGC, &kvrpcpb.GCRequest{SafePoint: o.Safe}).(*kvrpcpb.GCResponse)
		return one(classifyKeyErr(resp.Error))
	}
	panic("unsupported rpc op " + o.Kind)
}

package main

import (
	"sort"

	"github.com/tikv/client-go/v2/verifrt/models/refmvcc"
)

// Plan "ttlmc": the lock's time-to-live and min-commit-ts as state.
//
// The general alphabet (ops.go) asks for the same ttl in every lock request and
// for at most one min-commit-ts value, and is explored to depth 3-4 over 2-3
// keys; the chains in which the two lock fields matter are 5-6 commands long
// on ONE key (lock, raise the ttl, push the min-commit-ts, convert the lock,
// commit below / at / above the pushed value, read). This plan therefore has
// few keys and transactions, a command set restricted to the life cycle of a
// lock, full cross products of the ttl and min-commit-ts arguments, and a
// larger depth. Everything else (engine, reference model, stored-state
// comparison, observation set) is shared with the general plan.
//
// Timestamps (in U = one physical millisecond): T1 starts at 10, T2 at 20.
//
//	ttl (ms) asked for by lock requests   2, 5, 9   (smaller / equal / larger than what a lock holds)
//	heartbeat advice                      1, 5, 9, 100
//	min-commit-ts asked for               0, 11, 16
//	status check: caller                  5 (nothing to push), 13, 21, max (pretend)
//	              current                 11 (every lock alive), 14 (ttl 2 expired), 17 (ttl <= 5 expired), 30 (ttl <= 9 expired)
//	              -> pushed values 13+1, 14, 17, 21+1, 30
//	commit of T1                          11, 12, 13+1, 15, 16, 19, 21+1, 31  (below / at / above every value a lock can hold)
//	cleanup current                       0 (unconditional), 14, 30
const planTTLMC = "ttlmc"

var (
	ttlGrid    = []uint64{2, 5, 9}
	adviseGrid = []uint64{1, 5, 9, adviseHi}
	mcGrid     = []uint64{0, 11 * U, 16 * U}
	callerGrid = []uint64{5 * U, 13 * U, 21 * U, refmvcc.MaxTS}
	curGrid    = []uint64{11 * U, 14 * U, 17 * U, 30 * U}
	commitGrid = []uint64{11 * U, 12 * U, 13*U + 1, 15 * U, 16 * U, 19 * U, 21*U + 1, 31 * U}
)

func ttlmcConfig(nKeys, nTxns int) config {
	all := []txnSpec{
		{id: 1, start: 10, fus: []uint64{10, 21}, value: "v1"},
		{id: 2, start: 20, commits: []uint64{24}, fus: []uint64{29}, value: "v2"},
	}
	c := config{plan: planTTLMC, keys: []string{"a", "b"}[:nKeys], txns: all[:nTxns]}
	c.endBound = string(rune('a' + nKeys))
	seen := map[uint64]bool{}
	add := func(ts uint64) {
		if !seen[ts] {
			seen[ts] = true
			c.readTS = append(c.readTS, ts)
		}
	}
	// every caller of a status check reads at its own timestamp; every commit ts and its predecessor
	add(5 * U)
	add(10 * U)
	for _, ts := range callerGrid[:3] {
		add(ts)
	}
	for _, ts := range commitGrid {
		add(ts)
	}
	if nTxns >= 2 {
		add(20 * U)
		add(24 * U)
	}
	add(45 * U)
	sort.Slice(c.readTS, func(i, j int) bool { return c.readTS[i] < c.readTS[j] })
	c.readTS = append(c.readTS, refmvcc.MaxTS)
	return c
}

// ttlmcAlphabet: simplest first. The primary of T1 is always the first key (a
// second key is a secondary: it keeps no min-commit-ts after the prewrite and
// cannot be heart-beaten).
func (c config) ttlmcAlphabet() []Op {
	var ops []Op
	t1 := c.txns[0]
	st := t1.start * U
	pri := c.keys[0]
	fuLo, fuHi := t1.fus[0]*U, t1.fus[1]*U
	for _, k := range c.keys {
		one := []string{k}
		// pessimistic lock: first request (for-update-ts = start) and a later one that replaces the lock
		for _, fu := range []uint64{fuLo, fuHi} {
			for _, ttl := range ttlGrid {
				for _, mc := range mcGrid {
					ops = append(ops, Op{Kind: "plock", T: t1.id, Start: st, Keys: one, Primary: pri, ForUpdate: fu, TTL: ttl, MinCommit: mc})
				}
			}
		}
		// prewrite over the transaction's pessimistic lock / optimistic prewrite (and its repeats)
		for _, mode := range []string{"pess", "opt"} {
			for _, ttl := range ttlGrid {
				for _, mc := range mcGrid {
					o := Op{Kind: "prewrite", T: t1.id, Start: st, Keys: one, Primary: pri, Mode: mode, MutOp: "put", Value: t1.value, TTL: ttl, MinCommit: mc}
					if mode == "pess" {
						o.ForUpdate = fuHi
					}
					ops = append(ops, o)
				}
			}
		}
	}
	for _, adv := range adviseGrid {
		ops = append(ops, Op{Kind: "heartbeat", T: t1.id, Start: st, Keys: []string{pri}, Advise: adv})
	}
	for _, k := range c.keys {
		one := []string{k}
		for _, caller := range callerGrid {
			for _, cur := range curGrid {
				ops = append(ops, Op{Kind: "status", T: t1.id, Start: st, Keys: one, Caller: caller, Current: cur, RollbackIfNE: true})
			}
		}
		ops = append(ops,
			Op{Kind: "status", T: t1.id, Start: st, Keys: one, Caller: 21 * U, Current: 30 * U, RollbackIfNE: true, ResolvingPes: true},
			Op{Kind: "status", T: t1.id, Start: st, Keys: one, Caller: 13 * U, Current: 11 * U})
		for _, cm := range commitGrid {
			ops = append(ops, Op{Kind: "commit", T: t1.id, Start: st, Keys: one, Commit: cm})
		}
		ops = append(ops, Op{Kind: "rollback", T: t1.id, Start: st, Keys: one})
		for _, cur := range []uint64{0, 14 * U, 30 * U} {
			ops = append(ops, Op{Kind: "cleanup", T: t1.id, Start: st, Keys: one, Current: cur})
		}
		ops = append(ops,
			Op{Kind: "prollback", T: t1.id, Start: st, Keys: one, ForUpdate: fuLo},
			Op{Kind: "prollback", T: t1.id, Start: st, Keys: one, ForUpdate: fuHi})
	}
	if len(c.keys) >= 2 {
		ops = append(ops, Op{Kind: "commit", T: t1.id, Start: st, Keys: c.keys[:2], Commit: 15 * U},
			Op{Kind: "commit", T: t1.id, Start: st, Keys: c.keys[:2], Commit: 31 * U})
	}
	ops = append(ops,
		Op{Kind: "resolve", T: t1.id, Start: st, Commit: 0},
		Op{Kind: "resolve", T: t1.id, Start: st, Commit: 31 * U})
	if len(c.txns) >= 2 {
		// a second writer: it meets T1's lock (the answer carries the lock's ttl) and leaves locks / records of its own
		t2 := c.txns[1]
		s2 := t2.start * U
		fu2 := t2.fus[0] * U
		for _, k := range c.keys {
			one := []string{k}
			ops = append(ops,
				Op{Kind: "plock", T: t2.id, Start: s2, Keys: one, Primary: k, ForUpdate: fu2, TTL: 5},
				Op{Kind: "prewrite", T: t2.id, Start: s2, Keys: one, Primary: k, Mode: "opt", MutOp: "put", Value: t2.value, TTL: 5, MinCommit: s2 + 1},
				Op{Kind: "prewrite", T: t2.id, Start: s2, Keys: one, Primary: k, Mode: "pess", MutOp: "put", Value: t2.value, TTL: 5, ForUpdate: fu2},
				Op{Kind: "status", T: t2.id, Start: s2, Keys: one, Caller: 45 * U, Current: 21 * U, RollbackIfNE: true},
				Op{Kind: "commit", T: t2.id, Start: s2, Keys: one, Commit: t2.commits[0] * U},
				Op{Kind: "rollback", T: t2.id, Start: s2, Keys: one})
		}
	}
	return ops
}

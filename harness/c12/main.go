// C12: the mock TiKV (internal/mockstore/mocktikv, MVCCLevelDB and its RPC
// handlers) agrees with a reference Percolator model (verifrt/models/refmvcc).
//
// Engine E2 of DESIGN.md 3.2: explicit-state breadth-first search over command
// sequences. A state is identified by the canonical state of the reference
// model; its representative is the first (shortest, lexicographically
// smallest) command sequence that reaches it. A successor is computed on the
// real store by: empty instance + replay of the representative + one command.
// After every command the answer (error class + payload) and the complete
// stored state (white-box dump) are compared with the model; in every newly
// reached state the full observation set is compared (observe.go).
//
// Deduplication by reference state is sound here because the mock's answers
// are a function of its stored entries only (plus the wait-for graph of its
// deadlock detector, whose only effect - "deadlock" instead of "locked" - is
// an accepted alternative), and the stored entries are compared with the
// reference state after every step: two sequences that agree with the model
// and reach the same model state leave the same stored entries. Where the
// stored entries differ from the reference state without a differing answer
// (nothing the property text demands by itself), the differing entries become
// part of the deduplication key: such a state is explored like any other, so
// that a consequence (a later answer or read) is found within the depth bound
// instead of being hidden behind an earlier visit of the same reference state.
//
// Two plans share the engine: the general one (ops.go: every command, one ttl
// and at most one min-commit-ts per request, 2-3 keys and transactions, depth
// 3-4) and "ttlmc" (ttlmc.go: the life cycle of a lock with its ttl and
// min-commit-ts as state, 1-2 keys and transactions, depth 4-8).
package main

import (
	"crypto/sha256"
	"encoding/json"
	"flag"
	"fmt"
	"os"
	"regexp"
	"runtime"
	"runtime/pprof"
	"sort"
	"strings"
	"sync"
	"sync/atomic"
	"time"

	"go.uber.org/zap"

	"github.com/pingcap/log"
	"github.com/tikv/client-go/v2/verifrt/ev"
	"github.com/tikv/client-go/v2/verifrt/models/refmvcc"
)

// replayArtefact is what a violation stores and --replay reads.
type replayArtefact struct {
	Plan string   `json:"plan,omitempty"` // "" general alphabet, "ttlmc" lock-field plan
	RPC  bool     `json:"rpc"`
	Keys int      `json:"keys"`
	Txns int      `json:"txns"`
	Ops  []Op     `json:"ops"`
	Note string   `json:"note,omitempty"`
	Text []string `json:"text,omitempty"`
}

type node struct {
	path  []Op
	model *refmvcc.Store
	// dev: the mock's stored entries where they differ from the reference state
	// although every answer so far agreed ("" = equal). Such a state is a state
	// of its own: it is part of the deduplication key and is explored like any
	// other, so that a consequence of the difference (a later answer or read)
	// is found within the depth bound. devKey names the step that caused it.
	dev    string
	devKey string
}

type engine struct {
	run      *ev.Run
	cfg      config
	nKeys    int
	nTxns    int
	ops      []Op
	useRPC   bool
	maxDepth int
	opt      refmvcc.Options

	visited sync.Map // [32]byte -> struct{}

	states, transitions, validated, evaluations, nontrivial, probes atomic.Int64
	undefinedSkips, pruned, deviating, devNotExpanded               atomic.Int64

	fixpoint   bool // the last explored level produced no new state: the whole reachable space of the alphabet is covered
	mu         sync.Mutex
	devProbed  sync.Map          // difference class -> *atomic.Int64: frontier states of that class probed so far
	undefined  sync.Map          // string -> *atomic.Int64
	outcomes   sync.Map          // string -> *atomic.Int64
	confirmed  sync.Map          // violation key -> struct{}: already reproduced on a new instance
	stateDiffs map[string]string // key -> sample
	conseq     map[string]string // violation key -> first visible consequence in the observation set
	levelCount []int
	samples    *ev.Samples
}

func (e *engine) newModel() *refmvcc.Store {
	s := refmvcc.New()
	s.Opt = e.opt
	return s
}

// worker owns one store instance at a time.
type worker struct {
	e     *engine
	m     *mock
	uses  int
	dirty bool // the instance holds entries
}

const recreateEvery = 4

// maxDevPerClassAndLevel: see bfs.
const maxDevPerClassAndLevel = 24

// empty returns an empty instance (reset, or a new one every recreateEvery uses
// because deleted entries slow down the iterators of a long-lived instance).
func (w *worker) empty() *mock {
	if w.m != nil && w.uses < recreateEvery {
		if _, err := w.m.db.VerifReset(); err == nil {
			w.uses++
			return w.m
		}
	}
	if w.m != nil {
		w.m.close()
	}
	w.m = newMock(w.e.useRPC)
	w.uses = 0
	return w.m
}

func (w *worker) close() {
	if w.m != nil {
		w.m.close()
		w.m = nil
	}
}

// guardApply runs op on the mock and converts a panic into a finding.
func guardApply(m *mock, o Op) (res Result, panicked string) {
	defer func() {
		if p := recover(); p != nil {
			panicked = fmt.Sprint(p)
		}
	}()
	return m.apply(o), ""
}

// build replays path on an empty instance (answers were checked when the path was first taken).
func (w *worker) build(path []Op) *mock {
	m := w.empty()
	for _, o := range path {
		guardApply(m, o)
	}
	return m
}

func seqText(path []Op) []string {
	out := make([]string, len(path))
	for i, o := range path {
		out[i] = o.String()
	}
	return out
}

func (e *engine) artefact(path []Op, note string) replayArtefact {
	return replayArtefact{Plan: e.cfg.plan, RPC: e.useRPC, Keys: e.nKeys, Txns: e.nTxns, Ops: append([]Op(nil), path...), Note: note, Text: seqText(path)}
}

// step runs one command on the mock in state pre and checks answer, stored
// state and state laws. It returns the findings and the mock's dump.
func (e *engine) step(m *mock, pre, post *refmvcc.Store, o Op, want Result) (fs []finding, diffDump bool) {
	fs, diffDump, _ = e.stepD(m, pre, post, o, want, "", false)
	return fs, diffDump
}

// stepD also returns the mock's stored entries after the step ("" if they could not be read).
// preImpl: the mock's stored entries before the step if known ("" = unknown);
// preDev: they already differed from the reference before the step.
func (e *engine) stepD(m *mock, pre, post *refmvcc.Store, o Op, want Result, preImpl string, preDev bool) (fs []finding, diffDump bool, dump string) {
	got, pan := guardApply(m, o)
	e.transitions.Add(1)
	if pan != "" {
		return []finding{{key: variant(o) + ":" + opSituation(pre, o, 0) + ":panic", what: fmt.Sprintf("%s panicked: %s", o, pan), violation: true}}, true, ""
	}
	e.validated.Add(1)
	resultOK := true
	if f := compareResult(pre, o, want, got, e.useRPC); f != nil {
		fs = append(fs, *f)
		resultOK = false
	}
	entries, err := m.db.VerifDump()
	if err != nil {
		return append(fs, finding{key: "dump:error", what: err.Error(), violation: true}), true, ""
	}
	dump, bad := renderMock(entries)
	for _, b := range bad {
		fs = append(fs, finding{key: variant(o) + ":" + opSituation(pre, o, 0) + ":stored-records-inconsistent", what: fmt.Sprintf("after %s: %s", o, b), violation: true})
	}
	fs = append(fs, stateLaws(pre, post, o, dump)...)
	if wantDump := renderModel(post); dump != wantDump {
		diffDump = true
		if resultOK && len(fs) == 0 {
			// Same answer, different stored state, no stated law broken: not demanded by
			// the property text by itself; listed in the evidence, consequences (if any)
			// show up as answer / observation differences of later steps.
			fs = append(fs, finding{key: "state-diff:" + variant(o) + ":" + opSituation(pre, o, 0),
				what: fmt.Sprintf("after %s the store holds %q, reference %q", o, dump, wantDump)})
		}
	}
	if o.Kind == "gc" && len(want.Errs) == 1 && want.Errs[0].IsOK() {
		// "GC ... preserves every read at or above the safe point": checked on the
		// reference itself (the mock is tied to it by the stored-state comparison).
		for _, k := range e.cfg.keys {
			for _, ts := range e.cfg.readTS {
				if ts < o.Safe {
					continue
				}
				v1, _, f1 := pre.Read(k, ts)
				v2, _, f2 := post.Read(k, ts)
				if v1 != v2 || f1 != f2 {
					fs = append(fs, finding{key: "reference-invariant:gc-changes-read", what: fmt.Sprintf("reference GC(safe=%s) changed Read(%s @%s) from %q to %q", u(o.Safe), k, u(ts), v1, v2), violation: true})
				}
			}
		}
	}
	if diffDump && dump != preImpl && !preDev && !hasViolation(fs) {
		// Same answer but different stored entries, and the difference arises in this step:
		// look for a visible consequence right away, so that the finding names this step.
		// (A successor of a state that already differed is a state of its own and gets the
		// observation set when it is first reached.)
		var fails []obsFail
		func() {
			defer func() { recover() }()
			fails, _ = m.observe(e.cfg, post)
		}()
		for _, f := range fails {
			q := "" // which lock field the request asked less of than the lock held, if any
			if len(o.Keys) > 0 {
				q = lockFieldSituation(pre, o, o.Keys[0])
			}
			fs = append(fs, finding{key: f.key + ":after:" + variant(o) + q, what: fmt.Sprintf("after %s: %s", o, f.what), violation: true})
		}
	}
	if o.Kind == "commit" && len(want.Errs) == 1 && want.Errs[0].Class == refmvcc.CommitTsExpired && len(got.Errs) == 1 && got.Errs[0].IsOK() {
		// A commit below the lock's min-commit-ts was accepted. The reads are judged too
		// ("a read at a timestamp sees the newest commit at or below it"): whoever pushed
		// the min-commit-ts read at a timestamp at or above this commit ts and saw nothing.
		var fails []obsFail
		func() {
			defer func() { recover() }()
			fails, _ = m.observe(e.cfg, post)
		}()
		seenKind := map[string]bool{}
		for _, f := range fails {
			kind := strings.SplitN(f.key, ":", 2)[0] // one class per kind of read (get, get-rc, batchget, scan ...): the first failing one
			if seenKind[kind] {
				continue
			}
			seenKind[kind] = true
			fs = append(fs, finding{key: kind + ":after:commit-below-min-commit", what: fmt.Sprintf("after %s (accepted below the min-commit-ts %s): %s", o, u(want.Errs[0].MinCommitTS), f.what), violation: true})
		}
	}
	outcome := variant(o) + " " + opSituation(pre, o, 0) + " -> " + classes(got.Errs)
	if o.Kind == "status" && len(got.Extra) == 1 {
		if i := strings.Index(got.Extra[0], "action="); i >= 0 {
			outcome += " " + got.Extra[0][i:]
		}
	}
	bump(&e.outcomes, outcome)
	return fs, diffDump, dump
}

func bump(m *sync.Map, k string) {
	v, ok := m.Load(k)
	if !ok {
		v, _ = m.LoadOrStore(k, new(atomic.Int64))
	}
	v.(*atomic.Int64).Add(1)
}

func counts(m *sync.Map) map[string]int {
	out := map[string]int{}
	m.Range(func(k, v any) bool {
		out[k.(string)] = int(v.(*atomic.Int64).Load())
		return true
	})
	return out
}

// tolerate widens the reference answer where only the harness knows the history:
// an optimistic Insert over the transaction's own prewrite lock must succeed when
// it is the repeat of the very command that wrote the lock (property text:
// "prewrite over the transaction's own lock ... gives the same answer"); for a
// different earlier mutation of the same key the text is silent and the mock's
// "locked by itself" / "already exists" is accepted.
func tolerate(path []Op, pre *refmvcc.Store, o Op, want *Result) (repeat bool) {
	if o.Kind != "prewrite" {
		return false
	}
	os := o.String()
	for _, p := range path {
		if p.String() == os {
			repeat = true
		}
	}
	if o.Mode == "opt" && o.MutOp == "insert" && !repeat {
		for i, k := range o.Keys {
			if l := pre.LockOf(k); l != nil && l.Start == o.Start && l.Op != refmvcc.OpPessimistic && i < len(want.Errs) {
				want.Errs[i].Alt |= 1<<uint(refmvcc.Locked) | 1<<uint(refmvcc.AlreadyExists)
			}
		}
	}
	return repeat
}

var repeatSit = regexp.MustCompile(`own-prewrite-lock(\+newer-record)?(\+key-exists)?`)

func tagRepeat(fs []finding) {
	for i := range fs {
		fs[i].key = repeatSit.ReplaceAllString(fs[i].key, "own-prewrite-lock+exact-repeat")
	}
}

func (e *engine) report(fs []finding, path []Op, note string) {
	for _, f := range fs {
		if f.violation {
			e.run.Violation(f.key, f.what+"   sequence: "+fmt.Sprint(seqText(path)), e.artefact(path, note))
		} else {
			e.mu.Lock()
			if _, ok := e.stateDiffs[f.key]; !ok {
				e.stateDiffs[f.key] = f.what + "   sequence: " + fmt.Sprint(seqText(path))
			}
			e.mu.Unlock()
		}
	}
}

// consequence runs the observation set on the diverged instance and keeps the
// first difference as an illustration of what the deviation leads to.
func (e *engine) consequence(m *mock, post *refmvcc.Store, fs []finding) {
	var key string
	for _, f := range fs {
		if f.violation {
			key = f.key
			break
		}
	}
	e.mu.Lock()
	_, have := e.conseq[key]
	e.mu.Unlock()
	if have {
		return
	}
	var fails []obsFail
	func() {
		defer func() { recover() }()
		fails, _ = m.observe(e.cfg, post)
	}()
	if len(fails) > 0 {
		e.mu.Lock()
		if _, have := e.conseq[key]; !have {
			e.conseq[key] = fails[0].what
		}
		e.mu.Unlock()
	}
}

func hasViolation(fs []finding) bool {
	for _, f := range fs {
		if f.violation {
			return true
		}
	}
	return false
}

func touchesData(s *refmvcc.Store, o Op) bool {
	for _, k := range o.Keys {
		if s.LockOf(k) != nil || len(s.Writes(k)) > 0 {
			return true
		}
	}
	return len(o.Keys) == 0 && len(s.Keys()) > 0
}

// expand explores every command from the state n. last: the successors are at
// the depth bound and are not expanded further (they are still observed and
// probed with every command the reference answers without a state change).
func (w *worker) expand(n *node, last bool, next *[]*node) {
	e := w.e
	preState := n.model.State()
	preImpl := n.dev // the mock's stored entries in state n
	if preImpl == "" {
		preImpl = renderModel(n.model)
	}
	var m *mock    // instance in state n, nil if it has to be (re)built
	var extra []Op // no-change commands applied to m since it was built
	for _, o := range e.ops {
		if e.useRPC && !rpcSupported(o) {
			continue
		}
		post := n.model.Clone()
		want := applyModel(post, o)
		if why := undefinedReason(want); why != "" {
			e.undefinedSkips.Add(1)
			bump(&e.undefined, variant(o)+": "+why)
			continue
		}
		if touchesData(n.model, o) {
			e.nontrivial.Add(1)
		}
		repeat := tolerate(n.path, n.model, o, &want)
		if m == nil {
			m = w.build(n.path)
			extra = nil
		}
		fs, diff, dump := e.stepD(m, n.model, post, o, want, preImpl, n.dev != "")
		if repeat {
			tagRepeat(fs)
		}
		// changed: on either side (the mock may change its entries where the reference changes nothing)
		changed := post.State() != preState || (dump != "" && dump != preImpl)
		devKey := n.devKey
		fs = e.fromDeviating(n, fs, &devKey)
		path := append(append([]Op(nil), n.path...), o)
		if len(fs) > 0 {
			if e.allConfirmed(fs) {
				e.report(fs, path, "")
			} else if len(extra) > 0 {
				// found on a reused instance: confirm on an empty one for a minimal sequence
				fm := newMock(e.useRPC)
				for _, p := range n.path {
					guardApply(fm, p)
				}
				fs2, _, _ := e.stepD(fm, n.model, post, o, want, preImpl, n.dev != "")
				fm.close()
				if repeat {
					tagRepeat(fs2)
				}
				var dk string
				fs2 = e.fromDeviating(n, fs2, &dk)
				if sameKeys(fs, fs2) {
					e.markConfirmed(fs2)
					e.report(fs2, path, "")
				} else {
					long := append(append(append([]Op(nil), n.path...), extra...), o)
					for i := range fs {
						fs[i].key += ":history-dependent"
					}
					e.report(fs, long, "only after the listed no-op commands on the same instance")
				}
			} else {
				e.markConfirmed(fs)
				e.report(fs, path, "")
			}
		}
		if !changed {
			// neither side changed (diff can only be the difference the state n came with)
			if hasViolation(fs) || dump == "" {
				if hasViolation(fs) {
					e.consequence(m, post, fs)
				}
				m = nil // the instance may be off: rebuild for the next command
			} else {
				extra = append(extra, o)
			}
			continue
		}
		// state-changing command: m is now in the successor state
		if hasViolation(fs) {
			// The mock left the reference here: everything after this step on this
			// sequence is a consequence. The successor is not entered through this
			// transition (other transitions may still reach it); the first visible
			// consequence is recorded with the finding.
			e.pruned.Add(1)
			e.consequence(m, post, fs)
			m = nil
			continue
		}
		// Deduplication key: the reference state, plus the mock's entries where they differ
		// from it (two sequences with equal answers and equal reference state have equal
		// futures only if the mock's entries are equal too).
		succ := &node{path: path, model: post}
		if diff {
			succ.dev, succ.devKey = dump, devKey
		}
		sum := sha256.Sum256([]byte(post.State() + "\x00" + succ.dev))
		if _, seen := e.visited.LoadOrStore(sum, struct{}{}); !seen {
			e.states.Add(1)
			if diff {
				e.deviating.Add(1)
			}
			if !(diff && n.dev == "") { // (a difference that arose in this step had its observation set run by stepD)
				sfx := ""
				if n.dev != "" {
					sfx = ":after-" + n.devKey
				}
				e.observeStateK(m, post, path, sfx)
			}
			if last {
				if succ.dev == "" {
					w.probe(m, succ)
				} else if v, _ := e.devProbed.LoadOrStore(succ.devKey, new(atomic.Int64)); v.(*atomic.Int64).Add(1) <= maxDevPerClassAndLevel {
					w.probe(m, succ)
				} else {
					e.devNotExpanded.Add(1)
				}
			} else {
				*next = append(*next, succ)
			}
			e.samples.Add(func() any { return map[string]any{"sequence": seqText(path), "state": renderModel(post)} })
		}
		m = nil
	}
}

// fromDeviating post-processes the findings of a step taken from state n. In a
// state whose stored entries already differ from the reference the difference
// persists: it is not listed again, and a violation found from there is a
// consequence of it and says so in its key. For a step that starts a
// difference, *devKey receives the key of that difference.
func (e *engine) fromDeviating(n *node, fs []finding, devKey *string) []finding {
	if n.dev == "" {
		for _, f := range fs {
			if !f.violation && *devKey == "" {
				*devKey = f.key
			}
		}
		return fs
	}
	out := fs[:0]
	for _, f := range fs {
		if !f.violation {
			continue
		}
		f.key += ":after-" + n.devKey
		f.what += "   (the stored entries differ from the reference since the step " + n.devKey + ")"
		out = append(out, f)
	}
	return out
}

func (e *engine) allConfirmed(fs []finding) bool {
	for _, f := range fs {
		if _, ok := e.confirmed.Load(f.key); !ok {
			return false
		}
	}
	return true
}

func (e *engine) markConfirmed(fs []finding) {
	for _, f := range fs {
		e.confirmed.Store(f.key, struct{}{})
	}
}

func sameKeys(a, b []finding) bool {
	if len(a) != len(b) {
		return false
	}
	for i := range a {
		if a[i].key != b[i].key {
			return false
		}
	}
	return true
}

// observeState runs the observation set and the invariants of appendix B on a newly reached state.
func (e *engine) observeState(m *mock, s *refmvcc.Store, path []Op) { e.observeStateK(m, s, path, "") }

// observeStateK: keySuffix names the earlier stored-state difference the state descends from, if any.
func (e *engine) observeStateK(m *mock, s *refmvcc.Store, path []Op, keySuffix string) {
	if inv := s.CheckInvariants(); inv != "" {
		// the reference itself left its invariants: a harness/model defect or a precondition hole, never silently ignored
		e.run.Violation("reference-invariant", "reference model state violates its invariant: "+inv+"   sequence: "+fmt.Sprint(seqText(path)), e.artefact(path, inv))
	}
	var fails []obsFail
	var n int
	func() {
		defer func() {
			if p := recover(); p != nil {
				fails = append(fails, obsFail{"observe:panic", fmt.Sprint("panic in a read: ", p)})
			}
		}()
		fails, n = m.observe(e.cfg, s)
	}()
	e.evaluations.Add(int64(n))
	for _, f := range fails {
		e.run.Violation(f.key+keySuffix, f.what+"   sequence: "+fmt.Sprint(seqText(path)), e.artefact(path, f.what))
	}
}

// probe applies, on the instance in the frontier state s, every command that
// the reference answers without changing state (errors, idempotent repeats,
// late prewrites after commit/rollback ...): one more level for those.
func (w *worker) probe(m *mock, n *node) {
	e := w.e
	s, path := n.model, n.path
	st := s.State()
	preImpl := n.dev
	if preImpl == "" {
		preImpl = renderModel(s)
	}
	for _, o := range e.ops {
		if e.useRPC && !rpcSupported(o) {
			continue
		}
		post := s.Clone()
		want := applyModel(post, o)
		if undefinedReason(want) != "" || post.State() != st {
			continue
		}
		e.probes.Add(1)
		repeat := tolerate(path, s, o, &want)
		if n.dev != "" {
			m = w.build(path) // deviating state: every probe on a rebuilt instance
		}
		fs, diff, _ := e.stepD(m, s, post, o, want, preImpl, n.dev != "")
		if repeat {
			tagRepeat(fs)
		}
		var dk string
		fs = e.fromDeviating(n, fs, &dk)
		if n.dev != "" {
			if len(fs) > 0 {
				e.markConfirmed(fs)
				e.report(fs, append(append([]Op(nil), path...), o), "")
			}
			continue
		}
		if len(fs) > 0 && e.allConfirmed(fs) {
			e.report(fs, append(append([]Op(nil), path...), o), "")
		} else if len(fs) > 0 {
			// confirm on an empty instance
			fm := newMock(e.useRPC)
			for _, p := range path {
				guardApply(fm, p)
			}
			fs2, _, _ := e.stepD(fm, s, post, o, want, preImpl, n.dev != "")
			fm.close()
			if repeat {
				tagRepeat(fs2)
			}
			full := append(append([]Op(nil), path...), o)
			if sameKeys(fs, fs2) {
				e.markConfirmed(fs2)
				e.report(fs2, full, "")
			} else {
				for i := range fs {
					fs[i].key += ":history-dependent"
				}
				e.report(fs, full, "after other no-op commands on the same instance")
			}
		}
		if diff || hasViolation(fs) {
			return // instance off; the remaining probes of this state are skipped (counted in probes only when run)
		}
	}
}

// bfs explores from the given roots to maxDepth commands beyond them.
func (e *engine) bfs(roots [][]Op) {
	var frontier []*node
	for _, r := range roots {
		s := e.newModel()
		for _, o := range r {
			applyModel(s, o)
		}
		sum := sha256.Sum256([]byte(s.State() + "\x00"))
		if _, seen := e.visited.LoadOrStore(sum, struct{}{}); seen {
			continue
		}
		e.states.Add(1)
		frontier = append(frontier, &node{path: r, model: s})
		// roots are observed too
		m := newMock(e.useRPC)
		for _, o := range r {
			guardApply(m, o)
		}
		e.observeState(m, s, r)
		m.close()
	}
	nw := runtime.GOMAXPROCS(0)
	for depth := 0; depth < e.maxDepth && len(frontier) > 0; depth++ {
		if e.run.Expired() {
			e.run.Incomplete(fmt.Sprintf("time budget used up before level %d", depth+1))
			break
		}
		last := depth == e.maxDepth-1
		statesBefore := int(e.states.Load())
		nexts := make([][]*node, len(frontier))
		var idx atomic.Int64
		var wg sync.WaitGroup
		var stop atomic.Bool
		for i := 0; i < nw; i++ {
			wg.Add(1)
			go func() {
				defer wg.Done()
				w := &worker{e: e}
				defer w.close()
				for {
					j := int(idx.Add(1)) - 1
					if j >= len(frontier) {
						return
					}
					if e.run.Expired() {
						stop.Store(true)
						return
					}
					w.expand(frontier[j], last, &nexts[j])
				}
			}()
		}
		wg.Wait()
		if stop.Load() {
			e.run.Incomplete(fmt.Sprintf("time budget used up inside level %d", depth+1))
		}
		// States whose stored entries differ from the reference (none on a tree that agrees
		// with it) are expanded up to a cap per difference class and level: a defect in how a
		// lock is stored multiplies them (reference states x stored variants), and one class
		// needs a handful of them to show its consequences.
		var nf []*node
		devCount := map[string]int{}
		for _, ns := range nexts {
			for _, x := range ns {
				if x.dev != "" {
					devCount[x.devKey]++
					if devCount[x.devKey] > maxDevPerClassAndLevel {
						e.devNotExpanded.Add(1)
						continue
					}
				}
				nf = append(nf, x)
			}
		}
		if e.devNotExpanded.Load() > 0 {
			e.run.Incomplete(fmt.Sprintf("more than %d states per level whose stored entries differ from the reference in the same way: the surplus was observed but not expanded", maxDevPerClassAndLevel))
		}
		e.levelCount = append(e.levelCount, int(e.states.Load())-statesBefore)
		frontier = nf
		if int(e.states.Load()) == statesBefore && !stop.Load() {
			e.fixpoint = true
		}
	}
}

// seedOps: a committed value written by transaction T0 (start 2, commit 4), so
// that "key exists" situations are reachable without spending two levels.
func seedOps(keys ...string) []Op {
	var out []Op
	for _, k := range keys {
		out = append(out,
			Op{Kind: "prewrite", T: 0, Start: 2 * U, Keys: []string{k}, Primary: k, Mode: "opt", MutOp: "put", Value: "v0"},
			Op{Kind: "commit", T: 0, Start: 2 * U, Keys: []string{k}, Commit: 4 * U})
	}
	return out
}

func newEngine(run *ev.Run, plan string, nKeys, nTxns, depth int, rpc bool) *engine {
	cfg := makeConfig(nKeys, nTxns)
	if plan == planTTLMC {
		cfg = ttlmcConfig(nKeys, nTxns)
	}
	e := &engine{run: run, nKeys: nKeys, nTxns: nTxns, cfg: cfg, useRPC: rpc, maxDepth: depth,
		stateDiffs: map[string]string{}, conseq: map[string]string{}, samples: ev.NewSamples(6, run.Seed)}
	e.ops = e.cfg.alphabet()
	// The text is silent on the for-update-ts stored by a force-lock over a newer
	// commit; the mock keeps the request's value (see refmvcc.Options).
	e.opt = refmvcc.Options{ForceLockKeepsRequestForUpdateTS: true}
	return e
}

func main() {
	replay := flag.String("replay", "", "replay file written by a previous run")
	flag.Parse()
	// the mock logs every refused command; millions of lines otherwise
	log.ReplaceGlobals(zap.NewNop(), &log.ZapProperties{})
	if f := os.Getenv("VERIF_C12_PROFILE"); f != "" { // developer aid: CPU + mutex/block profile
		cf, _ := os.Create(f + ".cpu")
		pprof.StartCPUProfile(cf)
		runtime.SetBlockProfileRate(10000)
		defer func() {
			pprof.StopCPUProfile()
			bf, _ := os.Create(f + ".block")
			pprof.Lookup("block").WriteTo(bf, 0)
			bf.Close()
		}()
	}
	run := ev.Start("C12", "model_checking")
	if *replay != "" {
		doReplay(run, *replay)
		return
	}
	type pass struct {
		name          string
		plan          string
		keys, txns, d int
		rpc           bool
		roots         [][]Op
	}
	var passes []pass
	empty := [][]Op{nil}
	if run.Quick() {
		passes = []pass{
			{"direct", "", 2, 2, 3, false, [][]Op{nil, seedOps("a")}},
			{"rpc", "", 2, 2, 2, true, [][]Op{nil, seedOps("a")}},
			// plan ttlmc (ttlmc.go): the lock's ttl and min-commit-ts as state; few keys / transactions, deeper
			{"ttlmc-1key", planTTLMC, 1, 1, 6, false, empty},
			{"ttlmc-1key-rpc", planTTLMC, 1, 1, 6, true, empty},
			{"ttlmc-2txns", planTTLMC, 1, 2, 7, false, empty},
			{"ttlmc-2keys", planTTLMC, 2, 1, 5, false, empty},
		}
	} else {
		passes = []pass{
			{"direct", "", 2, 2, 4, false, [][]Op{nil, seedOps("a")}},
			{"direct-wide", "", 3, 3, 3, false, [][]Op{nil, seedOps("a"), seedOps("a", "b")}},
			{"rpc", "", 2, 2, 3, true, [][]Op{nil, seedOps("a")}},
			{"ttlmc-1key", planTTLMC, 1, 1, 8, false, empty},
			{"ttlmc-1key-rpc", planTTLMC, 1, 1, 8, true, empty},
			{"ttlmc-2txns", planTTLMC, 1, 2, 8, false, empty},
			{"ttlmc-2keys", planTTLMC, 2, 1, 10, false, empty},
			{"ttlmc-2keys-2txns", planTTLMC, 2, 2, 6, false, empty},
		}
	}
	if only := os.Getenv("VERIF_C12_PASSES"); only != "" { // developer aid: run a subset of the passes (evidence then says so)
		var sel []pass
		for _, p := range passes {
			for _, name := range regexp.MustCompile(`[ ,]+`).Split(only, -1) {
				if name == p.name {
					sel = append(sel, p)
				}
			}
		}
		passes = sel
		run.Incomplete("only the passes " + only + " were run (VERIF_C12_PASSES)")
	}
	cov := ev.Coverage{}
	var tot struct{ states, transitions, validated, evaluations, nontrivial, probes, undef int64 }
	outcomes := map[string]bool{}
	lockField := map[string]int{} // outcomes in which the lock's ttl / min-commit-ts decides
	undefined := map[string]int{}
	stateDiffs := map[string]string{}
	conseq := map[string]string{}
	var pruned, deviating, devNotExpanded int64
	var samples []any
	perPass := []map[string]any{}
	for _, p := range passes {
		e := newEngine(run, p.plan, p.keys, p.txns, p.d, p.rpc)
		t0 := time.Now()
		e.bfs(p.roots)
		passWall := time.Since(t0).Seconds()
		deviating += e.deviating.Load()
		devNotExpanded += e.devNotExpanded.Load()
		tot.states += e.states.Load()
		tot.transitions += e.transitions.Load()
		tot.validated += e.validated.Load()
		tot.evaluations += e.evaluations.Load()
		tot.nontrivial += e.nontrivial.Load()
		tot.probes += e.probes.Load()
		tot.undef += e.undefinedSkips.Load()
		for k, v := range counts(&e.outcomes) {
			outcomes[k] = true
			if p.plan != planTTLMC {
				continue
			}
			if strings.Contains(k, "+req-ttl-below-lock") || strings.Contains(k, "+req-min-commit-below-lock") || strings.Contains(k, "+below-min-commit") ||
				strings.Contains(k, "+advise-below-ttl") || strings.Contains(k, "CommitTsExpired") || strings.Contains(k, "action=MinCommitTSPushed") || strings.Contains(k, "action=TTLExpire") {
				lockField[k] += v
			}
		}
		for k, v := range counts(&e.undefined) {
			undefined[k] += v
		}
		for k, v := range e.stateDiffs {
			if _, ok := stateDiffs[k]; !ok {
				stateDiffs[k] = v
			}
		}
		for k, v := range e.conseq {
			if _, ok := conseq[k]; !ok {
				conseq[k] = v
			}
		}
		pruned += e.pruned.Load()
		samples = append(samples, e.samples.List()...)
		planName := "general"
		if p.plan != "" {
			planName = p.plan
		}
		perPass = append(perPass, map[string]any{"pass": p.name, "plan": planName, "fixpoint_reached": e.fixpoint, "wall_s_informational": float64(int(passWall*10)) / 10, "keys": p.keys, "txns": p.txns, "depth_beyond_roots": p.d, "roots": len(p.roots),
			"alphabet": len(e.ops), "rpc": p.rpc, "states": e.states.Load(), "transitions": e.transitions.Load(), "new_states_per_level": e.levelCount,
			"read_timestamps": len(e.cfg.readTS)})
	}
	cov["states"] = tot.states
	cov["transitions"] = tot.transitions
	cov["traces_validated_against_impl"] = tot.validated
	cov["evaluations"] = tot.evaluations
	cov["distinct_nontrivial"] = tot.nontrivial
	cov["frontier_probe_steps"] = tot.probes
	cov["distinct_outcomes"] = len(outcomes)
	cov["lock_field_outcomes"] = lockField
	cov["steps_outside_property_text_skipped"] = tot.undef
	cov["outside_property_text"] = undefined
	var sd []string
	for k := range stateDiffs {
		sd = append(sd, k)
	}
	sort.Strings(sd)
	sdl := []map[string]string{}
	for _, k := range sd {
		sdl = append(sdl, map[string]string{"key": k, "sample": stateDiffs[k]})
	}
	cov["stored_state_differences_without_stated_consequence"] = sdl
	cov["visible_consequence_of_violation"] = conseq
	cov["transitions_not_followed_after_violation"] = pruned
	cov["states_with_stored_entries_differing_from_reference"] = deviating
	cov["of_those_not_expanded_because_of_the_cap_per_class_and_level"] = devNotExpanded
	cov["bounds"] = perPass
	cov["rule"] = "breadth-first over command sequences from the root states (empty store; store with key a committed by an older transaction), " +
		"every command of the alphabet from every distinct reference-model state up to the depth bound; a step is one command executed on the real MVCCLevelDB " +
		"(pass rpc: through RPCClient.SendRequest and the kvHandler functions) and compared with the reference (answer class + payload + complete stored entries); " +
		"evaluations = reads of the observation sets; non-trivial step = the command addresses a key that already holds a lock or a record (or a range command on a non-empty store); " +
		"states at the depth bound are additionally probed with every command the reference answers without a state change (frontier_probe_steps); " +
		"a state = canonical reference state (locks with ttl, for-update-ts, min-commit-ts; records; finished sets) plus the mock's stored entries where they differ from it; " +
		"plan general: the full command set with one ttl and at most one min-commit-ts per request, 2-3 keys and transactions; " +
		"plan ttlmc (passes ttlmc-*): the life cycle of a lock on 1-2 keys by 1-2 transactions, deeper: pessimistic lock and prewrite (over the own pessimistic lock, optimistic, repeated) with every " +
		"ttl in {2,5,9} x min-commit-ts in {0,11,16}, heartbeat advising {1,5,9,100}, check-txn-status with caller in {5,13,21,max} x current in {11,14,17,30} (pushes to caller+1 or current, or not; expired or not depending on the ttl held), " +
		"commit at {11,12,13+1,15,16,19,21+1,31} (below / at / above every value a lock can hold), cleanup at 3 current timestamps, rollback, pessimistic rollback, resolve; fixpoint_reached = no new state at the last level"
	cov["samples"] = samples
	if os.Getenv("VERIF_C12_PROFILE") != "" {
		pprof.StopCPUProfile()
		bf, _ := os.Create(os.Getenv("VERIF_C12_PROFILE") + ".block")
		pprof.Lookup("block").WriteTo(bf, 0)
		bf.Close()
	}
	run.Finish(cov, assumptions)
}

var assumptions = []string{
	"reference = refmvcc (DESIGN.md appendix B), written from TiKV's documented behaviour; the three definitional points follow the property text",
	"preconditions of the property text only: pairwise distinct start/commit timestamps with commit > start; no pessimistic lock request of a transaction on a key after it was committed/rolled back there (commands the reference marks as outside the text are skipped and counted)",
	"tolerated (text silent): Deadlock instead of Locked for pessimistic lock requests; order of existence check vs lock/conflict check for Insert/CheckNotExists; prewrite with pessimistic check over a foreign lock answers Locked with ttl 0 or lock-not-found; rolled-back late prewrite may be worded as write conflict; for-update-ts kept by force-lock; min-commit-ts kept on primary locks only",
	"lock fields (plan ttlmc): the text fixes that a heartbeat only raises the ttl, that a prewrite over the transaction's own pessimistic lock keeps the larger ttl and min-commit-ts, that a status check pushes the min-commit-ts and that a commit below it is refused; where it is silent the reference follows TiKV: a later pessimistic lock request of the same transaction with a larger for-update-ts replaces the lock with the request's ttl and min-commit-ts, one with an equal or smaller for-update-ts changes nothing, a repeated prewrite over the own prewrite lock changes nothing, the status check pushes every lock that carries a min-commit-ts (pessimistic ones too)",
	"a state whose stored entries differ from the reference although every answer agreed is explored as a state of its own (deduplication key = reference state + differing entries), at most 24 per difference class and level; there is none on a tree that agrees with the reference",
	"not covered: assertions, async commit / 1PC, DeleteRange, values longer than a few bytes, empty values, more than one region",
	"an emptied instance (all entries deleted, new deadlock detector) is used instead of a new one for most replays; every finding is re-run on a new instance before it is reported",
}

func doReplay(run *ev.Run, file string) {
	b, err := os.ReadFile(file)
	if err != nil {
		fmt.Fprintln(os.Stderr, "cannot read replay file:", err)
		os.Exit(2)
	}
	var doc struct {
		Key    string         `json:"key"`
		Replay replayArtefact `json:"replay"`
	}
	if err := json.Unmarshal(b, &doc); err != nil {
		fmt.Fprintln(os.Stderr, "cannot parse replay file:", err)
		os.Exit(2)
	}
	a := doc.Replay
	if a.Keys == 0 {
		a.Keys, a.Txns = 2, 2
	}
	e := newEngine(run, a.Plan, a.Keys, a.Txns, 0, a.RPC)
	m := newMock(a.RPC)
	defer m.close()
	s := e.newModel()
	for i, o := range a.Ops {
		post := s.Clone()
		want := applyModel(post, o)
		if why := undefinedReason(want); why != "" {
			fmt.Printf("step %d %s: outside the property text (%s), executed without comparison\n", i, o, why)
			guardApply(m, o)
			continue
		}
		repeat := tolerate(a.Ops[:i], s, o, &want)
		fs, _ := e.step(m, s, post, o, want)
		if repeat {
			tagRepeat(fs)
		}
		fmt.Printf("step %d %s: reference %s\n", i, o, errsStr(want.Errs))
		e.report(fs, a.Ops[:i+1], "")
		s = post
		e.observeState(m, s, a.Ops[:i+1])
	}
	// A replay never rewrites the evidence file: verdict lines only.
	n := run.Violations()
	fmt.Printf("C12 replay: steps=%d violations=%d\n", len(a.Ops), n)
	if n > 0 {
		fmt.Printf("VIOLATION property=C12 replay=%s\n", file)
		os.Exit(1)
	}
	os.Exit(0)
}

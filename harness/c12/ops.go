package main

import (
	"fmt"
	"sort"
	"strings"

	"github.com/tikv/client-go/v2/verifrt/models/refmvcc"
)

// U is one physical millisecond of a TSO timestamp; every pool timestamp is a
// multiple of it, so that "ttl" (milliseconds) relates to timestamps exactly.
const U = uint64(1) << 18

const (
	lockTTL   = 3   // ttl (ms) every prewrite / pessimistic lock asks for
	adviseLow = 1   // heartbeat below the current ttl: must not lower it
	adviseHi  = 100 // heartbeat above: a lock then survives every "current ts" of the pool
	curHigh   = 50  // "current ts" (in U) above every expiry of an un-heartbeaten lock
)

// Op is one command of the alphabet; flat and JSON-able so that a path is its own replay artefact.
// Timestamps are stored in units of U except MinCommit / Caller, which are raw.
type Op struct {
	Kind string `json:"kind"` // prewrite plock prollback commit rollback cleanup status heartbeat resolve bresolve gc
	T    int    `json:"t,omitempty"`
	// common
	Start   uint64   `json:"start,omitempty"` // raw ts
	Keys    []string `json:"keys,omitempty"`
	Primary string   `json:"primary,omitempty"`
	// prewrite
	Mode      string   `json:"mode,omitempty"` // opt | pess (DO_PESSIMISTIC_CHECK) | cons (DO_CONSTRAINT_CHECK); per key when Modes set
	Modes     []string `json:"modes,omitempty"`
	MutOp     string   `json:"mutop,omitempty"` // put del lock insert cne
	Value     string   `json:"value,omitempty"`
	MinCommit uint64   `json:"mincommit,omitempty"` // raw ts (prewrite and plock)
	ForUpdate uint64   `json:"forupdate,omitempty"` // raw ts
	TTL       uint64   `json:"ttl,omitempty"`       // prewrite and plock: lock ttl (ms) the request asks for; 0 = lockTTL
	// plock
	ReturnValues     bool `json:"rv,omitempty"`
	CheckExistence   bool `json:"ce,omitempty"`
	LockOnlyIfExists bool `json:"loie,omitempty"`
	ForceLock        bool `json:"force,omitempty"`
	// commit / resolve
	Commit uint64 `json:"commit,omitempty"` // raw ts
	// cleanup / status
	Current      uint64 `json:"current,omitempty"`
	Caller       uint64 `json:"caller,omitempty"`
	RollbackIfNE bool   `json:"rbne,omitempty"`
	ResolvingPes bool   `json:"respes,omitempty"`
	// heartbeat
	Advise uint64 `json:"advise,omitempty"`
	// bresolve
	Txns map[uint64]uint64 `json:"txns,omitempty"`
	// gc / ranges
	StartKey string `json:"startkey,omitempty"`
	EndKey   string `json:"endkey,omitempty"`
	Safe     uint64 `json:"safe,omitempty"`
}

func u(ts uint64) string {
	if ts == refmvcc.MaxTS {
		return "max"
	}
	if ts%U == 0 {
		return fmt.Sprint(ts / U)
	}
	return fmt.Sprintf("%d+%d", ts/U, ts%U)
}

// ttl is the lock ttl a prewrite / pessimistic lock request carries.
func (o Op) ttl() uint64 {
	if o.TTL == 0 {
		return lockTTL
	}
	return o.TTL
}

func (o Op) String() string {
	ks := strings.Join(o.Keys, ",")
	switch o.Kind {
	case "prewrite":
		m := o.Mode
		if len(o.Modes) > 0 {
			m = strings.Join(o.Modes, "/")
		}
		t := ""
		if o.TTL != 0 {
			t = fmt.Sprintf(" ttl=%d", o.TTL)
		}
		return fmt.Sprintf("T%d.prewrite[%s %s](%s pri=%s mc=%s fu=%s%s)", o.T, m, o.MutOp, ks, o.Primary, u(o.MinCommit), u(o.ForUpdate), t)
	case "plock":
		f := ""
		if o.ReturnValues {
			f += " rv"
		}
		if o.CheckExistence {
			f += " ce"
		}
		if o.LockOnlyIfExists {
			f += " loie"
		}
		if o.ForceLock {
			f += " force"
		}
		if o.TTL != 0 {
			f += fmt.Sprintf(" ttl=%d", o.TTL)
		}
		if o.MinCommit != 0 {
			f += " mc=" + u(o.MinCommit)
		}
		return fmt.Sprintf("T%d.plock(%s pri=%s fu=%s%s)", o.T, ks, o.Primary, u(o.ForUpdate), f)
	case "prollback":
		return fmt.Sprintf("T%d.prollback(%s fu=%s)", o.T, ks, u(o.ForUpdate))
	case "commit":
		return fmt.Sprintf("T%d.commit(%s @%s)", o.T, ks, u(o.Commit))
	case "rollback":
		return fmt.Sprintf("T%d.rollback(%s)", o.T, ks)
	case "cleanup":
		return fmt.Sprintf("T%d.cleanup(%s cur=%s)", o.T, ks, u(o.Current))
	case "status":
		return fmt.Sprintf("T%d.status(%s caller=%s cur=%s rbne=%v respes=%v)", o.T, ks, u(o.Caller), u(o.Current), o.RollbackIfNE, o.ResolvingPes)
	case "heartbeat":
		return fmt.Sprintf("T%d.heartbeat(%s advise=%d)", o.T, ks, o.Advise)
	case "resolve":
		return fmt.Sprintf("T%d.resolve(@%s)", o.T, u(o.Commit))
	case "bresolve":
		var parts []string
		var ss []uint64
		for s := range o.Txns {
			ss = append(ss, s)
		}
		sort.Slice(ss, func(i, j int) bool { return ss[i] < ss[j] })
		for _, s := range ss {
			parts = append(parts, u(s)+"->"+u(o.Txns[s]))
		}
		return "bresolve(" + strings.Join(parts, " ") + ")"
	case "gc":
		return fmt.Sprintf("gc([%s,%s) safe=%s)", o.StartKey, o.EndKey, u(o.Safe))
	}
	return o.Kind
}

// txnSpec is one transaction of the pool: its start ts and the commit /
// for-update timestamps it may use (all in units of U). All start and commit
// timestamps of the pool are pairwise distinct and every commit ts exceeds its
// start ts, as a timestamp oracle would issue them; the candidates are laid
// out so that every relative order start_i / commit_j and commit_i / commit_j
// occurs (see alphabet()).
type txnSpec struct {
	id      int
	start   uint64
	commits []uint64
	fus     []uint64
	value   string
}

// config is the finite pool of one tier.
type config struct {
	plan     string // "" = the general alphabet; "ttlmc" = the lock-field plan (ttlmc.go)
	keys     []string
	txns     []txnSpec
	endBound string   // a key bound after the last key
	readTS   []uint64 // raw timestamps of the observation set
	safes    []uint64 // units
}

func makeConfig(nKeys, nTxns int) config {
	all := []txnSpec{
		// for-update candidates: own start; just above the next start (21 / 31);
		// above every commit of a gap (29); above everything (39)
		{id: 1, start: 10, commits: []uint64{12, 22, 28}, fus: []uint64{10, 21, 29}, value: "v1"},
		{id: 2, start: 20, commits: []uint64{24}, fus: []uint64{20, 29}, value: "v2"},
		{id: 3, start: 30, commits: []uint64{36}, fus: []uint64{30, 39}, value: "v3"},
	}
	if nTxns >= 3 {
		all[0].commits = []uint64{12, 22, 32, 38}
		all[0].fus = []uint64{10, 21, 29, 39}
		all[1].commits = []uint64{24, 34, 37}
		all[1].fus = []uint64{20, 29, 39}
	}
	c := config{keys: []string{"a", "b", "c"}[:nKeys], txns: all[:nTxns]}
	c.endBound = string(rune('a' + nKeys))
	seen := map[uint64]bool{}
	add := func(n uint64) {
		if !seen[n] {
			seen[n] = true
			c.readTS = append(c.readTS, n*U)
		}
	}
	add(5)
	for _, t := range c.txns {
		add(t.start)
		for _, x := range t.commits {
			add(x)
		}
	}
	add(45)
	sort.Slice(c.readTS, func(i, j int) bool { return c.readTS[i] < c.readTS[j] })
	c.readTS = append(c.readTS, refmvcc.MaxTS)
	c.safes = []uint64{5, 15, 25}
	if nTxns >= 3 {
		c.safes = append(c.safes, 35)
	}
	c.safes = append(c.safes, 45)
	return c
}

// alphabet lists the commands, simplest first. It varies one dimension at a
// time around a base form (full cross products would be thousands of commands).
func (c config) alphabet() []Op {
	if c.plan == planTTLMC {
		return c.ttlmcAlphabet()
	}
	var ops []Op
	other := func(k string) string {
		for _, x := range c.keys {
			if x != k {
				return x
			}
		}
		return k
	}
	for _, t := range c.txns {
		st := t.start * U
		fuHi := t.fus[len(t.fus)-1] * U
		pw := func(mode, mutop string, keys []string, primary string, mc, fu uint64) Op {
			return Op{Kind: "prewrite", T: t.id, Start: st, Keys: keys, Primary: primary, Mode: mode, MutOp: mutop, Value: t.value, MinCommit: mc, ForUpdate: fu}
		}
		for _, k := range c.keys {
			one := []string{k}
			ops = append(ops,
				pw("opt", "put", one, k, st+1, 0),     // primary, "large transaction" style min-commit-ts
				pw("opt", "put", one, other(k), 0, 0), // secondary
				pw("opt", "del", one, k, 0, 0),
				pw("opt", "lock", one, k, 0, 0),
				pw("opt", "insert", one, k, 0, 0),
				pw("opt", "cne", one, k, 0, 0),
				pw("pess", "put", one, k, 0, fuHi), // over the transaction's pessimistic lock
				pw("pess", "del", one, other(k), 0, fuHi),
				pw("cons", "insert", one, k, 0, fuHi), // pessimistic txn, key not locked: constraint check
			)
		}
		if len(c.keys) >= 2 {
			two := c.keys[:2]
			ops = append(ops, pw("opt", "put", two, two[0], st+1, 0))
			o := pw("", "put", two, two[0], 0, fuHi)
			o.Modes = []string{"pess", "cons"}
			ops = append(ops, o)
		}
	}
	for _, t := range c.txns {
		st := t.start * U
		fuHi := t.fus[len(t.fus)-1] * U
		for _, k := range c.keys {
			for _, fu := range t.fus {
				ops = append(ops, Op{Kind: "plock", T: t.id, Start: st, Keys: []string{k}, Primary: k, ForUpdate: fu * U})
				ops = append(ops, Op{Kind: "plock", T: t.id, Start: st, Keys: []string{k}, Primary: k, ForUpdate: fu * U, ForceLock: true})
			}
			ops = append(ops,
				Op{Kind: "plock", T: t.id, Start: st, Keys: []string{k}, Primary: k, ForUpdate: fuHi, ReturnValues: true},
				Op{Kind: "plock", T: t.id, Start: st, Keys: []string{k}, Primary: k, ForUpdate: fuHi, CheckExistence: true},
				Op{Kind: "plock", T: t.id, Start: st, Keys: []string{k}, Primary: k, ForUpdate: fuHi, ReturnValues: true, LockOnlyIfExists: true},
			)
		}
		if len(c.keys) >= 2 {
			ops = append(ops, Op{Kind: "plock", T: t.id, Start: st, Keys: c.keys[:2], Primary: c.keys[0], ForUpdate: fuHi, ReturnValues: true})
		}
		for _, k := range c.keys {
			ops = append(ops,
				Op{Kind: "prollback", T: t.id, Start: st, Keys: []string{k}, ForUpdate: t.fus[0] * U},
				Op{Kind: "prollback", T: t.id, Start: st, Keys: []string{k}, ForUpdate: fuHi},
			)
		}
		ops = append(ops, Op{Kind: "prollback", T: t.id, Start: st, ForUpdate: fuHi}) // whole range
	}
	for _, t := range c.txns {
		st := t.start * U
		for _, k := range c.keys {
			for _, cm := range t.commits {
				ops = append(ops, Op{Kind: "commit", T: t.id, Start: st, Keys: []string{k}, Commit: cm * U})
			}
		}
		if len(c.keys) >= 2 {
			ops = append(ops, Op{Kind: "commit", T: t.id, Start: st, Keys: c.keys[:2], Commit: t.commits[len(t.commits)-1] * U})
		}
		for _, k := range c.keys {
			ops = append(ops, Op{Kind: "rollback", T: t.id, Start: st, Keys: []string{k}})
		}
		if len(c.keys) >= 2 {
			ops = append(ops, Op{Kind: "rollback", T: t.id, Start: st, Keys: c.keys[:2]})
		}
		for _, k := range c.keys {
			for _, cur := range []uint64{0, (t.start + 1) * U, curHigh * U} {
				ops = append(ops, Op{Kind: "cleanup", T: t.id, Start: st, Keys: []string{k}, Current: cur})
			}
		}
	}
	for _, t := range c.txns {
		st := t.start * U
		lo, hi := (t.start+1)*U, uint64(curHigh)*U
		for _, k := range c.keys {
			s := func(caller, cur uint64, rb, rp bool) Op {
				return Op{Kind: "status", T: t.id, Start: st, Keys: []string{k}, Caller: caller, Current: cur, RollbackIfNE: rb, ResolvingPes: rp}
			}
			ops = append(ops,
				s(5*U, lo, true, false),                      // reader older than the txn: nothing to push
				s(45*U, lo, true, false),                     // push to caller+1
				s((t.start+1)*U, (t.start+3)*U, true, false), // alive (start+ttl is not < current); push to current
				s(refmvcc.MaxTS, lo, false, false),           // point get of the latest version
				s(45*U, hi, true, false),                     // expired -> rollback; missing -> marker
				s(45*U, hi, true, true),                      // resolving pessimistic locks
				s(45*U, hi, false, false),                    // missing -> txn not found
			)
			ops = append(ops,
				Op{Kind: "heartbeat", T: t.id, Start: st, Keys: []string{k}, Advise: adviseLow},
				Op{Kind: "heartbeat", T: t.id, Start: st, Keys: []string{k}, Advise: adviseHi},
			)
		}
	}
	for _, t := range c.txns {
		st := t.start * U
		ops = append(ops, Op{Kind: "resolve", T: t.id, Start: st, Commit: 0})
		for _, cm := range t.commits {
			ops = append(ops, Op{Kind: "resolve", T: t.id, Start: st, Commit: cm * U})
		}
	}
	if len(c.txns) >= 2 {
		a, b := c.txns[0], c.txns[1]
		ca, cb := a.commits[len(a.commits)-1]*U, b.commits[0]*U
		for _, m := range []map[uint64]uint64{
			{a.start * U: 0, b.start * U: 0},
			{a.start * U: ca, b.start * U: 0},
			{a.start * U: 0, b.start * U: cb},
			{a.start * U: ca, b.start * U: cb},
		} {
			ops = append(ops, Op{Kind: "bresolve", Txns: m})
		}
	}
	for _, sp := range c.safes {
		ops = append(ops, Op{Kind: "gc", Safe: sp * U})
	}
	if len(c.keys) >= 2 {
		ops = append(ops, Op{Kind: "gc", StartKey: c.keys[0], EndKey: c.keys[1], Safe: c.safes[len(c.safes)-1] * U})
	}
	return ops
}
